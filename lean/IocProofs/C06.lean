/-
  C06 — Type-directed injection is sound and complete.  PROPERTY THEOREMS ONLY (lemmas live in IocProofs/Lemmas/Match*.lean).

  Model: Ioc.Match (candidate discovery `candidatesWire` / `candidatesFunc`, `narrow`, `resolveOne`), composed with the
  tag grammar Ioc.Tag.  `pop` is the registry in an ARBITRARY enumeration order; `s` an injection point (holder, declared
  kind, wire/func, raw tag).  A point is "by type" (`ByType s v`) when it is a func point or its wire tag has an empty value
  part.  `found s v a0 p` is the discovery test: assignable to the declared (element) type, and for the func tag exposing
  the requested method; `qualOK a0 p` the qualifier rule (`true` when the tag has no qualifier argument).
  Ids are row indices of the registry: `(pop.map (·.id)).Nodup` is the identity of components.
-/
import IocProofs.Lemmas.MatchPoint
import IocProofs.Lemmas.MatchExamples
import IocProofs.Lemmas.M2IsCode
import IocProofs.Lemmas.SemMisc
import IocProofs.Lemmas.SemDiscover
import IocProofs.Lemmas.SemOptions
import IocProofs.Lemmas.SemDefReg
import IocProofs.Lemmas.SemPrepare
namespace Ioc.C06
open Ioc Ioc.Tag Ioc.Match

/-- what the factory's Inject keeps of a resolved point: everything except the holder itself -/
def injected (holder : Nat) (pt : RPoint) : List Nat := pt.cands.filter (· != holder)

/-- the discovery test spelled out: assignability is the exact pointer type for pointer fields and "implements" for
    interface fields (and for their slices); the func tag adds the method test -/
theorem C06_found_def (s : Slot) (fn : Bytes) (a0 : Args) (p : Prov) :
    found s fn a0 p =
      ((match s.kind with
        | .ptr t => p.ty == t
        | .slicePtr t => p.ty == t
        | .iface i => p.impl.testBit i
        | .sliceIface i => p.impl.testBit i
        | .other => false) &&
       (if s.isFunc then
          (match find a0 kReturns with
           | some rs => rs.any (fun r => funcNameAndResult fn r p)
           | none => funcName fn p)
        else true)) := by
  unfold found assignable typeOption methOK
  cases s.kind <;> rfl

theorem C06_qualOK_none (a0 : Args) (p : Prov) (h : find a0 kQualifier = none) : qualOK a0 p = true := by
  simp [qualOK, h]

/-- SOUND (wire tag, by type = empty value part): every candidate is a registered component assignable to the declared
    type; nothing is marked incompatible unless a post-processor hands out an object of ANOTHER Go type for a candidate (`Prov.inj`).  (`s.isFunc = false` is not even needed: the func tag only adds a test.) -/
theorem C06_sound_wire (pop : List Prov) (s : Slot) (a0 : Args) (pt : RPoint)
    (hp : parse? s.tag = some ([], a0)) (h : resolveOne pop s = some pt) :
    (∀ c ∈ pt.cands, ∃ p ∈ pop, p.id = c ∧ assignable s.kind p = true) ∧
    ((pop.map (·.id)).Nodup → (∀ p ∈ pop, p.inj = none) → pt.incompat = []) := by
  obtain ⟨hc, _, _, hi, _⟩ := resolveOne_some hp h
  constructor
  · intro c hcm
    rw [hc] at hcm
    obtain ⟨p, hm, he, hfd⟩ := picked_found pop s [] a0 (Or.inr rfl) c hcm
    exact ⟨p, hm, he, found_assignable hfd⟩
  · intro hid hraw
    rw [hi]; exact picked_compat_nil pop hid hraw s [] a0 (Or.inr rfl)

/-- SOUND (func tag): every candidate is assignable AND exposes the requested method — `FuncName` without a `returns`
    argument, `FuncNameAndResult` for one of the `returns` items otherwise. -/
theorem C06_sound_func (pop : List Prov) (s : Slot) (fn : Bytes) (a0 : Args) (pt : RPoint)
    (hf : s.isFunc = true) (hp : parse? s.tag = some (fn, a0)) (h : resolveOne pop s = some pt) :
    (∀ c ∈ pt.cands, ∃ p ∈ pop, p.id = c ∧ assignable s.kind p = true ∧
      (match find a0 kReturns with
       | some rs => rs.any (fun r => funcNameAndResult fn r p)
       | none => funcName fn p) = true) ∧
    ((pop.map (·.id)).Nodup → (∀ p ∈ pop, p.inj = none) → pt.incompat = []) := by
  obtain ⟨hc, _, _, hi, _⟩ := resolveOne_some hp h
  constructor
  · intro c hcm
    rw [hc] at hcm
    obtain ⟨p, hm, he, hfd⟩ := picked_found pop s fn a0 (Or.inl hf) c hcm
    exact ⟨p, hm, he, found_assignable hfd, found_methOK hf hfd⟩
  · intro hid hraw
    rw [hi]; exact picked_compat_nil pop hid hraw s fn a0 (Or.inl hf)

/-- COMPLETE (slices): a slice-typed by-type point receives exactly all compatible, qualifier-passing providers, in
    enumeration order, each once. -/
theorem C06_slice_complete (pop : List Prov) (hid : (pop.map (·.id)).Nodup) (s : Slot) (v : Bytes) (a0 : Args) (pt : RPoint)
    (hb : ByType s v) (hs : s.kind.isSlice = true) (hp : parse? s.tag = some (v, a0)) (h : resolveOne pop s = some pt) :
    pt.cands = (pop.filter (fun p => found s v a0 p && qualOK a0 p)).map (·.id) ∧ pt.cands.Nodup := by
  obtain ⟨hc, _, _, _, _⟩ := resolveOne_some hp h
  have : pt.cands = (pop.filter (fun p => found s v a0 p && qualOK a0 p)).map (·.id) := by
    rw [hc]; unfold picked; rw [hs]; exact qualified_byType pop hid s v a0 hb
  exact ⟨this, this ▸ map_id_nodup_of_filter hid _⟩

/-- … and what Inject puts into the field: every compatible, qualified provider except the holder, exactly once. -/
theorem C06_slice_injected (pop : List Prov) (hid : (pop.map (·.id)).Nodup) (s : Slot) (v : Bytes) (a0 : Args) (pt : RPoint)
    (hb : ByType s v) (hs : s.kind.isSlice = true) (hp : parse? s.tag = some (v, a0)) (h : resolveOne pop s = some pt) :
    injected s.holder pt = (pop.filter (fun p => found s v a0 p && qualOK a0 p && p.id != s.holder)).map (·.id) ∧
    (injected s.holder pt).Nodup ∧
    (∀ p ∈ pop, found s v a0 p = true → qualOK a0 p = true → p.id ≠ s.holder → p.id ∈ injected s.holder pt) := by
  obtain ⟨he, hn⟩ := C06_slice_complete pop hid s v a0 pt hb hs hp h
  have e : injected s.holder pt = (pop.filter (fun p => found s v a0 p && qualOK a0 p && p.id != s.holder)).map (·.id) := by
    unfold injected
    rw [he, List.filter_map, List.filter_filter]
    congr 1
    apply List.filter_congr
    intro p _
    simp only [Function.comp, Bool.and_comm]
  refine ⟨e, ?_, ?_⟩
  · unfold injected; exact (List.filter_sublist.nodup hn)
  · intro p hm h1 h2 h3
    rw [e]
    exact List.mem_map_of_mem (List.mem_filter.mpr ⟨hm, by simp [h1, h2, h3]⟩)

/-- … and it is the same collection under every enumeration order of the registry. -/
theorem C06_slice_injected_perm (pop pop' : List Prov) (hperm : pop.Perm pop') (hid : (pop.map (·.id)).Nodup)
    (s : Slot) (v : Bytes) (a0 : Args) (pt pt' : RPoint)
    (hb : ByType s v) (hs : s.kind.isSlice = true) (hp : parse? s.tag = some (v, a0))
    (h : resolveOne pop s = some pt) (h' : resolveOne pop' s = some pt') :
    (injected s.holder pt).Perm (injected s.holder pt') := by
  have hid' : (pop'.map (·.id)).Nodup := (hperm.map _).nodup_iff.mp hid
  rw [(C06_slice_injected pop hid s v a0 pt hb hs hp h).1, (C06_slice_injected pop' hid' s v a0 pt' hb hs hp h').1]
  exact (hperm.filter _).map _

/-- SINGLE-valued by-type points receive at most one component; it is one of the compatible, qualifier-passing
    providers; exactly one whenever such a provider exists; and never the holder while another one exists. -/
theorem C06_single (pop : List Prov) (hid : (pop.map (·.id)).Nodup) (s : Slot) (v : Bytes) (a0 : Args) (pt : RPoint)
    (hb : ByType s v) (hs : s.kind.isSlice = false) (hp : parse? s.tag = some (v, a0)) (h : resolveOne pop s = some pt) :
    pt.cands.length ≤ 1 ∧
    (∀ c ∈ pt.cands, ∃ p ∈ pop, p.id = c ∧ found s v a0 p = true ∧ qualOK a0 p = true) ∧
    ((∃ p ∈ pop, found s v a0 p = true ∧ qualOK a0 p = true) → pt.cands.length = 1) ∧
    ((∃ p ∈ pop, found s v a0 p = true ∧ qualOK a0 p = true ∧ p.id ≠ s.holder) → ∀ c ∈ pt.cands, c ≠ s.holder) := by
  obtain ⟨hc, _, _, _, _⟩ := resolveOne_some hp h
  have hadm := qualified_byType pop hid s v a0 hb
  have hmem : ∀ p ∈ pop, found s v a0 p = true → qualOK a0 p = true → p.id ∈ qualified pop s v a0 := by
    intro p hm h1 h2
    rw [hadm]
    exact List.mem_map_of_mem (List.mem_filter.mpr ⟨hm, by simp [h1, h2]⟩)
  rw [hc]
  refine ⟨picked_length_single pop s v a0 hs, ?_, ?_, ?_⟩
  · intro c hcm
    have := picked_subset_qualified pop s v a0 c hcm
    rw [hadm, List.mem_map] at this
    obtain ⟨p, hpf, rfl⟩ := this
    rw [List.mem_filter, Bool.and_eq_true] at hpf
    exact ⟨p, hpf.1, rfl, hpf.2.1, hpf.2.2⟩
  · rintro ⟨p, hm, h1, h2⟩
    exact picked_single_length pop s v a0 hs (List.ne_nil_of_mem (hmem p hm h1 h2))
  · rintro ⟨p, hm, h1, h2, h3⟩
    exact picked_single_ne_holder pop s v a0 hs ⟨p.id, hmem p hm h1 h2, h3⟩

/-- after the repair of FuncNameAndResult a method with parameters never matches, hence is never called -/
theorem C06_no_call_with_params (fn res : Bytes) (p : Prov) (h : funcNameAndResult fn res p = true) :
    ∀ m, findMeth p fn = some m → m.numIn = 0 := by
  intro m hm
  unfold funcNameAndResult at h
  rw [hm] at h
  simp only at h
  split at h
  · cases h
  · rename_i hn; simpa using hn

/-! non-vacuity: a population of five providers with mixed attributes (see Lemmas/MatchExamples.lean) -/
section examples
open Ioc.Match.Ex

example : (pop.map (·.id)).Nodup := by decide
-- `[]I0`, holder 4: implementers 0, 1, 2 and the holder; Inject drops the holder
example : parse? sliceI0.tag = some ([], []) ∧ sliceI0.isFunc = false ∧ sliceI0.kind.isSlice = true := by decide
example : (resolveOne pop sliceI0).map (·.cands) = some [0, 1, 2, 4] := by decide
example : (resolveOne pop sliceI0).map (injected 4) = some [0, 1, 2] := by decide
example : (resolveOne pop' sliceI0).map (injected 4) = some [2, 0, 1] := by decide
example : (resolveOne pop sliceI0).map (·.incompat) = some [] := by decide
-- single `I0`: one of the implementers
example : (resolveOne pop oneI0).map (·.cands) = some [2] ∧ oneI0.kind.isSlice = false := by decide
-- func tag: `Run` (no results) only on 1; `Get` returning "y" only on 1; `Get,returns=*` on 0 and 1 but NOT on 2,
-- whose Get takes a parameter
example : funcGet.isFunc = true ∧ parse? funcGet.tag = some (ofString "Run", []) := by decide
example : (resolveOne pop funcGet).map (·.cands) = some [1] := by decide
example : (resolveOne pop funcGetY).map (·.cands) = some [1] := by decide
example : (resolveOne pop funcGetAny).map (·.cands) = some [0, 1] := by decide
example : funcNameAndResult (ofString "Get") (ofString "x") pA = true ∧
    funcNameAndResult (ofString "Get") (ofString "x") pC = false := by decide
end examples

/-! ### the tie to the code: Property.Inject IS the regenerated program

`Ioc.Progs.prop_Inject` is the syntax tree of `Property.Inject` (component_definition/property.go), re-translated from
/repo's source on every run (MiniGo, Ioc.GoSem; the `switch` on the field's kind is desugared into an if/else chain).
Run by the interpreter — IsRequired / IsSelf / AssignableTo / Kind answered by an arbitrary `Sem.InjCtx`, reflection
writes recorded in the world — it returns the error flag and performs the writes of `Sem.injectModel`: the holder itself
is dropped first; nothing left, or something unassignable ⇒ error when required and NO write at all when optional;
otherwise a slice receives every remaining meta exactly once in order (element i ← i-th meta) and a single field the
first one; every injected meta records the holder as dependent; `Injects` is set to what was injected.
The seeded changes C01B, C01C, C02B, C03B, C06D, C07D, C14C all edited this function. -/

theorem C06_code_Inject (c : Sem.InjCtx) (metas : List Nat) :
    Go.run (Sem.injPrims c) Progs.prop_Inject [.list (metas.map Sem.encM)] {} =
      some (Sem.encErr (Sem.injectModel c metas).1, (Sem.injectModel c metas).2) :=
  Sem.inject_sem c metas

/-- what is written: only metas that are not the holder and are assignable; a slice gets ALL of those, once each, in
    order; nothing is written when an error is returned -/
theorem C06_code_inject_writes (c : Sem.InjCtx) (metas : List Nat) (hc : c.isComponent = true) :
    let r := Sem.injectModel c metas
    (r.1 = true → r.2 = {}) ∧
    (∀ ms, r.2.injects = some ms →
        ms = metas.filter (fun m => !(c.isSelf m)) ∧ (∀ m ∈ ms, c.assignable m = true) ∧
        (c.slice = true → r.2.elems = (List.range ms.length).zip ms ∧ r.2.deps = ms) ∧
        (c.slice = false → r.2.single = ms.head? ∧ r.2.deps = ms.take 1)) := by
  simp only [Sem.injectModel, hc, Bool.not_true, Bool.false_eq_true, if_false]
  by_cases h0 : metas.isEmpty = true
  · simp [h0]
  · simp only [h0, if_false]
    generalize metas.filter (fun m => !(c.isSelf m)) = L
    unfold Sem.injectTail
    cases L with
    | nil => simp
    | cons a t =>
      simp only [List.isEmpty_cons, Bool.false_eq_true, if_false]
      cases h2 : ((a :: t).any fun m => !(c.assignable m)) with
      | true => simp
      | false =>
        simp only [Bool.false_eq_true, if_false]
        have hall : ∀ m ∈ a :: t, c.assignable m = true := by
          intro m hm
          cases hv : c.assignable m with
          | true => rfl
          | false =>
            have : ((a :: t).any fun m => !(c.assignable m)) = true :=
              List.any_eq_true.mpr ⟨m, hm, by simp [hv]⟩
            rw [h2] at this; cases this
        cases hs : c.slice with
        | true =>
          simp only [if_true]
          refine ⟨fun h => by simp at h, ?_⟩
          intro ms hms
          simp only [Option.some.injEq] at hms
          subst hms
          exact ⟨rfl, hall, fun _ => ⟨rfl, rfl⟩, fun h => by simp at h⟩
        | false =>
          simp only [Bool.false_eq_true, if_false]
          refine ⟨fun h => by simp at h, ?_⟩
          intro ms hms
          simp only [Option.some.injEq] at hms
          subst hms
          exact ⟨rfl, hall, fun h => by simp at h, fun _ => ⟨rfl, rfl⟩⟩

/-- THE MACHINE IS THE CODE at the Inject step: in every machine state whose top frame has collected all candidates of
    its current point, `M2.step` fails, skips or writes the field exactly as the regenerated `Property.Inject` does when
    `IsSelf` is "same component name as the holder" and `AssignableTo` is the point's compatibility marking.
    (`ids`/`obj`: any naming of the collected objects.) -/
theorem C06_machine_inject_is_code (sc : M2.Scen) (st : M2.St) (f : M2.Frame) (rest : List M2.Frame)
    (hrun : st.status = .running) (hst : st.stack = f :: rest) (hp : f.p < (M2.pts sc f.name).length)
    (hd : ¬ f.d < ((M2.pts sc f.name)[f.p]).cands.length) (hne : ((M2.pts sc f.name)[f.p]).cands ≠ [])
    (ids : List Nat) (obj : Nat → M2.Obj) (hacc : ids.map obj = f.acc) (hids : ids ≠ []) :
    ∃ err w, Go.run (Sem.injPrims (M2.injCtxOf ((M2.pts sc f.name)[f.p]) f.name obj)) Progs.prop_Inject
                [.list (ids.map Sem.encM)] {} = some (Sem.encErr err, w) ∧
      M2.step sc st =
        (if err then M2.failAt st f.name
         else match w.injects with
           | none => { st with stack := M2.Lc.advance f :: rest }
           | some ms => { st with
               fields := M2.upd2 st.fields f.name f.p
                 (if ((M2.pts sc f.name)[f.p]).slice then ms.map obj else (ms.map obj).take 1),
               stack := M2.Lc.advance f :: rest }) := by
  exact ⟨_, _, Sem.inject_sem _ ids, M2.step_inject_is_code sc st f rest hrun hst hp hd hne ids obj hacc hids⟩

/-- fas.Filter, regenerated (util/fas): `List.filter`, for every slice and predicate — what the interpreter's special form
    `filter` (used for the self filter of `Inject`, `C06_code_Inject`, and in `filterDependencies`) takes it to be -/
theorem C06_code_fasFilter (g : Nat → Bool) (l : List Nat) :
    Go.run (Sem.filterPrims g) Progs.fas_Filter [Sem.encInts l, .str "f"] () = some (Sem.encInts (l.filter g), ()) :=
  Sem.fasFilter_sem g l

/-! ### the tie to the code: candidate discovery (regenerated)

`Ioc.Progs.depAware_PostProcessProperties`, `depFunc_PostProcessProperties` and `isActualKind` are the syntax trees of the two
discovery processors (dependency_aware_post_processors.go:40-66, dependency_function_aware_post_processors.go:40-68) and their
helper.  The registry and the option closures of package container are interpreted (`Sem.discFn`: an option token means the
filter container/options.go implements; `GetMetas` filters the population in enumeration order), everything else is run by
the interpreter.  For EVERY population, every list of property nodes and every state of their `Injects`, the regenerated
wire processor appends to node i exactly `Sem.discoverWire` — which is `Match.candidatesWire` — and the func processor exactly
`Sem.discoverFunc` — `Match.candidatesFunc`: by type only components of exactly the pointer type / implementers of the
interface (also behind a slice), for the func tag those that additionally pass FuncName / some FuncNameAndResult alternative
(ONE registry lookup: a provider matching several alternatives is still one candidate); nodes with other tags are untouched. -/
theorem C06_code_discovery_wire (pop : List Match.Prov) (props : List Sem.DProp) (byName : String → Option Nat) (n : Nat) (w : Sem.DW) :
    Go.run (Sem.DP pop props byName) Progs.depAware_PostProcessProperties
        [.list ((List.range' 0 n).map (fun i => Go.Val.ref i 20)), .str "c", .str "n"] w =
      some (.tuple [.nil, .nil], Sem.applyDisc (fun i => Sem.discoverWire pop byName (Sem.propAt props i)) (List.range' 0 n) w) :=
  Sem.depAware_sem pop props byName n w

theorem C06_code_discovery_func (pop : List Match.Prov) (props : List Sem.DProp) (funcRes : String → Nat → Match.Prov → Bool)
    (funcName : String → Match.Prov → Bool) (n : Nat) (w : Sem.DW) :
    Go.run (Sem.DF pop props funcRes funcName) Progs.depFunc_PostProcessProperties
        [.list ((List.range' 0 n).map (fun i => Go.Val.ref i 20)), .str "c", .str "n"] w =
      some (.tuple [.nil, .nil], Sem.applyDisc (fun i => Sem.discoverFunc pop funcRes funcName (Sem.propAt props i)) (List.range' 0 n) w) :=
  Sem.depFunc_sem pop props funcRes funcName n w

/-- what a pass does to one node: its `Injects` grows by exactly the discovered candidates (and nothing else changes) -/
theorem C06_code_discovery_per_node (disc : Nat → List (Option Nat)) (n : Nat) (w : Sem.DW) (j : Nat) (hj : j < n) (hl : j < w.length) :
    (Sem.applyDisc disc (List.range' 0 n) w).getD j [] = w.getD j [] ++ disc j ∧
    (Sem.applyDisc disc (List.range' 0 n) w).length = w.length :=
  ⟨Sem.applyDisc_in disc _ w j (List.nodup_range' (step := 1) (by omega)) (by simp [List.mem_range'_1]; omega) hl,
   Sem.applyDisc_length disc _ w⟩

/-- the discovered lists ARE the model's candidate lists (M3), given that the tag text and the closures mean what M3 says -/
theorem C06_code_discovery_is_model (pop : List Match.Prov) (byName : String → Option Nat) (p : Sem.DProp) (tv : Bytes)
    (hw : p.tag = "wire") (htv : tv.isEmpty = (p.tagVal == ""))
    (hbn : byName p.tagVal = (pop.find? (fun q => q.name == tv)).map (·.id)) :
    Sem.discoverWire pop byName p = Match.candidatesWire pop p.kind tv :=
  Sem.discoverWire_is_candidatesWire pop byName p tv hw htv hbn

theorem C06_code_discovery_func_is_model (pop : List Match.Prov) (funcRes : String → Nat → Match.Prov → Bool)
    (funcName : String → Match.Prov → Bool) (p : Sem.DProp) (tv : Bytes) (args : Tag.Args) (alts : Nat → Bytes) (hf : p.tag = "func")
    (hres : ∀ r q, funcRes p.tagVal r q = Match.funcNameAndResult tv (alts r) q)
    (hname : ∀ q, funcName p.tagVal q = Match.funcName tv q)
    (hargs : Tag.find args Match.kReturns = p.returns.map (fun rs => rs.map alts)) :
    Sem.discoverFunc pop funcRes funcName p = Match.candidatesFunc pop p.kind tv args :=
  Sem.discoverFunc_is_candidatesFunc pop funcRes funcName p tv args alts hf hres hname hargs

/-- the helper isActualKind, regenerated: the type itself when it is of the wanted kind, the element type of a slice of it -/
theorem C06_code_isActualKind (k : Match.Kind) (ptr : Bool) :
    Go.run Sem.isaPrims Progs.isActualKind [Sem.encKind k, .str (if ptr then "ptr" else "iface")] () =
      some (.tuple [(Sem.isActualModel k (if ptr then "ptr" else "iface")).1,
                    .bool (Sem.isActualModel k (if ptr then "ptr" else "iface")).2], ()) :=
  Sem.isActualKind_sem k ptr

/-! ### the REGENERATED option constructors of package container (Or, And, Type, InterfaceType, FuncName, FuncNameAndResult)

    Each constructor returns a function literal; it is translated curried (`F(a…)(m)` = the literal's body).  Under the
    interpretation Ioc.SemOptions (reflection's answers about the definition are the record `OMeta`) the literals are the
    filters the discovery theorems above take as the MEANING of the option tokens: exact type, interface implementation, method
    by name without results, method by name without parameters whose first result is the wanted text. -/
section options
open Ioc.Go Ioc.Sem
variable (m : OMeta) (fnName : String) (ans : Nat → Bool) (parseOk : String → Bool)

theorem C06_code_option_Type (t : Nat) :
    run (optPrims m fnName ans parseOk) Progs.opt_Type [.ref t 93, .ref 0 0] () = some (.bool (m.ty == t), ()) :=
  type_sem m fnName ans parseOk t

theorem C06_code_option_InterfaceType (i : Nat) :
    run (optPrims m fnName ans parseOk) Progs.opt_InterfaceType [.ref i 94, .ref 0 0] () = some (.bool (m.implements i), ()) :=
  interfaceType_sem m fnName ans parseOk i

theorem C06_code_option_FuncName :
    run (optPrims m fnName ans parseOk) Progs.opt_FuncName [.str fnName, .ref 0 0] () = some (.bool (optFuncName m fnName), ()) :=
  funcName_sem m fnName ans parseOk

/-- … the repaired FuncNameAndResult: a method that takes parameters never matches; `*` matches any result; a method without
    results matches the empty text only; otherwise the first result's text decides (whether or not ParseAny accepts the text) -/
theorem C06_code_option_FuncNameAndResult (res : String) :
    run (optPrims m fnName ans parseOk) Progs.opt_FuncNameAndResult [.str fnName, .str res, .ref 0 0] () =
      some (.bool (optFuncNameAndResult m fnName res), ()) :=
  funcNameAndResult_sem m fnName ans parseOk res

theorem C06_code_option_Or_And (opts : List Nat) :
    run (optPrims m fnName ans parseOk) Progs.opt_Or [.list (opts.map (fun i => Go.Val.ref i 95)), .ref 0 0] () =
      some (.bool (opts.any ans), ()) ∧
    run (optPrims m fnName ans parseOk) Progs.opt_And [.list (opts.map (fun i => Go.Val.ref i 95)), .ref 0 0] () =
      some (.bool (opts.all ans), ()) :=
  ⟨or_sem m fnName ans parseOk opts, and_sem m fnName ans parseOk opts⟩

/-- what reflection answers about a provider of M3 -/
def metaOf (p : Match.Prov) : OMeta :=
  { ty := p.ty, implements := fun i => p.impl.testBit i,
    meths := p.meths.map (fun x => ⟨x.name, x.numIn, x.numOut, ""⟩) }

/-- M3's type options are the regenerated `Type` / `InterfaceType` literals on that record -/
theorem C06_typeOption_is_code (p : Match.Prov) (t i : Nat) :
    (Match.typeOption (.ptr t)).map (· p) = some ((metaOf p).ty == t) ∧
    (Match.typeOption (.iface i)).map (· p) = some ((metaOf p).implements i) := ⟨rfl, rfl⟩

/-- … and M3's `funcName` is the regenerated `FuncName` literal (method names compared as byte strings in M3, as Go strings
    here: the same comparison for the names at hand) -/
theorem C06_funcName_is_code (p : Match.Prov) (fn : String)
    (hinj : ∀ x ∈ p.meths, (ofString x.name == ofString fn) = (x.name == fn)) :
    Match.funcName (ofString fn) p = optFuncName (metaOf p) fn := by
  unfold Match.funcName Match.findMeth optFuncName OMeta.find metaOf
  simp only [List.find?_map]
  have : ∀ (l : List Match.Meth), (∀ x ∈ l, (ofString x.name == ofString fn) = (x.name == fn)) →
      (match l.find? (fun x => ofString x.name == ofString fn) with | some x => x.numOut == 0 | none => false) =
      (match Option.map (fun x : Match.Meth => (⟨x.name, x.numIn, x.numOut, ""⟩ : OMeth))
              (l.find? ((fun x : OMeth => x.name == fn) ∘ fun x : Match.Meth => (⟨x.name, x.numIn, x.numOut, ""⟩ : OMeth))) with
        | some x => x.numOut == 0 | none => false) := by
    intro l
    induction l with
    | nil => intro _; rfl
    | cons x rest ih =>
      intro h
      have hx := h x (by simp)
      simp only [List.find?_cons, Function.comp, hx]
      cases x.name == fn
      · exact ih (fun y hy => h y (by simp [hy]))
      · rfl
  exact this p.meths hinj

end options

/-! ### the REGENERATED definition registry (RegisterMeta, GetMetas, GetMetaByName, GetMetaOrRegister)

    The registry's map is the list `entries` in the order in which `Range` enumerates it.  `GetMetas` hands a function
    literal to `Range` that APPENDS TO A CAPTURED VARIABLE (statement form `hcallS` of MiniGo: capture by reference). -/
section registry
open Ioc.Go Ioc.Sem
variable (nameOf : Nat → String) (accept : Nat → Bool)

/-- the definitions the options accept, in enumeration order (what `Sem.discFn` takes as the meaning of `GetMetas`) -/
theorem C06_code_GetMetas (opts : Go.Val) (w : DRW) :
    run (dregPrims nameOf accept) Progs.dreg_GetMetas [opts] w =
      some (encMetas ((w.entries.filter (fun e => accept e.2)).map (·.2)), w) :=
  getMetas_sem nameOf accept opts w

/-- registering replaces by name (an existing name keeps its place in the enumeration), a lookup by name is the entry's
    definition or nil, get-or-register returns the registered definition untouched or registers a fresh, named one -/
theorem C06_code_registry_by_name (i c : Nat) (n : String) (w : DRW) :
    run (dregPrims nameOf accept) Progs.dreg_RegisterMeta [.ref i 0] w =
      some (.tuple [], { w with entries := upsert (nameOf i) i w.entries }) ∧
    run (dregPrims nameOf accept) Progs.dreg_GetMetaByName [.str n] w =
      some (match lookupE n w.entries with | some i => .ref i 0 | none => .nil, w) ∧
    run (dregPrims nameOf accept) Progs.dreg_GetMetaOrRegister [.str n, .ref c 50] w =
      some (match lookupE n w.entries with
            | some i => (.ref i 0, w)
            | none => (.ref c 0, { entries := upsert n c w.entries, named := w.named ++ [(c, n)] })) :=
  ⟨registerMeta_sem nameOf accept i w, getMetaByName_sem nameOf accept n w, getMetaOrRegister_sem nameOf accept n c w⟩

/-- what was registered under a name is what a lookup by that name finds, and no other name is disturbed -/
theorem C06_registry_upsert_lookup (k k' : String) (v : Nat) (l : List (String × Nat)) :
    lookupE k (upsert k v l) = some v ∧ (k' ≠ k → lookupE k' (upsert k v l) = lookupE k' l) := by
  constructor
  · induction l with
    | nil => simp [upsert, lookupE]
    | cons e rest ih =>
      obtain ⟨a, b⟩ := e
      by_cases h : a = k
      · simp [upsert, lookupE, h]
      · have h' : (a == k) = false := by simpa using h
        simp only [upsert, h, if_false, lookupE, List.find?_cons, h']
        exact ih
  · intro hne
    induction l with
    | nil =>
      have : (k == k') = false := by simpa using Ne.symm hne
      simp [upsert, lookupE, this]
    | cons e rest ih =>
      obtain ⟨a, b⟩ := e
      by_cases h : a = k
      · subst h
        have : (a == k') = false := by simpa using Ne.symm hne
        simp [upsert, lookupE, this]
      · simp only [upsert, h, if_false, lookupE, List.find?_cons]
        cases hak : (a == k')
        · exact ih
        · rfl

end registry

/-! ### defaultFactory.GetComponents, REGENERATED (interpretation Ioc.SemPrepare) -/
section getcomponents
open Ioc.Go Ioc.Sem

/-- GetComponents: the definitions the options select are fetched BY NAME through the factory, in the order GetMetas returns
    them, and listed in that order; the first failing fetch ends the call with its error and no list -/
theorem C06_code_GetComponents (p : GCP) (opts : Go.Val) (w : List String) :
    run (gcPrims p) Progs.factory_GetComponents [opts] w =
      some (match (gcRun p p.metas).2.2 with
            | none => .tuple [refsNil (gcRun p p.metas).1, .nil]
            | some e => .tuple [.nil, .str e], w ++ (gcRun p p.metas).2.1) :=
  getComponents_sem p opts w

end getcomponents

end Ioc.C06
