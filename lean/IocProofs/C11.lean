/-
  C11 — Tag scanning sees through embedded structs and touches nothing else.
  PROPERTY THEOREMS ONLY (lemmas live in IocProofs/Lemmas/Scan.lean).

  Model: Ioc.Scan (Meta.scanFields over the mutual FieldT/Shape types, the tag-scan loop of
  DefaultTagScanDefinitionRegistryPostProcessor, the five built-in scanners, NewProperty = Ioc.Tag.parse?).
  A panic (in NewProperty or in an ExtractHandler) is the outcome `none` of `properties?`.
  All statements are for every shape: any depth, any arrangement, any tags.
-/
import IocProofs.Lemmas.Scan
import IocProofs.Lemmas.ScanHand
import IocProofs.Lemmas.ScanValue
import IocProofs.Lemmas.ScanHolder
import IocProofs.Lemmas.ScanHolderCode
import Ioc.Generated.Facts
import IocProofs.Lemmas.SemScanFields
import IocProofs.Lemmas.ScanCode
import IocProofs.Lemmas.TagScanLink
import IocProofs.Lemmas.SemSmall
import IocProofs.Lemmas.SemProcessors
import IocProofs.Lemmas.SemArgs
namespace Ioc.C11
open Ioc Ioc.Scan

/-- Same fields, same declarations, same order, whether declared directly or inside embedded structs of any depth. -/
theorem C11_flatten (sh : Shape) :
    (scan sh).map (·.info) = (scan (flatten sh)).map (·.info) :=
  (scan_flattenShape [] sh).symm

/-- …and `flatten` really is the directly-declared form: nothing is embedded any more, and flattening again changes nothing. -/
theorem C11_flatten_direct (sh : Shape) :
    (∀ f ∈ scan (flatten sh), f.path = []) ∧ flatten (flatten sh) = flatten sh :=
  ⟨flattenShape_top [] sh, flattenShape_flat sh⟩

/-- What the scanner keeps, exactly: the exported fields reached through anonymous, untagged, by-value structs only. -/
theorem C11_scan_exact (sh : Shape) (f : ScannedField) :
    f ∈ scan sh ↔ Reach sh f.path f.info ∧ f.info.exported = true :=
  mem_scan_iff sh f

/-- The scan loop never panics when no ExtractHandler does (NewProperty is total, C19), and then it is the
    plain per-processor filter `properties`. -/
theorem C11_props_total (procs : List TagProc) (fields : List ScannedField) (h : NoPanic procs fields) :
    properties? procs fields = some (properties procs fields) :=
  properties?_eq procs fields h

/-- The built-in scanners and any custom tag scanner never panic. -/
theorem C11_props_total_builtin (nodeType tag : Bytes) (fields : List ScannedField) :
    properties? (builtinProcs ++ [customProc nodeType tag]) fields =
      some (properties (builtinProcs ++ [customProc nodeType tag]) fields) :=
  properties?_eq _ fields (noPanic_builtin nodeType tag fields)

/-- A field is processed identically (same processor, tag, value part, arguments — everything but the holder chain)
    whether declared directly or embedded; for every set of processors whose ExtractHandlers look at the field only. -/
theorem C11_flatten_props (procs : List TagProc) (hp : ∀ d ∈ procs, PathIndep d) (sh : Shape) :
    (properties procs (scan sh)).map Property.erase = (properties procs (scan (flatten sh))).map Property.erase :=
  properties_erase procs hp _ _ (C11_flatten sh)

/-- The built-in scanners (prop shorthand, ConfigurationProperties marker) and custom tag scanners satisfy that hypothesis. -/
theorem C11_flatten_props_builtin (nodeType tag : Bytes) (sh : Shape) :
    (properties (builtinProcs ++ [customProc nodeType tag]) (scan sh)).map Property.erase =
    (properties (builtinProcs ++ [customProc nodeType tag]) (scan (flatten sh))).map Property.erase :=
  C11_flatten_props _ (pathIndep_builtin nodeType tag) sh

/-- A user-supplied tag processor (Tag set, no ExtractHandler) receives exactly the scanned fields carrying its tag,
    in scan order, each with the value part and arguments that NewProperty parses from the tag text. -/
theorem C11_custom_exact (p : TagProc) (hx : p.extract = none) (ht : p.tag ≠ []) (sh : Shape) :
    ∃ ps, properties? [p] (scan sh) = some ps ∧
      ps.map (fun q => (q.field, q.tag, some (q.tagVal, q.args))) =
      (scan sh).filterMap (fun f => (lookupTag p.tag f.info.tags).map fun v =>
        (f, p.tag, (Tag.parse? v).map fun r => (r.1, requiredDefault p.required r.2))) := by
  refine ⟨properties [p] (scan sh), ?_, ?_⟩
  · exact properties?_eq _ _ (by
      intro d hd f _; simp at hd; subst hd; exact noPanic_of_extract_none _ hx f)
  · have := propsOf_custom p hx ht (scan sh)
    simpa [properties] using this

/-- THE VALUE IS HANDED OVER AS WRITTEN.  The value part NewProperty (= `Tag.parse?`, see C11_custom_exact) stores for a
    tag text is the text before the first comma, byte for byte — leading and trailing blanks and tabs included, a value
    made of blanks only included — whenever that text holds no bracket; whatever follows the comma (`rest`) has no
    influence on it.  (`sep:" | ,style=wide"` hands `" | "` to the processor of `sep`, `value:"  "` is the literal of
    two blanks.) -/
theorem C11_value_verbatim (v rest : Bytes) (hv : Tag.PlainVal v) :
    Tag.parse? v = some (v, []) ∧ ∃ a, Tag.parse? (v ++ Tag.cComma :: rest) = some (v, a) :=
  ⟨Tag.parse?_plain v hv, Tag.parse?_plain_comma v rest hv⟩

/-- Frame: a field can be written only if it is exported, reached through anonymous untagged by-value structs only,
    and recognised by some processor (its tag, or its ExtractHandler). -/
theorem C11_frame (procs : List TagProc) (sh : Shape) (w : List Bytes) (hw : w ∈ writes procs sh) :
    ∃ f, f ∈ scan sh ∧ f.fullPath = w ∧ f.info.exported = true ∧ Reach sh f.path f.info ∧
      ∃ d ∈ procs, (d.tag ≠ [] ∧ (lookupTag d.tag f.info.tags).isSome) ∨
                   (∃ e t tv, d.extract = some e ∧ e f = .yes t tv) :=
  frame_general procs sh w hw

/-- Frame for the container as shipped plus one custom tag: only fields carrying wire / func / value / prop / prefix /
    logger / the custom tag, or ConfigurationProperties markers. Untagged, foreign-tagged and unexported fields are never written. -/
theorem C11_frame_builtin (nodeType tag : Bytes) (sh : Shape) (w : List Bytes)
    (hw : w ∈ writes (builtinProcs ++ [customProc nodeType tag]) sh) :
    ∃ f, f ∈ scan sh ∧ f.fullPath = w ∧ f.info.exported = true ∧ Reach sh f.path f.info ∧
      ((∃ k ∈ [tWire, tFunc, tValue, tProp, tPrefix, tLogger, tag], (lookupTag k f.info.tags).isSome) ∨
       f.info.marker.isSome) :=
  frame_builtin nodeType tag sh w hw

/-- …and nothing recognised is lost: a scanned field that some processor recognises owns a property. -/
theorem C11_writes_complete (procs : List TagProc) (sh : Shape) (f : ScannedField) (hf : f ∈ scan sh)
    (d : TagProc) (hd : d ∈ procs) (t tv : Bytes) (hr : recognise d f = .yes t tv) :
    f.fullPath ∈ writes procs sh :=
  writes_complete procs sh f hf d hd t tv hr

/-- The order in which the factory enumerates the scanners (a Go map order) only permutes the properties. -/
theorem C11_proc_order (procs procs' : List TagProc) (h : procs.Perm procs') (fields : List ScannedField) :
    (properties procs fields).Perm (properties procs' fields) :=
  properties_perm procs procs' h fields

/-! ### what a processor is handed does not depend on the other processors of the chain -/

/-- ResolveAfterInstantiation hands EVERY processor all properties of the component, whatever any processor of the chain
    returns from PostProcessProperties (nil, the same list, a partial, an empty or a reordered one). -/
theorem C11_handed_all (all : List Property) (rets : List PropsRet) :
    handedLoop all rets = rets.map (fun _ => all) :=
  handedLoop_eq all rets

/-- …so two chains of the same length hand out the same lists: replacing, adding behaviour to, or re-ordering the OTHER
    processors changes nothing for a processor. -/
theorem C11_handed_independent (all : List Property) (rets rets' : List PropsRet) (h : rets.length = rets'.length) :
    handedLoop all rets = handedLoop all rets' := by
  rw [handedLoop_eq, handedLoop_eq]
  induction rets generalizing rets' with
  | nil => cases rets' with
    | nil => rfl
    | cons _ _ => cases h
  | cons r rest ih => cases rets' with
    | nil => cases h
    | cons r' rest' => simp only [List.map_cons, List.cons.injEq, true_and]; exact ih rest' (by simpa using h)

/-- The container as shipped plus one user tag processor, at ANY position of a chain of processors with ARBITRARY
    PostProcessProperties results: of the list it is handed, the properties carrying its tag are exactly the scanned fields
    carrying its tag, in scan order, with the value part and arguments NewProperty parses from the tag text — the
    statement of `C11_custom_exact`, at the processor's PostProcessProperties call, at any embedding depth. -/
theorem C11_custom_handed_exact (nodeType tag : Bytes) (hb : tag ∉ [tLogger, tPrefix, tValue, tWire, tFunc]) (ht : tag ≠ [])
    (sh : Shape) (rets : List PropsRet) (handed : List Property)
    (hh : handed ∈ handedLoop (properties (builtinProcs ++ [customProc nodeType tag]) (scan sh)) rets) :
    (ofTag tag handed).map (fun q => (q.field, q.tag, some (q.tagVal, q.args))) =
      (scan sh).filterMap (fun f => (lookupTag tag f.info.tags).map fun v =>
        (f, tag, (Tag.parse? v).map fun r => (r.1, requiredDefault false r.2))) := by
  rw [handedLoop_eq] at hh
  obtain ⟨_, _, rfl⟩ := List.mem_map.1 hh
  rw [ofTag_builtin_custom nodeType tag hb]
  exact propsOf_custom (customProc nodeType tag) rfl ht (scan sh)

/-- The tie to the code.  `Progs.del_ResolveAfterInstantiation` is the syntax tree of ResolveAfterInstantiation, re-translated
    from /repo's source on every run.  Run by the MiniGo interpreter with `meta.GetAllProperties()` evaluating to `all` and
    processor p's PostProcessProperties returning `ret p handed` — an ARBITRARY value — every processor of the chain is handed
    `all`: the program is `handedLoop`.  (A rewrite that feeds a processor's result to the later ones changes the term this
    theorem is about.) -/
theorem C11_code_handed (procs : List Nat) (all : Go.Val) (ret : Nat → Go.Val → Go.Val) :
    Go.run (Sem.handPrims procs all ret) Progs.del_ResolveAfterInstantiation [.str "meta", .str "n"] [] =
      some (.nil, procs.map (fun p => (p, all))) := by
  simpa using Sem.resolveAfterInstantiation_hands_all procs all ret []

/-! ### a component that is ITSELF a post-processor is populated by the processors sorted ahead of it

    `Scan.populateLoop` is the registration loop of InvokeBeanFactoryPostProcessors: a non-lazy raw processor is created — and
    populated, as a component — by `GetComponentByName` inside the loop, under `f.componentPostProcessors` as it is then. -/

/-- The chain every ordinary component is populated by (created after the loop): what was registered before, then every raw
    processor in sorted order. -/
theorem C11_register_final {α : Type} (sorted : List (RawPP α)) (cpp : List α) :
    finalChain sorted cpp = cpp ++ sorted.map (·.id) :=
  populateLoop_final sorted cpp

/-- A non-lazy processor is populated by exactly the processors sorted AHEAD of it (behind whatever was registered before);
    a lazy one is never populated by the loop. -/
theorem C11_holder_chain {α : Type} [DecidableEq α] (pre post : List (RawPP α)) (p : RawPP α) (cpp : List α)
    (hpre : ∀ q ∈ pre, q.id ≠ p.id) :
    (p.lazy = false → populatedBy (pre ++ p :: post) cpp p.id = some (cpp ++ pre.map (·.id))) ∧
    (p.lazy = true → (∀ q ∈ post, q.id ≠ p.id) → populatedBy (pre ++ p :: post) cpp p.id = none) := by
  refine ⟨fun hlz => populatedBy_split pre post p cpp hlz hpre, fun hlz hpost => populatedBy_none _ cpp p.id ?_⟩
  intro q hq hid
  simp only [List.mem_append, List.mem_cons] at hq
  rcases hq with hq | rfl | hq
  · exact absurd hid (hpre q hq)
  · exact hlz
  · exact absurd hid (hpost q hq)

/-- …each of which is handed ALL properties of the holder, like those of any component (C11_handed_all), whatever the others
    return; the holder itself and the processors sorted BEHIND it are the rest of the final chain: they serve every ordinary
    component and not the holder. -/
theorem C11_holder_served_by_prefix {α : Type} (pre post : List (RawPP α)) (p : RawPP α) (cpp : List α)
    (all : List Property) (ret : α → PropsRet) :
    finalChain (pre ++ p :: post) cpp = (cpp ++ pre.map (·.id)) ++ p.id :: post.map (·.id) ∧
    handedLoop all ((finalChain (pre ++ p :: post) cpp).map ret) =
      handedLoop all ((cpp ++ pre.map (·.id)).map ret) ++ handedLoop all ((p.id :: post.map (·.id)).map ret) := by
  have hf : finalChain (pre ++ p :: post) cpp = (cpp ++ pre.map (·.id)) ++ p.id :: post.map (·.id) := by
    simp [finalChain, populateLoop_final, List.append_assoc]
  refine ⟨hf, ?_⟩
  rw [hf, handedLoop_eq, handedLoop_eq, handedLoop_eq, List.map_append, List.map_append]

/-- PROCESSED LIKE ANY COMPONENT.  Raw processors `l` (distinct), sorted by SortOrderedComponents under ANY `sort.Slice` meeting
    the contract (C12's SortSpec).  A non-lazy holder `h` that the ordering contract lets ahead of no other processor — it is the
    only one that is not Ordered; or it is Ordered, no Priority, with an Order() above every other one and nobody is un-Ordered —
    is populated by EVERY other processor: its chain followed by itself is the final chain, the one every ordinary component
    is populated by.  So each of its recognised tagged fields, direct or embedded, meets the same processors as on a plain holder. -/
theorem C11_holder_like_plain {α : Type} [DecidableEq α] {part : α → Order.Part}
    {sort : (α → α → Bool) → List α → List α} (hs : Order.SortSpec part sort)
    (l : List α) (hn : l.Nodup) (lazy : α → Bool) (h : α) (hh : h ∈ l) (hlz : lazy h = false)
    (hlast : ∀ y ∈ l, y ≠ h → ¬ Order.Precedes part h y) :
    ∃ chain, populatedBy ((Order.sortOrdered sort part l).map fun x => ⟨x, lazy x⟩) [] h = some chain ∧
      finalChain ((Order.sortOrdered sort part l).map fun x => ⟨x, lazy x⟩) [] = chain ++ [h] ∧
      ∀ y ∈ l, y ≠ h → y ∈ chain := by
  obtain ⟨pre, hsorted, hall⟩ := sortOrdered_last hs l hn h hh hlast
  have hnd : (pre ++ [h]).Nodup := by
    rw [← hsorted]; exact (Order.sortOrdered_perm hs l).nodup_iff.2 hn
  have hnot : h ∉ pre := by
    intro hm
    have := (List.nodup_append.1 hnd).2.2 h hm h (by simp)
    exact this rfl
  refine ⟨pre, ?_, ?_, hall⟩
  · rw [hsorted, List.map_append]
    have := populatedBy_split (pre.map fun x => (⟨x, lazy x⟩ : RawPP α)) [] ⟨h, lazy h⟩ [] hlz (by
      intro q hq
      obtain ⟨x, hx, rfl⟩ := List.mem_map.1 hq
      intro e
      have hxe : x = h := e
      exact hnot (hxe ▸ hx))
    simpa [List.map_map, Function.comp_def] using this
  · rw [hsorted]
    simp [finalChain, populateLoop_final, List.map_map, Function.comp_def]

/-- The tie of `populateLoop` to the code.  `Progs.del_InvokeBeanFactoryPostProcessors` is the syntax tree of
    InvokeBeanFactoryPostProcessors, re-translated from /repo's source on every run.  Run by the MiniGo interpreter under
    Ioc.SemDelegate's interpretation with ONE record added — `factory.GetComponentByName` notes `self.componentPostProcessors` as
    it is at the call, the chain the processor is created and populated by — for every list of factory processors, every raw
    list, every result `sorted` of the sort, every LazyInit answer (GetComponentByName returning the processor asked for):
    the program records, for every non-lazy processor, exactly `populateLoop`'s chain, and leaves `finalChain` registered.
    (A rewrite that collects into a local slice and publishes the field after the loop records the chain of BEFORE the loop for
    every processor — it changes the term this theorem is about.) -/
theorem C11_code_populated_under (fprocs raw sorted cpp0 : List Nat) (lazy isCPP : Nat → Bool) :
    Go.run (Sem.popPrims (fun _ => false) false sorted lazy (fun p => some p) isCPP) Progs.del_InvokeBeanFactoryPostProcessors
        [.str "factory", .list (fprocs.map Sem.encP)] { raw := .list (raw.map Sem.encP), cpp := cpp0.map Sem.encP } =
      some (.nil,
        { fcalls := fprocs, defReg := true, raw := .nil,
          cpp := (finalChain (sorted.map fun p => ⟨p, lazy p⟩) cpp0).map Sem.encP,
          pops := (populateLoop (sorted.map fun p => ⟨p, lazy p⟩) cpp0).1.map Sem.encPop }) := by
  rw [Sem.invoke_populates_sem]
  have hrun : Order.runLoop (fun _ : Nat => false) fprocs [] = (fprocs, false) := by
    rw [Order.runLoop_eq, Order.takeUntil_all _ _ (fun _ _ => rfl)]; simp
  simp [Sem.popInvokeModel, hrun, Sem.popModel_is_populateLoop, finalChain]

section holderExamples
open Ioc.Order

/-- the harness' runs of this kind: the ten built-in processors (Priority, LazyInit, Order() regenerated from /repo), the
    ordered lazy recorder (index 10, Order() = 50), the holder (index 11) -/
private def exPart (holder : Part) (i : Nat) : Part :=
  ((Facts.builtinProcessors.map fun f => Part.ofIfaces (some f.order) f.priority) ++ [.ord 50, holder]).getD i .plain
private def exLazy (i : Nat) : Bool :=
  ((Facts.builtinProcessors.map (·.lazy)) ++ [true, false]).getD i false
private def exChain (holder : Part) : Option (List Nat) :=
  populatedBy ((sortOrdered (fun lt l => isort lt l) (exPart holder) (List.range 12)).map fun x => ⟨x, exLazy x⟩) [] 11

instance {α : Type} (part : α → Part) (x y : α) : Decidable (Precedes part x y) := by
  unfold Precedes; exact inferInstance

-- the hypotheses of C11_holder_like_plain hold for a holder that is not Ordered, and for an Ordered one behind the recorder …
example : (List.range 12).Nodup ∧ 11 ∈ List.range 12 ∧ exLazy 11 = false ∧
    (∀ y ∈ List.range 12, y ≠ 11 → ¬ Precedes (exPart .plain) 11 y) ∧
    (∀ y ∈ List.range 12, y ≠ 11 → ¬ Precedes (exPart (.ord 100)) 11 y) := by decide
-- … and the driver's sort shows the conclusion: all eleven others, the recorder included, populate the holder
example : ((exChain .plain).map fun c => (c.length, c.contains 10, (List.range 11).all c.contains)) = some (11, true, true) ∧
    ((exChain (.ord 51)).map fun c => (c.length, c.contains 10)) = some (11, true) := by decide
-- the limit (NOT a hypothesis-free statement): a holder Ordered ahead of a built-in processor, or priority-ordered, is populated
-- without the processors sorted behind it — the priority-ordered one below by the four priority-ordered built-ins of a smaller
-- Order() only, a holder with the smallest priority Order() by nobody
example : ((exChain (.prio 100)).map fun c => (c.length, c.contains 10)) = some (5, false) ∧
    exChain (.prio 1) = some [] ∧ ((exChain (.ord 3)).map (·.length)) = some 8 := by decide
-- C11_holder_chain on a lazy processor: never populated by the loop
example : populatedBy [⟨0, true⟩, ⟨1, false⟩, ⟨2, true⟩] [] 2 = none ∧
    populatedBy [⟨0, true⟩, ⟨1, false⟩, ⟨2, true⟩] [] 1 = some [0] := by decide
-- C11_code_populated_under on four raw processors (1 and 3 non-lazy), one processor registered before: the regenerated program
-- creates 1 under [9, 0] and 3 under [9, 0, 1, 2]
example : Go.run (Sem.popPrims (fun _ => false) false [0, 1, 2, 3] (fun p => p % 2 == 0) (fun p => some p) (fun _ => true))
      Progs.del_InvokeBeanFactoryPostProcessors [.str "factory", .list []]
      { raw := .list ([3, 2, 1, 0].map Sem.encP), cpp := [9].map Sem.encP } =
    some (.nil, { fcalls := [], defReg := true, raw := .nil, cpp := [9, 0, 1, 2, 3].map Sem.encP,
                  pops := [(1, [9, 0].map Sem.encP), (3, [9, 0, 1, 2].map Sem.encP)] }) := by
  have := C11_code_populated_under [] [3, 2, 1, 0] [0, 1, 2, 3] [9] (fun p => p % 2 == 0) (fun _ => true)
  simpa [finalChain, populateLoop, Sem.encPop] using this
end holderExamples

/-! ### non-vacuity: a depth-3 shape with every kind of leaf -/

section examples

private def L (name : String) (tags : List (String × String)) (ty : String := "s") : FieldT :=
  .leaf ⟨ofString name, (name.toList.head?.map Char.isUpper).getD false,
         tags.map (fun kv => (ofString kv.1, ofString kv.2)), ofString ty, none⟩
private def E (name : String) (kids : List FieldT) : FieldT :=
  .struct ⟨ofString name, true, [], ofString "st", none⟩ true true (kids.foldr .cons .nil)
private def S (name : String) (tags : List (String × String)) (anon byv : Bool) (kids : List FieldT)
    (marker : Option Bytes := none) : FieldT :=
  .struct ⟨ofString name, (name.toList.head?.map Char.isUpper).getD false,
           tags.map (fun kv => (ofString kv.1, ofString kv.2)), ofString "st", marker⟩ anon byv (kids.foldr .cons .nil)

/-- E1{ W wire; E2{ Fn func; V value; E3{ Pr prop; Px prefix; Lg logger; My mytag; u wire(unexported) }; Plain }; Fo json };
    T (anonymous but tagged); P (anonymous pointer); N (named struct); M (named marker); m (unexported marker) -/
private def ex : Shape :=
  [ E "E1" [ L "W" [("wire", "")] "pa",
             E "E2" [ L "Fn" [("func", "Ping")] "if", L "V" [("value", "${s.k1}")],
                      E "E3" [ L "Pr" [("prop", "i.k,required=false")] "i", L "Px" [("prefix", "s.k2")],
                               L "Lg" [("logger", "")] "lg", L "My" [("json", "x"), ("mytag", "v,a=b c")],
                               L "u" [("wire", "")] "pa" ],
                      L "Plain" [] "i" ],
             L "Fo" [("json", "x")] ],
    S "T" [("json", "t")] true true [L "In" [("wire", "")] "pa"],
    S "P" [] true false [L "In" [("wire", "")] "pa"],
    S "N" [] false true [L "In" [("wire", "")] "pa"],
    S "M" [] false true [L "V" []] (some (ofString "mark")),
    S "m" [] false true [L "V" []] (some (ofString "mark")) ].foldr .cons .nil

private def exProcs : List TagProc := builtinProcs ++ [customProc ntConfiguration (ofString "mytag")]

-- the scanner sees through three levels, drops the unexported leaf and `m`, keeps T / P / N / M as fields of their own
example : (scan ex).map (fun f => (f.path.length, f.info.name)) =
    [(1, ofString "W"), (2, ofString "Fn"), (2, ofString "V"), (3, ofString "Pr"), (3, ofString "Px"), (3, ofString "Lg"),
     (3, ofString "My"), (2, ofString "Plain"), (1, ofString "Fo"), (0, ofString "T"), (0, ofString "P"),
     (0, ofString "N"), (0, ofString "M")] := by decide
-- flattening changes the shape (non-trivial instance of C11_flatten) …
example : (scan ex).map (·.path) ≠ (scan (flatten ex)).map (·.path) := by decide
-- … every processor kind fires: 8 properties; the prop shorthand is rewritten, the marker is bound without a tag
example : (properties exProcs (scan ex)).map (fun q => (q.field.info.name, q.tag)) =
    [(ofString "Lg", tLogger), (ofString "Px", tPrefix), (ofString "M", tPrefix), (ofString "V", tValue),
     (ofString "Pr", tValue), (ofString "W", tWire), (ofString "Fn", tFunc), (ofString "My", ofString "mytag")] := by decide
example : ((properties exProcs (scan ex)).filter (fun q => q.field.info.name = ofString "Pr")).map
    (fun q => (q.tagVal, q.args)) = [(ofString "${i.k}", [(ofString "Required", [ofString "false"])])] := by decide
-- the hypotheses of C11_custom_exact are met by the recording processor, and it receives one field
example : (customProc ntConfiguration (ofString "mytag")).extract = none ∧ (customProc ntConfiguration (ofString "mytag")).tag ≠ [] :=
  ⟨rfl, by decide⟩
example : (properties? [customProc ntConfiguration (ofString "mytag")] (scan ex)).isSome = true ∧
    ((properties? [customProc ntConfiguration (ofString "mytag")] (scan ex)).getD []).map
      (fun q => (q.field.fullPath.length, q.tagVal, q.args)) =
    [(4, ofString "v", [(ofString "A", [ofString "b", ofString "c"])])] := by decide
-- C11_custom_handed_exact: the recorder sits behind a processor that returns an EMPTY list and one that returns nil; it is
-- handed all 8 properties and finds its own one (the hypotheses hold for `mytag`)
example : ofString "mytag" ∉ [tLogger, tPrefix, tValue, tWire, tFunc] ∧ ofString "mytag" ≠ ([] : Bytes) := by decide
example : ((handedLoop (properties exProcs (scan ex)) [fun _ => some [], fun _ => none, fun l => some l.reverse]).map
    (fun h => (h.length, (ofTag (ofString "mytag") h).map (fun q => q.field.info.name)))) =
    [(8, [ofString "My"]), (8, [ofString "My"]), (8, [ofString "My"])] := by decide
-- C11_code_handed on a chain of three processors returning an empty list, nil and the list they got
example : Go.run (Sem.handPrims [4, 7, 9] (.list [.str "p1", .str "p2"]) (fun p h => if p == 4 then .list [] else if p == 7 then .nil else h))
    Progs.del_ResolveAfterInstantiation [.str "meta", .str "n"] [] =
    some (.nil, [(4, .list [.str "p1", .str "p2"]), (7, .list [.str "p1", .str "p2"]), (9, .list [.str "p1", .str "p2"])]) :=
  C11_code_handed _ _ _
-- `writes` is non-empty and misses Plain, Fo, u, T, P, N (hypothesis of C11_frame is satisfiable, conclusion is not trivial)
example : (writes exProcs ex).length = 8 ∧ (scan ex).length = 13 := by decide
-- C11_proc_order: a genuinely different enumeration order
example : exProcs.Perm exProcs.reverse ∧ exProcs ≠ exProcs.reverse :=
  ⟨(List.reverse_perm exProcs).symm, by simp [exProcs, builtinProcs, procLogger, customProc, ntLogger, ntConfiguration]⟩

-- C11_value_verbatim: the hypothesis holds for values that are blanks, begin or end with a blank or a tab, and the parse keeps them
example : Tag.PlainVal (ofString " | ") ∧ Tag.PlainVal (ofString "  ") ∧ Tag.PlainVal [9, 118, 32] ∧
    Tag.parse? (ofString " | ,style=wide") = some (ofString " | ", [(ofString "Style", [ofString "wide"])]) ∧
    Tag.parse? (ofString "  ") = some (ofString "  ", []) ∧
    (Tag.parse? (ofString " - ,a=(x, y) z")).map (·.1) = some (ofString " - ") := by decide
end examples

/-! ### the REGENERATED scanner (Meta.scanFields with its function literal, reflectx.ForEachFieldV2)

    Under the interpretation Ioc.SemScanFields (what reflection answers about each declared field is the parameter `fs`; the
    recursive call `m.scanFields(NewEmbedHolder(…))` is the parameter `sub`) the syntax tree of Meta.scanFields in /repo
    contributes, per level, exactly what the model's `scanShape` contributes; `ForEachFieldV2` is the in-order walk it is
    interpreted as — so `scanShape`, the function all theorems above are about, is the recursion of the code. -/
section code
open Ioc.Go Ioc.Sem

theorem C11_code_scanFields {α : Type} (fs : List LField) (own : Nat → α) (sub : Nat → List α) (w : List α) :
    run (scanPrims fs own sub) Progs.meta_scanFields [.str "holder"] w =
      some (.tuple [], w ++ levelScan fs own sub 0 (List.range' 0 fs.length)) :=
  scanFields_sem fs own sub w

/-- one field: an anonymous, untagged, by-value struct is descended into WHETHER OR NOT it is settable (the embedded struct of
    an unexported type); any other field is kept exactly when it is settable -/
theorem C11_code_field_rule {α : Type} (f : LField) (own : α) (sub : List α) :
    fieldScan f own sub = (if f.anon && f.tagEmpty && f.isStruct then sub else if f.canSet then [own] else []) := rfl

theorem C11_code_forEachField {σ : Type} (n : Nat) (pub : Nat → Bool) (cb : Nat → σ → Option String × σ) (fuel : Nat) (ex : Bool)
    (w : σ) (hf : n + 1 ≤ fuel) :
    run (fePrims n pub cb fuel) Progs.reflectx_ForEachFieldV2 [.str "T", .str "V", .bool ex, .ref 0 40] w =
      some (encOptErr (feLoop cb (fun j => ex && !pub j) (List.range' 0 n) w).1,
            (feLoop cb (fun j => ex && !pub j) (List.range' 0 n) w).2) ∧
    run (fePrims n pub cb fuel) Progs.reflectx_ForEachFieldV2 [.str "PT", .str "PV", .bool ex, .ref 0 40] w =
      run (fePrims n pub cb fuel) Progs.reflectx_ForEachFieldV2 [.str "T", .str "V", .bool ex, .ref 0 40] w ∧
    run (fePrims n pub cb fuel) Progs.reflectx_ForEachFieldV2 [.str "OT", .str "V", .bool ex, .ref 0 40] w = some (.nil, w) :=
  ⟨forEachField_sem n pub cb fuel ex w hf, forEachField_ptr_sem n pub cb fuel ex w hf, forEachField_other_sem n pub cb fuel ex _ w⟩

/-- the walk the primitive does for scanFields (every index, nothing skipped, first error ends it) is that loop -/
theorem C11_code_walk_is_forEachField {σ : Type} (k : Handler σ) (cb : Nat → σ → Option String × σ)
    (hk : ∀ i w, k [.ref i 60, .ref i 61] w = some (encOptErr (cb i w).1, (cb i w).2)) (is : List Nat) (w : σ) :
    feLoopK k is w = some (encOptErr (feLoop cb (fun _ => false) is w).1, (feLoop cb (fun _ => false) is w).2) :=
  feLoopK_total k cb hk is w

/-- the model's `scanShape` IS `levelScan` (the per-level function of the regenerated scanFields) with the model's own
    recursion as the recursive call -/
theorem C11_scanShape_is_code_level (path : List Bytes) (sh : Shape) :
    scanShape path sh =
      levelScan ((Shape.toList sh).map lfOf)
        (fun i => ⟨path, infoOf ((Shape.toList sh).getD i (.leaf ⟨[], false, [], [], none⟩))⟩)
        (fun i => subOf path ((Shape.toList sh).getD i (.leaf ⟨[], false, [], [], none⟩)))
        0 (List.range' 0 ((Shape.toList sh).map lfOf).length) := by
  rw [scanShape_is_flatMap, levelScan_eq_flatMap]
  have hmap := map_getD_range' (FieldT.leaf ⟨[], false, [], [], none⟩) (Shape.toList sh) []
  simp only [List.length_nil, List.nil_append] at hmap
  rw [List.length_map]
  have hl : (Shape.toList sh).flatMap (fun f => fieldScan (lfOf f) ⟨path, infoOf f⟩ (subOf path f)) =
      ((List.range' 0 (Shape.toList sh).length).map
        (fun i => (Shape.toList sh).getD i (FieldT.leaf ⟨[], false, [], [], none⟩))).flatMap
        (fun f => fieldScan (lfOf f) ⟨path, infoOf f⟩ (subOf path f)) := by rw [hmap]
  rw [hl, List.flatMap_map]
  apply flatMap_congr_mem
  intro i hi
  have hi' : i < (Shape.toList sh).length := by
    have := List.mem_range'_1.mp hi
    omega
  simp [lfieldAt, List.getD_eq_getElem?_getD, hi']

/-- DefaultTagScanDefinitionRegistryPostProcessor.PostProcessDefinitionRegistry, regenerated (interpretation Ioc.SemTagScan:
    what `Tag.Lookup` and the ExtractHandler answer about each field are parameters; a Property is an object of the world
    because `SetArg` writes through the pointer).  For EVERY list of fields and every answers: the call returns nil and hands
    the meta exactly one property for every field the processor recognises — the `d.Tag` lookup first, else the
    ExtractHandler, whose empty tag means `d.Tag` — in field order, nothing for any other field, each marked required when
    the processor requires and the tag text does not say otherwise; what the meta held before is kept in front. -/
theorem C11_code_tagScan (d : TSD) (fs : List Nat) (nm : String) (w : TW) :
    ∃ w', run (tsPrims d fs) Progs.scan_PostProcessDefinitionRegistry [.ref 0 2, .ref 0 3, .str nm] w = some (.nil, w') ∧
      w'.metaProps = w.metaProps ++
        fs.filterMap (fun i => (recogS d i).map fun r => TSProp.applyReq d ⟨i, d.nodeType, r.1, r.2, false⟩) :=
  tagScan_sem d fs nm w

/-- the recognition rule of one field, as the regenerated lines 21-35 decide it -/
theorem C11_code_recognition_rule (d : TSD) (i : Nat) :
    recogS d i =
      (match (if d.tag ≠ "" then d.lookup i else none) with
       | some tv => some (d.tag, tv)
       | none =>
         if d.hasExt then
           match d.ext i with
           | some (t, tv) => some (if t = "" then d.tag else t, tv)
           | none => none
         else none) := rfl

/-- NewProperty, regenerated: TagStr and TagVal are both what `Parse` returns for the tag text, the args are the very map that
    `Parse` call filled, Configurations is a fresh empty map; field, type and tag are the arguments unchanged -/
theorem C11_code_NewProperty (pv : String → String) (f pt : Go.Val) (t tv : String) (w : List NObj) :
    run (npPrims pv) Progs.prop_NewProperty [f, pt, .str t, .str tv] w =
      some (.ref (w.length + 2) 42,
        w ++ [.args (some tv), .conf, .prop f pt t (pv tv) (pv tv) (w.length + 1) w.length]) :=
  newProperty_sem pv f pt t tv w

/-- the model's `propsOf` — the function the theorems above are about — IS what the regenerated function hands over, read
    through any faithful writing `e` of byte strings as Go strings (`dec ∘ e = id`, only the empty string is written empty),
    for every processor whose ExtractHandler does not panic and every list of scanned fields -/
theorem C11_propsOf_is_code (e : Bytes → String) (dec : String → Bytes) (hdec : ∀ b, dec (e b) = b)
    (he0 : ∀ b, e b = "" ↔ b = []) (d : TagProc) (hnp : ∀ h, d.extract = some h → ∀ f, h f ≠ .panic)
    (fields : List ScannedField) :
    (tagScanSpec (tsdOf e dec d fields) (List.range fields.length)).filterMap (propOf dec fields) = propsOf d fields :=
  propsOf_is_tagScanSpec e dec hdec he0 d hnp fields

/-- such a writing exists (bytes as the characters below 256), and the built-in scanners other than the value scanner — whose
    `prop` shorthand can panic (Ioc.Scan.valueExtract) — meet the no-panic premise outright -/
theorem C11_propsOf_is_code_builtin (d : TagProc) (hd : d ∈ [procLogger, procProperties, procWire, procFunc])
    (fields : List ScannedField) :
    (tagScanSpec (tsdOf encB ofString d fields) (List.range fields.length)).filterMap (propOf ofString fields) =
      propsOf d fields := by
  refine propsOf_is_tagScanSpec encB ofString dec_encB encB_empty d ?_ fields
  intro h hx f
  simp only [List.mem_cons, List.mem_nil_iff, or_false] at hd
  rcases hd with rfl | rfl | rfl | rfl
  · cases hx
  · simp only [procProperties, Option.some.injEq] at hx; subst hx; unfold markerExtract; split <;> simp
  · cases hx
  · cases hx

/-- non-vacuity: a processor with tag "wire" and a handler over four fields (0: tagged; 1: handler answers with an empty tag;
    2: nothing; 3: handler answers with its own tag, text asks for required itself) -/
def exTSD : TSD :=
  { nodeType := "Component", tag := "wire", hasExt := true, required := true,
    lookup := fun i => if i = 0 then some "a" else none,
    ext := fun i => if i = 1 then some ("", "b") else if i = 3 then some ("x", "c,required") else if i = 0 then some ("y", "z") else none,
    hasReq := fun tv => tv = "c,required" }
example : tagScanSpec exTSD [0, 1, 2, 3] =
    [⟨0, "Component", "wire", "a", true⟩, ⟨1, "Component", "wire", "b", true⟩, ⟨3, "Component", "x", "c,required", false⟩] := by
  decide

/-- the value scanner's ExtractHandler — the function literal in NewValueAwarePostProcessors, regenerated (interpretation
    `vxFn`: the field's `prop` tag, `strings2.IndexSkipBlocks` and Go's slice expressions are parameters, an out-of-range slice
    is `none`): no `prop` tag — not recognised; else `${key}` followed, unchanged, by the text from the first top-level comma
    on; the tag is left empty (so: `d.Tag`) -/
theorem C11_code_valueExtract (o : VXOps) :
    run (vxPrims o) Progs.scan_valueExtract [.ref 0 1, .ref 0 60] () = (valueExtractS o).map (fun r => (encExtract r, ())) :=
  valueExtract_sem o

/-- the properties scanner's ExtractHandler, regenerated: recognised exactly when the field's value implements
    ConfigurationProperties, with what its `Prefix()` returns as the tag text -/
theorem C11_code_markerExtract (marker : Option String) :
    run (mxPrims marker) Progs.scan_markerExtract [.ref 0 1, .ref 0 60] () =
      some (encExtract (match marker with | some p => ("", p, true) | none => ("", "", false)), ()) :=
  markerExtract_sem marker

/-- … and the model's `valueExtract` / `markerExtract` (with `Tag.propShorthand?`, whose `none` is the slice panic) ARE those
    functions, for every scanned field -/
theorem C11_extract_is_code (f : ScannedField) :
    valueExtractS (vxOf f) = encExtractB (valueExtract f) ∧
    (match f.info.marker.map encB with
     | some p => some ("", p, true)
     | none => some ("", "", false)) = encExtractB (markerExtract f) :=
  ⟨valueExtract_is_code f, markerExtract_is_code f⟩

end code

/-- NewHolder / NewEmbedHolder, regenerated: the holder of a definition has the definition's own Base, is not embedded and has
    no outer holder; the holder of an embedded struct has that struct's Base, the OUTER holder's definition (so every field
    found below belongs to the component's one definition), is embedded, and points to the outer holder -/
theorem C11_code_holders (m : Nat) (b hb hm he hh : Go.Val) :
    Go.run Sem.hoPrims Progs.holder_NewHolder [.ref m 1] () =
      some (.tuple [.str "Holder", .ref m 130, .ref m 1, .bool false, .nil], ()) ∧
    Go.run Sem.hoPrims Progs.holder_NewEmbedHolder [b, .tuple [.str "Holder", hb, hm, he, hh]] () =
      some (.tuple [.str "Holder", b, hm, .bool true, .tuple [.str "Holder", hb, hm, he, hh]], ()) :=
  ⟨Sem.newHolder_sem m, Sem.newEmbedHolder_sem b hb hm he hh⟩

/-- loggerAwarePostProcessors.PostProcessProperties, regenerated: exactly the properties that carry the logger tag AND whose
    type implements syslog.Logger are written (a logger whose prefix is the tag text, else the holder's / the definition's
    rendering), in order; every other property is left alone; the list is returned unchanged, never an error -/
theorem C11_code_loggerProperties (ps : List Sem.LProp) (n : Nat) (w : List (Nat × String)) :
    Go.run (Sem.lgPrims ps) Progs.pp_logger_Properties [.list ((List.range' 0 n).map (fun i => Go.Val.ref i 20)), .str "c", .str "n"] w =
      some (.tuple [.list ((List.range' 0 n).map (fun i => Go.Val.ref i 20)), .nil],
        w ++ ((List.range' 0 n).filter (fun i => (Sem.lpropAt ps i).isLoggerTag && (Sem.lpropAt ps i).implements)).map
               (fun i => (i, Sem.loggerPref (Sem.lpropAt ps i)))) :=
  Sem.loggerProperties_sem ps n w

/-- "with the tag's value and arguments": the arguments a processor asks for are compared EXACTLY (Has / isIntersect,
    regenerated, `C19_code_Find_Has`, `C19_code_isIntersect`): an argument value matches only itself, not another spelling or
    letter case of it -/
theorem C11_code_args_exact (o : Sem.StrOps) (k : String) (wants : List String) (w : Sem.AM) (a b : List String) :
    Go.run (Sem.argPrims o) Progs.arg_Has [.str k, Sem.strsVal wants] w =
      some (.bool (match Sem.amGet (o.fmtKey k) w with
                   | none => false
                   | some l => wants.isEmpty || l.any (fun x => wants.contains x)), w) ∧
    Go.run Sem.noPrims Progs.arg_isIntersect [Sem.strsVal a, Sem.strsVal b] () = some (.bool (a.any (fun x => b.contains x)), ()) :=
  ⟨Sem.argHas_sem o k wants w, Sem.argIsIntersect_sem a b⟩

end Ioc.C11
