/-
  C18 — Expressions run after placeholder substitution, validation after binding.  PROPERTY THEOREMS ONLY
  (lemmas live in IocProofs/Lemmas/ValueC18 and the Value* files).

  Model: Ioc.Value.  `evalE` (expr) and `validate` (validator) are OPAQUE parameters: every theorem holds for any
  expression engine and any validator; what the real libraries compute is checked by the tie only.
  `stageOrder` is computed from the REGENERATED table `Ioc.Facts.builtinProcessors` (type, marker embeddings,
  Order() constant) with the SortOrderedComponents rule, so changing an Order constant or a marker embedding in
  the Go source breaks `C18_stage_order` and `C18_pipeline`.
-/
import IocProofs.Lemmas.ValueC18
import IocProofs.Lemmas.ValueTwice
import IocProofs.Lemmas.SemStages
import IocProofs.Lemmas.SemDelegate
namespace Ioc.C18
open Ioc Ioc.Tag Ioc.Value

/-- The order of the built-in processors, from the regenerated table: quote before expression before the two
    binding processors before validate; plain dependency matching before further matching.  All are present. -/
theorem C18_stage_order :
    (∀ n ∈ [nQuote, nExpr, nValue, nProps, nValidate, nDepAware, nFurther], n ∈ stageOrder) ∧
    idx nQuote stageOrder < idx nExpr stageOrder ∧
    idx nExpr stageOrder < idx nValue stageOrder ∧
    idx nExpr stageOrder < idx nProps stageOrder ∧
    idx nValue stageOrder < idx nValidate stageOrder ∧
    idx nProps stageOrder < idx nValidate stageOrder ∧
    idx nDepAware stageOrder < idx nFurther stageOrder := by
  decide

/-- Running every built-in processor, in the order computed from the regenerated table, over one configuration
    property IS the composition  quote ≫ expression ≫ (value | prefix) ≫ validate  — for every expression
    engine, validator, configuration, tag text and field type. -/
theorem C18_pipeline (J : Json) (evalE : Bytes → Except Err Val) (validate : FVal → List Bytes → Bool)
    (cfg : Cfg) (tag : Bytes) (ty : FieldTy) :
    runProperty J evalE validate cfg true tag ty = valuePipeline J evalE validate cfg tag ty ∧
    runProperty J evalE validate cfg false tag ty = prefixPipeline J evalE validate cfg tag ty :=
  ⟨runProperty_value J evalE validate cfg tag ty, runProperty_prefix J evalE validate cfg tag ty⟩

/-- The expression engine never sees a placeholder.  (i) What the quote stage hands on contains no `${…}` match
    any more (this is the loop of el.ReplaceAllContent, however many rounds of substitution it took — not only a
    single level).  (ii) Every text handed to the engine during the expression stage is free of `${…}`: an engine
    that REFUSES (panics on) any text containing a `${…}` match is indistinguishable from the given one.
    (Texts are the contents of `#{[^{}]*}` matches, hence brace-free.) -/
theorem C18_expr_sees_no_placeholder (J : Json) (cfg : Cfg) (evalE : Bytes → Except Err Val) (tv s1 : Bytes)
    (hq : quoteStage J cfg tv = .ok s1) :
    findEl cDollar s1 = none ∧ exprStage J (guardE evalE) s1 = exprStage J evalE s1 :=
  ⟨replaceAllF_ok_no_match _ _ _ _ _ _ hq, exprStage_guard J evalE s1⟩

/-- The field receives the expression's result: when the tag, after all placeholders inside it have been
    substituted, is `#{e}`, the engine gives `v` for `e`, and the formatted result contains no further `#{…}`,
    then what is bound is  decode ty (parseAny (formatAny v))  (then validated) — with any arguments. -/
theorem C18_expr_result (J : Json) (evalE : Bytes → Except Err Val) (validate : FVal → List Bytes → Bool)
    (cfg : Cfg) (tv e : Bytes) (as : List (Bytes × List Bytes)) (ty : FieldTy) (v : Val)
    (htv : WFpre cComma isLB isRB tv 0 = true) (has : ∀ a ∈ as, WFArg a)
    (hq : quoteStage J cfg tv = .ok (exprTag e)) (he : ∀ b ∈ e, notBrace b = true)
    (hv : evalE e = .ok v) (hn : findEl cHash (formatAny J v) = none) (hne : (formatAny J v).isEmpty = false) :
    valuePipeline J evalE validate cfg (render tv as) ty =
      (parseAny J (formatAny J v) >>= fun w => unmarshall ty w >>= fun b =>
        validateStage validate (as.foldl (fun m a => setArg m a.1 a.2) []) ty b >>= fun b' => pure (b'.getD (zero ty))) := by
  unfold valuePipeline
  rw [parse?_render tv as htv has]
  simp only [hq, exprStage_exprTag J evalE e v he hv hn, bind, Except.bind]
  unfold valueStage
  simp only [hne, Bool.false_eq_true, if_false]
  cases parseAny J (formatAny J v) <;> rfl

/-- Validation runs on the bound value and decides the outcome: with a `validate` argument `cs` (and the field
    not a nil pointer) the stage fails exactly when the validator rejects the value the field holds. -/
theorem C18_validate_iff (validate : FVal → List Bytes → Bool) (args : Args) (ty : FieldTy) (b : Option FVal)
    (cs : List Bytes) (hcs : Tag.find args kValidate = some cs)
    (hp : ¬ (isPtrTy ty = true ∧ b.getD (zero ty) = .nil)) :
    (validateStage validate args ty b = .error .validate ↔ validate (b.getD (zero ty)) cs = false) ∧
    (validateStage validate args ty b = .ok b ↔ validate (b.getD (zero ty)) cs = true) := by
  rw [validateStage_spec, hcs]
  simp only [hp, if_false]
  cases validate (b.getD (zero ty)) cs <;> simp

/-- … and never otherwise: without a `validate` argument the stage cannot fail, whatever the validator says. -/
theorem C18_validate_only_when_asked (validate : FVal → List Bytes → Bool) (args : Args) (ty : FieldTy) (b : Option FVal)
    (h : Tag.find args kValidate = none) : validateStage validate args ty b = .ok b := by
  rw [validateStage_spec, h]

/-- The outcome of a whole value point in terms of its stages: once binding succeeded with `b`, start-up fails
    iff validation was asked for, the field is not a nil pointer, and the validator rejects the bound value. -/
theorem C18_validate_outcome (J : Json) (evalE : Bytes → Except Err Val) (validate : FVal → List Bytes → Bool)
    (cfg : Cfg) (tag tv s1 s2 : Bytes) (args : Args) (ty : FieldTy) (b : Option FVal)
    (hp : Tag.parse? tag = some (tv, args)) (hq : quoteStage J cfg tv = .ok s1) (he : exprStage J evalE s1 = .ok s2)
    (hb : valueStage J args ty s2 = .ok b) :
    valuePipeline J evalE validate cfg tag ty =
      match Tag.find args kValidate with
      | none => .ok (b.getD (zero ty))
      | some cs =>
        if isPtrTy ty = true ∧ b.getD (zero ty) = .nil then .ok (b.getD (zero ty))
        else if validate (b.getD (zero ty)) cs = true then .ok (b.getD (zero ty)) else .error .validate := by
  unfold valuePipeline
  simp only [hp, hq, he, hb, bind, Except.bind, validateStage_spec]
  cases Tag.find args kValidate with
  | none => rfl
  | some cs =>
    simp only
    by_cases h1 : isPtrTy ty = true ∧ b.getD (zero ty) = .nil
    · simp only [h1, and_self, if_true]; rfl
    · simp only [h1, if_false]
      by_cases h2 : validate (b.getD (zero ty)) cs = true
      · simp only [h2, if_true]; rfl
      · simp only [h2, Bool.false_eq_true, if_false]

/-- An optional pointer field for which nothing was bound is not validated (no error), whatever the constraints
    and the validator (the behaviour after the repair of D17). -/
theorem C18_validate_absent (J : Json) (validate : FVal → List Bytes → Bool) (args : Args) (t : FieldTy)
    (hopt : isRequired args = false) :
    valueStage J args (.ptr t) [] = .ok none ∧ validateStage validate args (.ptr t) none = .ok none := by
  constructor
  · simp [valueStage, hopt]
  · rw [validateStage_spec]
    cases Tag.find args kValidate <;> simp [isPtrTy, zero]

/-- The stage order holds on EVERY population of a property, not only the first.  A Property object keeps TagStr,
    TagVal, its arguments and its field between two creations of its component; running the processors over such a
    left-over state — any TagVal `leftVal`, any field contents `leftBound` — is, when TagStr contains a placeholder,
    again   quote (on TagStr, under the CURRENT configuration) ≫ expression ≫ bind ≫ validate:
    the expression is evaluated after the placeholders were substituted with the current values, and validation
    judges the value bound now (the old field contents only when nothing is bound now). -/
theorem C18_repopulate_pipeline (J : Json) (evalE : Bytes → Except Err Val) (validate : FVal → List Bytes → Bool)
    (cfg : Cfg) (ty : FieldTy) (tagStr leftVal : Bytes) (args : Args) (leftBound : Option FVal)
    (r : Bytes × Bytes × Bytes) (hf : findEl cDollar tagStr = some r) :
    runStagesOn J evalE validate cfg ty stageOrder ⟨true, tagStr, leftVal, args, leftBound⟩ =
      (quoteStage J cfg tagStr >>= fun s1 => exprStage J evalE s1 >>= fun s2 => valueStage J args ty s2 >>= fun b =>
        validateStage validate args ty (b.orElse fun _ => leftBound) >>= fun b' => pure ⟨true, tagStr, s2, args, b'⟩) ∧
    runStagesOn J evalE validate cfg ty stageOrder ⟨false, tagStr, leftVal, args, leftBound⟩ =
      (quoteStage J cfg tagStr >>= fun s1 => exprStage J evalE s1 >>= fun s2 => prefixStage cfg args ty s2 >>= fun b =>
        validateStage validate args ty (b.orElse fun _ => leftBound) >>= fun b' => pure ⟨false, tagStr, s2, args, b'⟩) :=
  ⟨runStages_value_some J evalE validate cfg ty tagStr leftVal args leftBound r hf,
   runStages_prefix_some J evalE validate cfg ty tagStr leftVal args leftBound r hf⟩

/-- A tag WITHOUT a placeholder is skipped by the quote processor (`if !MatchString(TagStr) continue`): the later
    stages start from the TagVal the property holds — TagStr itself on a fresh property, the text an earlier
    population left otherwise. -/
theorem C18_repopulate_no_placeholder (J : Json) (evalE : Bytes → Except Err Val) (validate : FVal → List Bytes → Bool)
    (cfg : Cfg) (ty : FieldTy) (tagStr leftVal : Bytes) (args : Args) (leftBound : Option FVal)
    (hf : findEl cDollar tagStr = none) :
    runStagesOn J evalE validate cfg ty stageOrder ⟨true, tagStr, leftVal, args, leftBound⟩ =
      (exprStage J evalE leftVal >>= fun s2 => valueStage J args ty s2 >>= fun b =>
        validateStage validate args ty (b.orElse fun _ => leftBound) >>= fun b' => pure ⟨true, tagStr, s2, args, b'⟩) :=
  runStages_value_none J evalE validate cfg ty tagStr leftVal args leftBound hf

/-! ### non-vacuity and worked examples (by evaluation of the model) -/

/-- a toy engine: knows three expression texts -/
def toyE : Bytes → Except Err Val := fun e =>
  if e = ofString "2+3" then .ok (.int 5)
  else if e = ofString "2 * 3" then .ok (.int 6)
  else if e = ofString "10/4" then .ok (.dec (ofString "2.5"))
  else .error .expr

/-- a toy validator: `min=N` on integers -/
def toyV : FVal → List Bytes → Bool := fun v cs =>
  match v with
  | .int i => cs.all (fun c => if c = ofString "min=6" then decide (6 ≤ i) else true)
  | .ptr (.int i) => cs.all (fun c => if c = ofString "min=6" then decide (6 ≤ i) else true)
  | _ => true

def cfgAB : Cfg := fun k =>
  if k = ofString "a" then .int 2 else if k = ofString "b" then .int 3 else if k = ofString "op" then .str (ofString "*") else .null

example : stageOrder.take 5 = [ "loggerAwarePostProcessors", nQuote, nExpr, nProps, nValue ] := by decide
-- placeholders are substituted first, the engine sees "2+3"
example : valuePipeline goJson toyE toyV cfgAB (ofString "#{${a}+${b}}") .int = .ok (.int 5) := by decide +kernel
-- a placeholder that expands to an operator
example : valuePipeline goJson toyE toyV cfgAB (ofString "#{${a} ${op} ${b}}") .string = .ok (.str (ofString "6")) := by decide +kernel
-- `#{…}` containing `${…:default}`
example : valuePipeline goJson toyE toyV cfgAB (ofString "#{${a}+${missing:3}}") .int = .ok (.int 5) := by decide +kernel
-- … and a configured key wins over its declared default, also when it is configured with 0
example : valuePipeline goJson toyE toyV (fun k => if k = ofString "z" then .int 0 else cfgAB k) (ofString "#{${a}+${b:9}}") .int = .ok (.int 5) := by decide +kernel
example : quoteStage goJson (fun k => if k = ofString "z" then .int 0 else cfgAB k) (ofString "#{${z:7}*${a:9}}") = .ok (ofString "#{0*2}") := by decide +kernel
-- a float result into a float and into an int field
example : valuePipeline goJson toyE toyV cfgAB (ofString "#{10/4}") .float = .ok (.dec (ofString "2.5")) := by decide +kernel
example : valuePipeline goJson toyE toyV cfgAB (ofString "#{10/4}") .int = .ok (.int 2) := by decide +kernel
-- an engine error fails start-up
example : valuePipeline goJson toyE toyV cfgAB (ofString "#{1+}") .int = .error .expr := by decide +kernel
-- validate on a value produced by an expression: 5 violates min=6, 6 does not
example : valuePipeline goJson toyE toyV cfgAB (ofString "#{${a}+${b}},validate=min=6") .int = .error .validate := by decide +kernel
example : valuePipeline goJson toyE toyV cfgAB (ofString "#{${a} ${op} ${b}},validate=min=6") .int = .ok (.int 6) := by decide +kernel
-- optional pointer, nothing configured: not validated; a required one fails for being absent, not for validation
example : valuePipeline goJson toyE toyV cfgAB (ofString "${nothing},validate=min=6,required=false") (.ptr .int) = .ok .nil := by decide +kernel
example : valuePipeline goJson toyE toyV cfgAB (ofString "${nothing},validate=min=6") (.ptr .int) = .error .required := by decide +kernel
-- the hypotheses of C18_expr_result are met by `#{${a}+${b}}`
example : quoteStage goJson cfgAB (ofString "#{${a}+${b}}") = .ok (exprTag (ofString "2+3")) := by decide +kernel
example : WFpre cComma isLB isRB (ofString "#{${a}+${b}}") 0 = true := by decide
-- the hypotheses of C18_validate_iff are met
example : Tag.find [(ofString "Validate", [ofString "min=6"])] kValidate = some [ofString "min=6"] := by decide

-- a holder populated twice.  `#{${a} ${op} ${b}},validate=min=6`: first op = "+" gives 2 + 3 = … the toy engine
-- does not know "2 + 3": the first creation fails in the expression stage; op is then set to "*": the second creation
-- evaluates "2 * 3" on the CURRENT values and binds 6, which satisfies min=6
def cfgPlus : Cfg := fun k => if k = ofString "op" then .str (ofString "+") else cfgAB k
def holderE : List HProp :=
  [⟨.int, ⟨true, ofString "#{${a} ${op} ${b}}", ofString "#{${a} ${op} ${b}}", [(ofString "Validate", [ofString "min=6"])], none⟩⟩]
example : (createTwice goJson toyE toyV cfgPlus cfgAB false holderE).first = some .expr ∧
    (createTwice goJson toyE toyV cfgPlus cfgAB false holderE).second = none ∧
    (createTwice goJson toyE toyV cfgPlus cfgAB false holderE).props.map (·.st.bound) = [some (.int 6)] := by decide +kernel
-- `#{${a}+${b}},validate=min=6` binds 5 and fails validation; the creation is repeated after b was set to … the same
-- configuration: it fails again, for the same reason (TagVal "5" left by the first population is not consulted)
def holderV : List HProp :=
  [⟨.int, ⟨true, ofString "#{${a}+${b}}", ofString "#{${a}+${b}}", [(ofString "Validate", [ofString "min=6"])], none⟩⟩]
example : (createTwice goJson toyE toyV cfgAB cfgAB false holderV).first = some .validate ∧
    (createTwice goJson toyE toyV cfgAB cfgAB false holderV).second = some .validate ∧
    ((populateAll goJson toyE toyV cfgAB stageOrder holderV).1.map (·.st.tagVal)) = [ofString "5"] := by decide +kernel
-- a creation that fails AFTER its properties were populated (a dependency that cannot be created): populated again
example : (createTwice goJson toyE toyV cfgAB cfgAB true holderE).failed = true ∧
    (createTwice goJson toyE toyV cfgAB cfgAB true holderE).props.map (·.st.bound) = [some (.int 6)] := by decide +kernel
-- a creation that succeeds is not repeated
example : (createTwice goJson toyE toyV cfgAB cfgPlus false holderE).failed = false ∧
    (createTwice goJson toyE toyV cfgAB cfgPlus false holderE).props.map (·.st.bound) = [some (.int 6)] := by decide +kernel
example : (findEl cDollar (ofString "#{${a} ${op} ${b}}")).isSome = true := by decide

-- quote characters are ordinary bytes of a tag: an apostrophe (an unbalanced quote) in the text behind an expression or in
-- a placeholder's default does not hide the `validate` argument behind it — the value part ends at the first top-level
-- comma, the field receives the expression's result and the text, and validation judges it
def toyQ : FVal → List Bytes → Bool := fun v cs =>
  match v with
  | .str s => cs.all (fun c => if c = ofString "startswith=9" then s.head? = some 57 else if c = ofString "max=8" then decide (s.length ≤ 8) else true)
  | _ => true
example : Tag.parse? (ofString "#{${a} ${op} ${b}} o'clock,validate=startswith=9") =
    some (ofString "#{${a} ${op} ${b}} o'clock", [(ofString "Validate", [ofString "startswith=9"])]) := by decide +kernel
example : valuePipeline goJson toyE toyQ cfgAB (ofString "#{${a} ${op} ${b}} o'clock,validate=startswith=9") .string = .error .validate := by decide +kernel
example : valuePipeline goJson toyE toyQ cfgAB (ofString "#{${a} ${op} ${b}} o'clock,validate=startswith=6") .string = .ok (.str (ofString "6 o'clock")) := by decide +kernel
example : valuePipeline goJson toyE toyQ cfgAB (ofString "${motd:don't panic},validate=max=8") .string = .error .validate := by decide +kernel
example : valuePipeline goJson toyE toyQ cfgAB (ofString "${motd:don't},validate=max=8") .string = .ok (.str (ofString "don't")) := by decide +kernel
example : valuePipeline goJson toyE toyQ cfgAB (ofString "5\" pipe,validate=max=8") .string = .ok (.str (ofString "5\" pipe")) := by decide +kernel

/-! ### the REGENERATED stage functions

    `expr_PostProcessProperties` (with its function literal) and `validate_PostProcessProperties` are the syntax trees of
    the two processors as they are in /repo now; under the interpretation Ioc.SemStages they are the model loops below for
    EVERY node list and every behaviour of the expression engine / validator parameters. -/
section code
open Ioc.Go Ioc.Sem

/-- the expression stage: on TagVal AS THE QUOTE STAGE LEFT IT (`tagValNow` reads the log), each `#{…}` through
    compile → run → format, the bounded loop of `el.ReplaceAllContent`, TagVal stored only after a loop without error -/
theorem C18_code_expr_stage (props : List SProp) (ops : ElOps String) (compile : String → Except String Nat)
    (runP : Nat → Except String Nat) (fmtAny : Nat → Except String String) (bound fuel : Nat)
    (hE : ∀ s, ops.isEmpty s = (s == "")) (hfuel : bound + 1 ≤ fuel) (n : Nat) (w : SW) :
    run (exprPrims props ops compile runP fmtAny bound fuel) Progs.expr_PostProcessProperties
        [.list ((List.range' 0 n).map (fun i => Go.Val.ref i 20)), .str "c", .str "n"] w =
      some (stageResult (stageLoop (exprNode props ops compile runP fmtAny bound fuel) (List.range' 0 n) w).2,
            (stageLoop (exprNode props ops compile runP fmtAny bound fuel) (List.range' 0 n) w).1) :=
  expr_sem props ops compile runP fmtAny bound fuel hE hfuel n w

/-- the expression stage sees what the quote stage stored: after `setTagVal i s` the text it works on is `s` -/
theorem C18_code_expr_reads_quote_result (props : List SProp) (w : SW) (i : Nat) (s : String) :
    tagValNow props (w ++ [.setTagVal i s]) i = s := by
  unfold tagValNow
  have : ∀ (w : SW), lastTagVal (w ++ [.setTagVal i s]) i = some s := by
    intro w
    induction w with
    | nil => simp [lastTagVal]
    | cons ev rest ih => simp [lastTagVal, ih]
  rw [this]; rfl

theorem C18_code_validate_stage (props : List SProp) (vS : Nat → Option String) (vV : Nat → String → Option String)
    (n : Nat) (w : SW) :
    run (validPrims props vS vV) Progs.validate_PostProcessProperties
        [.list ((List.range' 0 n).map (fun i => Go.Val.ref i 20)), .str "c", .str "n"] w =
      some (stageResult (stageLoop (validateNode props vS vV) (List.range' 0 n) w).2,
            (stageLoop (validateNode props vS vV) (List.range' 0 n) w).1) :=
  validate_sem props vS vV n w

/-- what a node decides: only configuration nodes with a `validate` argument, a nil pointer is skipped, a struct goes to
    validator.Struct, any other readable value to validator.Var with the joined constraint text -/
theorem C18_code_validate_node (props : List SProp) (vS : Nat → Option String) (vV : Nat → String → Option String)
    (i : Nat) (w : SW) :
    (validateNode props vS vV i w).2 = (match validateNodeDecision props vS vV i with | .fail e => some e | _ => none) :=
  validateNode_decision props vS vV i w

/-- a node without the argument is never handed to the validator (no event, no error) -/
theorem C18_code_validate_only_when_asked (props : List SProp) (vS : Nat → Option String) (vV : Nat → String → Option String)
    (i : Nat) (w : SW) (h : (spropAt props i).validate = none) : validateNode props vS vV i w = (w, none) := by
  unfold validateNode
  cases (spropAt props i).cfgType <;> simp [h]

/-- a time value (a struct in Go's eyes, but one the validator refuses as a struct) is validated as a VARIABLE — the repair
    of defect D25: before it, a bound, valid `time.Time` with any validate argument failed the start -/
theorem C18_code_validate_time_as_variable (props : List SProp) (vS : Nat → Option String) (vV : Nat → String → Option String)
    (i : Nat) (w : SW) (ts : List String) (hc : (spropAt props i).cfgType = true) (hv : (spropAt props i).validate = some ts)
    (ht : (spropAt props i).isTime = true) (hn : ((spropAt props i).isPtr && (spropAt props i).isNil) = false)
    (hi : (spropAt props i).canIface = true) :
    validateNode props vS vV i w = (w ++ [.vVar i (",".intercalate ts)], vV i (",".intercalate ts)) := by
  unfold validateNode
  simp [hc, hv, ht, hn, hi]

/-- the hand-written validate stage is the same decision (the model has one validator function for structs and variables,
    every bound value can be read) -/
theorem C18_validateStage_is_decision (validate : FVal → List Bytes → Bool) (args : Tag.Args) (ty : FieldTy) (b : Option FVal) :
    validateStage validate args ty b =
      match validateDecision true (Tag.find args kValidate) (isPtrTy ty && decide (b.getD (zero ty) = .nil)) false true
              (none : Option Err) (fun cs => if validate (b.getD (zero ty)) cs then none else some Err.validate) with
      | .fail e => .error e
      | _ => .ok b := by
  unfold validateStage validateDecision
  cases Tag.find args kValidate with
  | none => simp
  | some cs =>
    by_cases hp : isPtrTy ty = true ∧ b.getD (zero ty) = .nil
    · simp [hp.1, hp.2]
    · have : (isPtrTy ty && decide (b.getD (zero ty) = .nil)) = false := by
        cases h1 : isPtrTy ty <;> simp_all
      simp only [hp, if_false, this, Bool.false_eq_true, Bool.not_true]
      cases validate (b.getD (zero ty)) cs <;> simp

end code

/-- the stage order also holds for the configuration points of a USER post-processor: InvokeBeanFactoryPostProcessors
    (regenerated, `C12_code_InvokeBeanFactoryPostProcessors`) SORTS the raw processors BEFORE it creates any of them and
    appends each to the active chain as soon as it is created — so a processor created there is populated by the built-in
    stages that sort before it, in stage order, never by an arbitrary subset in registry order -/
theorem C18_code_processors_sorted_before_creation (sort : (Nat → Nat → Bool) → List Nat → List Nat) (part : Nat → Order.Part)
    (fpFails : Nat → Bool) (drFails : Bool) (lazy : Nat → Bool) (getc : Nat → Option Nat) (isCPP : Nat → Bool)
    (fprocs raw cpp0 : List Nat) :
    Go.run (Sem.regPrims' fpFails drFails (Order.sortOrdered sort part raw) lazy getc isCPP) Progs.del_InvokeBeanFactoryPostProcessors
        [.str "factory", .list (fprocs.map Sem.encP)] { raw := .list (raw.map Sem.encP), cpp := cpp0.map Sem.encP } =
      some (Sem.invokeModel fpFails drFails (Order.sortOrdered sort part raw) lazy getc isCPP fprocs raw cpp0) :=
  Sem.invokeBeanFactoryPostProcessors_sem fpFails drFails _ lazy getc isCPP fprocs raw cpp0

end Ioc.C18
