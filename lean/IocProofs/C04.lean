/-
  C04 — Singleton cache protocol: one early reference, final publication, clean failure.
  PROPERTY THEOREMS ONLY (lemmas live in IocProofs/Lemmas/Registry.lean, M2RefinesM1.lean).

  Model: Ioc.Registry (M1) — container/support/singleton_component_registry.go driven the way
  factory.go:140-162 / :190-198 drive it.  A history "a factory can issue" is a list of operation trees
  (`Act`): plain lookups (GetSingleton, early references allowed or not, the early-reference factory
  succeeding or failing) and doGetComponent (= lookup, then GetSingletonOrCreateByFactory whose factory
  closure registers the early-reference factory, runs a body of further operations, and succeeds or fails).
  Every theorem below is for ALL registries satisfying the invariant, ALL names, ALL trees (every depth):
  the proofs are mutual structural recursions over `Act` / `List Act`.

  `exec r a` = (registry afterwards, trace).  Trace events: `.begin n` (the body of a creation of n is
  entered) and `.ret n result inCreationAfterwards ranEarlyFactory` (a call on n returned).
-/
import IocProofs.Lemmas.Registry
import IocProofs.Lemmas.RegistryRest
import IocProofs.Lemmas.M2RefinesM1
import Ioc.RegistrySkel
import Ioc.Generated.Facts
import IocProofs.Lemmas.SemRegistry
import IocProofs.Lemmas.SemFactory
import IocProofs.Lemmas.SemCreate
import IocProofs.Lemmas.M2StepFault
namespace Ioc.C04
open Ioc Ioc.Reg

/-- Facts obligation: the call skeleton regenerated from singleton_component_registry.go on this run is the
    one the model was written against (dropping RemoveSingleton from the failure path, reordering or dropping
    a Delete in AddSingleton, dropping the L3→L2 promotion in GetSingleton, … change the generated term). -/
theorem C04_registry_skeleton : Facts.registryOps = RegistrySkel.expectedRegistryOps := rfl

/-- The fresh registry satisfies the invariant. -/
theorem C04_inv_empty : Reg.empty.Inv := inv_empty

/-- The invariant (l1 ∩ inCr = ∅, l2 ∪ l3 ⊆ inCr, l2 ∩ l3 = ∅, no duplicates) is preserved by every
    operation tree and every list of operation trees. -/
theorem C04_inv (r : Reg) (h : r.Inv) (as : List Act) : (execs r as).1.Inv ∧ ∀ a, (exec r a).1.Inv :=
  ⟨execs_inv r h as, exec_inv r h⟩

/-- doGetComponent whose first lookup answers (a published or early object, or an error of the early factory)
    is exactly that lookup: no creation is started, no body runs. -/
theorem C04_answered (r : Reg) (n : Name) (early : Except Err Obj) (body : List Act) (res : Except Err Obj)
    (h : (r.get n true early).1 ≠ .ok none) :
    exec r (.getOrCreate n early body res) = exec r (.lookup n true early) := by
  rw [exec_answered r n early body res h, exec_lookup]

/-- One early reference.  Inside one creation of `n` (the trace `evs` of its body, nested creations of other
    names included, at every depth):
    all objects returned for `n` are one and the same; the early-reference factory produced an object at most
    once; no second creation of `n` starts; `n` is reported as in creation after every call on it; and as soon
    as some call has returned an object `o` for `n`, every later call on `n` returns `o` without running the
    factory again. -/
theorem C04_early_once (r : Reg) (hi : r.Inv) (n : Name) (early : Except Err Obj) (body : List Act)
    (res : Except Err Obj) (hmiss : (r.get n true early).1 = .ok none) :
    ∃ evs last, (exec r (.getOrCreate n early body res)).2 = .begin n :: evs ++ [last] ∧
      evs = (execs (r.startCreate n) body).2 ∧
      (∀ a ∈ objsOf n evs, ∀ b ∈ objsOf n evs, a = b) ∧
      okRuns n evs ≤ 1 ∧
      (∀ ev ∈ evs, ev ≠ .begin n) ∧
      (∀ ev ∈ evs, ∀ m ret ic ran, ev = .ret m ret ic ran → m = n → ic = true) ∧
      (∀ pre post o, evs = pre ++ post → o ∈ objsOf n pre →
         ∀ ev ∈ post, ev.name = n → ev = .ret n (.obj o) true false) := by
  obtain ⟨_, h1, h2, _⟩ := get_miss r n true early hmiss
  refine ⟨_, _, by rw [exec_create r n early body res hmiss], rfl, ?_⟩
  have hc : InCreation (r.startCreate n) n :=
    ⟨by simpa using h1, Or.inr (by rw [startCreate_eq r n h1]; simp)⟩
  obtain ⟨s, _⟩ := execs_early _ (hi.startCreate n h2) n hc body
  have h2' : (r.startCreate n).l2? n = none := by simpa using h2
  rw [h2'] at s
  obtain ⟨p1, p2, p3, p4⟩ := earlyRun_spec n none _ _ s
  refine ⟨?_, p2, p3, p4, ?_⟩
  · intro a ha b hb
    have := p1 a ha
    rw [p1 b hb] at this
    exact (Option.some.inj this).symm
  · intro pre post o hsplit ho ev hev hname
    rw [hsplit, earlyRun_append] at s
    cases hp : earlyRun n none pre with
    | none => simp [hp] at s
    | some c' =>
      simp only [hp, Option.bind_some] at s
      have hc' : c' = some o := (earlyRun_spec n none pre c' hp).1 o ho
      subst hc'
      exact (earlyRun_some n o post _ s).2.1 ev hev hname

/-- Final publication.  After a creation of `n` whose factory returned `o`: `o` is the published instance,
    `n` is not in creation, has no early reference and no early-reference factory; the call returned `o`. -/
theorem C04_published (r : Reg) (n : Name) (early : Except Err Obj) (body : List Act) (o : Obj)
    (hmiss : (r.get n true early).1 = .ok none) :
    let x := exec r (.getOrCreate n early body (.ok o))
    x.1.l1? n = some o ∧ n ∉ x.1.inCr ∧ n ∉ x.1.l3 ∧ x.1.l2? n = none ∧
    x.2.getLast? = some (.ret n (.obj o) false false) := by
  simp only [exec_create r n early body (.ok o) hmiss]
  refine ⟨by simp, by simp, by simp, by simp, ?_⟩
  simp only [Ret.ofRes, mem_inCr_endCreate_ok, isInCreation_eq, ne_eq, not_true_eq_false, and_false, decide_false]
  rw [List.getLast?_concat]

/-- Stability.  Once `o` is published under `n`, in EVERY later history every lookup / doGetComponent of `n`
    returns `o`, reports `n` as not in creation and runs no early-reference factory; no body of a
    doGetComponent of `n` is run; and `o` stays published. -/
theorem C04_stable (r : Reg) (hi : r.Inv) (n : Name) (o : Obj) (h : r.l1? n = some o) (as : List Act) :
    (∀ ev ∈ (execs r as).2, ev.name = n → ev = .ret n (.obj o) false false) ∧
    .begin n ∉ (execs r as).2 ∧
    (execs r as).1.l1? n = some o := by
  refine ⟨execs_stable r hi n o h as, ?_, execs_l1_mono r n o h as⟩
  intro hb
  have := execs_stable r hi n o h as _ hb rfl
  cases this

/-- Publication and stability together: after a successful creation, every later history sees only `o`. -/
theorem C04_published_forever (r : Reg) (hi : r.Inv) (n : Name) (early : Except Err Obj) (body : List Act) (o : Obj)
    (hmiss : (r.get n true early).1 = .ok none) (as : List Act) :
    let r' := (exec r (.getOrCreate n early body (.ok o))).1
    (∀ ev ∈ (execs r' as).2, ev.name = n → ev = .ret n (.obj o) false false) ∧ .begin n ∉ (execs r' as).2 := by
  intro r'
  have hp := (C04_published r n early body o hmiss).1
  have hi' : r'.Inv := exec_inv r hi _
  exact ⟨(C04_stable r' hi' n o hp as).1, (C04_stable r' hi' n o hp as).2.1⟩

/-- Clean failure.  After a creation of `n` whose factory failed: `n` is in none of the four containers and
    the call returned the error; a following lookup (early references allowed or not) returns nil and changes
    nothing; a following doGetComponent runs its body again. -/
theorem C04_clean_failure (r : Reg) (n : Name) (early : Except Err Obj) (body : List Act) (x : Err)
    (hmiss : (r.get n true early).1 = .ok none) :
    let y := exec r (.getOrCreate n early body (.error x))
    (y.1.l1? n = none ∧ y.1.l2? n = none ∧ n ∉ y.1.l3 ∧ n ∉ y.1.inCr) ∧
    y.2.getLast? = some (.ret n .err false false) ∧
    (∀ b e, exec y.1 (.lookup n b e) = (y.1, [.ret n .none false false])) ∧
    (∀ e body' res', (exec y.1 (.getOrCreate n e body' res')).2.head? = some (.begin n)) := by
  intro y
  have ha : Absent y.1 n := by
    simp only [y, exec_create r n early body (.error x) hmiss]
    exact ⟨by simp, by simp, by simp, by simp⟩
  refine ⟨⟨ha.l1, ha.l2, ha.l3, ha.inCr⟩, ?_, ?_, ?_⟩
  · simp only [y, exec_create r n early body (.error x) hmiss]
    simp only [Ret.ofRes, endCreate_err, mem_inCr_remove, isInCreation_eq, ne_eq, not_true_eq_false, and_false, decide_false]
    rw [List.getLast?_concat]
  · intro b e
    obtain ⟨hg, hev⟩ := lookupEv_absent y.1 n ha b e
    rw [exec_lookup, hev, hg]
  · intro e body' res'
    have hg := (lookupEv_absent y.1 n ha true e).1
    rw [exec_create y.1 n e body' res' (by rw [hg])]
    simp

/-- Clean failure, for every later history: after the failed creation, until a new creation of `n` begins,
    every call on `n` returns nil (never an object, in particular never the half-built one), reports `n` as not
    in creation and runs no early-reference factory; and if no creation of `n` begins at all, `n` is still in
    none of the four containers at the end. -/
theorem C04_clean_failure_forever (r : Reg) (n : Name) (early : Except Err Obj) (body : List Act) (x : Err)
    (hmiss : (r.get n true early).1 = .ok none) (as : List Act) :
    let y := (exec r (.getOrCreate n early body (.error x))).1
    absentRun n (execs y as).2 = true ∧
    (.begin n ∉ (execs y as).2 → Absent (execs y as).1 n) := by
  intro y
  have ha : Absent y n := by
    simp only [y, exec_create r n early body (.error x) hmiss]
    exact ⟨by simp, by simp, by simp, by simp⟩
  obtain ⟨s, c⟩ := execs_absent y n ha as
  refine ⟨s, fun hb => c ?_⟩
  cases h : hasBegin n (execs y as).2 with
  | false => rfl
  | true => exact absurd ((hasBegin_iff n _).mp h) hb

/-- What the RemoveSingleton call on the failure path buys: with the failure path as it was before the repair
    (`return nil, err` only), a creation of 1 that handed out its early reference and then failed leaves that
    half-built object in the early cache — a later lookup returns it and 1 is still reported as in creation —
    while the repaired path returns nil. -/
theorem C04_clean_failure_needs_remove :
    let e : Obj := ⟨1, 7⟩
    let r2 := ((Reg.empty.startCreate 1).get 1 true (.ok e)).2
    let bad := r2.endCreateNoCleanup 1 (.error .fail)
    let good := r2.endCreate 1 (.error .fail)
    Ret.ofGet (bad.get 1 false (.error .fail)).1 = .obj e ∧ bad.isInCreation 1 = true ∧
    Ret.ofGet (good.get 1 false (.error .fail)).1 = .none ∧ good.isInCreation 1 = false := by
  decide

/-! ### the factory machine uses this protocol (refinement M2 → M1)

  The factory machine Ioc.Container (M2, the model behind C01–C03, C05, C09) inlines its cache moves.  They are the
  operations of this registry model, in the pattern of doGetComponent: `M2.Rf.Abs st r` — the registry `r` has the same
  l1 / l2 (objects translated by `toM1`), `n ∈ r.l3 ↔ st.l3 n`, `n ∈ r.inCr ↔ n is on the creation stack`.
  `M2.Rf.Proto r` — `r` is reachable from `Reg.empty` by `get n true _`, `startCreate n` after a `get` that returned nil,
  and `endCreate n res` for an `n` in creation. -/

/-- Every reachable state of the factory machine — any scenario, any number of steps, failed or not — has a registry
    abstraction produced by protocol operations only; in particular it satisfies the registry invariant `Reg.Inv`. -/
theorem C04_machine_uses_protocol (sc : M2.Scen) (k : Nat) :
    ∃ r : Reg, M2.Rf.Abs (M2.run sc k (M2.init sc)) r ∧ M2.Rf.Proto r ∧ r.Inv := by
  obtain ⟨r, ha, hp⟩ := M2.Rf.run_refines sc k
  exact ⟨r, ha, hp, hp.inv⟩

/-- `M2.lookup` is `GetSingleton(c, true)`: same answer (object / nil / error), and the states stay related. -/
theorem C04_machine_lookup (sc : M2.Scen) (st : M2.St) (r : Reg) (c : Nat) (h : M2.Rf.Abs st r) :
    (∀ o st', M2.lookup sc st c = .hit o st' →
      (r.get c true (M2.Rf.earlyOf sc c)).1 = .ok (some (M2.Rf.toM1 o)) ∧
      M2.Rf.Abs st' (r.get c true (M2.Rf.earlyOf sc c)).2) ∧
    (M2.lookup sc st c = .miss → r.get c true (M2.Rf.earlyOf sc c) = (.ok none, r)) ∧
    (∀ st', M2.lookup sc st c = .err st' →
      r.get c true (M2.Rf.earlyOf sc c) = (.error .fail, r) ∧ M2.Rf.Abs st' r) :=
  M2.Rf.lookup_refines sc st r c h

/-- the cache part of `M2.enter` (push a frame, register the early-reference factory) is `startCreate` =
    `beginCreate` + `addFactory`; `M2.publish` is `endCreate (ok pub)`; `M2.failAt` is `endCreate (error)` for every
    creation in progress, innermost first -/
theorem C04_machine_moves (st : M2.St) (r : Reg) (h : M2.Rf.Abs st r) :
    (∀ c, st.l1 c = none → M2.Rf.Abs (M2.Lc.push st c) (r.startCreate c)) ∧
    (∀ f rest pub, st.stack = f :: rest → (M2.Lc.snames st).Nodup →
      M2.Rf.Abs (M2.publish st f.name pub rest) (r.endCreate f.name (.ok (M2.Rf.toM1 pub)))) ∧
    (∀ x, (∀ n ∈ M2.Lc.snames st, st.l1 n = none) →
      M2.Rf.Abs (M2.failAt st x) ((M2.Lc.snames st).foldl (fun r m => r.endCreate m (.error .fail)) r)) :=
  ⟨fun c h1 => M2.Rf.push_refines st r c h h1,
   fun f rest pub hs hnd => M2.Rf.publish_refines st r f rest pub h hs hnd,
   fun x hoff => M2.Rf.failAt_refines st r x h hoff⟩

/-- the hypothesis `Abs st r` is satisfiable: the initial machine state and the empty registry -/
example (sc : M2.Scen) : M2.Rf.Abs (M2.init sc) Reg.empty := M2.Rf.abs_init sc

/-! ### non-vacuity: concrete, non-trivial histories -/

/-- create 1 { lookup 1; lookup 1; create 2 { lookup 1 } ok } fails ; lookup 1 -/
def demo : List Act :=
  [.getOrCreate 1 (.ok ⟨1, 5⟩)
     [.lookup 1 true (.ok ⟨1, 5⟩), .lookup 1 true (.ok ⟨1, 9⟩),
      .getOrCreate 2 (.error .fail) [.lookup 1 true (.error .fail)] (.ok ⟨2, 0⟩)]
     (.error .fail),
   .lookup 1 true (.error .fail)]

-- one early object seen three times (the factory ran once), 2 published, then `err`, then `nil`
example : (execs Reg.empty demo).2 =
    [.begin 1, .ret 1 (.obj ⟨1, 5⟩) true true, .ret 1 (.obj ⟨1, 5⟩) true false,
     .begin 2, .ret 1 (.obj ⟨1, 5⟩) true false, .ret 2 (.obj ⟨2, 0⟩) false false,
     .ret 1 .err false false, .ret 1 .none false false] := by decide
example : (execs Reg.empty demo).1 = { l1 := [(2, ⟨2, 0⟩)] } := by decide
-- the hypothesis of C04_early_once / C04_published / C04_clean_failure holds on the fresh registry
example : (Reg.empty.get 1 true (.ok ⟨1, 5⟩)).1 = .ok none := rfl
-- … and inside the body the automaton really sees objects and one run
example : objsOf 1 (execs (Reg.empty.startCreate 1) [.lookup 1 false (.ok ⟨1, 5⟩), .lookup 1 true (.error .fail),
    .lookup 1 true (.ok ⟨1, 5⟩), .getOrCreate 1 (.ok ⟨1, 6⟩) [] (.ok ⟨1, 7⟩), .lookup 1 false (.ok ⟨1, 8⟩)]).2
    = [⟨1, 5⟩, ⟨1, 5⟩, ⟨1, 5⟩] := by decide
-- a failed creation followed by a second attempt that succeeds: the body runs again, then 1 is stable
example : (execs Reg.empty [.getOrCreate 1 (.ok ⟨1, 0⟩) [] (.error .fail), .getOrCreate 1 (.ok ⟨1, 1⟩) [] (.ok ⟨1, 2⟩),
    .getOrCreate 1 (.ok ⟨1, 3⟩) [.lookup 2 true (.ok ⟨2, 0⟩)] (.ok ⟨1, 4⟩)]).2 =
    [.begin 1, .ret 1 .err false false, .begin 1, .ret 1 (.obj ⟨1, 2⟩) false false, .ret 1 (.obj ⟨1, 2⟩) false false] := by decide
-- the hypothesis of C04_stable is reachable
example : (execs Reg.empty [.getOrCreate 1 (.ok ⟨1, 0⟩) [] (.ok ⟨1, 2⟩)]).1.l1? 1 = some ⟨1, 2⟩ := by decide

/-! ### the tie to the code: the registry model IS the regenerated program

`Ioc.Progs.reg_*` are the syntax trees of the six methods of container/support/singleton_component_registry.go,
re-translated from /repo's source on every run (harness/cmd/facts/prog.go) into the MiniGo deep embedding (Ioc.GoSem).
Run by the MiniGo interpreter with the sync2.Map / ConcurrentSets calls read as map and set operations on the three
levels (Ioc.SemRegistry), each of them computes exactly the model function all theorems above are about — for EVERY
registry, name, and behaviour of the factories.  (`C04_registry_skeleton` compares call skeletons only; these compare
behaviour, including which value is tested, stored and returned.) -/

theorem C04_code_AddSingletonFactory (early : Except Err Obj) (body : Sem.Body) (r : Reg) (n m : Nat) :
    Go.run (Sem.regPrims early body) Progs.reg_AddSingletonFactory [.int n, .ref m 0] r = some (.tuple [], r.addFactory n) :=
  Sem.addSingletonFactory_sem early body r n m

theorem C04_code_RemoveSingleton (early : Except Err Obj) (body : Sem.Body) (r : Reg) (n : Nat) :
    Go.run (Sem.regPrims early body) Progs.reg_RemoveSingleton [.int n] r = some (.tuple [], r.remove n) :=
  Sem.removeSingleton_sem early body r n

theorem C04_code_AddSingleton (early : Except Err Obj) (body : Sem.Body) (r : Reg) (n : Nat) (o : Obj) :
    Go.run (Sem.regPrims early body) Progs.reg_AddSingleton [.int n, Sem.encObj o] r = some (.tuple [], r.addSingleton n o) :=
  Sem.addSingleton_sem early body r n o

theorem C04_code_IsSingletonCurrentlyInCreation (early : Except Err Obj) (body : Sem.Body) (r : Reg) (n : Nat) :
    Go.run (Sem.regPrims early body) Progs.reg_IsSingletonCurrentlyInCreation [.int n] r = some (.bool (r.isInCreation n), r) :=
  Sem.isInCreation_sem early body r n

/-- GetSingleton(name, allowEarly) = `Reg.get`: level 1, else level 2, else (when allowed) run the level-3 factory once,
    move its result to level 2 and drop the factory; an error of the factory stores nothing -/
theorem C04_code_GetSingleton (early : Except Err Obj) (body : Sem.Body) (r : Reg) (n : Nat) (b : Bool) :
    Go.run (Sem.regPrims early body) Progs.reg_GetSingleton [.int n, .bool b] r
      = some (Sem.encGet (r.get n b early).1, (r.get n b early).2) :=
  Sem.getSingleton_sem early body r n b

/-- GetSingletonOrCreateByFactory(name, factory) = `beginCreate`, the factory's effect, `endCreate` (publication on
    success, RemoveSingleton on failure) -/
theorem C04_code_GetSingletonOrCreateByFactory (early : Except Err Obj) (body : Sem.Body) (r : Reg) (n : Nat) :
    Go.run (Sem.regPrims early body) Progs.reg_GetSingletonOrCreateByFactory [.int n, .ref n 1] r
      = some (match (r.beginCreate n).1 with
              | some o => (.tuple [Sem.encObj o, .nil], r)
              | none =>
                let x := body (r.beginCreate n).2
                (Sem.encRes x.1, x.2.endCreate n x.1)) :=
  Sem.getSingletonOrCreate_sem early body r n

/-- non-vacuity: the regenerated GetSingleton promotes an early reference from level 3 to level 2 -/
example : Go.run (Sem.regPrims (.ok ⟨1, 5⟩) (fun r => (.error .fail, r))) Progs.reg_GetSingleton [.int 1, .bool true]
    ({ l3 := [1] } : Reg) = some (.tuple [.ref 1 5, .nil], { l2 := [(1, ⟨1, 5⟩)] }) :=
  (Sem.getSingleton_sem (.ok ⟨1, 5⟩) (fun r => (.error .fail, r)) { l3 := [1] } 1 true).trans (by rfl)

/-- doGetComponent (container/factory/factory.go:140-162), regenerated, over the model registry: the lookup with early
    references allowed; an object or an error ends it; otherwise GetSingletonOrCreateByFactory runs the creation between
    `beginCreate` and `endCreate` -/
theorem C04_code_doGetComponent (early : Except Err Obj) (create : Sem.Body) (r : Reg) (n : Nat) :
    Go.run (Sem.facPrims early create) Progs.fac_doGetComponent [.int n] r = some (Sem.doGet r n early create) :=
  Sem.doGetComponent_sem early create r n

/-- … and that is exactly one operation `Act.getOrCreate` of the protocol model: the registry after the regenerated
    doGetComponent — whose creation registers the early-reference factory when the name is in creation and then issues the
    operations `body` — is the registry after `exec`.  So every theorem above about operation trees is a theorem about
    what these regenerated functions do to the three cache levels. -/
theorem C04_exec_is_code (r : Reg) (n : Nat) (early : Except Err Obj) (body : List Act) (res : Except Err Obj) :
    ∃ out, Go.run (Sem.facPrims early (Sem.createOf n body res)) Progs.fac_doGetComponent [.int n] r = some out ∧
      out.2 = (exec r (.getOrCreate n early body res)).1 :=
  ⟨_, Sem.doGetComponent_sem early _ r n, Sem.doGet_is_exec r n early body res⟩

/-- the assumption under which M1 drives the registry ("the factory closure registers the early-reference factory first
    thing, iff the name is in creation", `Reg.startCreate`), proved about the regenerated doCreateComponent: its first
    effectful call is AddSingletonFactory exactly when the component is a singleton, circular references are allowed
    and IsSingletonCurrentlyInCreation(name) — whatever its collaborators do.  (A seeded change that made early exposure
    depend on the component having injection points broke this and started a second creation inside the first.) -/
theorem C04_code_startCreate (d : Sem.DCC) (hc : Sem.dccConsistent d) :
    ∃ out t, Go.run (Sem.dccPrims d) Progs.fac_doCreateComponent [.int d.n, .ref d.n 0] [] = some (out, t) ∧
      (t.head? = some "addFactory" ↔ (d.singleton && d.allow && d.inCrOf d.n) = true) := by
  refine ⟨_, _, Sem.doCreateComponent_sem d hc, ?_⟩
  unfold Sem.createDecision
  cases hx : (d.singleton && d.allow && d.inCrOf d.n) <;> simp only [hx] <;> (repeat' split) <;> simp_all

/-! ### clean failure at every nesting depth (the registry at rest)

  `C04_clean_failure` speaks about the name whose creation failed.  An error usually passes through SEVERAL creations
  (the innermost one fails — e.g. a name without definition was asked for — and every enclosing creation fails with that
  error).  The statement for all of them at once: whenever no creation is running, levels 2 and 3 are EMPTY. -/

/-- Every history that starts at rest (no creation running; e.g. the fresh registry) ends at rest, and then there is no
    early reference and no early-reference factory in the registry at all — of no name, whatever failed inside the history,
    at whatever depth, through however many enclosing creations the error passed.  Hence every lookup afterwards (early
    references allowed or not) answers from the published instances alone — an object only if its creation completed —,
    changes nothing and runs no factory: a half-built instance is never returned as if it had been created. -/
theorem C04_rest_clean (r : Reg) (hi : r.Inv) (h0 : ∀ k, k ∉ r.inCr) (as : List Act) :
    let r' := (execs r as).1
    (∀ k, k ∉ r'.inCr) ∧ (∀ n, r'.l2? n = none ∧ n ∉ r'.l3) ∧
    (∀ n b e, r'.get n b e = (.ok (r'.l1? n), r') ∧ r'.runsEarly n b = false) := by
  intro r'
  obtain ⟨hc, hl⟩ := execs_rest r hi h0 as
  exact ⟨hc, hl, fun n b e => (execs_inv r hi as).rest_get hc n b e⟩

/-- … in particular for every history on the fresh registry (what a factory issues between two calls of its public API). -/
theorem C04_rest_clean_fresh (as : List Act) :
    let r' := (execs Reg.empty as).1
    (∀ k, k ∉ r'.inCr) ∧ (∀ n, r'.l2? n = none ∧ n ∉ r'.l3) ∧
    (∀ n b e, r'.get n b e = (.ok (r'.l1? n), r') ∧ r'.runsEarly n b = false) :=
  C04_rest_clean Reg.empty inv_empty (by simp) as

/-- The marks after an operation tree are among the marks before it: every creation drops its own mark on both exits. -/
theorem C04_marks_dropped (r : Reg) (k : Name) (as : List Act) (h : k ∈ (execs r as).1.inCr) : k ∈ r.inCr :=
  execs_inCr_sub r k as h

/-- What dropping ONLY the mark on the failure path would do to an enclosing creation (a seeded change did this whenever
    the error's cause chain contained "unknown name", which is true of every creation the error passes through): the
    early-reference factory of 1 stays in level 3 while 1 is no longer in creation, and the next lookup runs it and returns
    the half-built object; the real failure path (`endCreate` = RemoveSingleton) answers nil. -/
theorem C04_clean_failure_needs_remove_nested :
    let body := (exec (Reg.empty.startCreate 1) (.getOrCreate 2 (.error .fail) [] (.error .fail))).1
    let bad : Reg := { body with inCr := sdel 1 body.inCr }
    let good := body.endCreate 1 (.error .fail)
    Ret.ofGet (bad.get 1 true (.ok ⟨1, 7⟩)).1 = .obj ⟨1, 7⟩ ∧ bad.isInCreation 1 = false ∧
    Ret.ofGet (good.get 1 true (.ok ⟨1, 7⟩)).1 = .none ∧ good = Reg.empty := by
  decide

/-- non-vacuity: the failure chain of an unknown name through three enclosing creations (one of which had handed out its
    early reference), then lookups of all of them: nil, and the registry is the fresh one -/
example : (execs Reg.empty [.getOrCreate 1 (.error .fail) [.getOrCreate 2 (.error .fail)
              [.lookup 1 true (.ok ⟨1, 0⟩), failChain .fail 3 [4]] (.error .fail)] (.error .fail),
            .lookup 1 true (.ok ⟨1, 0⟩), .lookup 2 true (.ok ⟨2, 0⟩), .lookup 3 false (.error .fail)]) =
    (Reg.empty, [.begin 1, .begin 2, .ret 1 (.obj ⟨1, 0⟩) true true, .begin 3, .begin 4, .ret 4 .err false false,
      .ret 3 .err false false, .ret 2 .err false false, .ret 1 .err false false,
      .ret 1 .none false false, .ret 2 .none false false, .ret 3 .none false false]) := by decide

/-- the last clause of C04 on the factory machine: after a FAILED run, a lookup of a name that is not published
    (`M2.lookupAfter`: the state as the failed run left it, creation resumed for that name) is answered by NOTHING of the
    failed attempt — no early reference (l2) and no early-reference factory (l3) is left (`C09_failed_final`) — so the first
    step is a fresh `enter`: it re-attempts creation (and then reports an error or publishes a completed instance) -/
theorem C04_machine_retry_recreates (sc sc' : M2.Scen) (k x : Nat) (s : M2.Stage) (n : Nat)
    (h : (M2.run sc k (M2.init sc)).status = .failed x s) (hl : (M2.run sc k (M2.init sc)).l1 n = none) :
    M2.step sc' { (M2.run sc k (M2.init sc)) with status := .running, todo := [n], todoBoot := [], stage := .refresh } =
      M2.enter sc' { (M2.run sc k (M2.init sc)) with status := .running, todo := [], todoBoot := [], stage := .refresh } n := by
  obtain ⟨_, hst, hc⟩ := M2.Lc.failed_final sc k x s h
  have h2 := (hc n).1
  have h3 := (hc n).2
  simp [M2.step, hst, M2.lookup, hl, h2, h3]

end Ioc.C04
