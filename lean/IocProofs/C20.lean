/-
  C20 — "Start-up, shutdown and the concurrent containers are free of races"

  (a) Race freedom of the container's own concurrent phases, operationally: the fork/join system of Ioc.Conc with
      the configuration COMPUTED from the regenerated skeletons of applyDefinitionRegistryPostProcessors
      (post_processor_registration_delegate.go:66-95) and App.Close (app/app.go:156-174). A non-atomic access to the
      shared `errs` slice is two steps (accBegin, accEnd); a race is a reachable state in which two threads are
      inside a conflicting access, or main reads `errs` while a worker can still write it.
  (b) sync2.Map / ConcurrentSets (util/sync2/map.go, util/list/concurrent_set.go; generic_concurrent_set.go is the same
      code over a type parameter): every method is the primitive sequence read from the regenerated facts; a
      history is an interleaving of primitive steps of any number of threads.

  PARTIAL BY NATURE — what this model cannot exhibit and the -race harness (sub `conc`) is there for:
    * the Go memory model: the model is sequentially consistent; that "no two conflicting accesses in progress at
      the same time in any SC interleaving" equals "no two conflicting accesses unordered by happens-before" is the
      standard assumption, not proved here;
    * the internals of sync.Map, sync.Mutex, sync.WaitGroup: each primitive is ASSUMED atomic and correct;
    * what the scanners/closers themselves touch (registry keys, Metas): the call is one opaque step (C20_scan_own_data
      of the design is not stated: the model has no memory locations besides `errs`);
    * scheduler fairness, panics inside goroutines, Range callbacks that stop early.
  KNOWN FINDING KF-C20-1 (`range-not-atomic`): C20_range_not_atomic — Range is regular, not atomic.
-/
import IocProofs.Lemmas.ConcPaths
import IocProofs.Lemmas.ConcMap
import IocProofs.Lemmas.ConcLen
import IocProofs.Lemmas.ConcReg
import IocProofs.Lemmas.ConcPref
import IocProofs.Lemmas.SemSync2
import IocProofs.Lemmas.ConcNinth
import IocProofs.Lemmas.SemFacAccess
import IocProofs.Lemmas.SemTypeId

namespace Ioc.C20
open Ioc.Conc

/-- configurations read from the regenerated skeletons -/
def scanCfg : FanCfg := (scanShape Facts.scanSkel).cfg
def closeCfg : FanCfg := (closeShape Facts.closeSkel).cfg

/-- proof obligations on the regenerated terms: the scan round is Add(len) / goroutine per component with deferred Done /
    `errs = append(…)` between Lock and Unlock / Wait before `errs` is read; Close is the C14 skeleton and its goroutine
    writes no captured variable; every sync2.Map / ConcurrentSets method is the expected primitive sequence. -/
theorem C20_skeletons :
    scanShape Facts.scanSkel = expectedScanShape ∧ closeShape Facts.closeSkel = expectedCloseShape ∧
    (∀ op, factProgs op = expectedProgs op) := by
  refine ⟨by decide, by decide, ?_⟩
  intro op
  cases op <;> (simp only [factProgs, expectedProgs]; decide)

/-- GenericConcurrentSets (generic_concurrent_set.go) is ConcurrentSets over a type parameter: the same primitive per
    method, so the theorems about put/exists_/remove are about both -/
theorem C20_generic_set_same :
    ∀ name, name ∈ ["Put", "Exists", "Remove"] →
      methodProg Facts.genericConcurrentSetMethods name = methodProg Facts.concurrentSetMethods name := by decide

theorem scanCfg_joined : scanCfg.Joined := by
  unfold scanCfg; rw [C20_skeletons.1]; exact ⟨rfl, rfl, rfl, rfl⟩

theorem scanCfg_guarded : scanCfg.guarded = true := by
  unfold scanCfg; rw [C20_skeletons.1]; rfl

theorem closeCfg_joined : closeCfg.Joined := by
  unfold closeCfg; rw [C20_skeletons.2.1]; exact ⟨rfl, rfl, rfl, rfl⟩

theorem factProgs_eq : factProgs = expectedProgs := funext C20_skeletons.2.2

/-- The scanning round is data-race free — for every number of components, every subset of failing scanners (also all
    at the same time), every schedule: (1) never two workers inside the access to `errs`; (2) when main reads `errs`,
    every worker has finished (so no access is in progress or still to come), every scanner ran exactly once, and the
    WaitGroup counter is 0 again — the initial condition of the next processor's round. -/
theorem C20_scan_drf (n : Nat) (fails : Nat → Bool) (s : St) (h : Reach scanCfg n fails s) :
    (∀ i j, inErrs s i → inErrs s j → i = j) ∧
    (mainReadsErrs s → (∀ i, i < n → s.wpc i = .finished ∧ s.calls i = 1) ∧ (∀ i, inCrit (s.wpc i) = false) ∧ s.wg = 0) := by
  refine ⟨?_, ?_⟩
  · intro i j hi hj
    have hm := minv_reach scanCfg_guarded h
    have h1 := hm i (by rw [hi]; rfl)
    have h2 := hm j (by rw [hj]; rfl)
    rw [h1] at h2
    exact Option.some.inj h2
  · intro hret
    obtain ⟨hall, hwg⟩ := joined_all_once scanCfg_joined n fails s h hret
    have hinv := (finv_reach scanCfg_joined h).1
    refine ⟨fun i hi => ⟨(hall i hi).2, (hall i hi).1⟩, ?_, hwg⟩
    intro i
    by_cases hi : i < n
    · rw [(hall i hi).2]; rfl
    · have : s.spawned ≤ i := by have := hinv.sp_le; omega
      rw [hinv.unsp i this]; rfl

/-- What the mutex buys (the code before repair 13b5e08): the same skeleton with the append outside Lock/Unlock.
    With two failing scanners there is a schedule in which both are inside the access at the same time. -/
def unguardedScanCfg : FanCfg := ({ expectedScanShape with errsGuarded := false } : ScanShape).cfg

theorem C20_scan_race_unguarded (n : Nat) (hn : 2 ≤ n) (fails : Nat → Bool) (h0 : fails 0 = true) (h1 : fails 1 = true) :
    ∃ s, Reach unguardedScanCfg n fails s ∧ inErrs s 0 ∧ inErrs s 1 := by
  let s0 : St := { init with mainPc := 1, wg := init.wg + (if unguardedScanCfg.addFirst then (n : Int) else 0) }
  have hs0 : Steps unguardedScanCfg n fails init s0 := Steps.tail _ _ _ (Steps.refl init) (Step.add init rfl)
  obtain ⟨s1, hs1, _, _, hw1, _, _, _⟩ := main_spawns unguardedScanCfg rfl n fails 2 s0 rfl (by simp [s0, init]; omega)
  have hr0 : s1.wpc 0 = .ready := by rw [hw1 0, if_pos (by simp [s0, init])]
  have hr1 : s1.wpc 1 = .ready := by rw [hw1 1, if_pos (by simp [s0, init])]
  obtain ⟨s2, hs2, ha0, o2⟩ := worker_to_inAcc_unguarded unguardedScanCfg rfl rfl n fails s1 0 h0 hr0
  have hr1' : s2.wpc 1 = .ready := by rw [o2.wpc 1 (by decide)]; exact hr1
  obtain ⟨s3, hs3, ha1, o3⟩ := worker_to_inAcc_unguarded unguardedScanCfg rfl rfl n fails s2 1 h1 hr1'
  refine ⟨s3, Steps.trans hs0 (Steps.trans hs1 (Steps.trans hs2 hs3)), ?_, ha1⟩
  show s3.wpc 0 = .inAcc
  rw [o3.wpc 0 (by decide)]; exact ha0

/-- Close is data-race free: its goroutines write no variable captured from Close (regenerated shape), so no worker is
    ever inside an access to shared data — for every n, error subset, schedule — and main's continuation (return)
    happens only after every goroutine has finished. -/
theorem C20_close_drf (n : Nat) (errs : Nat → Bool) (s : St) (h : Reach closeCfg n errs s) :
    (∀ i, inCrit (s.wpc i) = false) ∧ (mainReturned s → ∀ i, i < n → s.wpc i = .finished) := by
  have hc : closeCfg.crit = false := by unfold closeCfg; rw [C20_skeletons.2.1]; rfl
  exact ⟨nocrit_reach hc h, fun hret i hi => ((joined_all_once closeCfg_joined n errs s h hret).1 i hi).2⟩

/-! ### the concurrent map and set -/

/-- Methods that are one sync.Map primitive are linearizable at that primitive. For every number of threads, every
    queue of Load/Store/LoadOrStore/Delete/Put/Exists/Remove calls per thread, every initial map and every schedule of
    primitive steps: the completed calls, taken in the order of their primitive steps (`hist`, newest first — a step
    lies between the call's invocation and its return, so this order respects real-time order), form a legal
    sequential history: every recorded result is the sequential specification's, and the history ends in the
    current map. -/
theorem C20_single_primitive_linearizable (m0 : MapSt) (queue : Nat → List Op)
    (hq : ∀ t op, op ∈ queue t → op.single = true) (sched : List Nat) :
    Explains m0 (run factProgs (Sys.start m0 queue) sched).hist (run factProgs (Sys.start m0 queue) sched).map := by
  rw [factProgs_eq]
  exact run_explained expectedProgs m0 queue (fun t op h => good_single op (hq t op h)) sched

/-- The repaired LoadOrStoreFn — the regenerated sequence [Load, f, LoadOrStore] — is linearizable too (at the Load
    when it hits, else at the LoadOrStore), also mixed with all the single-primitive methods. -/
theorem C20_loadOrStoreFn_linearizable (m0 : MapSt) (queue : Nat → List Op)
    (hq : ∀ t op, op ∈ queue t → op.single = true ∨ ∃ k v, op = .loadOrStoreFn k v) (sched : List Nat) :
    Explains m0 (run factProgs (Sys.start m0 queue) sched).hist (run factProgs (Sys.start m0 queue) sched).map := by
  rw [factProgs_eq]
  refine run_explained expectedProgs m0 queue (fun t op h => ?_) sched
  rcases hq t op h with hs | ⟨k, v, rfl⟩
  · exact good_single op hs
  · exact good_lofn k v

/-- … so a load-or-store never lets two callers both win: any number of callers, any number of LoadOrStoreFn calls each
    on one key, any value functions, any initial map, any schedule — at most one call returns loaded = false. -/
theorem C20_loadOrStoreFn_one_winner (k : Nat) (m0 : MapSt) (queue : Nat → List Op)
    (hq : ∀ t op, op ∈ queue t → ∃ v, op = .loadOrStoreFn k v) (sched : List Nat) :
    ((run factProgs (Sys.start m0 queue) sched).hist.filter isWin).length ≤ 1 := by
  have hex := C20_loadOrStoreFn_linearizable m0 queue (fun t op h => Or.inr (let ⟨v, hv⟩ := hq t op h; ⟨k, v, hv⟩)) sched
  have hops : ∀ e, e ∈ (run factProgs (Sys.start m0 queue) sched).hist → ∃ v, e.2.1 = .loadOrStoreFn k v := by
    -- every completed call was taken from a queue
    have key : ∀ (sched : List Nat) (s : Sys),
        (∀ t op, op ∈ s.queue t → ∃ v, op = .loadOrStoreFn k v) → (∀ t c, s.cur t = some c → ∃ v, c.op = .loadOrStoreFn k v) →
        (∀ e, e ∈ s.hist → ∃ v, e.2.1 = .loadOrStoreFn k v) →
        ∀ e, e ∈ (run factProgs s sched).hist → ∃ v, e.2.1 = .loadOrStoreFn k v := by
      intro sched
      induction sched with
      | nil => intro s _ _ h3; exact h3
      | cons t r ih =>
        intro s h1 h2 h3
        refine ih (tstep factProgs s t) ?_ ?_ ?_
        · intro t' op hop
          unfold tstep at hop
          split at hop
          · split at hop
            · exact h1 t' op hop
            · rename_i op0 r0 hq0
              simp only [upd] at hop
              split at hop
              · rename_i heq; subst heq; exact h1 t' op (by rw [hq0]; simp [hop])
              · exact h1 t' op hop
          · dsimp only at hop
            split at hop <;> exact h1 t' op hop
        · intro t' c hc
          unfold tstep at hc
          split at hc
          · split at hc
            · exact h2 t' c hc
            · rename_i op0 r0 hq0
              simp only [upd] at hc
              split at hc
              · cases hc; exact h1 t op0 (by rw [hq0]; simp)
              · exact h2 t' c hc
          · rename_i c0 hc0
            obtain ⟨v0, hv0⟩ := h2 t c0 hc0
            have hop0 : (stepCall factProgs s.map c0).2.op = c0.op := by
              rw [factProgs_eq]
              unfold stepCall
              split
              · rfl
              · rename_i ins _
                have e1 : (exec1 ins s.map c0).2.op = c0.op := by
                  unfold exec1
                  repeat' split
                  all_goals rfl
                dsimp only
                split <;> simp [CallSt.ret, e1]
            dsimp only at hc
            split at hc
            · simp only [upd] at hc
              split at hc
              · cases hc
              · exact h2 t' c hc
            · simp only [upd] at hc
              split at hc
              · cases hc; exact ⟨v0, by rw [hop0]; exact hv0⟩
              · exact h2 t' c hc
        · intro e he
          unfold tstep at he
          split at he
          · split at he <;> exact h3 e he
          · rename_i c0 hc0
            dsimp only at he
            split at he
            · simp only [List.mem_cons] at he
              rcases he with rfl | he
              · exact h2 t c0 hc0
              · exact h3 e he
            · exact h3 e he
    exact key sched (Sys.start m0 queue) hq (by intro t c hc; simp [Sys.start] at hc) (by intro e he; simp [Sys.start] at he)
  exact (seq_one_winner k m0 _ _ hex hops).1

/-- The code before repair b226ae7 — [Load, f, Store]: two callers on one key, both pass the Load before either
    stores, both return loaded = false (and the second Store overwrites the first caller's value). -/
theorem C20_loadOrStoreFn_counterexample :
    (run oldProgs (Sys.start emptyMap (fun t => if t < 2 then [.loadOrStoreFn 1 (10 + t)] else [])) [0, 1, 0, 1, 0, 0, 1, 1]).hist
      = [(1, .loadOrStoreFn 1 11, .got (some 11) false), (0, .loadOrStoreFn 1 10, .got (some 10) false)] := by
  decide

/-- the same schedule on the regenerated sequence: one winner, the other caller gets the winner's value -/
example :
    (run factProgs (Sys.start emptyMap (fun t => if t < 2 then [.loadOrStoreFn 1 (10 + t)] else [])) [0, 1, 0, 1, 0, 0, 1, 1]).hist
      = [(1, .loadOrStoreFn 1 11, .got (some 10) true), (0, .loadOrStoreFn 1 10, .got (some 10) false)] := by
  decide

/-- Range is regular: in every run (any threads, any calls, any schedule, any programs) every pair a completed Range
    reports was the key's value in the map at some point of the run. With `s0` = the state at the Range's invocation
    and `sched` = the steps up to its return, "some point of the run" is "some point inside the Range's interval". -/
theorem C20_range_regular (s0 : Sys) (h0 : s0.hist = []) (hp : ∀ t c, s0.cur t = some c → c.res = none ∧ c.seen = [])
    (sched : List Nat) (t : Nat) (ks : List Nat) (l : List (Nat × Nat))
    (hmem : (t, Op.range ks, Res.seen l) ∈ (run factProgs s0 sched).hist) (k v : Nat) (hkv : (k, v) ∈ l) :
    ∃ m, m ∈ mapsAlong factProgs s0 sched ∧ m k = some v := by
  have hinit : RInv [s0.map] s0 :=
    ⟨by simp, fun t c hc => ⟨(hp t c hc).1, by rw [(hp t c hc).2]; intro kv h; cases h⟩, by rw [h0]; intro e he; cases he⟩
  have hfin := rinv_run factProgs sched s0 [s0.map] hinit
  obtain ⟨m, hm, hv⟩ := hfin.done _ hmem l rfl (k, v) hkv
  refine ⟨m, ?_, hv⟩
  simp only [List.mem_append, List.mem_singleton] at hm
  rcases hm with rfl | hm
  · exact head_mem_mapsAlong factProgs s0 sched
  · exact hm

/-- KNOWN FINDING KF-C20-1 (`range-not-atomic`). Map {1↦1, 2↦1}; thread 0: Range; thread 1: Delete 1 then Delete 2.
    Schedule: Range visits key 1, then both Deletes run, then Range visits key 2. The Range reports {1}.
    The Deletes are ordered (same thread), so a sequential history is one of the three below — and none of them is
    legal: an atomic Range sees {1,2}, {2} or {} . Hence this (regular) Range is not linearizable; the decidable
    checker used on the harness's recorded histories says the same. Documented sync.Map behaviour. -/
def m12 : MapSt := upd (upd emptyMap 1 (some 1)) 2 (some 1)
def rangeHist : List (Nat × Op × Res) :=
  (run factProgs (Sys.start m12 (fun t => if t = 0 then [.range [1, 2]] else if t = 1 then [.delete 1, .delete 2] else []))
    [0, 0, 1, 1, 1, 1, 0]).hist

theorem C20_range_not_atomic :
    rangeHist = [(0, .range [1, 2], .seen [(1, 1)]), (1, .delete 2, .unit), (1, .delete 1, .unit)] ∧
    (∀ h, h ∈ [ [(1, Op.delete 2, Res.unit), (1, .delete 1, .unit), (0, .range [1, 2], .seen [(1, 1)])],
                [(1, Op.delete 2, Res.unit), (0, .range [1, 2], .seen [(1, 1)]), (1, .delete 1, .unit)],
                [(0, Op.range [1, 2], Res.seen [(1, 1)]), (1, .delete 2, .unit), (1, .delete 1, .unit)] ] →
          ¬ ∃ m, Explains m12 h m) ∧
    linearizableB m12 [⟨.range [1, 2], .seen [(1, 1)], 0, 6⟩, ⟨.delete 1, .unit, 2, 3⟩, ⟨.delete 2, .unit, 4, 5⟩] = false := by
  refine ⟨by decide, ?_, by decide⟩
  intro h hmem
  have hnone : replay m12 h = none := by
    simp only [List.mem_cons, List.not_mem_nil, or_false] at hmem
    rcases hmem with rfl | rfl | rfl <;> decide
  rintro ⟨m, he⟩
  rw [replay_of_explains m12 h m he] at hnone
  cases hnone

/-! ### `Length()` of ConcurrentSets / GenericConcurrentSets (util/list/concurrent_set.go:69-71, generic_concurrent_set.go:69-71)

Recorded set histories contain `Length` calls (harness token `N`), and every set history ends with a QUIESCENT `Length`
(after all goroutines have returned); the `setlen` scenarios release several goroutines that Remove the same present key
(and Put / Remove other keys) and read Length(), len(ToArray()) and Exists afterwards.  The specification: Length is the
number of keys present.  (A seeded change kept an atomic size counter and decremented it in Remove after a separate
Load: two concurrent Removes of one present key both decrement, and every later Length is one too small — no sequential
order of the calls explains that, `C20_length_drift_not_linearizable`.) -/

/-- sequential specification of `Length`: the number of keys (of the universe) present; the set is left as it is -/
theorem C20_length_counts_present (ks : List Nat) (m : MapSt) :
    (HOp.length ks).spec m = (m, .got (some (presentKeys m ks).length) false) := by
  simp only [HOp.spec, snapshot_length]

/-- the checker for histories with `Length` calls decides, on a history without them, exactly what `linearizableB` decides -/
theorem C20_hist_conservative (m0 : MapSt) (h : List Rec) :
    linearizableHB m0 (h.map Rec.lift) = linearizableB m0 h :=
  linearizableHB_lift m0 h

/-- Put / Remove calls in which no key is both put and removed: the set they leave is determined by WHICH keys are
    removed and put — removed keys are absent, put keys present, every other key as before. -/
theorem C20_setlen_final (l : List Op) (m0 : MapSt)
    (hset : ∀ op, op ∈ l → op.setOnly = true) (hdisj : ∀ k, k ∈ removedKeys l → k ∉ putKeys l) (k : Nat) :
    (l.foldl (fun m op => (op.spec m).1) m0) k =
      if k ∈ removedKeys l then none else if k ∈ putKeys l then some 0 else m0 k :=
  setFold_final l m0 hset hdisj k

/-- … hence every order of the same calls — the linearization order of ANY schedule of the goroutines of a `setlen`
    scenario, or the thread-by-thread order `seqFinal` uses — leaves the same set, and so the same quiescent Length. -/
theorem C20_setlen_order_irrelevant (queues : List (List Op)) (l : List Op) (m0 : MapSt) (hp : queues.flatten.Perm l)
    (hset : ∀ op, op ∈ queues.flatten → op.setOnly = true)
    (hdisj : ∀ k, k ∈ removedKeys queues.flatten → k ∉ putKeys queues.flatten) :
    l.foldl (fun m op => (op.spec m).1) m0 = seqFinal m0 queues :=
  (setFold_perm queues.flatten l m0 hp hset hdisj).symm

def m123 : MapSt := upd (upd (upd emptyMap 1 (some 0)) 2 (some 0)) 3 (some 0)

/-- the drift: set {1,2,3}, two overlapping Remove(1), then a quiescent Length() = 1 — no sequential order explains it;
    Length() = 2 is what every order gives. -/
theorem C20_length_drift_not_linearizable :
    linearizableHB m123 [⟨.op (.remove 1), .unit, 0, 3⟩, ⟨.op (.remove 1), .unit, 1, 2⟩, ⟨.length [1, 2, 3], .got (some 1) false, 4, 5⟩] = false ∧
    linearizableHB m123 [⟨.op (.remove 1), .unit, 0, 3⟩, ⟨.op (.remove 1), .unit, 1, 2⟩, ⟨.length [1, 2, 3], .got (some 2) false, 4, 5⟩] = true := by
  decide

-- non-vacuity of C20_setlen_order_irrelevant: eight goroutines removing key 1, one putting key 4
example : (∀ op, op ∈ ((List.replicate 8 [Op.remove 1] ++ [[Op.put 4, Op.remove 2]]).flatten) → op.setOnly = true) ∧
    (∀ k, k ∈ removedKeys ((List.replicate 8 [Op.remove 1] ++ [[Op.put 4, Op.remove 2]]).flatten) →
          k ∉ putKeys ((List.replicate 8 [Op.remove 1] ++ [[Op.put 4, Op.remove 2]]).flatten)) ∧
    quiescentObs m123 (List.replicate 8 [Op.remove 1] ++ [[Op.put 4, Op.remove 2]]) [1, 2, 3, 4, 5, 6, 7, 8] = (2, 2, [3, 4]) := by
  decide

/-! ### non-vacuity -/

-- a run of the executable scheduler of the scan round with 4 components, scanners 1 and 3 failing:
-- reachable, main reads errs, both errors were appended
example : Reach scanCfg 4 (fun i => i % 2 == 1) (schedule scanCfg 4 (fun i => i % 2 == 1) 400 5 init) :=
  schedule_sound scanCfg 4 _ 400 5 init
example : (schedule scanCfg 4 (fun i => i % 2 == 1) 400 5 init).mainPc = 3 ∧
    (schedule scanCfg 4 (fun i => i % 2 == 1) 400 5 init).acc = 2 := by decide

-- a history that satisfies the hypotheses of C20_single_primitive_linearizable and is not trivial
example : (run factProgs (Sys.start emptyMap (fun t => if t = 0 then [.store 1 5, .load 2] else if t = 1 then [.loadOrStore 1 7, .delete 1] else []))
    [0, 1, 1, 0, 1, 1, 0, 0]).hist.length = 4 := by decide

-- the checker accepts a linearizable overlapping history
example : linearizableB emptyMap [⟨.store 1 5, .unit, 0, 3⟩, ⟨.load 1, .got (some 5) true, 1, 2⟩] = true := by decide

/-! ### the tie to the code: sync2.Map.Load / LoadOrStoreFn (regenerated), one caller at a time

`Ioc.Progs.sync2_Load` / `Ioc.Progs.sync2_LoadOrStoreFn` are the syntax trees of the two methods of util/sync2/map.go,
re-translated from /repo's source on every run (MiniGo, Ioc.GoSem; named results and the bare `return` included).  With the
underlying sync.Map read as an association list whose `Load` / `LoadOrStore` are atomic primitives: `Load` is the lookup;
`LoadOrStoreFn` returns the stored value WITHOUT running the constructor when the key is present, and otherwise runs it
exactly once and finishes with the atomic `LoadOrStore` (the repair of D14 — the seeded changes C20B and C20C rewrote this
function).  What concurrent callers can observe on top of this is the interleaving model above
(`C20_loadOrStoreFn_linearizable`, built from the regenerated primitive sequence). -/

theorem C20_code_Load (fv k : Nat) (w : Sem.MapW) :
    Go.run (Sem.mapBase fv) Progs.sync2_Load [.int k] w =
      some (match alookup k w.m with
            | some v => .tuple [.int v, .bool true]
            | none => .tuple [.nil, .bool false], w) :=
  Sem.sync2_load_sem fv k w

theorem C20_code_LoadOrStoreFn (fv k : Nat) (w : Sem.MapW) :
    Go.run (Sem.mapPrims fv) Progs.sync2_LoadOrStoreFn [.int k, .ref 0 30] w =
      some (match alookup k w.m with
            | some v => (.tuple [.int v, .bool true], w)
            | none => (.tuple [.int fv, .bool false], { m := ainsert k fv w.m, fCalls := w.fCalls + 1 })) :=
  Sem.sync2_loadOrStoreFn_sem fv k w

/-! ### fifth round: the closing phase is over when Close returns; load-or-store of a definition

`closel`: a failing closer's goroutine reports its error to the (user's) logger between the return of `m.Close()` and the
deferred `wg.Done()` (app/app.go:163-166) — in the fork/join system the step `called → post`; `reported` counts the failing
workers that are past it. -/

/-- For every number of closers, every failing subset and every schedule: in every state in which Close has returned, the
    error report of EVERY failing closer is complete — no goroutine of the closing phase has anything left to say to the
    logger once the caller continues. -/
theorem C20_close_reports_before_return (n : Nat) (errs : Nat → Bool) (s : St) (h : Reach closeCfg n errs s)
    (hret : mainReturned s) : reported n errs s = failing n errs :=
  reported_all_finished n errs s ((C20_close_drf n errs s h).2 hret)

/-- What the position of Done buys: with `wg.Done()` NOT deferred to the end of the goroutine (Done before the work is
    finished) there is a schedule in which Close has returned and neither of two failing closers has reported yet. -/
def earlyDoneCfg : FanCfg := ({ expectedCloseShape with doneDeferredInWorker := false } : CloseShape).cfg

theorem C20_close_report_after_return_counterexample :
    ∃ s, Reach earlyDoneCfg 2 (fun _ => true) s ∧ mainReturned s ∧
      reported 2 (fun _ => true) s = 0 ∧ failing 2 (fun _ => true) = 2 := by
  have hc : (fireAll earlyDoneCfg 2 (fun _ => true) [.main, .main, .main, .w 0, .w 1, .main, .main] init).map
      (fun s => (s.mainPc, reported 2 (fun _ => true) s)) = some (3, 0) := by decide
  cases hf : fireAll earlyDoneCfg 2 (fun _ => true) [.main, .main, .main, .w 0, .w 1, .main, .main] init with
  | none => rw [hf] at hc; cases hc
  | some s =>
    rw [hf] at hc
    simp only [Option.map_some, Option.some.injEq, Prod.mk.injEq] at hc
    exact ⟨s, fireAll_sound _ _ _ _ _ _ hf, hc.1, hc.2, by decide⟩

/-- `DefinitionRegistry.GetMetaOrRegister(name, c)` is one `LoadOrStoreFn(name, build c)` on the registry's sync2.Map
    (container/support/component_definition_registry.go:43-50; the regenerated primitive sequence [Load, f, LoadOrStore]).
    Any number of callers of ONE name, any definitions they would build, any initial registry, any schedule: every caller
    that has returned holds the definition the registry keeps under that name — so all of them hold the same one. -/
theorem C20_getMetaOrRegister_one_definition (k : Nat) (m0 : MapSt) (queue : Nat → List Op)
    (hq : ∀ t op, op ∈ queue t → ∃ v, op = .loadOrStoreFn k v) (sched : List Nat) :
    ∀ e, e ∈ (run factProgs (Sys.start m0 queue) sched).hist →
      ∃ w l, e.2.2 = .got (some w) l ∧ (run factProgs (Sys.start m0 queue) sched).map k = some w := by
  have hex := C20_loadOrStoreFn_linearizable m0 queue (fun t op h => Or.inr (let ⟨v, hv⟩ := hq t op h; ⟨k, v, hv⟩)) sched
  have hops := hist_ops_from_queue factProgs (fun op => ∃ v, op = .loadOrStoreFn k v) sched (Sys.start m0 queue) hq
    (by intro t c hc; simp [Sys.start] at hc) (by intro e he; simp [Sys.start] at he)
  exact seq_all_kept k m0 _ _ hex hops

/-- … whereas a check-then-act (look the name up, build, Store — the pre-repair primitive sequence [Load, f, Store]) hands
    two callers that both pass the lookup two DIFFERENT definitions, and the registry keeps only the last one. -/
theorem C20_getMetaOrRegister_check_then_act_counterexample :
    gotVals (run oldProgs (Sys.start emptyMap (gmorQueues 2)) (gmorSched 2)).hist = [11, 10] ∧
    (run oldProgs (Sys.start emptyMap (gmorQueues 2)) (gmorSched 2)).map 1 = some 11 := by
  decide

-- the run the driver makes for `gmor 3 …`: three callers, all past the Load before the first LoadOrStore: one definition,
-- listed once, held by everybody (and the hypotheses of C20_getMetaOrRegister_one_definition hold for these queues)
example : gmorObs 3 = (1, 1, true) := by decide
example : ∀ t op, op ∈ gmorQueues 3 t → ∃ v, op = .loadOrStoreFn 1 v := by
  intro t op h
  unfold gmorQueues at h
  split at h
  · simp only [List.mem_singleton] at h; exact ⟨10 + t, h⟩
  · simp at h

-- the run the driver makes for `closel 3 5 … 7`: closers 0 and 2 fail; at the return of Close both reports are complete
example : reported 3 (fun i => (5 : Nat).testBit i) (schedule closeCfg 3 (fun i => (5 : Nat).testBit i) 200 7 init) = 2 ∧
    (schedule closeCfg 3 (fun i => (5 : Nat).testBit i) 200 7 init).mainPc = 3 := by decide

/-! ### sixth round: the closing phase under the built-in logger

`closeb`: the goroutines of Close report their failing closers through ONE logger object (`syslog.Pref("Application")` is
cached per prefix). The built-in logger (syslog/logger.go:118-142) builds each line in locals of the call and hands it to a
`log.Logger` (serialised by its own mutex), so the report is a step of the goroutine that touches nothing shared:
`C20_close_drf` (no worker is ever inside an access to shared data) and `C20_close_reports_before_return` cover it. What that
privacy buys: -/

/-- The skeleton of Close with ONE memory location that every failing closer's goroutine reads and writes while it reports
    (a scratch buffer kept in the shared logger), outside any lock: for every n ≥ 2 and every failing subset that contains
    closers 0 and 1 there is a schedule in which both are inside their access at the same time — a data race. -/
def sharedScratchCloseCfg : FanCfg := ({ expectedCloseShape with workerWritesShared := true } : CloseShape).cfg

theorem C20_close_shared_scratch_race_counterexample (n : Nat) (hn : 2 ≤ n) (errs : Nat → Bool)
    (h0 : errs 0 = true) (h1 : errs 1 = true) :
    ∃ s, Reach sharedScratchCloseCfg n errs s ∧ inErrs s 0 ∧ inErrs s 1 := by
  let s0 : St := { init with mainPc := 1, wg := init.wg + (if sharedScratchCloseCfg.addFirst then (n : Int) else 0) }
  have hs0 : Steps sharedScratchCloseCfg n errs init s0 := Steps.tail _ _ _ (Steps.refl init) (Step.add init rfl)
  obtain ⟨s1, hs1, _, _, hw1, _, _, _⟩ := main_spawns sharedScratchCloseCfg rfl n errs 2 s0 rfl (by simp [s0, init]; omega)
  have hr0 : s1.wpc 0 = .ready := by rw [hw1 0, if_pos (by simp [s0, init])]
  have hr1 : s1.wpc 1 = .ready := by rw [hw1 1, if_pos (by simp [s0, init])]
  obtain ⟨s2, hs2, ha0, o2⟩ := worker_to_inAcc_unguarded sharedScratchCloseCfg rfl rfl n errs s1 0 h0 hr0
  have hr1' : s2.wpc 1 = .ready := by rw [o2.wpc 1 (by decide)]; exact hr1
  obtain ⟨s3, hs3, ha1, o3⟩ := worker_to_inAcc_unguarded sharedScratchCloseCfg rfl rfl n errs s2 1 h1 hr1'
  refine ⟨s3, Steps.trans hs0 (Steps.trans hs1 (Steps.trans hs2 hs3)), ?_, ha1⟩
  show s3.wpc 0 = .inAcc
  rw [o3.wpc 0 (by decide)]; exact ha0

-- the run the driver makes for `closeb 3 7 … 4`: three closers failing together; at the return of Close all three reports
-- are complete
example : reported 3 (fun i => (7 : Nat).testBit i) (schedule closeCfg 3 (fun i => (7 : Nat).testBit i) 200 4 init) = 3 ∧
    (schedule closeCfg 3 (fun i => (7 : Nat).testBit i) 200 4 init).mainPc = 3 := by decide

/-! ### seventh round: the process-wide prefix cache of `syslog.Pref` across Apps; Range against Delete

`plog`: Apps started one after the other in one process, each with its own logger (app.SetLogger → syslog.SetLogger, which
assigns `_logger`); user scanners and closers log through ONE prefix, `syslog.Pref(p)`, from all goroutines of the parallel
scan / the parallel Close. -/

/-- The regenerated skeleton of `syslog.Pref` (syslog/log.go:57-62): ONE call on the package-level cache,
    `prefCache.LoadOrStoreFn`, then `return` — and no assignment to anything but locals of the call: whatever the cache hands
    out is never written again by `Pref`. -/
theorem C20_pref_skeleton :
    skCallsL Facts.syslogPrefSkel = ["prefCache.LoadOrStoreFn", "return"] ∧ skWritesL Facts.syslogPrefSkel = false := by
  decide

/-- … so the callers of one prefix are callers of one load-or-store. Any number of them, whatever root logger each of them
    read (`_logger` is read inside the value function), any cache, any schedule: every caller that has returned holds the logger
    the cache keeps for the prefix — all callers of a phase are handed ONE logger (oracle `pref-two-loggers`). -/
theorem C20_pref_one_logger (k : Nat) (m0 : MapSt) (queue : Nat → List Op)
    (hq : ∀ t op, op ∈ queue t → ∃ v, op = .loadOrStoreFn k v) (sched : List Nat) :
    ∀ e, e ∈ (run factProgs (Sys.start m0 queue) sched).hist →
      ∃ w l, e.2.2 = .got (some w) l ∧ (run factProgs (Sys.start m0 queue) sched).map k = some w :=
  C20_getMetaOrRegister_one_definition k m0 queue hq sched

/-- The cache outlives the App: once a logger `w` is cached for the prefix, every later caller — any number, any schedule,
    whatever root logger has been installed since (the value `v` each caller would derive) — is handed `w`, and the cache
    still holds `w` afterwards. This is what the code does today across Apps (the observation of `plog`: the lines of App 2
    reach the logger of App 1); it is stated here as a fact about the code, not as something C20 demands. -/
theorem C20_pref_cached_logger_kept (k w : Nat) (m0 : MapSt) (h0 : m0 k = some w) (queue : Nat → List Op)
    (hq : ∀ t op, op ∈ queue t → ∃ v, op = .loadOrStoreFn k v) (sched : List Nat) :
    (run factProgs (Sys.start m0 queue) sched).map k = some w ∧
    ∀ e, e ∈ (run factProgs (Sys.start m0 queue) sched).hist → ∃ l, e.2.2 = .got (some w) l := by
  have hex := C20_loadOrStoreFn_linearizable m0 queue (fun t op h => Or.inr (let ⟨v, hv⟩ := hq t op h; ⟨k, v, hv⟩)) sched
  have hops := hist_ops_from_queue factProgs (fun op => ∃ v, op = .loadOrStoreFn k v) sched (Sys.start m0 queue) hq
    (by intro t c hc; simp [Sys.start] at hc) (by intro e he; simp [Sys.start] at he)
  have hk := seq_cached_stays k w m0 h0 _ _ hex hops
  refine ⟨hk, fun e he => ?_⟩
  obtain ⟨w', l, hr, hw'⟩ := seq_all_kept k m0 _ _ hex hops e he
  rw [hk] at hw'
  cases hw'
  exact ⟨l, hr⟩

/-- What refreshing the shared cache entry IN PLACE would do (`refreshStep`: a caller that finds the entry derived from
    another root writes `entry.root`, then `entry.logger`, without a lock): entry {root 1, logger 1}, the root logger is now 2,
    two callers. Schedule: caller 0 finds the entry stale and writes the root; caller 1 now finds the root up to date and is
    handed the OLD logger; caller 0 writes and returns the new one. Two callers of one phase, two loggers — and caller 1 read
    `entry.root` while caller 0 was between its two writes (a conflicting access with nothing ordering them). -/
theorem C20_pref_refresh_in_place_counterexample :
    let s := refreshRun 2 [0, 0, 1, 0] (⟨1, 1⟩, fun _ => .start)
    s.2 0 = .done 2 ∧ s.2 1 = .done 1 ∧
    (refreshRun 2 [0, 0] (⟨1, 1⟩, fun _ => .start)).2 0 = .wroteRoot ∧ (refreshRun 2 [0, 0] (⟨1, 1⟩, fun _ => .start)).2 1 = .start := by
  decide

-- the run the driver makes for `plog 3 2 2 1 3 …`: three Apps, the prefix first used by App 1's scan: every phase of every
-- App is handed the logger derived from root 1; `plog 4 1 2 2 2 …`: first used by the closers of App 2
example : plogObs 3 2 2 1 3 = (["1", "1", "1"], ["1", "1", "1"]) := by decide
example : plogObs 4 1 2 2 2 = (["-", "-", "-", "-"], ["-", "2", "2", "2"]) := by decide
-- the hypotheses of C20_pref_one_logger / C20_pref_cached_logger_kept hold for the queues of a phase
example : ∀ t op, op ∈ prefQueues 3 2 t → ∃ v, op = .loadOrStoreFn 1 v := by
  intro t op h
  unfold prefQueues at h
  split at h
  · simp only [List.mem_singleton] at h; exact ⟨2, h⟩
  · simp at h

/-- `rdel` / oracle `range-phantom-pair`: C20_range_regular — every pair a Range reports was the key's value at some point of
    the run — is what the oracle evaluates on the real map. The run the driver makes (two rangers, two store/delete rounds):
    no Range reports a pair nobody stored, none reports a key twice, none misses a permanent key. -/
example : rdelObs 2 2 = (0, 0, 0) := by decide

/-! ### ninth round: the factory driven directly

`fdirect`: without the App nobody looks at the definition registry before the parallel scan; every scanning goroutine evaluates
`factory.GetDefinitionRegistry()` itself (post_processor_registration_delegate.go:76). `factory.Default()` stored the registry
in the field before the factory was handed out, the getter is one read of that field (section 9 of Ioc.Conc). -/

/-- Any number of goroutines that read a field nobody writes, in any schedule: every one of them is handed the registry
    `Default()` stored there, and the field still holds it afterwards. -/
theorem C20_registry_getter_one_registry (k w : Nat) (m0 : MapSt) (h0 : m0 k = some w) (queue : Nat → List Op)
    (hq : ∀ t op, op ∈ queue t → op = .load k) (sched : List Nat) :
    (run factProgs (Sys.start m0 queue) sched).map k = some w ∧
    ∀ e, e ∈ (run factProgs (Sys.start m0 queue) sched).hist → e.2.2 = .got (some w) true := by
  have hex := C20_single_primitive_linearizable m0 queue (fun t op h => by rw [hq t op h]; rfl) sched
  have hops := hist_ops_from_queue factProgs (fun op => op = .load k) sched (Sys.start m0 queue) hq
    (by intro t c hc; simp [Sys.start] at hc) (by intro e he; simp [Sys.start] at he)
  obtain ⟨hm, hres⟩ := seq_loads_same k m0 _ _ hex hops
  refine ⟨by rw [hm]; exact h0, fun e he => ?_⟩
  rw [hres e he, h0]; rfl

/-- … so no definition gets lost in the parallel scan: when every goroutine stores its definition in the ONE registry `w`
    it was handed, every one of them is in `w` afterwards, in whatever order the stores arrive. -/
theorem C20_direct_scan_no_definition_lost (w : Nat) (regs : Nat → List Nat) (acts : List (Nat × Nat))
    (h : ∀ a, a ∈ acts → a.1 = w) : ∀ a, a ∈ acts → a.2 ∈ scanStores regs acts w := by
  intro a ha
  have := scanStores_mem acts regs a ha
  rwa [h a ha] at this

/-- A getter that creates the registry when it finds the field empty is a check-then-act (`[Load, f, Store]`) on the field:
    two goroutines that both pass the check are handed two DIFFERENT registries (a write to the field concurrent with the
    other's read: a data race), the field keeps the last one, and the definition the other goroutine stores is in a registry
    nobody holds any more. -/
theorem C20_lazy_registry_counterexample :
    gotVals (run oldProgs (Sys.start emptyMap (gmorQueues 2)) (gmorSched 2)).hist = [11, 10] ∧
    (run oldProgs (Sys.start emptyMap (gmorQueues 2)) (gmorSched 2)).map 1 = some 11 ∧
    scanStores (fun _ => []) [(10, 0), (11, 1)] 11 = [1] := by
  decide

-- the run the driver makes for `fdirect 3 tr …` (five goroutines): nobody lost, everybody handed the registry that is kept;
-- and the hypotheses of the two theorems hold for it
example : fdirectObs 5 = (0, 0) := by decide
example : fieldAfterDefault 1 = some 7 ∧ ∀ t op, op ∈ getterQueues 5 t → op = .load 1 := by
  refine ⟨rfl, fun t op h => ?_⟩
  unfold getterQueues at h
  split at h
  · simpa using h
  · simp at h

/-- factory.Default and the accessors of defaultFactory, regenerated (interpretation Ioc.SemFacAccess): the definition
    registry, the singleton-component registry and the delegate are BUILT WHEN THE FACTORY IS MADE; `GetDefinitionRegistry`
    — called by every goroutine of the parallel definition scan — only READS the member (no lazily created shared state, so
    nothing for the goroutines to race on), and so do the other getters; the setters write exactly the member they name -/
theorem C20_code_factory_accessors (w : Sem.FacObj) (r c p n : Go.Val) :
    Go.run Sem.fdPrims Progs.fac_Default [] w =
      some (.tuple [.str "defaultFactory", .str "new definition registry", .str "new singleton component registry",
                    .str "new delegate", .bool true], w) ∧
    Go.run Sem.faPrims Progs.fac_GetDefinitionRegistry [] w = some (w.definitionRegistry, w) ∧
    Go.run Sem.faPrims Progs.fac_GetConfigure [] w = some (w.configure, w) ∧
    Go.run Sem.faPrims Progs.fac_GetRegisteredComponents [] w = some (w.registeredComponents, w) ∧
    Go.run Sem.faPrims Progs.fac_GetDefinitionRegistryPostProcessors [] w = some (w.defPPs, w) ∧
    Go.run Sem.faPrims Progs.fac_SetRegistry [r] w = some (.tuple [], { w with singletonRegistry := r }) ∧
    Go.run Sem.faPrims Progs.fac_SetConfigure [c] w = some (.tuple [], { w with configure := c }) ∧
    Go.run Sem.faPrims Progs.fac_registerBeanPostProcessors [p, n] w =
      some (.tuple [], { w with beanPPCalls := w.beanPPCalls ++ [(p, n)] }) :=
  ⟨Sem.facDefault_sem w, Sem.facAccessors_sem w r c p n⟩

/-- reflectx.TypeId / Id — on the path of every goroutine of the parallel definition scan (GetMetaOrRegister → NewMeta →
    GetComponentNameWithAlias → Id → TypeId) — are PURE: regenerated, they read nothing but their argument and what reflection
    answers about it, and write nothing (the world of the interpretation is `Unit`: no package-level state to share) -/
theorem C20_code_TypeId_pure (ts : List Sem.TyD) (typeOf : Nat → Nat) (join : String → String → String) (t c : Nat) :
    Go.run (Sem.tiPrims ts typeOf join) Progs.reflectx_TypeId [.ref t 190] () = some (.str (Sem.typeIdOf ts join t), ()) ∧
    Go.run (Sem.tiPrims ts typeOf join) Progs.reflectx_Id [.ref c 0] () = some (.str (Sem.typeIdOf ts join (typeOf c)), ()) :=
  ⟨Sem.typeId_sem ts typeOf join t, (Sem.id_sem ts typeOf join c).2⟩

end Ioc.C20
