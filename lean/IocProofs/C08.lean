/-
  C08 — Qualifier and Primary narrowing applies to every field independently.  PROPERTY THEOREMS ONLY
  (lemmas: IocProofs/Lemmas/Match*.lean).

  Model: Ioc.Match (`narrow` = one iteration of the per-property loop with filterDependencies, `resolveOne`, the loop
  `resolveAll`).  `survivorsOf pop s v a0` is the list the Primary / unnamed loop chooses from: the discovered candidates
  after the qualifier filter and after dropping the holder itself (when somebody else remains).
  `isPrim (byId pop) c` / `isUnn (byId pop) c`: candidate `c` is a Primary / has no custom name.
-/
import IocProofs.Lemmas.MatchPoint
import IocProofs.Lemmas.MatchExamples
import IocProofs.Lemmas.SemMatch
import IocProofs.Lemmas.SemMatchLoop
namespace Ioc.C08
open Ioc Ioc.Tag Ioc.Match

/-- the list the choice is made from, spelled out -/
theorem C08_survivors_def (pop : List Prov) (s : Slot) (v : Bytes) (a0 : Args) :
    survivorsOf pop s v a0 =
      (let r1 := discovered pop s v (effArgs a0)
       let r2 := match find (effArgs a0) kQualifier with
         | some _ => r1.filter (qualPred (byId pop) (effArgs a0))
         | none => r1
       let others := r2.filter (· != s.holder)
       if others.isEmpty then r2 else others) := rfl

theorem C08_isPrim_def (pop : List Prov) (c : Nat) :
    isPrim (byId pop) c = match pop.find? (fun p => p.id == c) with
      | some p => p.primary
      | none => false := rfl

theorem C08_isUnn_def (pop : List Prov) (c : Nat) :
    isUnn (byId pop) c = match pop.find? (fun p => p.id == c) with
      | some p => !p.custom
      | none => false := rfl

/-- QUALIFIER: with a qualifier argument, everything injected — the single value and every slice element, wire or func,
    by type or by name — is a registered component declaring one of the requested qualifiers. -/
theorem C08_qualifier (pop : List Prov) (s : Slot) (v : Bytes) (a0 : Args) (qs : List Bytes) (pt : RPoint)
    (hp : parse? s.tag = some (v, a0)) (hq : find a0 kQualifier = some qs) (h : resolveOne pop s = some pt) :
    ∀ c ∈ pt.cands, ∃ p ∈ pop, p.id = c ∧ ∃ q, p.qual = some q ∧ q ∈ qs := by
  obtain ⟨hc, _, _, _, _⟩ := resolveOne_some hp h
  intro c hcm
  rw [hc] at hcm
  exact mem_qualified_qual pop s v a0 qs hq c (picked_subset_qualified pop s v a0 c hcm)

/-- PRIMARY: a unique Primary among the survivors of a single-valued point is what the point receives. -/
theorem C08_primary (pop : List Prov) (s : Slot) (v : Bytes) (a0 : Args) (c : Nat)
    (hp : parse? s.tag = some (v, a0)) (hs : s.kind.isSlice = false)
    (hc : c ∈ survivorsOf pop s v a0) (hcp : isPrim (byId pop) c = true)
    (huniq : ∀ m ∈ survivorsOf pop s v a0, isPrim (byId pop) m = true → m = c) :
    ∃ pt, resolveOne pop s = some pt ∧ pt.cands = [c] := by
  have hch := choose_unique_primary (byId pop) _ c hc hcp huniq
  have hne : qualified pop s v a0 ≠ [] := fun e => by
    unfold survivorsOf at hc; rw [e] at hc; cases hc
  rw [resolveOne_closed pop s v a0 hp, if_neg (fun h => hne h.1)]
  refine ⟨_, rfl, ?_⟩
  show picked pop s v a0 = [c]
  unfold picked; rw [hs, hch]; rfl

/-- UNNAMED: with no Primary among the survivors, a unique component without a custom name is what the point receives. -/
theorem C08_unnamed (pop : List Prov) (s : Slot) (v : Bytes) (a0 : Args) (u : Nat)
    (hp : parse? s.tag = some (v, a0)) (hs : s.kind.isSlice = false)
    (hu : u ∈ survivorsOf pop s v a0) (huc : isUnn (byId pop) u = true)
    (hnp : ∀ m ∈ survivorsOf pop s v a0, isPrim (byId pop) m = false)
    (huniq : ∀ m ∈ survivorsOf pop s v a0, isUnn (byId pop) m = true → m = u) :
    ∃ pt, resolveOne pop s = some pt ∧ pt.cands = [u] := by
  have hch := choose_unique_unnamed (byId pop) _ u hu huc hnp huniq
  have hne : qualified pop s v a0 ≠ [] := fun e => by
    unfold survivorsOf at hu; rw [e] at hu; cases hu
  rw [resolveOne_closed pop s v a0 hp, if_neg (fun h => hne h.1)]
  refine ⟨_, rfl, ?_⟩
  show picked pop s v a0 = [u]
  unfold picked; rw [hs, hch]; rfl

/-- in general the received component is a survivor; a Primary if the survivors contain one; else unnamed if they contain one -/
theorem C08_choice_rank (pop : List Prov) (s : Slot) (v : Bytes) (a0 : Args) (pt : RPoint)
    (hp : parse? s.tag = some (v, a0)) (hs : s.kind.isSlice = false) (h : resolveOne pop s = some pt) :
    ∀ c ∈ pt.cands, c ∈ survivorsOf pop s v a0 ∧
      ((∃ m ∈ survivorsOf pop s v a0, isPrim (byId pop) m = true) → isPrim (byId pop) c = true) ∧
      ((∀ m ∈ survivorsOf pop s v a0, isPrim (byId pop) m = false) →
        (∃ m ∈ survivorsOf pop s v a0, isUnn (byId pop) m = true) → isUnn (byId pop) c = true) := by
  obtain ⟨hc, _, _, _, _⟩ := resolveOne_some hp h
  intro c hcm
  rw [hc] at hcm
  rcases picked_single pop s v a0 hs with ⟨_, h2⟩ | ⟨d, hd, h2⟩
  · rw [h2] at hcm; cases hcm
  · rw [h2] at hcm; simp at hcm; subst hcm
    exact choose_spec _ _ _ hd

/-- INDEPENDENT: the per-property loop is a map — no field influences another. -/
theorem C08_independent (pop : List Prov) (slots : List Slot) :
    resolveAll pop slots = slots.mapM (resolveOne pop) :=
  resolveAll_eq_mapM pop slots

/-- … explicitly: the loop succeeds iff every field resolves, and then the i-th point is `resolveOne` of the i-th field. -/
theorem C08_independent_pointwise (pop : List Prov) (slots : List Slot) (pts : List RPoint) :
    resolveAll pop slots = some pts ↔ slots.map (resolveOne pop) = pts.map some :=
  resolveAll_some_iff pop slots pts

/-- OPTIONAL and EMPTY: an optional point for which no candidate survives (none found, or the qualifier removes all)
    resolves, to nothing at all; the loop goes on. -/
theorem C08_optional_empty (pop : List Prov) (s : Slot) (v : Bytes) (a0 : Args)
    (hp : parse? s.tag = some (v, a0)) (hopt : isRequired a0 = false) (he : survivorsOf pop s v a0 = []) :
    resolveOne pop s = some { cands := [], slice := s.kind.isSlice, required := false, incompat := [] } := by
  rw [resolveOne_empty pop s v a0 hp ((selfRemoved_eq_nil _ _).mp he), if_neg (by rw [hopt]; decide)]

/-- by-type instance of the hypothesis: no provider passes both the discovery test and the qualifier rule -/
theorem C08_optional_empty_byType (pop : List Prov) (hid : (pop.map (·.id)).Nodup) (s : Slot) (v : Bytes) (a0 : Args)
    (hb : ByType s v) (hp : parse? s.tag = some (v, a0)) (hopt : isRequired a0 = false)
    (hno : ∀ p ∈ pop, ¬ (found s v a0 p = true ∧ qualOK a0 p = true)) :
    resolveOne pop s = some { cands := [], slice := s.kind.isSlice, required := false, incompat := [] } := by
  apply C08_optional_empty pop s v a0 hp hopt
  unfold survivorsOf
  rw [selfRemoved_eq_nil, qualified_byType pop hid s v a0 hb, List.map_eq_nil_iff, List.filter_eq_nil_iff]
  intro p hm
  simpa using hno p hm

/-! non-vacuity (population of Lemmas/MatchExamples.lean) -/
section examples
open Ioc.Match.Ex

-- qualifier on a slice and on a single value
example : parse? sliceI0q.tag = some ([], [(ofString "Qualifier", [ofString "q1", ofString "q2"])]) := by decide
example : find [(ofString "Qualifier", [ofString "q1", ofString "q2"])] kQualifier = some [ofString "q1", ofString "q2"] := by decide
example : (resolveOne pop sliceI0q).map (·.cands) = some [1, 2] := by decide
example : (resolveOne pop oneT2q).map (·.cands) = some [1] := by decide       -- q1 beats the Primary 2 (q2)
-- Primary: survivors of `I0` (holder 4 dropped) are 0, 1, 2; 2 is the unique Primary
example : survivorsOf pop oneI0 [] [] = [0, 1, 2] ∧ isPrim (byId pop) 2 = true ∧
    (∀ m ∈ survivorsOf pop oneI0 [] [], isPrim (byId pop) m = true → m = 2) := by decide
example : (resolveOne pop oneI0).map (·.cands) = some [2] := by decide
-- unnamed: survivors of `I1` are 1 (custom name) and 3 (unnamed), no Primary
example : survivorsOf pop oneI1 [] [] = [1, 3] ∧ isUnn (byId pop) 3 = true ∧
    (∀ m ∈ survivorsOf pop oneI1 [] [], isPrim (byId pop) m = false) ∧
    (∀ m ∈ survivorsOf pop oneI1 [] [], isUnn (byId pop) m = true → m = 3) := by decide
example : (resolveOne pop oneI1).map (·.cands) = some [3] := by decide
-- an optional empty field in front does not disturb the fields behind it
example : parse? oneI0qNone.tag = some ([], [(ofString "Qualifier", [ofString "nope"]), (ofString "Required", [ofString "false"])]) := by decide
example : survivorsOf pop oneI0qNone [] [(ofString "Qualifier", [ofString "nope"]), (ofString "Required", [ofString "false"])] = [] := by decide
example : (resolveAll pop [oneI0qNone, sliceI0q, oneI0]).map (fun l => l.map (·.cands)) = some [[], [1, 2], [2]] := by decide
example : (resolveAll pop [sliceI0q, namedZ, oneI0]).isNone = true := by decide
end examples

/-! ### the tie to the code: the narrowing model IS the regenerated program

`Ioc.Progs.filterDependencies` is the syntax tree of `filterDependencies`
(container/processors/dependency_further_matching_processors.go), re-translated from /repo's source on every run
(harness/cmd/facts/prog.go) into the MiniGo deep embedding (Ioc.GoSem).  Run by the MiniGo interpreter, with the
reflection and tag-argument calls answered from the model's population (Ioc.SemMatch.fdFn), it returns exactly what the
model says — for EVERY population, holder, field kind, tag arguments and candidate list (nil entries included).
A change of the Go function changes the generated term and this proof is re-checked against it. -/

/-- the regenerated `filterDependencies` computes `Sem.filterDeps` -/
theorem C08_code_filterDependencies (c : Sem.FDCtx) (cs : List (Option Nat)) :
    Go.run (Sem.fdPrims c) Progs.filterDependencies [.ref 0 1, .list (cs.map Sem.encOptId)] ()
      = some (Sem.encFD (Sem.filterDeps c cs), ()) :=
  Sem.filterDependencies_sem c cs

/-- … and `narrow` (what every C08/C10 theorem above is about) is that result followed by the required/optional decision
    of the per-property loop: candidates → `.ok`, error → `.fail` for a required point, `.skip` for an optional one -/
theorem C08_narrow_is_code (byId : Nat → Option Prov) (holder : Nat) (k : Kind) (args : Args) (cs : List (Option Nat)) :
    ∃ res, Go.run (Sem.fdPrims ⟨byId, holder, k, args⟩) Progs.filterDependencies
              [.ref 0 1, .list (cs.map Sem.encOptId)] () = some (Sem.encFD res, ()) ∧
      narrow byId holder k args cs =
        (match res with
         | some l => .ok l
         | none => if isRequired args then .fail else .skip) :=
  ⟨_, Sem.filterDependencies_sem _ cs, Sem.narrow_eq_filterDeps byId holder k args cs⟩

/-- non-vacuity: on the example population the regenerated program picks the Primary (2) among the survivors 0, 1, 2 -/
example : Go.run (Sem.fdPrims ⟨byId Ex.pop, 4, .iface 0, []⟩) Progs.filterDependencies
    [.ref 0 1, .list ([some 0, some 1, some 2, some 4].map Sem.encOptId)] () =
    some (.tuple [.list [.ref 2 0], .nil], ()) :=
  (Sem.filterDependencies_sem ⟨byId Ex.pop, 4, .iface 0, []⟩ [some 0, some 1, some 2, some 4]).trans (by rfl)

/-- the per-property LOOP of dependencyFurtherMatchingPostProcessors.PostProcessProperties, regenerated: properties are
    visited in order; a non-component property is skipped; `filterDependencies` decides each component property ON ITS OWN
    (its result is stored into that property's `Injects`, an optional miss stores nil and CONTINUES with the next property,
    a required miss returns the error) — `Sem.fmLoop`.  This is the statement behind `C08_independent` (`resolveAll` =
    `mapM resolveOne`) and the repair of D3/D4 (the early `return nil, nil`), now about the code's own syntax tree. -/
theorem C08_code_propertyLoop (ps : List Sem.PropInfo) :
    Go.run (Sem.fmPrims ps) Progs.furtherMatching_PostProcessProperties [(Sem.fmEnv ps.length).head!.2, .nil, .nil] [] =
      some (if (Sem.fmLoop ps 0 []).2 then .tuple [.nil, Sem.errV] else .tuple [.nil, .nil], (Sem.fmLoop ps 0 []).1) :=
  Sem.furtherMatching_sem ps

end Ioc.C08
