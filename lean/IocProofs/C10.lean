/-
  C10 — The outcome is independent of registration and enumeration order.  PROPERTY THEOREMS ONLY
  (lemmas: IocProofs/Lemmas/Match*.lean).  This file: the part about ONE injection point (`C10_choice_perm`);
  the run-level theorems are added in the section at the end.

  Model: Ioc.Match.  The registry enumeration order (sync.Map Range, registration order) is the order of the list `pop`;
  "every permutation of the order" is `pop.Perm pop'`.  Ids are row identities and names are unique (C07_unique).
-/
import IocProofs.Lemmas.MatchPoint
import IocProofs.Lemmas.TagTotal
import IocProofs.Lemmas.MatchExamples
namespace Ioc.C10
open Ioc Ioc.Tag Ioc.Match

/-- the candidates of a point after qualifier filtering and self removal (what the Primary / unnamed loop ranks) -/
def survivors (pop : List Prov) (s : Slot) : List Nat :=
  match parse? s.tag with
  | some (v, a0) => survivorsOf pop s v a0
  | none => []

def primaries (pop : List Prov) (s : Slot) : List Nat := (survivors pop s).filter (isPrim (byId pop))
def unnamed (pop : List Prov) (s : Slot) : List Nat := (survivors pop s).filter (isUnn (byId pop))

/-- genuinely tied: more than one Primary; or no Primary and more than one unnamed; or no Primary, no unnamed and more
    than one candidate -/
def Tied (pop : List Prov) (s : Slot) : Prop :=
  (primaries pop s).length > 1 ∨
  ((primaries pop s) = [] ∧ (unnamed pop s).length > 1) ∨
  ((primaries pop s) = [] ∧ (unnamed pop s) = [] ∧ (survivors pop s).length > 1)

/-- the equally ranked candidates: the Primaries if there are any, else the unnamed if there are any, else all -/
def tiedSet (pop : List Prov) (s : Slot) : List Nat :=
  if (primaries pop s).isEmpty then (if (unnamed pop s).isEmpty then survivors pop s else unnamed pop s)
  else primaries pop s

theorem C10_Tied_iff (pop : List Prov) (s : Slot) : Tied pop s ↔ TiedL (byId pop) (survivors pop s) = true := by
  unfold Tied TiedL primaries unnamed
  simp only [Bool.or_eq_true, Bool.and_eq_true, decide_eq_true_eq, List.isEmpty_iff]
  constructor
  · rintro (h | ⟨h1, h2⟩ | ⟨h1, h2, h3⟩)
    · exact Or.inl h
    · exact Or.inr ⟨h1, Or.inl h2⟩
    · exact Or.inr ⟨h1, Or.inr ⟨h2, h3⟩⟩
  · rintro (h | ⟨h1, h2 | ⟨h2, h3⟩⟩)
    · exact Or.inl h
    · exact Or.inr (Or.inl ⟨h1, h2⟩)
    · exact Or.inr (Or.inr ⟨h1, h2, h3⟩)

instance (pop : List Prov) (s : Slot) : Decidable (Tied pop s) := by unfold Tied; exact inferInstance

theorem C10_tiedSet_eq (pop : List Prov) (s : Slot) : tiedSet pop s = tiedSetL (byId pop) (survivors pop s) := rfl

/-- ORDER INDEPENDENCE of one injection point.  Under every permutation of the enumeration order the point fails in both
    or resolves in both, with the same `required` / `slice` flags and the same incompatibility marking; a slice receives
    the same components; a single-valued point that is not tied receives the SAME component; a tied one may vary, but
    only inside the tied set. -/
theorem C10_choice_perm (pop pop' : List Prov) (hperm : pop.Perm pop')
    (hid : (pop.map (·.id)).Nodup) (hnm : (pop.map (·.name)).Nodup) (s : Slot) :
    match resolveOne pop s, resolveOne pop' s with
    | none, none => True
    | some a, some b =>
        a.required = b.required ∧ a.slice = b.slice ∧
        (∃ bad : Nat → Bool, a.incompat = a.cands.filter bad ∧ b.incompat = b.cands.filter bad) ∧
        (s.kind.isSlice = true → a.cands.Perm b.cands) ∧
        (s.kind.isSlice = false → ¬ Tied pop s → a.cands = b.cands) ∧
        (s.kind.isSlice = false → (∀ c ∈ a.cands, c ∈ tiedSet pop s) ∧ (∀ c ∈ b.cands, c ∈ tiedSet pop s))
    | _, _ => False := by
  obtain ⟨v, a0, hp⟩ := parse?_total s.tag
  have hsv : survivors pop s = survivorsOf pop s v a0 := by simp [survivors, hp]
  rcases resolveOne_perm hperm hid hnm s v a0 hp with ⟨h1, h2⟩ | ⟨a, b, h1, h2, hr, hsl, hbad, hS, hU, hT⟩
  · rw [h1, h2]; trivial
  · rw [h1, h2]
    refine ⟨hr, hsl, hbad, hS, ?_, ?_⟩
    · intro hs hnt
      apply hU hs
      rw [← hsv]
      cases ht : TiedL (byId pop) (survivors pop s) with
      | false => rfl
      | true => exact absurd ((C10_Tied_iff pop s).mpr ht) hnt
    · intro hs
      rw [C10_tiedSet_eq, hsv]
      exact hT hs

/-- being tied, and the tied set, do not depend on the enumeration order either -/
theorem C10_tied_perm (pop pop' : List Prov) (hperm : pop.Perm pop')
    (hid : (pop.map (·.id)).Nodup) (hnm : (pop.map (·.name)).Nodup) (s : Slot) :
    (Tied pop s ↔ Tied pop' s) ∧ (tiedSet pop s).Perm (tiedSet pop' s) := by
  obtain ⟨v, a0, hp⟩ := parse?_total s.tag
  have hsv : survivors pop s = survivorsOf pop s v a0 := by simp [survivors, hp]
  have hsv' : survivors pop' s = survivorsOf pop' s v a0 := by simp [survivors, hp]
  have hsur := survivorsOf_perm hperm hid hnm s v a0
  have hby := byId_perm hperm hid
  constructor
  · rw [C10_Tied_iff, C10_Tied_iff, hsv, hsv', ← hby, TiedL_perm (byId pop) hsur]
  · rw [C10_tiedSet_eq, C10_tiedSet_eq, hsv, hsv', ← hby]
    exact tiedSetL_perm (byId pop) hsur

/-- without a tie the tied set is the one component the point receives -/
theorem C10_untied_forced (pop : List Prov) (s : Slot) (pt : RPoint) (hs : s.kind.isSlice = false)
    (h : resolveOne pop s = some pt) (hnt : ¬ Tied pop s) (hne : pt.cands ≠ []) : tiedSet pop s = pt.cands := by
  obtain ⟨v, a0, hp⟩ := parse?_total s.tag
  have hsv : survivors pop s = survivorsOf pop s v a0 := by simp [survivors, hp]
  obtain ⟨hc, _, _, _, _⟩ := resolveOne_some hp h
  have ht : TiedL (byId pop) (survivorsOf pop s v a0) = false := by
    rw [← hsv]
    cases ht : TiedL (byId pop) (survivors pop s) with
    | false => rfl
    | true => exact absurd ((C10_Tied_iff pop s).mpr ht) hnt
  rcases picked_single pop s v a0 hs with ⟨_, h2⟩ | ⟨d, hd, h2⟩
  · rw [hc, h2] at hne; exact absurd rfl hne
  · rw [hc, h2, C10_tiedSet_eq, hsv]
    exact choose_untied _ _ _ hd ht

/-! non-vacuity (populations of Lemmas/MatchExamples.lean: `pop'` is `pop` in another order, `popTie'` is `popTie`) -/
section examples
open Ioc.Match.Ex

example : pop.Perm pop' := by decide
example : (pop.map (·.id)).Nodup ∧ (pop.map (·.name)).Nodup := by decide
-- slice: same components, different order
example : (resolveOne pop sliceI0).map (·.cands) = some [0, 1, 2, 4] ∧
    (resolveOne pop' sliceI0).map (·.cands) = some [4, 2, 0, 1] := by decide
-- single, not tied (unique Primary): the same component under both orders
example : ¬ Tied pop oneI0 := by decide
example : tiedSet pop oneI0 = [2] := by decide
example : (resolveOne pop oneI0).map (·.cands) = some [2] ∧ (resolveOne pop' oneI0).map (·.cands) = some [2] := by decide
-- single, not tied (no Primary, unique unnamed)
example : ¬ Tied pop oneI1 ∧ (resolveOne pop oneI1).map (·.cands) = some [3] ∧
    (resolveOne pop' oneI1).map (·.cands) = some [3] := by decide
-- a genuine tie: without the Primary, `I0` seen from holder 1 has the unnamed 0 and 4; the order decides, inside {0, 4}
example : popTie.Perm popTie' := by decide
example : Tied popTie tieI0 ∧ tiedSet popTie tieI0 = [0, 4] := by decide
example : (resolveOne popTie tieI0).map (·.cands) = some [4] ∧ (resolveOne popTie' tieI0).map (·.cands) = some [0] := by decide
-- failure is order independent as well
example : (resolveOne pop namedZ).isNone = true ∧ (resolveOne pop' namedZ).isNone = true := by decide
end examples

/-! ## run level (added later) -/

end Ioc.C10
