/-
  C10 — The outcome is independent of registration and enumeration order.  PROPERTY THEOREMS ONLY
  (lemmas: IocProofs/Lemmas/Match*.lean).  This file: the part about ONE injection point (`C10_choice_perm`);
  the run-level theorems are added in the section at the end.

  Model: Ioc.Match.  The registry enumeration order (sync.Map Range, registration order) is the order of the list `pop`;
  "every permutation of the order" is `pop.Perm pop'`.  Ids are row identities and names are unique (C07_unique).
-/
import IocProofs.Lemmas.MatchPoint
import IocProofs.Lemmas.TagTotal
import IocProofs.Lemmas.MatchExamples
import IocProofs.Lemmas.M2SucceedsPerm
import Ioc.Generated.Facts
import IocProofs.Lemmas.SemRefresh
import IocProofs.Lemmas.Order
import IocProofs.Lemmas.SemOrder
import IocProofs.Lemmas.SemSmall
import IocProofs.Lemmas.SemApp
namespace Ioc.C10
open Ioc Ioc.Tag Ioc.Match

/-- the candidates of a point after qualifier filtering and self removal (what the Primary / unnamed loop ranks) -/
def survivors (pop : List Prov) (s : Slot) : List Nat :=
  match parse? s.tag with
  | some (v, a0) => survivorsOf pop s v a0
  | none => []

def primaries (pop : List Prov) (s : Slot) : List Nat := (survivors pop s).filter (isPrim (byId pop))
def unnamed (pop : List Prov) (s : Slot) : List Nat := (survivors pop s).filter (isUnn (byId pop))

/-- genuinely tied: more than one Primary; or no Primary and more than one unnamed; or no Primary, no unnamed and more
    than one candidate -/
def Tied (pop : List Prov) (s : Slot) : Prop :=
  (primaries pop s).length > 1 ∨
  ((primaries pop s) = [] ∧ (unnamed pop s).length > 1) ∨
  ((primaries pop s) = [] ∧ (unnamed pop s) = [] ∧ (survivors pop s).length > 1)

/-- the equally ranked candidates: the Primaries if there are any, else the unnamed if there are any, else all -/
def tiedSet (pop : List Prov) (s : Slot) : List Nat :=
  if (primaries pop s).isEmpty then (if (unnamed pop s).isEmpty then survivors pop s else unnamed pop s)
  else primaries pop s

theorem C10_Tied_iff (pop : List Prov) (s : Slot) : Tied pop s ↔ TiedL (byId pop) (survivors pop s) = true := by
  unfold Tied TiedL primaries unnamed
  simp only [Bool.or_eq_true, Bool.and_eq_true, decide_eq_true_eq, List.isEmpty_iff]
  constructor
  · rintro (h | ⟨h1, h2⟩ | ⟨h1, h2, h3⟩)
    · exact Or.inl h
    · exact Or.inr ⟨h1, Or.inl h2⟩
    · exact Or.inr ⟨h1, Or.inr ⟨h2, h3⟩⟩
  · rintro (h | ⟨h1, h2 | ⟨h2, h3⟩⟩)
    · exact Or.inl h
    · exact Or.inr (Or.inl ⟨h1, h2⟩)
    · exact Or.inr (Or.inr ⟨h1, h2, h3⟩)

instance (pop : List Prov) (s : Slot) : Decidable (Tied pop s) := by unfold Tied; exact inferInstance

theorem C10_tiedSet_eq (pop : List Prov) (s : Slot) : tiedSet pop s = tiedSetL (byId pop) (survivors pop s) := rfl

/-- ORDER INDEPENDENCE of one injection point.  Under every permutation of the enumeration order the point fails in both
    or resolves in both, with the same `required` / `slice` flags and the same incompatibility marking; a slice receives
    the same components; a single-valued point that is not tied receives the SAME component; a tied one may vary, but
    only inside the tied set. -/
theorem C10_choice_perm (pop pop' : List Prov) (hperm : pop.Perm pop')
    (hid : (pop.map (·.id)).Nodup) (hnm : (pop.map (·.name)).Nodup) (s : Slot) :
    match resolveOne pop s, resolveOne pop' s with
    | none, none => True
    | some a, some b =>
        a.required = b.required ∧ a.slice = b.slice ∧
        (∃ bad : Nat → Bool, a.incompat = a.cands.filter bad ∧ b.incompat = b.cands.filter bad) ∧
        (s.kind.isSlice = true → a.cands.Perm b.cands) ∧
        (s.kind.isSlice = false → ¬ Tied pop s → a.cands = b.cands) ∧
        (s.kind.isSlice = false → (∀ c ∈ a.cands, c ∈ tiedSet pop s) ∧ (∀ c ∈ b.cands, c ∈ tiedSet pop s))
    | _, _ => False := by
  obtain ⟨v, a0, hp⟩ := parse?_total s.tag
  have hsv : survivors pop s = survivorsOf pop s v a0 := by simp [survivors, hp]
  rcases resolveOne_perm hperm hid hnm s v a0 hp with ⟨h1, h2⟩ | ⟨a, b, h1, h2, hr, hsl, hbad, hS, hU, hT⟩
  · rw [h1, h2]; trivial
  · rw [h1, h2]
    refine ⟨hr, hsl, hbad, hS, ?_, ?_⟩
    · intro hs hnt
      apply hU hs
      rw [← hsv]
      cases ht : TiedL (byId pop) (survivors pop s) with
      | false => rfl
      | true => exact absurd ((C10_Tied_iff pop s).mpr ht) hnt
    · intro hs
      rw [C10_tiedSet_eq, hsv]
      exact hT hs

/-- being tied, and the tied set, do not depend on the enumeration order either -/
theorem C10_tied_perm (pop pop' : List Prov) (hperm : pop.Perm pop')
    (hid : (pop.map (·.id)).Nodup) (hnm : (pop.map (·.name)).Nodup) (s : Slot) :
    (Tied pop s ↔ Tied pop' s) ∧ (tiedSet pop s).Perm (tiedSet pop' s) := by
  obtain ⟨v, a0, hp⟩ := parse?_total s.tag
  have hsv : survivors pop s = survivorsOf pop s v a0 := by simp [survivors, hp]
  have hsv' : survivors pop' s = survivorsOf pop' s v a0 := by simp [survivors, hp]
  have hsur := survivorsOf_perm hperm hid hnm s v a0
  have hby := byId_perm hperm hid
  constructor
  · rw [C10_Tied_iff, C10_Tied_iff, hsv, hsv', ← hby, TiedL_perm (byId pop) hsur]
  · rw [C10_tiedSet_eq, C10_tiedSet_eq, hsv, hsv', ← hby]
    exact tiedSetL_perm (byId pop) hsur

/-- without a tie the tied set is the one component the point receives -/
theorem C10_untied_forced (pop : List Prov) (s : Slot) (pt : RPoint) (hs : s.kind.isSlice = false)
    (h : resolveOne pop s = some pt) (hnt : ¬ Tied pop s) (hne : pt.cands ≠ []) : tiedSet pop s = pt.cands := by
  obtain ⟨v, a0, hp⟩ := parse?_total s.tag
  have hsv : survivors pop s = survivorsOf pop s v a0 := by simp [survivors, hp]
  obtain ⟨hc, _, _, _, _⟩ := resolveOne_some hp h
  have ht : TiedL (byId pop) (survivorsOf pop s v a0) = false := by
    rw [← hsv]
    cases ht : TiedL (byId pop) (survivors pop s) with
    | false => rfl
    | true => exact absurd ((C10_Tied_iff pop s).mpr ht) hnt
  rcases picked_single pop s v a0 hs with ⟨_, h2⟩ | ⟨d, hd, h2⟩
  · rw [hc, h2] at hne; exact absurd rfl hne
  · rw [hc, h2, C10_tiedSet_eq, hsv]
    exact choose_untied _ _ _ hd ht

/-! non-vacuity (populations of Lemmas/MatchExamples.lean: `pop'` is `pop` in another order, `popTie'` is `popTie`) -/
section examples
open Ioc.Match.Ex

example : pop.Perm pop' := by decide
example : (pop.map (·.id)).Nodup ∧ (pop.map (·.name)).Nodup := by decide
-- slice: same components, different order
example : (resolveOne pop sliceI0).map (·.cands) = some [0, 1, 2, 4] ∧
    (resolveOne pop' sliceI0).map (·.cands) = some [4, 2, 0, 1] := by decide
-- single, not tied (unique Primary): the same component under both orders
example : ¬ Tied pop oneI0 := by decide
example : tiedSet pop oneI0 = [2] := by decide
example : (resolveOne pop oneI0).map (·.cands) = some [2] ∧ (resolveOne pop' oneI0).map (·.cands) = some [2] := by decide
-- single, not tied (no Primary, unique unnamed)
example : ¬ Tied pop oneI1 ∧ (resolveOne pop oneI1).map (·.cands) = some [3] ∧
    (resolveOne pop' oneI1).map (·.cands) = some [3] := by decide
-- a genuine tie: without the Primary, `I0` seen from holder 1 has the unnamed 0 and 4; the order decides, inside {0, 4}
example : popTie.Perm popTie' := by decide
example : Tied popTie tieI0 ∧ tiedSet popTie tieI0 = [0, 4] := by decide
example : (resolveOne popTie tieI0).map (·.cands) = some [4] ∧ (resolveOne popTie' tieI0).map (·.cands) = some [0] := by decide
-- failure is order independent as well
example : (resolveOne pop namedZ).isNone = true ∧ (resolveOne pop' namedZ).isNone = true := by decide
end examples

/-! ## run level (added later) -/

/-! Model: Ioc.Container (M2).  The enumeration order of the registry reaches the factory machine only as the order of the
  candidate lists of its points (M3 hands them over in that order: `C10_choice_perm`; slices keep it, single points are
  narrowed to one candidate).  `Sx.SameUpToOrder sc sc'` (Lemmas/M2SucceedsPerm.lean): same `names boot eager`, same
  `wired logged cfgOk fBefore fAps fInit fAfter fEarly earlyO afterO` at every name, and for every name `points` is
  `none` for both or `some` lists related point by point (`Sx.All2`) by `Sx.PointPerm`: `cands` permuted, same `slice`,
  `required`, same `incompat` as a set.
  `Sx.NoSubstitution sc`: `earlyO n = raw n ∧ afterO n = raw n` for all n.
  `Sx.Reach sc n`: n ∈ boot ++ eager or a candidate of a point of a reached name. -/
section run
open Ioc.M2 Ioc.M2.Sx

/- The full statement
     theorem C10_run_perm (sc sc') (h : SameUpToOrder sc sc') : (final sc).status = .done ↔ (final sc').status = .done
   is FALSE of the model and of the code in two ways: a post-processor that substitutes a component on a cycle after
   initialization (`C10_counterexample`, finding D6 / KF-C10-1), and — even without any substitution — a failing
   early-reference factory of a component on a cycle (`C10_counterexample_early`): which member of a cycle is asked for
   its early reference depends on which member is created first.  Proved: the statement without substitution and
   without a failing early-reference factory on a reachable name. -/
theorem C10_run_perm_partial (sc sc' : Scen) (h : SameUpToOrder sc sc') (ns : NoSubstitution sc)
    (ns' : NoSubstitution sc') (he : ∀ n, Reach sc n → sc.fEarly n = false) :
    (final sc).status = .done ↔ (final sc').status = .done :=
  run_perm sc sc' h ns ns' he

/-- … because success is characterised by order-independent data: the reachable names and their static faults -/
theorem C10_reach_fault_perm (sc sc' : Scen) (h : SameUpToOrder sc sc') (n : Nat) :
    (Reach sc n ↔ Reach sc' n) ∧ (StaticFault sc n ↔ StaticFault sc' n) :=
  ⟨⟨fun hr => hr.perm h, fun hr => hr.perm h.symm⟩, ⟨fun hf => hf.perm h, fun hf => hf.perm h.symm⟩⟩

/-- holder 0 with one slice point over `order`; 1 ↔ 2 a cycle; everything else benign -/
def ring (order : List Nat) : Scen :=
  { names := [0, 1, 2], boot := [], eager := [0, 1, 2],
    points := fun n => match n with
      | 0 => some [⟨order, true, true, []⟩]
      | 1 => some [⟨[2], false, true, []⟩]
      | 2 => some [⟨[1], false, true, []⟩]
      | _ => some [],
    wired := fun _ => true, logged := fun _ => true, cfgOk := fun _ => true,
    fBefore := fun _ => false, fAps := fun _ => false, fInit := fun _ => false, fAfter := fun _ => false,
    fEarly := fun _ => false, earlyO := raw, afterO := raw }

/-- D6: InitializeComponent substitutes component 1 -/
def d6 (order : List Nat) : Scen := { ring order with afterO := fun n => if n = 1 then ⟨1, 2⟩ else raw n }

/-- the early-reference factory of component 1 fails; no substitution anywhere -/
def ringEarly (order : List Nat) : Scen := { ring order with fEarly := fun n => n == 1 }

theorem ring_points_rel (n : Nat) : PointsRel ((ring [1, 2]).points n) ((ring [2, 1]).points n) := by
  match n with
  | 0 => exact .cons ⟨by decide, rfl, rfl, fun _ => Iff.rfl⟩ .nil
  | 1 => exact .cons ⟨by decide, rfl, rfl, fun _ => Iff.rfl⟩ .nil
  | 2 => exact .cons ⟨by decide, rfl, rfl, fun _ => Iff.rfl⟩ .nil
  | _ + 3 => exact .nil

/-- KF-C10-1 (D6) in the model: the two scenarios differ only in the order of the slice candidates of the holder, yet one
    start fails at the version check of component 1 and the other succeeds -/
theorem C10_counterexample :
    SameUpToOrder (d6 [1, 2]) (d6 [2, 1]) ∧
    (final (d6 [1, 2])).status = .failed 1 .refresh ∧ (final (d6 [2, 1])).status = .done :=
  ⟨⟨rfl, rfl, rfl, fun _ => rfl, fun _ => rfl, fun _ => rfl, fun _ => rfl, fun _ => rfl, fun _ => rfl, fun _ => rfl,
    fun _ => rfl, fun _ => rfl, fun _ => rfl, ring_points_rel⟩, by decide, by decide⟩

/-- without any substitution: a failing early-reference factory on a cycle is met under one order and not the other -/
theorem C10_counterexample_early :
    SameUpToOrder (ringEarly [1, 2]) (ringEarly [2, 1]) ∧
    NoSubstitution (ringEarly [1, 2]) ∧ NoSubstitution (ringEarly [2, 1]) ∧
    (final (ringEarly [1, 2])).status = .failed 1 .refresh ∧ (final (ringEarly [2, 1])).status = .done :=
  ⟨⟨rfl, rfl, rfl, fun _ => rfl, fun _ => rfl, fun _ => rfl, fun _ => rfl, fun _ => rfl, fun _ => rfl, fun _ => rfl,
    fun _ => rfl, fun _ => rfl, fun _ => rfl, ring_points_rel⟩, fun _ => ⟨rfl, rfl⟩, fun _ => ⟨rfl, rfl⟩,
   by decide, by decide⟩

/-- regenerated from factory.go / definition registry: Refresh still sorts the names before creating them (the order of
    `eager` is not an input), GetMetas still enumerates in map order (which is why the candidate order IS an input) -/
theorem C10_refresh_sorted : Ioc.Facts.refreshSortsNames = true ∧ Ioc.Facts.getMetasSorts = false := by decide

/-- … and what it sorts by: the component NAMES with the plain `<` on strings — a total order that does not depend on the
    order in which the definitions were enumerated (a comparator mixing names with `Order()` values is not transitive
    and makes the creation order, hence the outcome on cycles with substitutes, depend on the enumeration) -/
theorem C10_refresh_by_name : Ioc.Facts.refreshSortCall = "names | i j | i < j" := by decide

/-! non-vacuity of C10_run_perm_partial: the benign ring under both orders (both starts succeed), and the ring with a
    failing Init of 2 (both fail) -/
example : SameUpToOrder (ring [1, 2]) (ring [2, 1]) ∧ NoSubstitution (ring [1, 2]) ∧ NoSubstitution (ring [2, 1]) ∧
    (∀ n, Reach (ring [1, 2]) n → (ring [1, 2]).fEarly n = false) :=
  ⟨⟨rfl, rfl, rfl, fun _ => rfl, fun _ => rfl, fun _ => rfl, fun _ => rfl, fun _ => rfl, fun _ => rfl, fun _ => rfl,
    fun _ => rfl, fun _ => rfl, fun _ => rfl, ring_points_rel⟩, fun _ => ⟨rfl, rfl⟩, fun _ => ⟨rfl, rfl⟩, fun _ _ => rfl⟩
example : (final (ring [1, 2])).status = .done ∧ (final (ring [2, 1])).status = .done ∧
    (final (ring [1, 2])).fields 0 0 = [raw 1, raw 2] ∧ (final (ring [2, 1])).fields 0 0 = [raw 2, raw 1] := by decide
example : (final { ring [1, 2] with fInit := fun n => n == 2 }).status = .failed 2 .refresh ∧
    (final { ring [2, 1] with fInit := fun n => n == 2 }).status = .failed 2 .refresh := by decide

end run

/-! ### the tie to the code: Refresh (regenerated, a type switch and two loops)

`Ioc.Progs.fac_Refresh` is the syntax tree of defaultFactory.Refresh (factory.go:92-118).  For EVERY enumeration of the
definitions (`metas`, any order, any length), every set of lazy components and every creation that may fail, the regenerated
Refresh asks the factory for exactly the non-lazy names in SORTED order (`Sem.refreshNames`: `sort` applied to the comparator
literal of the program, which the interpreter runs: `i < j`) and stops at the first failing creation. -/
theorem C10_code_Refresh (sort : (Nat → Nat → Bool) → List Nat → List Nat) (metas : List Nat) (lazy getFails : Nat → Bool) :
    Go.run (Sem.refreshPrims sort metas lazy getFails) Progs.fac_Refresh [] [] =
      some (if (Order.runLoop getFails (Sem.refreshNames sort metas lazy) []).2 then Sem.errN else .nil,
            (Order.runLoop getFails (Sem.refreshNames sort metas lazy) []).1) :=
  Sem.refresh_sem sort metas lazy getFails

/-- … hence the creation order of a start is the same for every order in which the registry enumerates the definitions
    (sync.Map order, registration order): all that is used of `sort.Slice` is that it returns a sorted permutation -/
theorem C10_code_Refresh_order_independent (sort : (Nat → Nat → Bool) → List Nat → List Nat) (lazy : Nat → Bool)
    (m1 m2 : List Nat) (hs : ∀ l, (sort Sem.ltb l).Perm l ∧ (sort Sem.ltb l).Pairwise (fun a b => a ≤ b))
    (h : m1.Perm m2) : Sem.refreshNames sort m1 lazy = Sem.refreshNames sort m2 lazy :=
  Sem.refreshNames_perm sort lazy m1 m2 hs h

/-- non-vacuity: with an insertion sort; definitions 5, 2 (lazy), 9, 1 in two enumeration orders -/
example : Sem.refreshNames (fun lt l => l.foldr (fun x acc => acc.filter (fun y => lt y x) ++ [x] ++ acc.filter (fun y => !lt y x)) []) [5, 2, 9, 1] (fun n => n == 2) = [1, 5, 9] ∧
    Sem.refreshNames (fun lt l => l.foldr (fun x acc => acc.filter (fun y => lt y x) ++ [x] ++ acc.filter (fun y => !lt y x)) []) [1, 9, 2, 5] (fun n => n == 2) = [1, 5, 9] := by decide

/-! ### the participants' order is a function of their declared class and Order(), not of the registration order

Post-processors, configuration loaders and runners reach their call sites through `SortOrderedComponents`.  The regenerated
sorter is `Order.sortOrdered` for EVERY `sort.Slice` that meets its contract, and the regenerated comparator is the strict
`<` on `Order()` values (`Order.less?`, stuck exactly where Go panics) — so two enumeration orders of the same participants
give sequences that agree on everything the contract compares (`C12_observation_unique` for one list; here: the code). A
comparator that is not a strict order on the keys (a subtraction that overflows, a mixed key) makes the result depend on the
input order and breaks these statements. -/
theorem C10_code_participants_sorted (sort : (Nat → Nat → Bool) → List Nat → List Nat) (part : Nat → Order.Part)
    (hs : Order.SortSpec part sort) (l : List Nat) :
    Go.run (Sem.sortPrims sort part) Progs.sortOrderedComponents [.list (l.map Sem.encR)] () =
      some (.list ((Order.sortOrdered sort part l).map Sem.encR), ()) :=
  Sem.sortOrderedComponents_sem sort part (Sem.sort_nil_of_spec sort part hs) l

theorem C10_code_comparator_strict (part : Nat → Order.Part) (i j : Nat) :
    Go.run (Sem.cmpPrims part) Progs.orderedComponentComparator [.ref i 0, .ref j 0] () =
      (Order.less? part i j).map (fun b => (.bool b, ())) :=
  Sem.comparator_sem part i j

/-! ### where the enumeration orders come from: the registry readers and GetAllProperties, REGENERATED (interpretation
    Ioc.SemSmall: a map is the list of its entries in the order in which this run enumerates them) -/
section readers
open Ioc.Go Ioc.Sem

/-- GetSingletonNames returns the names in the order in which the map enumerates its entries — NOTHING else orders them (this
    is the order PrepareComponents walks, `C12_code_PrepareComponents`); GetSingleton / ContainsSingleton / GetSingletonCount
    read the same map and change nothing -/
theorem C10_code_registry_readers (w : CMap) :
    run srPrims Progs.sreg_GetSingletonNames [] w = some (strsNil (w.map (·.1)), w) ∧
    run srPrims Progs.sreg_GetSingletonCount [] w = some (.int w.length, w) ∧
    (∀ n, run srPrims Progs.sreg_GetSingleton [.str n] w =
      some (match cmLoad w n with
            | some j => .tuple [.ref j 0, .nil]
            | none => .tuple [.nil, .str ("singleton not exist: " ++ n)], w)) ∧
    (∀ n, run srPrims Progs.sreg_ContainsSingleton [.str n] w = some (.bool (cmLoad w n).isSome, w)) :=
  ⟨sregNames_sem w, sregCount_sem w, fun n => sregGetSingleton_sem n w, fun n => sregContains_sem n w⟩

/-- GetAllProperties concatenates the property groups in the order in which the map range enumerates them: across types the
    order of its result is that of the map iteration (within a type: the order of the group) -/
theorem C10_code_GetAllProperties (gs : List (String × List Nat)) :
    run (gaPrims gs) Progs.meta_GetAllProperties [] () =
      some (propsAcc (gs.foldl (fun a g => gaAcc a g.2) none), ()) :=
  getAllProperties_sem gs

end readers

/-- the runners are invoked in the order `SortOrderedComponents` returns — callRunners (regenerated, `C13_code_callRunners`)
    walks the SORTED arrangement, not the order in which the registry enumerated the runners into the App's slice -/
theorem C10_code_callRunners_uses_sorted (rs : List App.Runner) (sorted : List Nat) :
    Go.run (Sem.crPrims rs sorted) Progs.app_callRunners [] {} =
      if rs.length = 0 then some (.nil, {})
      else some (if (Sem.callIdx rs sorted).2 then .nil else Sem.errA,
                 { invoked := (Sem.callIdx rs sorted).1, cleared := (Sem.callIdx rs sorted).2 }) :=
  Sem.app_callRunners_sem rs sorted

end Ioc.C10
