/-
  C14 — "Close reaches every closer exactly once and waits for all of them"  (app/app.go:156-174)

  The theorems are about `Conc.Step cfg …` where `cfg` is COMPUTED from the regenerated skeleton
  `Facts.closeSkel` of App.Close: moving or removing wg.Add / defer wg.Done / wg.Wait, or calling the
  closers in a plain loop, changes the generated term, `C14_skeleton` stops checking and with it all the
  theorems below (they all go through `cfg_joined`).
  `Reach cfg n errs s` = s is reachable under SOME schedule of main and the n closer goroutines, so a
  statement for all reachable s is a statement for all schedules, all delays and finishing orders.
  Partial by nature: the model cannot show scheduler starvation, a closer that never returns, or a
  closer that panics (a panic in a goroutine kills the process; Close has no recover).
-/
import IocProofs.Lemmas.ConcPaths
import IocProofs.Lemmas.ConcWait
import IocProofs.Lemmas.ConcNames
import IocProofs.Lemmas.ConcEntry
import IocProofs.Lemmas.ConcNinth
import IocProofs.Lemmas.SemDelegate
import IocProofs.Lemmas.SemMisc
import IocProofs.Lemmas.SemMeta

namespace Ioc.C14
open Ioc.Conc

/-- the configuration read from the regenerated skeleton of App.Close -/
def cfg : FanCfg := (closeShape Facts.closeSkel).cfg

/-- proof obligation on the regenerated term: Add(len) before the loop, one goroutine per closer that starts with
    `defer wg.Done()` and calls Close once, Wait directly after the loop, no write to a captured variable -/
theorem C14_skeleton : closeShape Facts.closeSkel = expectedCloseShape := by decide

theorem cfg_joined : cfg.Joined := by
  unfold cfg; rw [C14_skeleton]; exact ⟨rfl, rfl, rfl, rfl⟩

theorem cfg_nocrit : cfg.crit = false := by
  unfold cfg; rw [C14_skeleton]; rfl

/-- For every number of closers, every subset of closers that return an error, every schedule: in every state in
    which Close has returned, every closer's Close was invoked exactly once and has returned. -/
theorem C14_all_once (n : Nat) (errs : Nat → Bool) (s : St) (h : Reach cfg n errs s) (hret : mainReturned s) :
    ∀ i, i < n → s.calls i = 1 ∧ s.wpc i = .finished :=
  (joined_all_once cfg_joined n errs s h hret).1

/-- … and at no point of any schedule has a closer been invoked twice. -/
theorem C14_never_twice (n : Nat) (errs : Nat → Bool) (s : St) (h : Reach cfg n errs s) (i : Nat) : s.calls i ≤ 1 :=
  joined_at_most_once cfg_joined n errs s h i

/-- No step of a closer goroutine waits on a sibling: whether closer i can take its next step depends on its own
    program counter only — not on the other workers, not on who failed, not on main. -/
theorem C14_worker_steps_local (errs errs' : Nat → Bool) (i : Nat) (s t : St) (hp : s.wpc i = t.wpc i)
    (h : ∃ q mu', WStep cfg (errs i) i (s.wpc i) s.mu q mu') : ∃ q mu', WStep cfg (errs' i) i (t.wpc i) t.mu q mu' := by
  obtain ⟨q, mu', hw⟩ := h
  obtain ⟨h0, hf, _⟩ := hw.facts
  obtain ⟨q', mu'', hw', _⟩ := worker_progress_nocrit cfg cfg_nocrit (errs' i) i (t.wpc i) (hp ▸ h0) (hp ▸ hf) t.mu
  exact ⟨q', mu'', hw'⟩

/-- A failing or slow closer never prevents the others from being invoked: from EVERY reachable state (siblings in
    the middle of their Close, failed, finished or not even scheduled) there is a continuation in which closer i is
    invoked (exactly once) and finishes while every sibling stays exactly where it is — the only thing that may
    happen to a sibling is that main spawns its goroutine. -/
theorem C14_no_block (n : Nat) (errs : Nat → Bool) (s : St) (h : Reach cfg n errs s) (i : Nat) (hi : i < n) :
    ∃ s', Steps cfg n errs s s' ∧ s'.wpc i = .finished ∧ s'.calls i = 1 ∧
      ∀ j, j ≠ i → (s'.wpc j = s.wpc j ∨ (s.wpc j = .idle ∧ s'.wpc j = .ready)) ∧ s'.calls j = s.calls j := by
  have hinv := (finv_reach cfg_joined h).1
  have hspawn : cfg.spawn = true := cfg_joined.2.1
  -- phase 1: make sure worker i is spawned
  have phase1 : ∃ s1, Steps cfg n errs s s1 ∧ s1.wpc i ≠ .idle ∧ s1.calls = s.calls ∧
      ∀ j, j ≠ i → (s1.wpc j = s.wpc j ∨ (s.wpc j = .idle ∧ s1.wpc j = .ready)) := by
    by_cases hidle : s.wpc i = .idle
    · have hge : s.spawned ≤ i := by
        by_cases hc : i < s.spawned
        · exact absurd hidle (hinv.spw i hc)
        · omega
      have hpc : s.mainPc < 2 := by
        by_cases hc : 2 ≤ s.mainPc
        · have := hinv.spn hc; omega
        · omega
      -- main at pc 1 (after `add` when needed)
      have hmain : ∃ s0, Steps cfg n errs s s0 ∧ s0.mainPc = 1 ∧ s0.spawned = s.spawned ∧ s0.wpc = s.wpc ∧ s0.calls = s.calls := by
        by_cases h0 : s.mainPc = 0
        · exact ⟨_, Steps.tail s s _ (Steps.refl s) (Step.add s h0), rfl, rfl, rfl, rfl⟩
        · exact ⟨s, Steps.refl s, by omega, rfl, rfl, rfl⟩
      obtain ⟨s0, hs0, hpc0, hsp0, hw0, hc0⟩ := hmain
      obtain ⟨s1, hs1, _, _, hw1, hc1, _, _⟩ := main_spawns cfg hspawn n errs (i + 1 - s0.spawned) s0 hpc0 (by omega)
      refine ⟨s1, Steps.trans hs0 hs1, ?_, by rw [hc1, hc0], ?_⟩
      · rw [hw1 i, if_pos (by omega)]; decide
      · intro j _
        rw [hw1 j, hw0]
        by_cases hr : s0.spawned ≤ j ∧ j < s0.spawned + (i + 1 - s0.spawned)
        · right; rw [if_pos hr]; exact ⟨hinv.unsp j (by omega), rfl⟩
        · left; rw [if_neg hr]
    · exact ⟨s, Steps.refl s, hidle, rfl, fun j _ => Or.inl rfl⟩
  obtain ⟨s1, hs1, hne, hc1, hfr1⟩ := phase1
  -- phase 2: worker i runs on its own
  obtain ⟨s2, hs2, hfin, ho⟩ := worker_runs cfg cfg_nocrit n errs i (rank (s1.wpc i)) s1 (Nat.le_refl _) hne
  have hreach2 : Reach cfg n errs s2 := Steps.trans h (Steps.trans hs1 hs2)
  refine ⟨s2, Steps.trans hs1 hs2, hfin, ?_, ?_⟩
  · have := (finv_reach cfg_joined hreach2).1.calls_eq i
    rw [hfin] at this; simpa [preCall] using this
  · intro j hj
    refine ⟨?_, by rw [ho.calls j hj, hc1]⟩
    rw [ho.wpc j hj]; exact hfr1 j hj

/-- Slow closers never keep the others from being invoked, in its strongest form: for every number of closers there is a
    schedule that brings ALL n closers inside their Close() at the same moment — each invoked exactly once, none of them
    returned yet. So closers that return only once every peer has been entered (scenario `closew`) are all released.
    (A fixed pool of k goroutines cannot have more than k closers inside at once.) -/
theorem C14_all_inside_together (n : Nat) (errs : Nat → Bool) :
    ∃ s, Reach cfg n errs s ∧ ∀ i, i < n → s.wpc i = .calling ∧ s.calls i = 1 := by
  have hspawn : cfg.spawn = true := cfg_joined.2.1
  let s0 : St := { init with mainPc := 1, wg := init.wg + (if cfg.addFirst then (n : Int) else 0) }
  have hs0 : Steps cfg n errs init s0 := Steps.tail _ _ _ (Steps.refl init) (Step.add init rfl)
  obtain ⟨s1, hs1, _, _, hw1, _, _, _⟩ := main_spawns cfg hspawn n errs n s0 rfl (by simp [s0, init])
  have hready : ∀ j, j < n → s1.wpc j = .ready := by
    intro j hj
    rw [hw1 j, if_pos (by simp [s0, init]; omega)]
  obtain ⟨s2, hs2, hin, _, _, _⟩ := workers_enter cfg n errs n s1 hready
  have hreach : Reach cfg n errs s2 := Steps.trans hs0 (Steps.trans hs1 hs2)
  refine ⟨s2, hreach, fun i hi => ⟨hin i hi, ?_⟩⟩
  have := (finv_reach cfg_joined hreach).1.calls_eq i
  rw [hin i hi] at this; simpa [preCall] using this

/-- no closers: nothing is spawned, nothing is called, and Close returns -/
theorem C14_zero (errs : Nat → Bool) :
    (∀ s, Reach cfg 0 errs s → s.spawned = 0 ∧ ∀ i, s.wpc i = .idle ∧ s.calls i = 0) ∧
    (∃ s, Reach cfg 0 errs s ∧ mainReturned s) := by
  refine ⟨?_, ?_⟩
  · intro s h
    have hinv := (finv_reach cfg_joined h).1
    have hsp : s.spawned = 0 := Nat.le_zero.mp hinv.sp_le
    refine ⟨hsp, fun i => ?_⟩
    have hid := hinv.unsp i (by omega)
    refine ⟨hid, ?_⟩
    have := hinv.calls_eq i
    rw [hid] at this; simpa [preCall] using this
  · let s1 : St := { init with mainPc := 1, wg := init.wg + (if cfg.addFirst then ((0 : Nat) : Int) else 0) }
    have h1 : Step cfg 0 errs init s1 := Step.add init rfl
    have h2 : Step cfg 0 errs s1 { s1 with mainPc := 2 } := Step.spawned s1 rfl rfl
    have h3 : Step cfg 0 errs { s1 with mainPc := 2 } { s1 with mainPc := 3 } :=
      Step.wait _ rfl (by intro _; simp [s1, init])
    exact ⟨_, Steps.tail _ _ _ (Steps.tail _ _ _ (Steps.tail _ _ _ (Steps.refl init) h1) h2) h3, rfl⟩

/-- non-vacuity of C14_all_once for every n: Close CAN return (when every closer returns) -/
theorem C14_can_return (n : Nat) (errs : Nat → Bool) : ∃ s, Reach cfg n errs s ∧ mainReturned s := by
  have hspawn : cfg.spawn = true := cfg_joined.2.1
  let s0 : St := { init with mainPc := 1, wg := init.wg + (if cfg.addFirst then (n : Int) else 0) }
  have hs0 : Steps cfg n errs init s0 := Steps.tail _ _ _ (Steps.refl init) (Step.add init rfl)
  obtain ⟨s1, hs1, hpc1, hsp1, hw1, _, _, _⟩ := main_spawns cfg hspawn n errs n s0 rfl (by simp [s0, init])
  have hsp1' : s1.spawned = n := by simp [hsp1, s0, init]
  -- run the workers one after the other
  have runAll : ∀ k, k ≤ n → ∃ s2, Steps cfg n errs s1 s2 ∧ s2.mainPc = 1 ∧ s2.spawned = n ∧
      (∀ j, j < k → s2.wpc j = .finished) ∧ (∀ j, k ≤ j → s2.wpc j = s1.wpc j) := by
    intro k
    induction k with
    | zero => intro _; exact ⟨s1, Steps.refl s1, hpc1, hsp1', fun j hj => by omega, fun _ _ => rfl⟩
    | succ k ih =>
      intro hk
      obtain ⟨s2, hs2, hpc2, hsp2, hfin2, hrest2⟩ := ih (by omega)
      have hne : s2.wpc k ≠ .idle := by
        rw [hrest2 k (Nat.le_refl _), hw1 k, if_pos (by simp [s0, init]; omega)]; decide
      obtain ⟨s3, hs3, hfin3, ho⟩ := worker_runs cfg cfg_nocrit n errs k (rank (s2.wpc k)) s2 (Nat.le_refl _) hne
      refine ⟨s3, Steps.trans hs2 hs3, by rw [ho.pc, hpc2], by rw [ho.sp, hsp2], ?_, ?_⟩
      · intro j hj
        by_cases hjk : j = k
        · subst hjk; exact hfin3
        · rw [ho.wpc j hjk]; exact hfin2 j (by omega)
      · intro j hj
        rw [ho.wpc j (by omega)]; exact hrest2 j (by omega)
  obtain ⟨s2, hs2, hpc2, hsp2, hfin2, _⟩ := runAll n (Nat.le_refl _)
  have hreach2 : Reach cfg n errs s2 := Steps.trans hs0 (Steps.trans hs1 hs2)
  have hwg : s2.wg = 0 := by
    have := (finv_reach cfg_joined hreach2).1.wg_eq
    rw [cntFin_all s2.wpc n hfin2] at this
    simp [hpc2] at this; exact this
  have h3 : Step cfg n errs s2 { s2 with mainPc := 2 } := Step.spawned s2 hpc2 hsp2
  have h4 : Step cfg n errs { s2 with mainPc := 2 } { s2 with mainPc := 3 } := Step.wait _ rfl (fun _ => hwg)
  exact ⟨_, Steps.tail _ _ _ (Steps.tail _ _ _ hreach2 h3) h4, rfl⟩

/-- What Wait buys: the same skeleton WITHOUT `wg.Wait()` (fire and forget). For every n ≥ 1 there is a schedule in
    which Close has returned and closer 0 has not even been invoked. -/
def noWaitCfg : FanCfg := ({ expectedCloseShape with waitAfterLoop := false } : CloseShape).cfg

theorem C14_fire_and_forget_counterexample (n : Nat) (hn : 1 ≤ n) (errs : Nat → Bool) :
    ∃ s, Reach noWaitCfg n errs s ∧ mainReturned s ∧ s.calls 0 = 0 ∧ s.wpc 0 = .ready := by
  let s0 : St := { init with mainPc := 1, wg := init.wg + (if noWaitCfg.addFirst then (n : Int) else 0) }
  have hs0 : Steps noWaitCfg n errs init s0 := Steps.tail _ _ _ (Steps.refl init) (Step.add init rfl)
  obtain ⟨s1, hs1, hpc1, hsp1, hw1, hc1, _, _⟩ := main_spawns noWaitCfg rfl n errs n s0 rfl (by simp [s0, init])
  have hsp1' : s1.spawned = n := by simp [hsp1, s0, init]
  have h3 : Step noWaitCfg n errs s1 { s1 with mainPc := 2 } := Step.spawned s1 hpc1 hsp1'
  have h4 : Step noWaitCfg n errs { s1 with mainPc := 2 } { s1 with mainPc := 3 } :=
    Step.wait _ rfl (by intro h; cases h)
  refine ⟨_, Steps.tail _ _ _ (Steps.tail _ _ _ (Steps.trans hs0 hs1) h3) h4, rfl, ?_, ?_⟩
  · show s1.calls 0 = 0
    rw [hc1]; rfl
  · show s1.wpc 0 = .ready
    rw [hw1 0, if_pos (by simp [s0, init]; omega)]

/-- same for `wg.Add(1)` moved into the goroutine: main can pass the Wait before any goroutine has added itself -/
def addInWorkerCfg : FanCfg := ({ expectedCloseShape with addBeforeSpawn := false } : CloseShape).cfg

theorem C14_add_in_goroutine_counterexample (n : Nat) (_hn : 1 ≤ n) (errs : Nat → Bool) :
    ∃ s, Reach addInWorkerCfg n errs s ∧ mainReturned s ∧ s.calls 0 = 0 := by
  let s0 : St := { init with mainPc := 1, wg := init.wg + (if addInWorkerCfg.addFirst then (n : Int) else 0) }
  have hs0 : Steps addInWorkerCfg n errs init s0 := Steps.tail _ _ _ (Steps.refl init) (Step.add init rfl)
  obtain ⟨s1, hs1, hpc1, hsp1, _, hc1, hwg1, _⟩ := main_spawns addInWorkerCfg rfl n errs n s0 rfl (by simp [s0, init])
  have hsp1' : s1.spawned = n := by simp [hsp1, s0, init]
  have h3 : Step addInWorkerCfg n errs s1 { s1 with mainPc := 2 } := Step.spawned s1 hpc1 hsp1'
  have h4 : Step addInWorkerCfg n errs { s1 with mainPc := 2 } { s1 with mainPc := 3 } :=
    Step.wait _ rfl (by intro _; show s1.wg = 0; rw [hwg1]; rfl)
  refine ⟨_, Steps.tail _ _ _ (Steps.tail _ _ _ (Steps.trans hs0 hs1) h3) h4, rfl, ?_⟩
  show s1.calls 0 = 0
  rw [hc1]; rfl

/-! ### non-vacuity: concrete runs of the executable scheduler (the one the driver uses) are runs of `Step`
    and end in a state in which Close has returned -/

example : Reach cfg 3 (fun i => i == 1) (schedule cfg 3 (fun i => i == 1) 200 7 init) ∧
    mainReturned (schedule cfg 3 (fun i => i == 1) 200 7 init) :=
  ⟨schedule_sound cfg 3 _ 200 7 init, by unfold mainReturned; decide⟩

example : (schedule cfg 3 (fun i => i == 1) 200 7 init).calls 2 = 1 := by decide

/-- the run the driver makes for `closew 5 2 8 3` (five closers that wait for each other, closer 1 fails, closer 3 returns
    at once) is a run of the system and ends with Close returned: nobody had to give up -/
example : Reach cfg 5 (fun i => i == 1) (scheduleW cfg 5 (fun i => i == 1) (fun i => i == 3) 280 3 init) ∧
    mainReturned (scheduleW cfg 5 (fun i => i == 1) (fun i => i == 3) 280 3 init) :=
  ⟨scheduleW_sound cfg 5 _ _ 280 3 init, by unfold mainReturned; decide⟩

/-- the run the driver makes for `closea 2 4 2 2 15 19` (fifth round: two self-named closers, one of them wired with the App
    and created before it, plus the two type-named closers wired with the App — four registered closer components, closer 2
    failing) and for the first App of `closed 3 1 qt.ls 77` (three ordinary closers + dupb's Sess + the function-local closer):
    runs of the system that end with Close returned, every closer invoked once -/
example : Reach cfg 4 (fun i => (4 : Nat).testBit i) (schedule cfg 4 (fun i => (4 : Nat).testBit i) 240 19 init) ∧
    mainReturned (schedule cfg 4 (fun i => (4 : Nat).testBit i) 240 19 init) :=
  ⟨schedule_sound cfg 4 _ 240 19 init, by unfold mainReturned; decide⟩

example : (schedule cfg 5 (fun i => (1 : Nat).testBit i) 280 77 init).mainPc = 3 ∧
    (List.range 5).all (fun i => (schedule cfg 5 (fun i => (1 : Nat).testBit i) 280 77 init).calls i == 1) = true := by decide

/-! ### sixth round: closers whose names differ only in letter case

Which registered components reach `App.CloserComponents` is decided by the wiring; one link of it is modelled here: every
registered component gets its definition through ONE load-or-store of the definition registry's map under the component's
name (container/support/component_definition_registry.go:43-50; `Ioc.Conc.definedNames`, section 6 of Ioc.Conc). The singleton
registry accepts every name that is not EQUAL to a registered one, so the registered names are pairwise different — nothing
more. -/

/-- With the map keyed by the name itself (the code), every registered component gets a definition of its own, whatever the
    names look like — in particular names that differ only in letter case — and in whatever order the parallel scans arrive. -/
theorem C14_exact_names_all_defined {α : Type} [DecidableEq α] (names : List α) (h : names.Nodup) :
    definedNames (fun x => x) names = names :=
  definedFrom_all (fun x => x) names [] h (fun _ _ _ _ e => e) (fun _ _ hm => by cases hm)

/-- More generally: any key that is injective on the registered names keeps all of them … -/
theorem C14_injective_key_all_defined {α κ : Type} [DecidableEq κ] (key : α → κ) (names : List α) (h : names.Nodup)
    (hinj : ∀ a, a ∈ names → ∀ b, b ∈ names → key a = key b → a = b) : definedNames key names = names :=
  definedFrom_all key names [] h hinj (fun _ _ hm => by cases hm)

/-- … and any key under which two DIFFERENT registered names collide leaves a registered component without a definition
    (it is never created, never collected as a closer, never closed), in every order of arrival. -/
theorem C14_colliding_key_drops_a_component {α κ : Type} [DecidableEq κ] (key : α → κ) (names : List α) (a b : α)
    (ha : a ∈ names) (hb : b ∈ names) (hne : a ≠ b) (hk : key a = key b) :
    (definedNames key names).length < names.length :=
  definedFrom_drops key names [] (Or.inr ⟨a, ha, b, hb, hne, hk⟩)

/-- A key that forgets the letter case is such a key: of the closers `orders`, `Orders`, `payments` only two get a
    definition, in both orders of arrival. -/
theorem C14_case_folded_key_counterexample :
    definedNames foldCase ["orders".toList, "Orders".toList, "payments".toList] = ["orders".toList, "payments".toList] ∧
    definedNames foldCase ["Orders".toList, "orders".toList, "payments".toList] = ["Orders".toList, "payments".toList] := by
  decide

-- non-vacuity: the hypotheses of C14_exact_names_all_defined hold for names that differ only in letter case
example : ["orders".toList, "Orders".toList, "ORDERS".toList, "oRDERS".toList].Nodup := by decide

/-- the run the driver makes for `closec 2 4 m2d 39` (two ordinary closers, the type-named kase.Hub and a closer that names
    itself `…/kase/hub`; closer 2 fails): four registered closer components, a run of the system that ends with Close
    returned and every closer invoked once -/
example : Reach cfg 4 (fun i => (4 : Nat).testBit i) (schedule cfg 4 (fun i => (4 : Nat).testBit i) 240 39 init) ∧
    mainReturned (schedule cfg 4 (fun i => (4 : Nat).testBit i) 240 39 init) ∧
    (List.range 4).all (fun i => (schedule cfg 4 (fun i => (4 : Nat).testBit i) 240 39 init).calls i == 1) = true :=
  ⟨schedule_sound cfg 4 _ 240 39 init, by unfold mainReturned; decide, by decide⟩

/-! ### eighth round: which registered closers reach the App that is closed

(a) starts through the package-level entry points: `ioc.Register(cs…)` stores ONE option `SetComponents(cs…)`, `ioc.Run(ops…)`
runs `append(ops, registerHandlers...)` on a new App — the options of the call first, the stored ones after them (run.go:18-31;
section 8 of Ioc.Conc). `SetComponents` registers into the registry the App holds at that moment, `SetRegistry` replaces it.
(b) closers of other Go kinds than (pointer to) struct get their definition like every component: the tag scan's first
statement is `GetMetaOrRegister`, for every kind. Both are tied to the code by the real runs (`closep`, `closek`) only. -/

/-- Whatever options the call of `ioc.Run` is given — registries of its own included —, and however many `ioc.Register`
    calls there were: every component handed to `ioc.Register` is in the registry of the App that `ioc.Run` starts (and so
    is created, collected and closed like every registered closer: C14_all_once). -/
theorem C14_run_keeps_everything_registered (ops handlers : List ROpt)
    (hh : ∀ o, o ∈ handlers → o.isComponents = true) (c : Nat) (hc : c ∈ handlers.flatMap ROpt.ids) :
    c ∈ iocRunRegistry ops handlers := by
  rw [iocRunRegistry_eq ops handlers hh]
  exact List.mem_append_right _ hc

/-- … the hypothesis holds for everything `ioc.Register` stores … -/
theorem C14_register_stores_components (hs : List ROpt) (ids : List Nat) (h : ∀ o, o ∈ hs → o.isComponents = true) :
    ∀ o, o ∈ iocRegister hs ids → o.isComponents = true :=
  iocRegister_components hs ids h

/-- … and when the call installs its registries BEFORE its own components (the scenarios `closep`), the registry of the App
    holds exactly the call's components followed by everything handed to `ioc.Register`. -/
theorem C14_run_registry (pre comps handlers : List ROpt) (hpre : ∀ o, o ∈ pre → o = .setRegistry)
    (hc : ∀ o, o ∈ comps → o.isComponents = true) (hh : ∀ o, o ∈ handlers → o.isComponents = true) :
    iocRunRegistry (pre ++ comps) handlers = comps.flatMap ROpt.ids ++ handlers.flatMap ROpt.ids := by
  rw [iocRunRegistry_eq _ handlers hh, applyOpts_append, applyOpts_registries pre hpre,
    foldl_applyOpt_components comps [] hc, List.nil_append]

/-- What the order `append(ops, registerHandlers...)` buys: with the stored options FIRST and the options of the call after
    them, one `SetRegistry` in the call discards every component handed to `ioc.Register` — the registry holds what the
    options after the last `SetRegistry` register, nothing else. -/
theorem C14_handlers_first_counterexample (handlers before after : List ROpt) :
    applyOpts (handlers ++ (before ++ .setRegistry :: after)) = applyOpts after := by
  rw [← List.append_assoc]; exact applyOpts_forgets _ _

/-- the history of `closep 2 r.2 10 49`: closers 0, 1 through `ioc.Register`, then `ioc.Run(SetRegistry(fresh),
    SetComponents(2, 3))`: the code's order keeps all four, the stored-options-first order keeps two. -/
example : iocRunRegistry [.setRegistry, .setComponents [2, 3]] (iocRegister [] [0, 1]) = [2, 3, 0, 1] ∧
    applyOpts (iocRegister [] [0, 1] ++ [.setRegistry, .setComponents [2, 3]]) = [2, 3] := by decide

-- non-vacuity of C14_run_registry: two registries, two SetComponents options, two ioc.Register calls
example : (∀ o, o ∈ [ROpt.setRegistry, .setRegistry] → o = .setRegistry) ∧
    (∀ o, o ∈ [ROpt.setComponents [3], .setComponents [4, 5]] → o.isComponents = true) ∧
    (∀ o, o ∈ iocRegister (iocRegister [] [0, 1]) [2] → o.isComponents = true) := by decide

/-- Every registered component gets a definition in the tag scan, whatever its Go kind (the scan has no guard in front of
    `GetMetaOrRegister`) … -/
theorem C14_every_kind_defined {α : Type} (comps : List (α × CKind)) :
    scanDefined codeScanGuard comps = comps.map (·.1) :=
  scanDefined_all comps

/-- … and a scan that reaches `GetMetaOrRegister` for (pointers to) structs only leaves every registered component of another
    kind — a pointer to a named integer, a named channel, … — without definition: never created, never closed. -/
theorem C14_struct_only_scan_drops_a_component {α : Type} (comps : List (α × CKind)) (c : α × CKind) (hc : c ∈ comps)
    (hk : c.2 ≠ .struct) : (scanDefined structOnlyGuard comps).length < comps.length := by
  refine scanDefined_drops structOnlyGuard comps c hc ?_
  unfold structOnlyGuard
  cases h : c.2 <;> first | exact absurd h hk | rfl

/-- the closers of `closek 4 12 silc 44` -/
example : scanDefined codeScanGuard [(0, CKind.struct), (1, .int), (2, .slice), (3, .chan)] = [0, 1, 2, 3] ∧
    scanDefined structOnlyGuard [(0, CKind.struct), (1, .int), (2, .slice), (3, .chan)] = [0] := by decide

/-- the run the driver makes for `closep 2 r.2 10 49` (closers 2, 3, 0, 1 in the registry; closers 1 and 3 fail): a run of the
    system that ends with Close returned and every closer invoked once -/
example : Reach cfg 4 (fun j => (10 : Nat).testBit ([2, 3, 0, 1].getD j 0))
      (schedule cfg 4 (fun j => (10 : Nat).testBit ([2, 3, 0, 1].getD j 0)) 240 49 init) ∧
    mainReturned (schedule cfg 4 (fun j => (10 : Nat).testBit ([2, 3, 0, 1].getD j 0)) 240 49 init) :=
  ⟨schedule_sound cfg 4 _ 240 49 init, by unfold mainReturned; decide⟩

/-! ### ninth round: who else takes part in the start of the App that is closed

(a) user post-processors: `ResolveAfterInstantiation` asks every instantiation-aware processor and applies the
`PostProcessProperties` of those that answer true — an answer `false` concerns the processor that gave it, the loop goes on
(section 9 of Ioc.Conc). `App.CloserComponents` is filled from what the built-in dependency processor finds while the App is
populated. (b) other components with an injection point of the closer interface type have candidates of their own; what
they keep of them does not touch what the App is offered. Both are tied to the code by the real runs (`closeq`, `closeh`). -/

/-- An answer `false` is local: among ANY post-processors, in any order, whatever the others answer, a processor that answers
    true has its PostProcessProperties applied. -/
theorem C14_veto_is_local (ps : List IProc) (p : IProc) (hp : p ∈ ps) (ha : p.aware = true) (hpop : p.populate = true) :
    p.id ∈ resolveAfter ps :=
  resolveAfter_mem ps p hp ha hpop

/-- … so the App is offered its closers whatever user post-processors stand before and behind the dependency processor
    (and they are then closed exactly once: C14_all_once). -/
theorem C14_closers_collected_among_any_processors (pre post : List IProc) :
    collectsClosers (resolveAfter (pre ++ depProc :: post)) = true := by
  unfold collectsClosers
  rw [List.contains_iff_mem]
  exact resolveAfter_mem _ depProc (by simp) rfl rfl

/-- The loop that ENDS at the first answer `false` applies nothing behind that processor: with a user processor that keeps
    the default answer anywhere before the dependency processor, the App is never offered a closer. -/
theorem C14_break_on_veto_counterexample (pre post : List IProc) (v : IProc) (ha : v.aware = true) (hv : v.populate = false) :
    ∀ x, x ∈ resolveAfterBreak (pre ++ v :: post) → x ∈ pre.map (·.id) :=
  resolveAfterBreak_stops pre post v ha hv

/-- the processors of `closeq 6 42 o1d 55`: a user processor Ordered 0 that keeps the default answer, then the built-in
    ordered ones: the code's loop applies the dependency processor, the loop that breaks applies nothing -/
example : collectsClosers (resolveAfter [⟨100, true, false⟩, depProc, ⟨3, true, true⟩, ⟨1, true, true⟩]) = true ∧
    resolveAfterBreak [⟨100, true, false⟩, depProc, ⟨3, true, true⟩, ⟨1, true, true⟩] = [] := by decide

-- non-vacuity of C14_veto_is_local / C14_break_on_veto_counterexample
example : depProc ∈ [⟨100, true, false⟩, depProc] ∧ depProc.aware = true ∧ depProc.populate = true ∧
    (⟨100, true, false⟩ : IProc).aware = true ∧ (⟨100, true, false⟩ : IProc).populate = false := by decide

/-- Every injection point has candidates of its own: whatever the holders populated before the App keep of theirs, the App
    is offered the enumeration of the registered closers — each of them exactly once. -/
theorem C14_own_candidates_every_closer_once (enum : List Nat) (holders : List (Nat → Bool)) (h : enum.Nodup) :
    ownCandidates enum holders = enum ∧ ∀ c, c ∈ enum → (ownCandidates enum holders).count c = 1 :=
  ⟨rfl, fun c hc => nodup_count_one enum h c hc⟩

/-- ONE candidate array per type that every holder filters in place: closers 0..5, a holder that keeps the closers 2 and 5
    (`qualifier=db`) compacts the array to 2 5 2 3 4 5 — the App, populated afterwards, is offered closers 2 and 5 twice and
    closers 0 and 1 not at all; when the qualifying closers happen to be enumerated first nothing shows. -/
theorem C14_shared_candidates_counterexample :
    sharedCandidates [0, 1, 2, 3, 4, 5] [fun i => i == 2 || i == 5] = [2, 5, 2, 3, 4, 5] ∧
    sharedCandidates [2, 5, 0, 1, 3, 4] [fun i => i == 2 || i == 5] = [2, 5, 0, 1, 3, 4] := by decide

/-- the run the driver makes for `closeh 6 18 ssdssd ldb 62` (six closers; closers 1 and 4 fail): Close returned, every
    closer invoked once -/
example : Reach cfg 6 (fun j => (18 : Nat).testBit ((List.range 6).getD j 0))
      (schedule cfg 6 (fun j => (18 : Nat).testBit ((List.range 6).getD j 0)) 320 62 init) ∧
    mainReturned (schedule cfg 6 (fun j => (18 : Nat).testBit ((List.range 6).getD j 0)) 320 62 init) :=
  ⟨schedule_sound cfg 6 _ 320 62 init, by unfold mainReturned; decide⟩

/-- "every closer registered with the App" reaches `CloserComponents` through ordinary injection: ResolveAfterInstantiation
    (regenerated, `C12_code_ResolveAfterInstantiation`) calls EVERY InstantiationAware processor in chain order — a processor
    that answers false only skips ITS OWN PostProcessProperties, the later ones (the dependency processors that fill the
    App's slices) still run — and fas.Filter (regenerated, `C06_code_fasFilter`) returns a NEW list, leaving its argument
    as it was -/
theorem C14_code_population_reaches_closers (procs : List Nat) (isInst : Nat → Bool) (res : Nat → Order.Step) (errOk : Nat → Bool)
    (g : Nat → Bool) (l : List Nat) :
    Go.run (Sem.raiPrims procs isInst res errOk) Progs.del_ResolveAfterInstantiation [.str "meta", .str "n"] [] =
      some (if (Order.resolveAfterInstantiation isInst res procs).2 then Sem.errN else .nil,
            (Order.resolveAfterInstantiation isInst res procs).1) ∧
    Go.run (Sem.filterPrims g) Progs.fas_Filter [Sem.encInts l, .str "f"] () = some (Sem.encInts (l.filter g), ()) :=
  ⟨Sem.resolveAfterInstantiation_sem procs isInst res errOk [], Sem.fasFilter_sem g l⟩

/-- every closer is its own component under its own name: SetName / Name (regenerated, `C07_code_meta_names`) keep a custom
    name exactly as it is given — two names that differ in anything, blanks included, stay two names -/
theorem C14_code_names_kept (idOf nameOf : Nat → String) (isComp : Nat → Bool) (n : String) (w : Sem.MW) :
    Go.run (Sem.metaPrims idOf nameOf isComp) Progs.meta_SetName [.str n] w =
      some (.tuple [], if n != w.name then { w with alias := n } else w) ∧
    Go.run (Sem.metaPrims idOf nameOf isComp) Progs.meta_Name [] w = some (.str (if w.alias != "" then w.alias else w.name), w) :=
  ⟨Sem.metaSetName_sem idOf nameOf isComp n w, Sem.metaName_sem idOf nameOf isComp w⟩

end Ioc.C14
