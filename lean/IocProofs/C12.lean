/-
  C12 — Ordering contract for post-processors, runners and loaders.  PROPERTY THEOREMS ONLY.

  Model: Ioc.Order (SortOrderedComponents with its partition loop; callRunners, loadConfigure,
  InvokeBeanFactoryPostProcessors, the before/after/afterInstantiation processor loops, each with its early
  exits).  The sort is ABSTRACT: every theorem assumes only `SortSpec part sort` — the result of
  `sort.Slice` with the comparator `Order() < Order()` is a permutation of its input and ordered by the
  key — so Go's unstable pdqsort, and any other tie order, is covered.  Keys are `Int` (all of int64:
  ties, negatives, extremes; the comparator only compares).
-/
import IocProofs.Lemmas.Order
import IocProofs.Lemmas.OrderDecor
import Ioc.Generated.Facts
import IocProofs.Lemmas.SemOrder
import IocProofs.Lemmas.SemConfigure
import IocProofs.Lemmas.SemInit
import IocProofs.Lemmas.SemDelegate
import IocProofs.Lemmas.OrderSupply
import IocProofs.Lemmas.SemSupply
import IocProofs.Lemmas.SemPrepare
import IocProofs.Lemmas.SemProcessors
import IocProofs.Lemmas.SemAppRun
import IocProofs.Lemmas.SemSmall
import IocProofs.Lemmas.OrderRoutes
namespace Ioc.C12
open Ioc Ioc.Order

variable {α : Type} {part : α → Part} {sort : (α → α → Bool) → List α → List α}

/-- Every participant appears exactly once. -/
theorem C12_perm (hs : SortSpec part sort) (l : List α) : (sortOrdered sort part l).Perm l :=
  sortOrdered_perm hs l

/-- The output is a priority-ordered block, then an ordered block, then an unordered block. -/
theorem C12_classes (hs : SortSpec part sort) (l : List α) :
    ∃ a b c, sortOrdered sort part l = a ++ b ++ c ∧
      (∀ x ∈ a, classOf part x = .prio) ∧ (∀ x ∈ b, classOf part x = .ord) ∧
      (∀ x ∈ c, classOf part x = .plain) := by
  refine ⟨_, _, _, sortOrdered_eq part sort l, ?_, ?_, ?_⟩
  · intro x hx; simpa [isPrio] using sorted_block_class hs (isPrio part) l x hx
  · intro x hx; simpa [isOrd] using sorted_block_class hs (isOrd part) l x hx
  · intro x hx; simpa [isPlain] using plain_block_class (part := part) l x hx

/-- In EVERY such decomposition the Order values never decrease inside the first two blocks. -/
theorem C12_monotone (hs : SortSpec part sort) (l a b c : List α)
    (h : sortOrdered sort part l = a ++ b ++ c)
    (ha : ∀ x ∈ a, classOf part x = .prio) (hb : ∀ x ∈ b, classOf part x = .ord)
    (hc : ∀ x ∈ c, classOf part x = .plain) :
    a.Pairwise (fun x y => keyOf part x ≤ keyOf part y) ∧
    b.Pairwise (fun x y => keyOf part x ≤ keyOf part y) := by
  have f1 := blocks_filter part a b c (fun x hx => by simp [isPrio, ha x hx])
    (fun x hx => by simp [isOrd, hb x hx]) (fun x hx => by simp [isPlain, hc x hx])
  have f2 := blocks_filter part _ _ _ (sorted_block_class hs (isPrio part) l)
    (sorted_block_class hs (isOrd part) l) (plain_block_class (part := part) l)
  rw [← h, sortOrdered_eq] at f1
  constructor
  · rw [← f1.1, f2.1]; exact (hs _).2
  · rw [← f1.2.1, f2.2.1]; exact (hs _).2

/-- …and the unordered block is exactly the unordered participants in registration order. -/
theorem C12_plain_stable (hs : SortSpec part sort) (l a b c : List α)
    (h : sortOrdered sort part l = a ++ b ++ c)
    (ha : ∀ x ∈ a, classOf part x = .prio) (hb : ∀ x ∈ b, classOf part x = .ord)
    (hc : ∀ x ∈ c, classOf part x = .plain) :
    c = l.filter (isPlain part) := by
  have f1 := blocks_filter part a b c (fun x hx => by simp [isPrio, ha x hx])
    (fun x hx => by simp [isOrd, hb x hx]) (fun x hx => by simp [isPlain, hc x hx])
  have f2 := blocks_filter part _ _ _ (sorted_block_class hs (isPrio part) l)
    (sorted_block_class hs (isOrd part) l) (plain_block_class (part := part) l)
  rw [← h, sortOrdered_eq] at f1
  rw [← f1.2.2, f2.2.2]

/-- The contract as one statement: whenever x comes before y in the output, x's class block is earlier, or
    they share a block and (the block is the unordered one, or Order(x) ≤ Order(y)). -/
theorem C12_contract (hs : SortSpec part sort) (l : List α) :
    (sortOrdered sort part l).Pairwise (Precedes part) :=
  sortOrdered_pairwise hs l

/-- A participant with `Priority()` but without `Order()` is unordered (as the code has it). -/
theorem C12_priority_without_order_is_plain : Part.ofIfaces none true = .plain := rfl

/-- The comparator's unchecked type assertions never panic on what is handed to the sort: both sorted
    blocks contain only participants that implement `Ordered`. -/
theorem C12_comparator_total (l : List α) (x y : α)
    (hx : x ∈ l.filter (isPrio part) ∨ x ∈ l.filter (isOrd part))
    (hy : y ∈ l.filter (isPrio part) ∨ y ∈ l.filter (isOrd part)) :
    less? part x y = some (less part x y) := by
  have key : ∀ z, (z ∈ l.filter (isPrio part) ∨ z ∈ l.filter (isOrd part)) →
      (part z).order? = some (keyOf part z) := by
    intro z hz
    have hc : classOf part z = .prio ∨ classOf part z = .ord := by
      rcases hz with hz | hz
      · exact Or.inl (by simpa [isPrio] using (List.mem_filter.mp hz).2)
      · exact Or.inr (by simpa [isOrd] using (List.mem_filter.mp hz).2)
    cases hp : part z <;> simp [classOf, Part.cls, hp] at hc <;> simp [keyOf, Part.key, Part.order?, hp]
  simp [less?, key x hx, key y hy, less]

/-- What the correspondence compares is independent of the sorting algorithm and of its tie order: any two
    sorters meeting the specification produce the same (class, key) sequence and the same unordered block. -/
theorem C12_observation_unique {sort₁ sort₂ : (α → α → Bool) → List α → List α}
    (h1 : SortSpec part sort₁) (h2 : SortSpec part sort₂) (l : List α) :
    (sortOrdered sort₁ part l).map (ck part) = (sortOrdered sort₂ part l).map (ck part) ∧
    (sortOrdered sort₁ part l).filter (isPlain part) = (sortOrdered sort₂ part l).filter (isPlain part) := by
  refine ⟨sortOrdered_ck_unique h1 h2 l, ?_⟩
  have f := fun (s : (α → α → Bool) → List α → List α) (h : SortSpec part s) =>
    (blocks_filter part _ _ _ (sorted_block_class h (isPrio part) l)
      (sorted_block_class h (isOrd part) l) (plain_block_class (part := part) l)).2.2
  rw [sortOrdered_eq, sortOrdered_eq, f _ h1, f _ h2]

/-! ### the three call sites still go through the sorter (regenerated from /repo's source on every run) -/

theorem C12_callsites :
    Facts.sortCallSites =
      [("app.callRunners", "runners"), ("configure.loadConfigure", "c.loaders"),
       ("container/factory.InvokeBeanFactoryPostProcessors", "f.rawComponentPostProcessors")] := by decide

/-- …and at each of them the loop that follows ranges over the variable the sorted slice was assigned to. -/
theorem C12_callsites_flow :
    Facts.sortFlow.map (·.1) = Facts.sortCallSites.map (·.1) ∧
    Facts.sortFlow.all (fun t => t.2.1 == t.2.2) = true := by decide

/-- The sorter has the shape the model mirrors: the outer `Ordered` assertion, the nested `Priority`
    assertion, three `append`s in the loop, two `sort2.Slice` calls with the comparator, three block appends
    in the order priority-ordered, ordered, none. -/
theorem C12_sorter_shape :
    Facts.sortOrderedAsserts = ["definition.Ordered", "definition.Priority"] ∧
    Facts.orderComparator = ("0.Order", "<", "1.Order") ∧
    Facts.sort2Slice = ("sort.Slice x", "less x[0] x[1]") := by decide

theorem C12_sorter_skeleton :
    Facts.sortOrderedSkel =
      [.loop [.branch [.branch [.call "append priorityOrderedComponents component"],
                       .branch [.call "append orderedComponents component"]],
              .branch [.call "append noneOrderedComponents component"]],
       .call "Slice priorityOrderedComponents orderedComponentComparator",
       .call "Slice orderedComponents orderedComponentComparator",
       .call "append ordered priorityOrderedComponents",
       .call "append ordered orderedComponents",
       .call "append ordered noneOrderedComponents",
       .call "return"] := rfl

/-- The loops have the shape the model mirrors (call, return on error, conditional second call). -/
theorem C12_loop_skeletons :
    Facts.callRunnersSkel =
      [.branch [.call "return"], .call "SortOrderedComponents",
       .loop [.call "Run", .branch [.call "return"]], .call "return"] ∧
    Facts.loadConfigureSkel =
      [.call "SortOrderedComponents",
       .loop [.call "LoadConfig", .branch [.call "return"], .branch [.call "SetConfig", .branch [.call "return"]]],
       .call "return"] ∧
    Facts.invokeRegisterSkel =
      [.loop [.branch [.call "return"]], .branch [.call "return"], .call "SortOrderedComponents",
       .loop [.branch [.call "GetComponentByName", .branch [.call "return"], .branch []],
              .call "append f.componentPostProcessors processor"],
       .call "return"] ∧
    Facts.processorLoops =
      [("applyPostProcessBeforeInitialization", "f.componentPostProcessors",
          [.loop [.call "PostProcessBeforeInitialization", .branch [.call "return"], .branch [.call "return"]],
           .call "return"]),
       ("applyPostProcessAfterInitialization", "f.componentPostProcessors",
          [.loop [.call "PostProcessAfterInitialization", .branch [.call "return"], .branch [.call "return"]],
           .call "return"]),
       ("ResolveAfterInstantiation", "f.componentPostProcessors",
          [.loop [.branch [.call "PostProcessAfterInstantiation", .branch [.call "return"],
                           .branch [.call "PostProcessProperties", .branch [.call "return"]]]],
           .call "return"])] :=
  ⟨rfl, rfl, rfl, rfl⟩

/-! ### the callbacks are invoked in that sequence -/

/-- Runners: `Run` is called on the sorted sequence front to back, up to and including the first runner that
    fails; an error is reported iff some runner fails. -/
theorem C12_runners_in_order (hs : SortSpec part sort) (fails : α → Bool) (rs : List α) :
    callRunners sort part fails rs =
      (takeUntil fails (sortOrdered sort part rs), rs.any fails) :=
  callRunners_eq hs fails rs

/-- Loaders: `LoadConfig` is called on the sorted sequence front to back up to the first loader at which
    loadConfigure returns; `SetConfig` follows each LoadConfig that produced data, in the same order. -/
theorem C12_loaders_in_order (hs : SortSpec part sort) (res : α → Step) (ls : List α) :
    firsts (loadConfigure sort part res ls).1 =
        takeUntil (fun x => (res x).stops) (sortOrdered sort part ls) ∧
    seconds (loadConfigure sort part res ls).1 =
        (firsts (loadConfigure sort part res ls).1).filter
          (fun x => match res x with | .next _ => true | _ => false) ∧
    (loadConfigure sort part res ls).2 = ls.any (fun x => (res x).stops) := by
  unfold loadConfigure
  rw [twoStepLoop_eq]
  simp only [List.nil_append, firsts_flatMap_evs, seconds_flatMap_evs, true_and]
  exact ⟨rfl, any_perm (sortOrdered_perm hs ls) _⟩

/-- Post-processors: they are appended to `componentPostProcessors` in sorted order (behind what was there). -/
theorem C12_processors_registered_in_order (r : α → α) (raw cpp : List α) :
    invokeRegister sort part (fun x => some (r x)) raw cpp =
      (cpp ++ (sortOrdered sort part raw).map r, false) := by
  unfold invokeRegister; exact registerLoop_total r _ cpp

/-- …a failing lookup aborts; on success all of them were appended, in sorted order. -/
theorem C12_processors_registered_ok (resolve : α → Option α) (raw cpp : List α)
    (h : (invokeRegister sort part resolve raw cpp).2 = false) :
    (invokeRegister sort part resolve raw cpp).1 = cpp ++ (sortOrdered sort part raw).filterMap resolve ∧
    ∀ x ∈ sortOrdered sort part raw, (resolve x).isSome = true :=
  registerLoop_ok resolve _ cpp h

/-- …and every component passes through them front to back: the before- and after-initialization logs are
    prefixes of the processor sequence, and the whole sequence when every callback returns a component. -/
theorem C12_processors_invoked_in_order {β : Type} (before after : α → β → Res β) (initFails : β → Bool)
    (procs : List α) (m : β) :
    (initializeComponent before after initFails procs m).1 <+: procs ∧
    (initializeComponent before after initFails procs m).2.1 <+: procs ∧
    ((∀ p b, ∃ c, before p b = .val c) → (∀ p b, ∃ c, after p b = .val c) → (∀ b, initFails b = false) →
      (initializeComponent before after initFails procs m).1 = procs ∧
      (initializeComponent before after initFails procs m).2.1 = procs ∧
      (initializeComponent before after initFails procs m).2.2.isSome = true) :=
  initializeComponent_in_order before after initFails procs m

/-- The InstantiationAware processors receive `PostProcessAfterInstantiation` in processor order. -/
theorem C12_inst_processors_in_order (isInst : α → Bool) (res : α → Step) (procs : List α) :
    firsts (resolveAfterInstantiation isInst res procs).1 =
      takeUntil (fun x => (res x).stops) (procs.filter isInst) := by
  unfold resolveAfterInstantiation
  rw [twoStepLoop_eq]; simp [firsts_flatMap_evs]

/-- A whole start with one probe component: every invocation log is a prefix of the corresponding sorted
    sequence, and when nothing fails or answers nil each log IS the sorted sequence. -/
theorem C12_invoked_in_order (hs : SortSpec part sort)
    (loadRes : α → Step) (isInst : α → Bool) (instRes : α → Step)
    (before after : α → Unit → Res Unit) (runFails : α → Bool) (loaders procs runners : List α) :
    let g := start sort part loadRes (fun x => some x) isInst instRes before after runFails loaders procs runners
    firsts g.loads <+: sortOrdered sort part loaders ∧
    firsts g.inst <+: (sortOrdered sort part procs).filter isInst ∧
    g.before <+: sortOrdered sort part procs ∧
    g.after <+: sortOrdered sort part procs ∧
    g.runs <+: sortOrdered sort part runners ∧
    ((∀ x, (loadRes x).stops = false) → (∀ x, (instRes x).stops = false) →
     (∀ p b, ∃ c, before p b = .val c) → (∀ p b, ∃ c, after p b = .val c) → (∀ x, runFails x = false) →
       g.err = false ∧
       firsts g.loads = sortOrdered sort part loaders ∧
       firsts g.inst = (sortOrdered sort part procs).filter isInst ∧
       g.before = sortOrdered sort part procs ∧
       g.after = sortOrdered sort part procs ∧
       g.runs = sortOrdered sort part runners) :=
  start_in_order hs loadRes isInst instRes before after runFails loaders procs runners

/-! ### processors that come back from the factory as another instance (decorated by an earlier processor) -/

/-- The factory may answer the registered processor `x` with ANOTHER instance `r x` (delegate:52-58 `processor = icp`:
    a decorator put around it by an earlier processor's PostProcessAfterInitialization).  Whatever that instance looks like
    to the sorter — NOTHING is assumed about `part (r x)`; a decorator usually has neither `Order()` nor `Priority()` — the
    chain is the sorted REGISTERED sequence with every processor replaced in place, every log is a prefix of it, and when
    nothing stops every log is all of it. -/
theorem C12_resolved_processors_invoked_in_order (hs : SortSpec part sort)
    (loadRes : α → Step) (r : α → α) (isInst : α → Bool) (instRes : α → Step)
    (before after : α → Unit → Res Unit) (runFails : α → Bool) (loaders procs runners : List α) :
    let g := start sort part loadRes (fun x => some (r x)) isInst instRes before after runFails loaders procs runners
    let chain := (sortOrdered sort part procs).map r
    firsts g.loads <+: sortOrdered sort part loaders ∧
    firsts g.inst <+: chain.filter isInst ∧
    g.before <+: chain ∧
    g.after <+: chain ∧
    g.runs <+: sortOrdered sort part runners ∧
    ((∀ x, (loadRes x).stops = false) → (∀ x, (instRes x).stops = false) →
     (∀ p b, ∃ c, before p b = .val c) → (∀ p b, ∃ c, after p b = .val c) → (∀ x, runFails x = false) →
       g.err = false ∧
       firsts g.loads = sortOrdered sort part loaders ∧
       firsts g.inst = chain.filter isInst ∧
       g.before = chain ∧
       g.after = chain ∧
       g.runs = sortOrdered sort part runners) :=
  start_resolved_in_order hs loadRes r isInst instRes before after runFails loaders procs runners

/-- …read back to the registered processors (`orig` = the processor a chain instance stands for; a decorator forwards its
    callbacks to it): the processors whose callbacks run are a prefix of the contract-ordered REGISTERED sequence — judged by
    the registered processor's declared class and Order (`C12_contract`) — and all of it when nothing stops. -/
theorem C12_decorated_processors_keep_position (hs : SortSpec part sort)
    (loadRes : α → Step) (r orig : α → α) (horig : ∀ x, orig (r x) = x) (isInst : α → Bool) (instRes : α → Step)
    (before after : α → Unit → Res Unit) (runFails : α → Bool) (loaders procs runners : List α) :
    let g := start sort part loadRes (fun x => some (r x)) isInst instRes before after runFails loaders procs runners
    g.before.map orig <+: sortOrdered sort part procs ∧
    g.after.map orig <+: sortOrdered sort part procs ∧
    (sortOrdered sort part procs).Pairwise (Precedes part) ∧
    ((∀ x, (loadRes x).stops = false) → (∀ x, (instRes x).stops = false) →
     (∀ p b, ∃ c, before p b = .val c) → (∀ p b, ∃ c, after p b = .val c) → (∀ x, runFails x = false) →
       g.before.map orig = sortOrdered sort part procs ∧ g.after.map orig = sortOrdered sort part procs) := by
  intro g
  obtain ⟨_, _, hB, hA, _, hAll⟩ :=
    start_resolved_in_order hs loadRes r isInst instRes before after runFails loaders procs runners
  have hm := map_resolved_orig r orig horig (sortOrdered sort part procs)
  refine ⟨?_, ?_, sortOrdered_pairwise hs procs, ?_⟩
  · have := prefix_map orig hB; rwa [hm] at this
  · have := prefix_map orig hA; rwa [hm] at this
  · intro n1 n2 n3 n4 n5
    obtain ⟨_, _, _, e1, e2, _⟩ := hAll n1 n2 n3 n4 n5
    exact ⟨by show (g.before).map orig = _; rw [e1, hm], by show (g.after).map orig = _; rw [e2, hm]⟩

/-! ### early references: GetEarlyBeanReference walks the same sorted sequence -/

/-- The loop of GetEarlyBeanReference still ranges over the sorted `componentPostProcessors` (the slice the
    registration loop appends to, `C12_loop_skeletons`), with the smart-processor assertion inside the loop
    (regenerated from /repo's source on every run). -/
theorem C12_early_ref_skeleton :
    Facts.earlyRefLoopFact =
      ("f.componentPostProcessors",
       [.branch [.loop [.branch [.call "GetEarlyBeanReference", .branch [.call "return"]]]], .call "return"]) ∧
    Facts.processorLoops.all (fun t => t.2.1 == Facts.earlyRefLoopFact.1) = true := ⟨rfl, by decide⟩

/-- One early-reference request: the smart processors receive `GetEarlyBeanReference` in processor order, each at
    most once — a prefix ending at the first failing callback, and ALL of them exactly once when no callback fails
    (the registration flag is set as soon as one processor is InstantiationAware, which every smart one is). -/
theorem C12_early_refs_in_order {β : Type} (hasInst : Bool) (isSmart : α → Bool) (get : α → β → Option β)
    (procs : List α) (m : β) :
    (getEarlyBeanReference hasInst isSmart get procs m).1 <+: procs.filter isSmart ∧
    ((hasInst = true ∨ procs.filter isSmart = []) → (∀ p b, (get p b).isSome = true) →
      (getEarlyBeanReference hasInst isSmart get procs m).1 = procs.filter isSmart ∧
      (getEarlyBeanReference hasInst isSmart get procs m).2.isSome = true) :=
  getEarlyBeanReference_in_order hasInst isSmart get procs m

/-- A whole start whose probe is in a circular reference: the early-reference callbacks are a prefix of the SORTED
    smart processors (priority-ordered, ordered, unordered; Orders non-decreasing: `C12_contract`), whatever the
    registration order; when nothing stops they are all of them and the rest of the start is as in
    `C12_invoked_in_order`. -/
theorem C12_early_invoked_in_order (hs : SortSpec part sort)
    (loadRes : α → Step) (isInst : α → Bool) (instRes : α → Step)
    (before after : α → Unit → Res Unit) (runFails : α → Bool)
    (builtinInst : Bool) (isSmart : α → Bool) (get : α → Unit → Option Unit) (loaders procs runners : List α) :
    let g := startC sort part loadRes (fun x => some x) isInst instRes before after runFails builtinInst isSmart get
      loaders procs runners
    let s := start sort part loadRes (fun x => some x) isInst instRes before after runFails loaders procs runners
    g.early <+: (sortOrdered sort part procs).filter isSmart ∧
    ((∀ x, isSmart x = true → isInst x = true) →
     (∀ x, (loadRes x).stops = false) → (∀ x, (instRes x).stops = false) → (∀ p b, (get p b).isSome = true) →
       g = { s with early := (sortOrdered sort part procs).filter isSmart }) :=
  startC_in_order hs loadRes isInst instRes before after runFails builtinInst isSmart get loaders procs runners

/-- …and a sublist of a contract-ordered sequence is contract-ordered: the callbacks of the smart processors obey
    the contract among themselves. -/
theorem C12_early_contract (hs : SortSpec part sort) (isSmart : α → Bool) (procs : List α) :
    ((sortOrdered sort part procs).filter isSmart).Pairwise (Precedes part) ∧
    ((sortOrdered sort part procs).filter isSmart).Perm (procs.filter isSmart) :=
  ⟨(sortOrdered_pairwise hs procs).filter _, (sortOrdered_perm hs procs).filter _⟩

/-! ### components supplied before instantiation: the short-circuit of createComponent -/

/-- PostProcessBeforeInstantiation: the InstantiationAware processors are asked in processor order, each at most once,
    up to and including the first one that answers (an error or a component); the chain's answer is that processor's
    answer, and nil when nobody answers. -/
theorem C12_before_instantiation_in_order {β : Type} (isInst : α → Bool) (bi : α → Res β) (procs : List α) :
    (applyBeforeInstantiation isInst bi procs []).1 =
      takeUntil (fun p => (bi p).answers) (procs.filter isInst) ∧
    (applyBeforeInstantiation isInst bi procs []).2 =
      (match (procs.filter isInst).find? (fun p => (bi p).answers) with
       | none => .nil
       | some p => bi p) :=
  ⟨by rw [applyBeforeInstantiation_log]; simp, applyBeforeInstantiation_res isInst bi procs []⟩

/-- A component some processor supplies from PostProcessBeforeInstantiation gets the after-initialization chain over the
    supplied instance and NOTHING else: no after-instantiation callback, no before-initialization round — so every
    processor's after-initialization callback fires at most once for it, in processor order (a prefix ending at the first
    failing or nil-answering processor), and exactly once when every callback returns a component. -/
theorem C12_supplied_component_after_chain_only {β : Type} (isInst : α → Bool) (bi : α → Res β) (instRes : α → Step)
    (before after : α → β → Res β) (initFails : β → Bool) (procs : List α) (raw c : β)
    (h : (applyBeforeInstantiation isInst bi procs []).2 = .val c) :
    let r := createComponent true isInst bi instRes before after initFails procs raw
    r.1.inst = [] ∧ r.1.before = [] ∧
    r.1.after = (applyAfter after procs c []).1 ∧ r.1.after <+: procs ∧ r.2 = (applyAfter after procs c []).2 ∧
    ((∀ p b, ∃ c', after p b = .val c') → r.1.after = procs ∧ r.2.isSome = true) := by
  intro r
  have hr : r = _ := createComponent_supplied isInst bi instRes before after initFails procs raw c h
  obtain ⟨p1, p2⟩ := applyAfter_log_prefix after procs c
  rw [hr]
  exact ⟨rfl, rfl, rfl, p1, rfl, p2⟩

/-- A component nobody supplies (every InstantiationAware processor answers nil) is created the ordinary way: after all
    InstantiationAware processors were asked, the rounds of `C12_inst_processors_in_order` and
    `C12_processors_invoked_in_order`. -/
theorem C12_unsupplied_component_regular_creation {β : Type} (isInst : α → Bool) (bi : α → Res β) (instRes : α → Step)
    (before after : α → β → Res β) (initFails : β → Bool) (procs : List α) (raw : β)
    (h : ∀ p, (bi p).answers = false) (hi : (resolveAfterInstantiation isInst instRes procs).2 = false) :
    createComponent true isInst bi instRes before after initFails procs raw =
      ({ binst := procs.filter isInst, inst := (resolveAfterInstantiation isInst instRes procs).1,
         before := (initializeComponent before after initFails procs raw).1,
         after := (initializeComponent before after initFails procs raw).2.1 },
       (initializeComponent before after initFails procs raw).2.2) := by
  have ha := applyBeforeInstantiation_all isInst bi procs h
  rw [createComponent_regular true isInst bi instRes before after initFails procs raw (Or.inr (by rw [ha]))]
  simp [ha, hi]

/-- A whole start with several watched components and processors that may supply instances: each component is created at
    most once, and for EVERY created component each of the four callback logs is a prefix of the sorted processor sequence
    (of its InstantiationAware part for the two instantiation callbacks) — every participant at most once per component,
    in contract order (`C12_contract`), whichever component is supplied by whom. -/
theorem C12_components_invoked_in_order {β γ : Type} (hs : SortSpec part sort)
    (loadRes : α → Step) (hasInst : Bool) (isInst : α → Bool) (bi : γ → α → Res β) (instRes : α → Step)
    (before after : α → β → Res β) (runFails : α → Bool) (raw : γ → β) (cs : List γ)
    (loaders procs runners : List α) :
    let g := startB sort part loadRes (fun x => some x) hasInst isInst bi instRes before after runFails raw cs loaders procs runners
    firsts g.loads <+: sortOrdered sort part loaders ∧
    g.comps.length ≤ cs.length ∧
    (∀ r ∈ g.comps,
      r.1.binst <+: (sortOrdered sort part procs).filter isInst ∧
      firsts r.1.inst <+: (sortOrdered sort part procs).filter isInst ∧
      r.1.before <+: sortOrdered sort part procs ∧
      r.1.after <+: sortOrdered sort part procs) ∧
    g.runs <+: sortOrdered sort part runners :=
  startB_in_order hs loadRes hasInst isInst bi instRes before after runFails raw cs loaders procs runners

/-! ### every Initialize of a Configure, whatever was called on it before -/

/-- The entry points of `configure` have the shape the model mirrors: Initialize guards and calls loadConfigure,
    AddLoaders appends, SetLoaders replaces, and the only other write to the loader slice is the sorted slice in
    loadConfigure (regenerated from /repo's source on every run). -/
theorem C12_configure_entry_points :
    Facts.confInitializeSkel = [.branch [.call "return"], .call "loadConfigure", .branch [.call "return"], .call "return"] ∧
    Facts.confAddLoadersSkel = [.call "append c.loaders loaders"] ∧
    Facts.confLoaderWrites =
      [("AddLoaders", "append c.loaders loaders"), ("SetLoaders", "loaders"),
       ("loadConfigure", "framework_helper.SortOrderedComponents c.loaders")] := ⟨rfl, rfl, by decide⟩

/-- For EVERY sequence of SetLoaders / AddLoaders / Initialize calls on a fresh Configure, every Initialize calls
    `LoadConfig` along a sequence `s` that contains each loader registered at that moment exactly once, obeys the
    contract, keeps the unordered loaders in registration order, and is walked front to back up to the first loader at
    which loadConfigure returns; `SetConfig` follows each LoadConfig that produced data; an error is reported iff a
    registered loader stops.  (No dependence on earlier Initialize calls or on the number of loaders.) -/
theorem C12_loaders_every_initialize (hs : SortSpec part sort) (res : α → Step) (ops : List (ConfOp α)) :
    Forall2 (InitSpec part res) (confRun sort part res ops []) (confRegistered ops []) :=
  confRun_spec hs res ops [] [] (List.Perm.refl _) rfl

/-! ### non-vacuity -/

/-- smart processors registered against the contract order (unordered, ordered, priority-ordered) are called
    priority-ordered first; the hypotheses of `C12_early_invoked_in_order` hold -/
example :
    let g := startC (fun lt l => isort lt l) Participant.part (fun _ => .skip) (fun x => some x)
      (fun p => p.id != 3) (fun _ => .skip) (fun _ _ => .val ()) (fun _ _ => .val ()) (fun _ => false)
      true (fun p => p.id < 3) (fun _ _ => some ())
      [] [⟨.plain, 0⟩, ⟨.ord 5, 1⟩, ⟨.prio 70, 2⟩, ⟨.ord (-1), 3⟩] []
    g.err = false ∧ g.early.map (·.id) = [2, 1, 0] ∧ g.before.map (·.id) = [2, 3, 1, 0] := by decide

/-- a decorating processor (id 0, priority-ordered, Order -100) ahead of two eager processors (ids 1, 2) and a LazyInit one
    (id 3, ordered 50): the factory answers 1 and 2 with decorators (ids 11, 12) that are UNORDERED to the sorter; the chain
    keeps them where their registration put them (0, 11, 12, 3, 4) — while sorting the resolved chain once more (what a
    "keep the whole chain ordered" rewrite does) would move the priority-ordered processor 1 behind the merely ordered 3 -/
example :
    let part : Participant → Part := fun p => if p.id ≥ 10 then .plain else p.part
    let r : Participant → Participant := fun p => if p.id == 1 || p.id == 2 then ⟨p.part, p.id + 10⟩ else p
    let procs : List Participant := [⟨.plain, 4⟩, ⟨.ord 50, 3⟩, ⟨.ord 1, 2⟩, ⟨.prio 5, 1⟩, ⟨.prio (-100), 0⟩]
    let g := start (fun lt l => isort lt l) part (fun _ => .skip) (fun x => some (r x))
      (fun _ => false) (fun _ => .skip) (fun _ _ => .val ()) (fun _ _ => .val ()) (fun _ => false) [] procs []
    g.err = false ∧ g.before.map (·.id) = [0, 11, 12, 3, 4] ∧
      (sortOrdered (fun lt l => isort lt l) part g.before).map (·.id) = [0, 3, 11, 12, 4] := by decide

/-- Initialize / SetLoaders with as many loaders, registered out of order / Initialize / AddLoaders / Initialize -/
example :
    (confRun (fun lt l => isort lt l) Participant.part (fun _ => Step.skip)
        [.set [⟨.plain, 0⟩, ⟨.ord 5, 1⟩, ⟨.prio 9, 2⟩], .init,
         .set [⟨.plain, 3⟩, ⟨.ord 7, 4⟩, ⟨.prio 3, 5⟩], .init, .add [⟨.prio 1, 6⟩, ⟨.plain, 7⟩], .init] []).map
        (fun r => ((firsts r.1).map (·.id), r.2))
      = [([2, 1, 0], false), ([5, 4, 3], false), ([6, 5, 4, 3, 7], false)] := by decide


/-- the specification is met by the driver's insertion sort, by core's merge sort, and by a sorter with the
    opposite tie order — so the hypotheses of the theorems above are satisfiable, by different algorithms -/
example (part : α → Part) : SortSpec part (fun lt l => isort lt l) := isort_spec part
example (part : α → Part) : SortSpec part (fun lt l => l.mergeSort (fun a b => !lt b a)) := mergeSort_spec part
example (part : α → Part) : SortSpec part (fun lt l => isort lt l.reverse) := isortRev_spec part

/-- two specification-meeting sorters that really differ on identities (tie order) yet agree on what is compared -/
example :
    let l : List Participant := [⟨.ord 1, 0⟩, ⟨.ord 1, 1⟩, ⟨.prio 5, 2⟩]
    (sortOrdered (fun lt l => isort lt l) Participant.part l).map (·.id) = [2, 1, 0] ∧
    (sortOrdered (fun lt l => isort lt l.reverse) Participant.part l).map (·.id) = [2, 0, 1] := by decide

/-- the repo's own test vector (order_component_test.go): [NC 0, POC 1, OC 99, POC 98, OC 0] ↦ [POC 1, POC 98, OC 0, OC 99, NC 0] -/
example :
    sortParticipants [⟨.plain, 0⟩, ⟨.prio 1, 1⟩, ⟨.ord 99, 2⟩, ⟨.prio 98, 3⟩, ⟨.ord 0, 4⟩]
      = [⟨.prio 1, 1⟩, ⟨.prio 98, 3⟩, ⟨.ord 0, 4⟩, ⟨.ord 99, 2⟩, ⟨.plain, 0⟩] := by decide

/-- ties, negatives, the extremes of int64, and Priority-without-Order -/
example :
    (sortParticipants [⟨.ofIfaces none true, 0⟩, ⟨.ord 9223372036854775807, 1⟩, ⟨.prio 0, 2⟩, ⟨.plain, 3⟩,
                       ⟨.ord (-9223372036854775808), 4⟩, ⟨.prio (-3), 5⟩, ⟨.prio 0, 6⟩]).map
        (fun p => (p.part, p.id))
      = [(.prio (-3), 5), (.prio 0, 6), (.prio 0, 2), (.ord (-9223372036854775808), 4),
         (.ord 9223372036854775807, 1), (.plain, 0), (.plain, 3)] := by decide

/-- a runner that fails stops the sequence right after itself -/
example :
    callRunners (fun lt l => isort lt l) Participant.part (fun p => p.id == 1)
        [⟨.plain, 0⟩, ⟨.ord 2, 1⟩, ⟨.prio 7, 2⟩, ⟨.ord 3, 3⟩]
      = ([⟨.prio 7, 2⟩, ⟨.ord 2, 1⟩], true) := by decide

/-- a loader whose data the binder rejects stops the sequence after its SetConfig -/
example :
    loadConfigure (fun lt l => isort lt l) Participant.part
        (fun p => if p.id == 0 then .next true else if p.id == 1 then .next false else .skip)
        [⟨.plain, 0⟩, ⟨.ord 2, 1⟩, ⟨.prio 7, 2⟩, ⟨.plain, 3⟩]
      = ([.first ⟨.prio 7, 2⟩, .first ⟨.ord 2, 1⟩, .second ⟨.ord 2, 1⟩, .first ⟨.plain, 0⟩, .second ⟨.plain, 0⟩], true) := by
  decide

/-- the hypotheses of the "nothing stops" half of C12_invoked_in_order hold for a non-trivial start -/
example :
    let g := start (fun lt l => isort lt l) Participant.part (fun _ => .next false) (fun x => some x)
      (fun p => p.id % 2 == 0) (fun _ => .skip) (fun _ _ => .val ()) (fun _ _ => .val ()) (fun _ => false)
      [⟨.plain, 0⟩, ⟨.prio 1, 1⟩] [⟨.ord 3, 0⟩, ⟨.prio 2, 1⟩, ⟨.plain, 2⟩] [⟨.ord 1, 0⟩, ⟨.ord (-1), 1⟩]
    g.err = false ∧ g.before.map (·.id) = [1, 0, 2] ∧ (firsts g.inst).map (·.id) = [0, 2] ∧
      g.runs.map (·.id) = [1, 0] ∧ (seconds g.loads).map (·.id) = [1, 0] := by decide

/-- two watched components, processor 1 (ordered, InstantiationAware) supplies the first one: its log is the
    after-initialization chain only, the second component passes all four rounds; sorted chain = [2, 1, 0] -/
example :
    let g := startB (fun lt l => isort lt l) Participant.part (fun _ => .skip) (fun x => some x) true
      (fun p => p.id != 0) (fun (c : Nat) p => if c == 0 && p.id == 1 then .val 100 else .nil) (fun _ => .skip)
      (fun _ b => .val b) (fun p b => if p.id == 0 then .val (b + 1) else .val b) (fun _ => false) (fun c => c) [0, 1]
      [] [⟨.plain, 0⟩, ⟨.ord 3, 1⟩, ⟨.prio 2, 2⟩] [⟨.ord 1, 0⟩]
    g.err = false ∧
    g.comps.map (fun r => (r.1.binst.map (·.id), (firsts r.1.inst).map (·.id), r.1.before.map (·.id), r.1.after.map (·.id), r.2)) =
      [([2, 1], [], [], [2, 1, 0], some 101), ([2, 1], [2, 1], [2, 1, 0], [2, 1, 0], some 2)] := by decide

/-- the hypothesis of C12_supplied_component_after_chain_only holds for a non-trivial chain -/
example : (applyBeforeInstantiation (fun p => p != 2) (fun p => if p == 3 then Res.val 8 else .nil) [1, 2, 3, 4] []).2 = .val 8 := by
  rfl

/-! ### the tie to the code: SortOrderedComponents and its comparator ARE the regenerated programs

`Ioc.Progs.sortOrderedComponents` / `Ioc.Progs.orderedComponentComparator` are the syntax trees of the two functions of
util/framework_helper/order_component.go, re-translated from /repo's source on every run (MiniGo, Ioc.GoSem).  Run by the
interpreter — the two type assertions answered by `part`, `sort2.Slice` an ARBITRARY function `sort` — the first computes
exactly `Order.sortOrdered sort part` (partition in the given order, sort the priority and the ordered bucket with the
comparator, concatenate priority ++ ordered ++ rest); the second is `Order() < Order()` and panics (stuck) exactly when a
participant has no `Order()`.  Every theorem above about `sortOrdered` is thereby a theorem about this code; a rewrite of
either function (which the seeded changes C10C, C12A, C13A, C13C, C15D all were) changes the term these proofs are about. -/

theorem C12_code_sortOrderedComponents (sort : (Nat → Nat → Bool) → List Nat → List Nat) (part : Nat → Part)
    (hs : SortSpec part sort) (l : List Nat) :
    Go.run (Sem.sortPrims sort part) Progs.sortOrderedComponents [.list (l.map Sem.encR)] () =
      some (.list ((sortOrdered sort part l).map Sem.encR), ()) :=
  Sem.sortOrderedComponents_sem sort part (Sem.sort_nil_of_spec sort part hs) l

theorem C12_code_comparator (part : Nat → Part) (i j : Nat) :
    Go.run (Sem.cmpPrims part) Progs.orderedComponentComparator [.ref i 0, .ref j 0] () =
      (less? part i j).map (fun b => (.bool b, ())) :=
  Sem.comparator_sem part i j

/-- non-vacuity: five participants (2 priority, 2 ordered, 1 plain) with insertion sort -/
example : Go.run (Sem.sortPrims (fun lt l => isort lt l) (fun i => [Part.plain, .ord 5, .prio 9, .ord (-3), .prio 1].getD i .plain))
    Progs.sortOrderedComponents [.list ([0, 1, 2, 3, 4].map Sem.encR)] () =
    some (.list ([4, 2, 3, 1, 0].map Sem.encR), ()) :=
  (Sem.sortOrderedComponents_sem _ _ (by rfl) _).trans (by rfl)

/-- configure.loadConfigure, regenerated (configure/configure.go:54-72): the loader list is replaced by what
    SortOrderedComponents returns for it, and the loaders are walked in THAT order — LoadConfig, then SetConfig when the
    document is not empty, the first error ends the walk: M4's `twoStepLoop` (the function `C12_loaders_in_order` and C15's
    `C15_load_is_merge` are about).  For every loader behaviour `res` and every arrangement `sorted`. -/
theorem C12_code_loadConfigure (res : Nat → Step) (sorted : List Nat) (w : Sem.CfgW) :
    Go.run (Sem.cfgPrims res sorted) Progs.cfg_loadConfigure [] w =
      some (if (twoStepLoop res sorted w.log).2 then Sem.errG else .nil,
            { loaders := sorted, log := (twoStepLoop res sorted w.log).1 }) :=
  Sem.loadConfigure_sem res sorted w

/-- Configure.Initialize, regenerated: nothing happens for an empty loader list; otherwise loadConfigure runs — on EVERY
    call, there is no "already initialised" state (what the seeded changes C12B and, in round 3, "incremental Initialize"
    broke) -/
theorem C12_code_Initialize (res : Nat → Step) (sorted : List Nat) (w : Sem.CfgW) :
    Go.run (Sem.initPrims res sorted) Progs.cfg_Initialize [] w =
      if w.loaders.isEmpty then some (.nil, w)
      else some (if (twoStepLoop res sorted w.log).2 then Sem.errG else .nil,
                 { loaders := sorted, log := (twoStepLoop res sorted w.log).1 }) :=
  Sem.initialize_sem res sorted w

/-- the two callback chains of the delegate, regenerated: the processors are called in the order of
    `componentPostProcessors` (the sorted registration order, C12_processors_registered_in_order), each fed the previous
    result — `Order.applyBefore` / `Order.applyAfter` (`Sem.applyBefore_eq`, `Sem.applyAfter_eq`) -/
theorem C12_code_applyBefore (procs : List Nat) (before after : Nat → Nat → Res Nat) (im : Sem.InitM) (c : Nat) (w : List Sem.IEv) :
    Go.run (Sem.initBase procs before after im) Progs.del_applyBefore [Sem.encC c, .str "n"] w =
      some (Sem.encRes (Sem.beforeLoop before procs c).2, w ++ Sem.bevs (Sem.beforeLoop before procs c).1) ∧
    applyBefore before procs c [] = ((Sem.beforeLoop before procs c).1, (Sem.beforeLoop before procs c).2) :=
  ⟨Sem.applyBefore_sem procs before after im c w, by rw [Sem.applyBefore_eq]; simp⟩

theorem C12_code_applyAfter (procs : List Nat) (before after : Nat → Nat → Res Nat) (im : Sem.InitM) (c : Nat) (w : List Sem.IEv) :
    Go.run (Sem.initBase procs before after im) Progs.del_applyAfter [Sem.encC c, .str "n"] w =
      some (Sem.encAfter (Sem.afterLoop after procs c).2, w ++ Sem.aevs (Sem.afterLoop after procs c).1) ∧
    applyAfter after procs c [] = ((Sem.afterLoop after procs c).1, (Sem.afterLoop after procs c).2) :=
  ⟨Sem.applyAfter_sem procs before after im c w, by rw [Sem.applyAfter_eq]; simp⟩

/-- the short-circuit creation path, regenerated (delegate:178-211): applyPostProcessBeforeInstantiation asks the
    InstantiationAware processors in the order of `componentPostProcessors` until one fails or hands out a component —
    `Order.applyBeforeInstantiation` (`Sem.abiLoop_eq`) -/
theorem C12_code_applyBeforeInstantiation (procs : List Nat) (isInst : Nat → Bool) (bi : Nat → Res Nat) (w : List Nat) :
    Go.run (Sem.abiPrims procs isInst bi) Progs.del_applyBeforeInstantiation [.str "meta", .str "n"] w =
      some (Sem.encRes (applyBeforeInstantiation isInst bi procs []).2, w ++ (applyBeforeInstantiation isInst bi procs []).1) := by
  rw [Sem.applyBeforeInstantiation_sem, Sem.abiLoop_eq]; simp

/-- …and ResolveBeforeInstantiation hands a component supplied that way to applyPostProcessAfterInitialization
    (`C12_code_applyAfter`) and returns ITS answer (the instance the factory then uses, factory.go:170-181), nothing
    without an InstantiationAware processor — `Order.resolveBeforeInstantiation` -/
theorem C12_code_ResolveBeforeInstantiation (hasInst : Bool) (isInst : Nat → Bool) (bi : Nat → Res Nat)
    (after : Nat → Nat → Res Nat) (procs : List Nat) :
    Go.run (Sem.rbiPrims hasInst (applyBeforeInstantiation isInst bi procs []).2 (fun c => (applyAfter after procs c []).2))
        Progs.del_ResolveBeforeInstantiation [.str "meta", .str "n"] [] =
      some (Sem.encRes (resolveBeforeInstantiation hasInst isInst bi after procs).2.2,
            (Sem.rbiModel hasInst (applyBeforeInstantiation isInst bi procs []).2 (fun c => (applyAfter after procs c []).2)).2) := by
  rw [Sem.resolveBeforeInstantiation_sem, Sem.rbiModel_eq]

/-- ResolveAfterInstantiation, regenerated (delegate:213-231): the InstantiationAware processors are called in the order of
    `componentPostProcessors`; PostProcessProperties only follows a `true` answer, the first error of either call ends the
    loop — `Order.resolveAfterInstantiation`.  The boolean a failing PostProcessAfterInstantiation returns next to its error
    (`errOk`) does not matter. -/
theorem C12_code_ResolveAfterInstantiation (procs : List Nat) (isInst : Nat → Bool) (res : Nat → Step) (errOk : Nat → Bool) :
    Go.run (Sem.raiPrims procs isInst res errOk) Progs.del_ResolveAfterInstantiation [.str "meta", .str "n"] [] =
      some (if (resolveAfterInstantiation isInst res procs).2 then Sem.errN else .nil,
            (resolveAfterInstantiation isInst res procs).1) :=
  Sem.resolveAfterInstantiation_sem procs isInst res errOk []

/-- InvokeBeanFactoryPostProcessors, regenerated (delegate:36-66): with `sorted` = what SortOrderedComponents returns for the
    raw list (`C12_code_sortOrderedComponents`: `sortOrdered sort part raw`), the registration is `Order.invokeRegister`:
    the processors are created through the factory and appended to `componentPostProcessors` in SORTED order, the first
    failing creation ends it -/
theorem C12_code_InvokeBeanFactoryPostProcessors (sort : (Nat → Nat → Bool) → List Nat → List Nat) (part : Nat → Part)
    (fpFails : Nat → Bool) (drFails : Bool) (lazy : Nat → Bool) (getc : Nat → Option Nat) (isCPP : Nat → Bool)
    (fprocs raw cpp0 : List Nat) :
    Go.run (Sem.regPrims' fpFails drFails (sortOrdered sort part raw) lazy getc isCPP) Progs.del_InvokeBeanFactoryPostProcessors
        [.str "factory", .list (fprocs.map Sem.encP)] { raw := .list (raw.map Sem.encP), cpp := cpp0.map Sem.encP } =
      some (Sem.invokeModel fpFails drFails (sortOrdered sort part raw) lazy getc isCPP fprocs raw cpp0) ∧
    (¬ (runLoop fpFails fprocs []).2 → drFails = false →
      (Sem.invokeModel fpFails drFails (sortOrdered sort part raw) lazy getc isCPP fprocs raw cpp0).2.cpp =
        (invokeRegister sort part (Sem.resolveOf lazy getc isCPP) raw cpp0).1.map Sem.encP) := by
  refine ⟨Sem.invokeBeanFactoryPostProcessors_sem fpFails drFails _ lazy getc isCPP fprocs raw cpp0, ?_⟩
  intro h1 h2
  simp [Sem.invokeModel, h1, h2, invokeRegister]

/-- non-vacuity: processors 1 (lazy) and 2 (created, the created instance 7 is registered) in sorted order [2, 1] -/
example : (Sem.invokeModel (fun _ => false) false [2, 1] (fun p => p == 1) (fun p => if p == 2 then some 7 else none)
    (fun _ => true) [9] [1, 2] []).2.cpp = [Sem.encP 7, Sem.encP 1] := by rfl

/-! ### defaultFactory.PrepareComponents and RegisterComponentPostProcessors, REGENERATED (interpretation Ioc.SemPrepare) -/
section prepare
open Ioc.Go Ioc.Sem

/-- PrepareComponents: the singletons in the order the registry enumerates them, each recorded in a FRESH
    `registeredComponents` map and classified; a failing `GetSingleton` ends the call with its error BEFORE the delegate is
    invoked; otherwise the delegate gets exactly the factory post-processors found and its error is returned as it is -/
theorem C12_code_PrepareComponents (p : PCP) (w : PCW) :
    run (pcPrims p) Progs.factory_PrepareComponents [] w =
      (let r := stepLoop (pcStep p) p.names [] { w with regComps := [] }
       match r.2.2 with
       | some v => some (v, r.2.1)
       | none => some (match p.invokeErr r.1 with | none => .nil | some e => .str e, { r.2.1 with invoked := some r.1 })) :=
  prepareComponents_sem p w

/-- … and when every singleton can be fetched, the component post-processors, the definition-registry post-processors and the
    factory post-processors are the singletons of each kind IN THE ENUMERATION ORDER (a singleton of several kinds is in each
    list): the order contract of the later stages starts from this order and nothing else -/
theorem C12_code_PrepareComponents_order (p : PCP) (idOf : String → Nat) (names : List String) (fpp : List Nat) (w : PCW)
    (h : ∀ n ∈ names, p.single n = .ok (idOf n)) :
    (stepLoop (pcStep p) names fpp w).1 = fpp ++ (names.map idOf).filter p.isCFPP ∧
    (stepLoop (pcStep p) names fpp w).2.2 = none ∧
    (stepLoop (pcStep p) names fpp w).2.1.defPPs = w.defPPs ++ (names.map idOf).filter p.isDRPP ∧
    (stepLoop (pcStep p) names fpp w).2.1.beanPPs =
      w.beanPPs ++ (names.filter (fun n => p.isCPP (idOf n))).map (fun n => (idOf n, n)) ∧
    (stepLoop (pcStep p) names fpp w).2.1.invoked = w.invoked :=
  pcStep_loop_ok p idOf names fpp w h

/-- RegisterComponentPostProcessors: the processor is appended to the raw list whatever it is; the type switch marks an
    instantiation-aware processor, and a destruction-aware one only when it is not instantiation-aware (first matching clause) -/
theorem C12_code_RegisterComponentPostProcessors (isInst isDestr : Nat → Bool) (i : Nat) (n : String) (w : RCW) :
    run (rcPrims isInst isDestr) Progs.delegate_RegisterComponentPostProcessors [.ref i 0, .str n] w =
      some (.tuple [], { hasInst := w.hasInst || isInst i, hasDestr := w.hasDestr || (!isInst i && isDestr i), raw := w.raw ++ [i] }) :=
  registerCPP_sem isInst isDestr i n w

end prepare

/-! ### the small methods of the nine built-in processors and of the two default processors, REGENERATED
    (interpretation Ioc.SemProcessors: a named order constant evaluates to its name) -/
section processors
open Ioc.Go Ioc.Sem

/-- each built-in processor's `Order()` returns the constant named here (value and properties share one, the two dependency
    processors share one) -/
theorem C12_code_processor_orders (w : Option Go.Val) :
    run ppPrims Progs.pp_quote_Order [] w = some (.str "PriorityOrderPropertyConfigQuoteAware", w) ∧
    run ppPrims Progs.pp_dep_Order [] w = some (.str "OrderDependencyAware", w) ∧
    run ppPrims Progs.pp_depfn_Order [] w = some (.str "OrderDependencyAware", w) ∧
    run ppPrims Progs.pp_further_Order [] w = some (.str "OrderDependencyFurtherMatching", w) ∧
    run ppPrims Progs.pp_expr_Order [] w = some (.str "PriorityOrderPropertyExpressionTagAware", w) ∧
    run ppPrims Progs.pp_logger_Order [] w = some (.str "PriorityOrderLoggerAware", w) ∧
    run ppPrims Progs.pp_props_Order [] w = some (.str "PriorityOrderPopulateProperties", w) ∧
    run ppPrims Progs.pp_validate_Order [] w = some (.str "OrderValidate", w) ∧
    run ppPrims Progs.pp_value_Order [] w = some (.str "PriorityOrderPopulateProperties", w) :=
  ⟨pp_quote_Order_sem w, pp_dep_Order_sem w, pp_depfn_Order_sem w, pp_further_Order_sem w, pp_expr_Order_sem w, pp_logger_Order_sem w, pp_props_Order_sem w, pp_validate_Order_sem w, pp_value_Order_sem w⟩

/-- each built-in processor lets population go on after instantiation: `PostProcessAfterInstantiation` = (true, nil) -/
theorem C12_code_processor_after_instantiation (c n : Go.Val) (w : Option Go.Val) :
    run ppPrims Progs.pp_quote_AfterInstantiation [c, n] w = some (.tuple [.bool true, .nil], w) ∧
    run ppPrims Progs.pp_dep_AfterInstantiation [c, n] w = some (.tuple [.bool true, .nil], w) ∧
    run ppPrims Progs.pp_depfn_AfterInstantiation [c, n] w = some (.tuple [.bool true, .nil], w) ∧
    run ppPrims Progs.pp_further_AfterInstantiation [c, n] w = some (.tuple [.bool true, .nil], w) ∧
    run ppPrims Progs.pp_expr_AfterInstantiation [c, n] w = some (.tuple [.bool true, .nil], w) ∧
    run ppPrims Progs.pp_logger_AfterInstantiation [c, n] w = some (.tuple [.bool true, .nil], w) ∧
    run ppPrims Progs.pp_props_AfterInstantiation [c, n] w = some (.tuple [.bool true, .nil], w) ∧
    run ppPrims Progs.pp_validate_AfterInstantiation [c, n] w = some (.tuple [.bool true, .nil], w) ∧
    run ppPrims Progs.pp_value_AfterInstantiation [c, n] w = some (.tuple [.bool true, .nil], w) :=
  ⟨pp_quote_After_sem c n w, pp_dep_After_sem c n w, pp_depfn_After_sem c n w, pp_further_After_sem c n w, pp_expr_After_sem c n w, pp_logger_After_sem c n w, pp_props_After_sem c n w, pp_validate_After_sem c n w, pp_value_After_sem c n w⟩

/-- `PostProcessComponentFactory` of the four processors that have one stores what the factory hands out — its Configure, or
    its definition registry — and returns nil -/
theorem C12_code_processor_factory_hooks (w : Option Go.Val) :
    run ppPrims Progs.pp_quote_ComponentFactory [.ref 0 171] w = some (.nil, some (.tuple [.str "Configure", .str "factory.GetConfigure()"])) ∧
    run ppPrims Progs.pp_dep_ComponentFactory [.ref 0 171] w = some (.nil, some (.tuple [.str "Registry", .str "factory.GetDefinitionRegistry()"])) ∧
    run ppPrims Progs.pp_depfn_ComponentFactory [.ref 0 171] w = some (.nil, some (.tuple [.str "Registry", .str "factory.GetDefinitionRegistry()"])) ∧
    run ppPrims Progs.pp_props_ComponentFactory [.ref 0 171] w = some (.nil, some (.tuple [.str "Configure", .str "factory.GetConfigure()"])) :=
  ⟨pp_quote_Factory_sem w, pp_dep_Factory_sem w, pp_depfn_Factory_sem w, pp_props_Factory_sem w⟩

/-- the default processors change nothing: the component is returned as it is, no substitute before instantiation, and —
    unlike the built-in ones — `PostProcessAfterInstantiation` = (false, nil), `PostProcessProperties` = (nil, nil) -/
theorem C12_code_default_processors (c n : Go.Val) (w : Option Go.Val) :
    run ppPrims Progs.pp_default_BeforeInitialization [c, n] w = some (.tuple [c, .nil], w) ∧
    run ppPrims Progs.pp_default_AfterInitialization [c, n] w = some (.tuple [c, .nil], w) ∧
    run ppPrims Progs.pp_default_BeforeInstantiation [c, n] w = some (.tuple [.nil, .nil], w) ∧
    run ppPrims Progs.pp_default_AfterInstantiation [c, n] w = some (.tuple [.bool false, .nil], w) ∧
    (∀ ps, run ppPrims Progs.pp_default_Properties [ps, c, n] w = some (.tuple [.nil, .nil], w)) :=
  pp_default_sem c n w

end processors

/-- every participant appears ONCE: registering the same object again changes nothing (`C01_code_RegisterSingleton`), and
    GetSingletonNames — the list PrepareComponents walks — has one entry per stored name (`C10_code_registry_readers`) -/
theorem C12_code_registered_once (nameOf : Nat → String) (i : Nat) (w : Sem.CMap) :
    Go.run (Sem.rsPrims nameOf) Progs.sreg_RegisterSingleton [.ref i 0] w =
      (match Sem.cmLoad w (nameOf i) with
       | none => some (.tuple [], Sem.cmStore (nameOf i) i w)
       | some j => if j = i then some (.tuple [], w) else none) ∧
    Go.run Sem.srPrims Progs.sreg_GetSingletonNames [] w = some (Sem.strsNil (w.map (·.1)), w) :=
  ⟨Sem.registerSingleton_sem nameOf i w, Sem.sregNames_sem w⟩

/-! ### one instance that reaches the registry through several routes is ONE participant (ninth round)

`registerSingleton` / `registerAll` model `registry.RegisterSingleton` under `app.SetComponents` (code tie:
`C12_code_registered_once` above); correspondence: markers `t` (listed twice in one SetComponents call) and `u` (listed
again in a second SetComponents option) of the `orderstart` lines. -/

/-- However often and through however many options instances are registered, the registry — the list PrepareComponents
    walks — holds one entry per name, and nobody who was registered is missing. -/
theorem C12_registered_each_once {ν : Type} [DecidableEq ν] (name : α → ν) (regs : List α) :
    ((registerAll name regs).map name).Nodup ∧ ∀ x ∈ regs, name x ∈ (registerAll name regs).map name :=
  ⟨registerAll_nodup name regs, registerAll_mem name regs⟩

/-- The application's own list `l` (instances with names of their own, any of them listed twice) followed by any further
    registrations of instances of that list (a module's option bundle, `ioc.Register`): the registry holds exactly `l`. -/
theorem C12_registered_routes {ν : Type} [DecidableEq ν] (name : α → ν) (twice : α → Bool) (l extra : List α)
    (hn : (l.map name).Nodup) (he : ∀ x ∈ extra, name x ∈ l.map name) :
    registerAll name (listed twice l ++ extra) = l :=
  registerAll_routes name twice l extra hn he

/-- …so the sequence the container builds from it has every participant exactly once, whichever routes it came by. -/
theorem C12_twice_registered_appears_once {ν : Type} [DecidableEq ν] (hs : SortSpec part sort) (name : α → ν)
    (twice : α → Bool) (l extra : List α) (hn : (l.map name).Nodup) (he : ∀ x ∈ extra, name x ∈ l.map name) :
    (sortOrdered sort part (registerAll name (listed twice l ++ extra))).Perm l := by
  rw [registerAll_routes name twice l extra hn he]
  exact sortOrdered_perm hs l

/-- non-vacuity: participants 5 and 7 each come by two routes (5 twice in the list, 7 and 5 again in a second option) -/
example : registerAll (fun n : Nat => n) (listed (fun n => n == 5) [7, 5, 9] ++ [7, 5]) = [7, 5, 9] := by decide
example : ([7, 5, 9].map (fun n : Nat => n)).Nodup ∧ ∀ x ∈ [7, 5], (fun n : Nat => n) x ∈ [7, 5, 9].map (fun n : Nat => n) := by decide

end Ioc.C12
