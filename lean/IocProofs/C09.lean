/-
  C09 — Unsatisfied required points fail start-up cleanly; optional ones never do.
  PROPERTY THEOREMS ONLY (lemmas: IocProofs/Lemmas/AppLemmas.lean, M2Step.lean, M2StepInv.lean, M2StepFault.lean,
  M2StepFresh.lean, M2Succeeds*.lean).

  Model: Ioc.App.appRun (app/app.go:80-154) over the factory machine Ioc.Container (factory.go, InitializeComponent
  post_processor_registration_delegate.go:96-136).  Every theorem is for ALL scenarios (every dependency graph,
  candidate order, post-processor behaviour, fault placement) and every number of machine steps.
  "Run returns an error — it does not panic": `Outcome` has exactly the five values below, the machine has no panic
  transition left (D2, D3, D16, D17 are guarded in the repaired code); "does not hang" is C02_terminates, used here
  only as the hypothesis `(final a.sc).status ≠ .running` where it matters.

  Vocabulary (IocProofs/Lemmas/M2Step.lean): `Lc.Src sc st st0 c` — in state `st` the next thing the factory does is
  doGetComponent(c): c is the head of the boot list / of the refresh list (empty stack; `st0` = `st` with that head
  removed and the stage set), or c is the current candidate of the top frame (`st0 = st`).
  `Lc.CbFault sc n` — a before-processor (if wired), AfterPropertiesSet, Init or an after-processor (if wired) of n fails.
  `Lc.metasOf f` — what Inject keeps of the objects the frame collected: everything but the holder itself.
-/
import IocProofs.Lemmas.AppLemmas
import IocProofs.Lemmas.M2StepFault
import IocProofs.Lemmas.M2StepFresh
import IocProofs.Lemmas.M2Examples
import IocProofs.Lemmas.M2SucceedsConv
import Ioc.Match
import IocProofs.Lemmas.SemApp
import IocProofs.Lemmas.SemMisc
import IocProofs.Lemmas.SemUnmarshall
namespace Ioc.C09
open Ioc Ioc.M2 Ioc.App

/-! ### the stages of Run -/

/-- Run succeeds exactly when every stage succeeds. -/
theorem C09_stages (a : AppScen) :
    (appRun a).outcome = .ok ↔
      a.loaderFail = false ∧ a.scanFail = false ∧ (final a.sc).status = .done ∧
      (callRunners (sortOrdered (runnersOf a (final a.sc)))).2 = true := by
  by_cases hr : Ready a
  · obtain ⟨hout, _, _⟩ := appRun_ready a hr
    rw [hout]
    cases hb : (callRunners (sortOrdered (runnersOf a (final a.sc)))).2 with
    | true => simpa [Ready] using hr
    | false => simp
  · constructor
    · intro h; exact absurd h (appRun_not_ready a hr).2.1
    · intro ⟨h1, h2, h3, _⟩; exact absurd ⟨h1, h2, h3⟩ hr

/-- A failure before the runner stage: no application runner is invoked. -/
theorem C09_no_runner_after_failure (a : AppScen)
    (h : (appRun a).outcome = .errConfig ∨ (appRun a).outcome = .errFactory ∨ (appRun a).outcome = .errRefresh) :
    (appRun a).invoked = [] := by
  by_cases hr : Ready a
  · obtain ⟨hout, _, _⟩ := appRun_ready a hr
    rw [hout] at h
    revert h
    cases (callRunners (sortOrdered (runnersOf a (final a.sc)))).2 <;> simp
  · exact (appRun_not_ready a hr).1

/-- The outcome is one of five values, and the three error outcomes before the runners name the stage that failed:
    a loader; a scanner or a component created in the boot phase; a component created by Refresh
    (`hterm` is C02_terminates: the machine is not still running after `fuelBound` steps). -/
theorem C09_outcome_total (a : AppScen) :
    ((appRun a).outcome = .ok ∨ (appRun a).outcome = .errConfig ∨ (appRun a).outcome = .errFactory ∨
      (appRun a).outcome = .errRefresh ∨ (appRun a).outcome = .errRunners) ∧
    ((appRun a).outcome = .errConfig ↔ a.loaderFail = true) ∧
    ((appRun a).outcome = .errFactory ↔
      a.loaderFail = false ∧ (a.scanFail = true ∨ ∃ x, (final a.sc).status = .failed x .factory)) ∧
    ((final a.sc).status ≠ .running →
      ((appRun a).outcome = .errRefresh ↔
        a.loaderFail = false ∧ a.scanFail = false ∧ ∃ x, (final a.sc).status = .failed x .refresh)) := by
  obtain ⟨h1, h2, h3⟩ := appRun_outcome a
  refine ⟨?_, h1, h2, fun hterm => ?_⟩
  · cases (appRun a).outcome <;> simp
  · rw [h3]; simp [hterm]

/-- A failed factory machine (whatever the cause, see C09_failure_cause) makes Run return an error of a stage
    before the runners, and no runner is invoked. -/
theorem C09_failed_start_errors (a : AppScen) (x : Nat) (s : Stage) (h : (final a.sc).status = .failed x s) :
    ((appRun a).outcome = .errConfig ∨ (appRun a).outcome = .errFactory ∨ (appRun a).outcome = .errRefresh) ∧
    (appRun a).invoked = [] := by
  have hr : ¬ Ready a := by intro ⟨_, _, h3⟩; rw [h] at h3; cases h3
  obtain ⟨hinv, hok, hrun⟩ := appRun_not_ready a hr
  refine ⟨?_, hinv⟩
  cases ho : (appRun a).outcome <;> simp_all

/-! ### every place where something is missing or a callback fails is propagated -/

/-- The factory is about to get `c` (boot list, refresh list or current candidate) and the early-reference factory of
    `c` — a component in creation, not yet referenced early — fails: the start fails at `c`. -/
theorem C09_fault_early (sc : Scen) (st st0 : St) (c : Nat) (hr : st.status = .running) (src : Lc.Src sc st st0 c)
    (h1 : st0.l1 c = none) (h2 : st0.l2 c = none) (h3 : st0.l3 c = true) (hf : sc.fEarly c = true) :
    lookup sc st0 c = .err (addLog sc st0 c (.early c)) ∧
    (step sc st).status = .failed c st0.stage := by
  obtain ⟨he, hs⟩ := Lc.lookup_fault sc st0 c h1 h2 h3 hf
  exact ⟨he, by rw [Lc.step_visit_err sc st st0 c src hr _ he]; simpa using hs⟩

/-- The factory is about to get `c`, `c` has to be created, and its configuration values / properties callbacks fail
    (`cfgOk c = false`: a required `value`/`prefix` is missing, a PostProcessAfterInstantiation/Properties callback
    errs) or a required injection point has no candidate (`points c = none`): the start fails at `c`.
    Likewise when `c` is not a registered definition at all. -/
theorem C09_fault_config (sc : Scen) (st st0 : St) (c : Nat) (hr : st.status = .running) (src : Lc.Src sc st st0 c)
    (h1 : st0.l1 c = none) (h2 : st0.l2 c = none) (h3 : st0.l3 c = false)
    (hbad : c ∉ sc.names ∨ (sc.wired c = true ∧ (sc.cfgOk c = false ∨ sc.points c = none))) :
    (step sc st).status = .failed c st0.stage := by
  rw [Lc.step_visit_miss sc st st0 c src hr (Lc.lookup_miss sc st0 c h1 h2 h3)]
  by_cases hn : c ∈ sc.names
  · rcases hbad with h | ⟨hw, h⟩
    · exact absurd hn h
    · exact Lc.enter_fault sc st0 c hn hw h
  · exact Lc.enter_unknown sc st0 c hn

/-- The top frame has processed all its points and one of its initialization callbacks fails
    (before-processor, AfterPropertiesSet, Init, after-processor): the start fails at that component. -/
theorem C09_fault_callback (sc : Scen) (st : St) (f : Frame) (rest : List Frame) (hr : st.status = .running)
    (hs : st.stack = f :: rest) (hp : ¬ f.p < (pts sc f.name).length) (hf : Lc.CbFault sc f.name) :
    (step sc st).status = .failed f.name st.stage := by
  rw [Lc.step_cbFail sc st f rest hr hs hp ((Lc.initCallbacks_snd sc st f.name).mpr hf)]
  simp [failAt]

/-- The top frame has asked for every candidate of a REQUIRED point and what it collected is unusable — only the
    holder itself, or something not assignable to the field: the start fails at the holder. -/
theorem C09_fault_required (sc : Scen) (st : St) (f : Frame) (rest : List Frame) (hr : st.status = .running)
    (hs : st.stack = f :: rest) (hp : f.p < (pts sc f.name).length)
    (hd : ¬ f.d < ((pts sc f.name)[f.p]).cands.length) (hreq : ((pts sc f.name)[f.p]).required = true)
    (hne : ((pts sc f.name)[f.p]).cands ≠ [])
    (h : Lc.metasOf f = [] ∨
         (Lc.metasOf f).any (fun o => ((pts sc f.name)[f.p]).incompat.contains o.name) = true) :
    (step sc st).status = .failed f.name st.stage := by
  rw [Lc.required_step sc st f rest hr hs hp hd hreq hne h]; rfl

/-! ### clean failure -/

/-- Once failed, always failed — the very same state at every later step count; no creation is left in progress and
    no early reference (l2) or early-reference factory (l3) is left in the cache. -/
theorem C09_failed_final (sc : Scen) (k : Nat) (x : Nat) (s : Stage)
    (h : (run sc k (init sc)).status = .failed x s) :
    (∀ m, run sc (k + m) (init sc) = run sc k (init sc)) ∧ (run sc k (init sc)).stack = [] ∧
    ∀ n, (run sc k (init sc)).l2 n = none ∧ (run sc k (init sc)).l3 n = false :=
  Lc.failed_final sc k x s h

/-! ### optional points -/

/-- Injection time: the top frame has asked for every candidate of a point marked required=false.  Whatever it
    collected, the machine keeps running; and if nothing usable was collected (only the holder itself, or something
    not assignable) no field is written at all — the field keeps its zero value. -/
theorem C09_optional_never_fails (sc : Scen) (st : St) (f : Frame) (rest : List Frame) (hr : st.status = .running)
    (hs : st.stack = f :: rest) (hp : f.p < (pts sc f.name).length)
    (hd : ¬ f.d < ((pts sc f.name)[f.p]).cands.length) (hopt : ((pts sc f.name)[f.p]).required = false) :
    (step sc st).status = .running ∧
    ((Lc.metasOf f = [] ∨ (Lc.metasOf f).any (fun o => ((pts sc f.name)[f.p]).incompat.contains o.name) = true) →
      (step sc st).fields = st.fields) :=
  Lc.optional_step sc st f rest hr hs hp hd hopt

/-- The zero value, at every step count of every start: when the top frame has asked for every candidate of an optional
    point and collected nothing usable, the field of that point is empty before the step (it was never written) and
    empty after it, and the machine keeps running. -/
theorem C09_optional_zero (sc : Scen) (k : Nat) (f : Frame) (rest : List Frame)
    (hr : (run sc k (init sc)).status = .running) (hs : (run sc k (init sc)).stack = f :: rest)
    (hp : f.p < (pts sc f.name).length)
    (hd : ¬ f.d < ((pts sc f.name)[f.p]).cands.length) (hopt : ((pts sc f.name)[f.p]).required = false)
    (hun : Lc.metasOf f = [] ∨ (Lc.metasOf f).any (fun o => ((pts sc f.name)[f.p]).incompat.contains o.name) = true) :
    (run sc (k + 1) (init sc)).status = .running ∧ (run sc (k + 1) (init sc)).fields f.name f.p = [] := by
  rw [Lc.run_succ]
  obtain ⟨h1, h2⟩ := Lc.optional_step sc _ f rest hr hs hp hd hopt
  exact ⟨h1, by rw [h2 hun]; exact Lc.current_field_zero sc k f rest hr hs⟩

/-- Configuration time: narrowing the candidates of a point whose tag says required=false never reports the
    start-up error, whatever the candidates, qualifiers and population are. -/
theorem C09_optional_narrow (byId : Nat → Option Match.Prov) (holder : Nat) (k : Match.Kind) (args : Tag.Args)
    (cs : List (Option Nat)) (h : Tag.isRequired args = false) : Match.narrow byId holder k args cs ≠ .fail := by
  unfold Match.narrow
  simp only [h]
  repeat' split
  all_goals simp_all

/-! ### nothing else ever fails a start -/

/-- EXHAUSTIVE list of causes.  If a running machine fails at `x` in one step then, in the state before the step:
    `x` is not a registered definition; or `x` is wired and its configuration / required-point resolution fails; or
    the early-reference factory of `x` fails; or the top frame is `x`, it finished a required point and collected
    only `x` itself, or something incompatible; or the top frame is `x`, all points done, and a callback of `x` fails
    or the stale-version check fires (a post-processor substituted `x` after another, already finished component
    received the early reference). -/
theorem C09_failure_cause (sc : Scen) (st : St) (x : Nat) (s : Stage) (hr : st.status = .running)
    (hf : (step sc st).status = .failed x s) :
    x ∉ sc.names ∨
    (sc.wired x = true ∧ (sc.cfgOk x = false ∨ sc.points x = none)) ∨
    (sc.fEarly x = true ∧ st.l3 x = true) ∨
    (∃ f rest, st.stack = f :: rest ∧ f.name = x ∧ ∃ hp : f.p < (pts sc f.name).length,
      ((pts sc f.name)[f.p]).required = true ∧ ((pts sc f.name)[f.p]).cands ≠ [] ∧
      ¬ f.d < ((pts sc f.name)[f.p]).cands.length ∧
      ((∀ o ∈ f.acc, o.name = x) ∨ (∃ o ∈ f.acc, o.name ≠ x ∧ o.name ∈ ((pts sc f.name)[f.p]).incompat))) ∨
    (∃ f rest, st.stack = f :: rest ∧ f.name = x ∧ ¬ f.p < (pts sc x).length ∧
      (Lc.CbFault sc x ∨
       (initResult sc x ≠ raw x ∧ ∃ e, st.l2 x = some e ∧ finishedHolderHas sc st e = true))) :=
  Lc.failure_cause sc st x s hr hf

/-! ### a fault on a reachable name always fails the start (converse of C02_succeeds)

  `Sx.Reach sc n`: n is in boot ++ eager or a candidate of a point of a reached name.  `Sx.StaticFault sc n`: n is not a
  definition, or (wired) its configuration fails / a required point has no candidate, or one of its callbacks fails, or
  it has a required point whose candidates are all n itself, or one with an unassignable candidate other than n.
  `Lc.WF sc`: post-processors return an object of the component they were given (`(earlyO n).name = n`,
  `(afterO n).name = n`) — otherwise arbitrary substitution, any candidate order, any other faults. -/

/-- A static fault on a name the start can reach makes the start fail: the machine never ends in `done`; it ends
    `failed` (termination). -/
theorem C09_fault_fails (sc : Scen) (wf : Lc.WF sc) (n : Nat) (hn : Sx.Reach sc n) (hf : Sx.StaticFault sc n) :
    (final sc).status ≠ .done ∧ ∃ x s, (final sc).status = .failed x s := by
  have hnd : (final sc).status ≠ .done := fun hd => Sx.done_no_fault sc wf _ hd n hn hf
  refine ⟨hnd, ?_⟩
  cases h : (final sc).status with
  | running => exact absurd h (terminates_any sc)
  | done => exact absurd h hnd
  | failed x s => exact ⟨x, s, rfl⟩

/-- The same read forwards: after a successful start (ANY name-preserving post-processors, any order) every reachable
    name has been created and none of them has a static fault. -/
theorem C09_done_sound (sc : Scen) (wf : Lc.WF sc) (hd : (final sc).status = .done) (n : Nat) (hn : Sx.Reach sc n) :
    (final sc).l1 n ≠ none ∧ ¬ Sx.StaticFault sc n :=
  ⟨Sx.done_reach_published sc wf _ hd n hn, Sx.done_no_fault sc wf _ hd n hn⟩

/-! ### non-vacuity -/

open Ioc.M2.Ex

/-- a failing Init deep in the diamond tail of a cycle: Run returns the refresh error, no runner runs, and the failed
    state is clean -/
example : (final cycInitFault).status = .failed 5 .refresh ∧ (final cycInitFault).stack = [] ∧
    (∀ n ∈ cycInitFault.names, (final cycInitFault).l2 n = none ∧ (final cycInitFault).l3 n = false) ∧
    (appRun { appScen 0 with sc := cycInitFault }).outcome = .errRefresh := by decide

/-- a required point without candidate -/
example : (final cycMissing).status = .failed 3 .refresh ∧
    (appRun { appScen 0 with sc := cycMissing }).outcome = .errRefresh := by decide

/-- an optional point whose only candidate is incompatible: the start succeeds and the field keeps its zero value -/
example : (final cycOptional).status = .done ∧ (final cycOptional).fields 4 1 = [] ∧
    (final cycOptional).fields 4 0 = [raw 5] := by decide

/-- the hypotheses of C09_optional_zero hold in a reachable state: after 16 steps of `cycOptional` the top frame is
    component 4 at its optional point 1, having collected the incompatible 7 -/
example : (run cycOptional 16 (init cycOptional)).status = .running ∧
    (run cycOptional 16 (init cycOptional)).stack.map (fun f => (f.name, f.p, f.d, f.acc)) =
      [(4, 1, 1, [raw 7]), (2, 2, 0, []), (1, 0, 0, []), (0, 0, 0, [])] ∧
    ((pts cycOptional 4)[1]?).map (fun p => (p.required, p.cands, p.incompat)) = some (false, [7], [7]) := by decide

/-- the hypotheses of C09_fault_callback hold in a reachable state: after 7 steps of `cycInitFault` the machine is
    running, the top frame is component 5 (below it 3, 2, 1, 0), it has no points left, and its Init fails -/
example : (run cycInitFault 7 (init cycInitFault)).status = .running ∧
    (run cycInitFault 7 (init cycInitFault)).stack.map (fun f => (f.name, f.p)) = [(5, 0), (3, 0), (2, 1), (1, 0), (0, 0)] ∧
    (pts cycInitFault 5).length = 0 ∧ cycInitFault.fInit 5 = true ∧
    (step cycInitFault (run cycInitFault 7 (init cycInitFault))).status = .failed 5 .refresh := by decide

/-- every stage: a failing loader, a failing scanner, a failing runner, success -/
example : (appRun { appScen 0 with loaderFail := true }).outcome = .errConfig ∧
    (appRun { appScen 0 with scanFail := true }).outcome = .errFactory ∧
    (appRun (appScen 3)).outcome = .errRunners ∧ (appRun (appScen 0)).outcome = .ok := by decide

/-- the hypotheses of C09_fault_fails: component 5 of `cycInitFault` is reached along 0 → 1 → 2 → 3 → 5 and its Init fails;
    component 3 of `cycMissing` has a required point without candidate -/
example : Sx.Reach cycInitFault 5 ∧ Sx.StaticFault cycInitFault 5 :=
  ⟨((((Sx.Reach.root (n := 0) (by decide)).edge 1 (by decide)).edge 2 (by decide)).edge 3 (by decide)).edge 5 (by decide),
   by decide⟩
example : Lc.WF cycInitFault ∧ Lc.WF cycMissing := ⟨⟨fun _ => rfl, fun _ => rfl⟩, ⟨fun _ => rfl, fun _ => rfl⟩⟩
example : Sx.Reach cycMissing 3 ∧ Sx.StaticFault cycMissing 3 :=
  ⟨(((Sx.Reach.root (n := 0) (by decide)).edge 1 (by decide)).edge 2 (by decide)).edge 3 (by decide), by decide⟩
/-- the lazy component 6 is not needed by anybody: a fault there does not matter (C05_lazy_only_if_needed) -/
example : (final { cyc with fInit := fun n => n == 6 }).status = .done := by decide

/-! ### the tie to the code: the stage pipeline IS the regenerated program of App.run

`Ioc.Progs.app_run` is the syntax tree of `App.run` (app/app.go), re-translated from /repo's source on every run.  Run by
the MiniGo interpreter with each stage method failing as an arbitrary predicate says, it calls initConfiguration,
initFactory, refresh, callRunners in this order, each only when every earlier one returned nil, and returns nil exactly
when all four did — the pipeline `App.appRun` (C09_stages) is written after. -/

theorem C09_code_run (fails : String → Bool) :
    Go.run (Sem.runPrims fails) Progs.app_run [] [] =
      some (if (Sem.stagesUntilFail fails Sem.theStages).2 then .nil else Sem.errA,
            (Sem.stagesUntilFail fails Sem.theStages).1) :=
  Sem.app_run_sem fails

/-- a failing stage is the last one called, and the start returns an error -/
theorem C09_code_run_stops (fails : String → Bool) (s : String) (hs : s ∈ (Sem.stagesUntilFail fails Sem.theStages).1)
    (hf : fails s = true) :
    (Sem.stagesUntilFail fails Sem.theStages).2 = false ∧ (Sem.stagesUntilFail fails Sem.theStages).1.getLast? = some s := by
  cases h1 : fails "initConfiguration" <;> cases h2 : fails "initFactory" <;> cases h3 : fails "refresh" <;>
    cases h4 : fails "callRunners" <;>
    simp [Sem.stagesUntilFail, Sem.theStages, h1, h2, h3, h4] at hs ⊢ <;>
    (try (rcases hs with rfl | rfl | rfl | rfl <;> simp_all)) <;> (try (rcases hs with rfl | rfl | rfl <;> simp_all)) <;>
    (try (rcases hs with rfl | rfl <;> simp_all)) <;> (try (subst hs; simp_all))

example : Go.run (Sem.runPrims (fun s => s == "refresh")) Progs.app_run [] [] =
    some (Sem.errA, ["initConfiguration", "initFactory", "refresh"]) :=
  (Sem.app_run_sem _).trans (by rfl)

/-- the three one-line stage wrappers of App, regenerated (app.go:111-133): each calls exactly its stage — Configure.Initialize,
    Factory.PrepareComponents, Factory.Refresh — and returns an error if and only if the stage did (`C09_code_run` is about
    the sequence of the wrappers) -/
theorem C09_code_stage_wrappers (fails : Bool) :
    Go.run (Sem.stagePrims "self.Configure.Initialize" fails) Progs.app_initConfiguration [] [] =
      some (if fails then Sem.errN else .nil, ["self.Configure.Initialize"]) ∧
    Go.run (Sem.stagePrims "self.Factory.PrepareComponents" fails) Progs.app_initFactory [] [] =
      some (if fails then Sem.errN else .nil, ["self.Factory.PrepareComponents"]) ∧
    Go.run (Sem.stagePrims "self.Factory.Refresh" fails) Progs.app_refresh [] [] =
      some (if fails then Sem.errN else .nil, ["self.Factory.Refresh"]) :=
  Sem.stageWrappers_sem fails

/-- Property.IsRequired, regenerated: a point is required unless its `required` argument holds the value "false" — nothing
    else (no other argument, no tag, no field type) makes a point optional -/
theorem C09_code_IsRequired (has : Sem.AM → String → List String → Bool) (fmtKey : String → String) (w : Sem.PW) :
    Go.run (Sem.pmPrims has fmtKey) Progs.prop_IsRequired [] w = some (.bool (!(has w.args "required" ["false"])), w) :=
  Sem.isRequired_sem has fmtKey w

end Ioc.C09
