/-
  C19 — Tag argument grammar is total and faithful.  PROPERTY THEOREMS ONLY (lemmas live in IocProofs/Lemmas).

  Model: Ioc.Tag (strings2.Index / Split, TagArg.Parse / Set / formatArgType / Has, NewProperty,
  IsRequired, the prop shorthand).  A Go slice expression out of range is `none` in the model, so
  "never panics" is the statement `parse? s = some _`, not an artefact of Lean's totality.
-/
import IocProofs.Lemmas.TagTotal
import IocProofs.Lemmas.TagRound
namespace Ioc.C19
open Ioc Ioc.Tag

/-- strings2.Index returns -1 or a valid position, for every input, separator and bracket set. -/
theorem C19_index_bounds {α : Type} [DecidableEq α] (sep : α) (isL isR : α → Bool) (s : List α) :
    index sep isL isR s = -1 ∨ (0 ≤ index sep isL isR s ∧ index sep isL isR s < s.length) :=
  index_bounds sep isL isR s

/-- strings2.Split: every slice expression is in range (the checked and the unchecked function agree). -/
theorem C19_split_total {α : Type} [DecidableEq α] (sep : α) (isL isR : α → Bool) (s : List α) :
    split? sep isL isR s = some (split sep isL isR s) ∧ split sep isL isR s ≠ [] :=
  ⟨split?_eq sep isL isR s, split_ne_nil sep isL isR s⟩

/-- Totality: EVERY byte string parses (NewProperty never panics). -/
theorem C19_total (s : Bytes) : ∃ v a, parse? s = some (v, a) :=
  parse?_total s

/-- Totality of the `prop` shorthand rewrite, and of parsing its result. -/
theorem C19_prop_total (s : Bytes) : ∃ t v a, propShorthand? s = some t ∧ parse? t = some (v, a) := by
  obtain ⟨t, ht⟩ := propShorthand?_total s
  obtain ⟨v, a, hp⟩ := parse?_total t
  exact ⟨t, v, a, ht, hp⟩

/-- On bracket-balanced text whose separators before position |pre| are all inside brackets,
    Index finds exactly the first top-level separator. -/
theorem C19_index_toplevel {α : Type} [DecidableEq α] (sep : α) (isL isR : α → Bool)
    (hsL : isL sep = false) (hsR : isR sep = false) (pre post : List α)
    (hwf : WFpre sep isL isR pre 0 = true) :
    index sep isL isR (pre ++ sep :: post) = pre.length :=
  index_toplevel sep isL isR hsL hsR pre post hwf

/-- A stored argument is found again under its name, whatever was stored before. -/
theorem C19_set_find (m : Args) (k : Bytes) (items : List Bytes) (hk : k ≠ []) :
    find (setArg m k items) k = some items := by
  cases k with
  | nil => exact absurd rfl hk
  | cons b rest => simp [setArg, find, formatArgType?, alookup_ainsert_same]

/-- Names are matched regardless of the case of their first letter. -/
theorem C19_first_letter_case (a : Args) (b : UInt8) (rest : Bytes) (hb : 97 ≤ b ∧ b ≤ 122) :
    find a (b :: rest) = find a ((b - 32) :: rest) ∧
    ∀ m items, setArg m (b :: rest) items = setArg m ((b - 32) :: rest) items := by
  have h1 : upperFirst b = [b - 32] := by simp [upperFirst, hb]
  have h2 : upperFirst (b - 32) = [b - 32] := by
    have hb1 : (97 : UInt8) ≤ b := hb.1
    have hb2 : b ≤ (122 : UInt8) := hb.2
    have e1 : ¬ ((97 : UInt8) ≤ b - 32 ∧ b - 32 ≤ 122) := by
      intro h; rcases h with ⟨h, _⟩
      rw [UInt8.le_iff_toNat_le] at h hb1 hb2
      have : (b - 32).toNat = b.toNat - 32 := by
        rw [UInt8.toNat_sub_of_le]; · rfl
        · rw [UInt8.le_iff_toNat_le]; simp at hb1 ⊢; omega
      simp at h hb1 hb2; omega
    have e2 : ¬ (b - 32 ≥ (128 : UInt8)) := by
      intro h
      have h' : (128 : UInt8) ≤ b - 32 := h
      rw [UInt8.le_iff_toNat_le] at h' hb1 hb2
      have : (b - 32).toNat = b.toNat - 32 := by
        rw [UInt8.toNat_sub_of_le]; · rfl
        · rw [UInt8.le_iff_toNat_le]; simp at hb1 ⊢; omega
      simp at h' hb1 hb2; omega
    simp [upperFirst, e1, e2]
  constructor
  · simp [find, formatArgType?, h1, h2]
  · intro m items; simp [setArg, h1, h2]

/-- Only an explicit `required=false` makes a point optional. -/
theorem C19_required (a : Args) :
    isRequired a = false ↔ ∃ items, alookup kRequired a = some items ∧ vFalse ∈ items := by
  have hk : formatArgType? kRequired = some kRequired := by decide
  simp only [isRequired, has, find, hk]
  cases h : alookup kRequired a with
  | none => simp
  | some items => simp [List.any_eq_true]

/-- Faithfulness: a structured tag `v,name=i1 i2,…` (value and items bracket-balanced with separators only
    inside brackets, names non-empty without `=` `,` or brackets) parses to exactly what was rendered:
    the value, and the arguments stored by TagArg.Set in order (so a repeated name keeps the last). -/
theorem C19_roundtrip (v : Bytes) (as : List (Bytes × List Bytes))
    (hv : WFpre cComma isLB isRB v 0 = true) (has : ∀ a ∈ as, WFArg a) :
    parse? (render v as) = some (v, as.foldl (fun m a => setArg m a.1 a.2) []) :=
  parse?_render v as hv has

/-- strings2.Split is the exact inverse of joining bracket-balanced parts (separators only inside brackets). -/
theorem C19_split_join (sep : UInt8) (isL isR : UInt8 → Bool) (hsL : isL sep = false) (hsR : isR sep = false)
    (parts : List Bytes) (hne : parts ≠ []) (hwf : ∀ p ∈ parts, WFpre sep isL isR p 0 = true) :
    split? sep isL isR (joinB sep parts) = some parts :=
  split?_joinB sep isL isR hsL hsR parts hne hwf

/-! non-vacuity: concrete, non-trivial inputs meet the hypotheses -/

example : parse? (ofString "a,required=false") = some (ofString "a", [(ofString "Required", [ofString "false"])]) := by decide
example : isRequired [(ofString "Required", [ofString "false"])] = false := by decide
example : WFpre cComma isLB isRB (ofString "f(a,b)") 0 = true := by decide
-- roundtrip hypotheses are met by a bracketed item containing a space, a comma and `=`; and by an empty item
example : WFArg (ofString "qualifier", [ofString "a", ofString "(b c,d=e)"]) := ⟨by decide, by decide, by decide, by decide⟩
example : WFArg (ofString "x", [[]]) := ⟨by decide, by decide, by decide, by decide⟩
example : parse? (render (ofString "v") [(ofString "q", [ofString "a", ofString "(b c)"]), (ofString "q", [ofString "z"])])
    = some (ofString "v", [(ofString "Q", [ofString "z"])]) := by decide
example : render (ofString "v") [(ofString "q", [ofString "a", ofString "(b c)"])] = ofString "v,q=a (b c)" := by decide
-- the unbalanced corner: still total, still in range
example : parse? (ofString "),(x") = some (ofString "),", [(ofString "X", [[]])]) := by decide

end Ioc.C19
