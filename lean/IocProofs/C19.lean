/-
  C19 — Tag argument grammar is total and faithful.  PROPERTY THEOREMS ONLY (lemmas live in IocProofs/Lemmas).

  Model: Ioc.Tag (strings2.Index / Split, TagArg.Parse / Set / formatArgType / Has, NewProperty,
  IsRequired, the prop shorthand).  A Go slice expression out of range is `none` in the model, so
  "never panics" is the statement `parse? s = some _`, not an artefact of Lean's totality.
-/
import IocProofs.Lemmas.TagTotal
import IocProofs.Lemmas.TagRound
import IocProofs.Lemmas.TagConsume
import IocProofs.Lemmas.SemArgs
namespace Ioc.C19
open Ioc Ioc.Tag

/-- strings2.Index returns -1 or a valid position, for every input, separator and bracket set. -/
theorem C19_index_bounds {α : Type} [DecidableEq α] (sep : α) (isL isR : α → Bool) (s : List α) :
    index sep isL isR s = -1 ∨ (0 ≤ index sep isL isR s ∧ index sep isL isR s < s.length) :=
  index_bounds sep isL isR s

/-- strings2.Split: every slice expression is in range (the checked and the unchecked function agree). -/
theorem C19_split_total {α : Type} [DecidableEq α] (sep : α) (isL isR : α → Bool) (s : List α) :
    split? sep isL isR s = some (split sep isL isR s) ∧ split sep isL isR s ≠ [] :=
  ⟨split?_eq sep isL isR s, split_ne_nil sep isL isR s⟩

/-- Totality: EVERY byte string parses (NewProperty never panics). -/
theorem C19_total (s : Bytes) : ∃ v a, parse? s = some (v, a) :=
  parse?_total s

/-- Totality of the `prop` shorthand rewrite, and of parsing its result. -/
theorem C19_prop_total (s : Bytes) : ∃ t v a, propShorthand? s = some t ∧ parse? t = some (v, a) := by
  obtain ⟨t, ht⟩ := propShorthand?_total s
  obtain ⟨v, a, hp⟩ := parse?_total t
  exact ⟨t, v, a, ht, hp⟩

/-- On bracket-balanced text whose separators before position |pre| are all inside brackets,
    Index finds exactly the first top-level separator. -/
theorem C19_index_toplevel {α : Type} [DecidableEq α] (sep : α) (isL isR : α → Bool)
    (hsL : isL sep = false) (hsR : isR sep = false) (pre post : List α)
    (hwf : WFpre sep isL isR pre 0 = true) :
    index sep isL isR (pre ++ sep :: post) = pre.length :=
  index_toplevel sep isL isR hsL hsR pre post hwf

/-- A stored argument is found again under its name, whatever was stored before. -/
theorem C19_set_find (m : Args) (k : Bytes) (items : List Bytes) (hk : k ≠ []) :
    find (setArg m k items) k = some items := by
  cases k with
  | nil => exact absurd rfl hk
  | cons b rest => simp [setArg, find, formatArgType?, alookup_ainsert_same]

/-- Names are matched regardless of the case of their first letter. -/
theorem C19_first_letter_case (a : Args) (b : UInt8) (rest : Bytes) (hb : 97 ≤ b ∧ b ≤ 122) :
    find a (b :: rest) = find a ((b - 32) :: rest) ∧
    ∀ m items, setArg m (b :: rest) items = setArg m ((b - 32) :: rest) items := by
  have h1 : upperFirst b = [b - 32] := by simp [upperFirst, hb]
  have h2 : upperFirst (b - 32) = [b - 32] := by
    have hb1 : (97 : UInt8) ≤ b := hb.1
    have hb2 : b ≤ (122 : UInt8) := hb.2
    have e1 : ¬ ((97 : UInt8) ≤ b - 32 ∧ b - 32 ≤ 122) := by
      intro h; rcases h with ⟨h, _⟩
      rw [UInt8.le_iff_toNat_le] at h hb1 hb2
      have : (b - 32).toNat = b.toNat - 32 := by
        rw [UInt8.toNat_sub_of_le]; · rfl
        · rw [UInt8.le_iff_toNat_le]; simp at hb1 ⊢; omega
      simp at h hb1 hb2; omega
    have e2 : ¬ (b - 32 ≥ (128 : UInt8)) := by
      intro h
      have h' : (128 : UInt8) ≤ b - 32 := h
      rw [UInt8.le_iff_toNat_le] at h' hb1 hb2
      have : (b - 32).toNat = b.toNat - 32 := by
        rw [UInt8.toNat_sub_of_le]; · rfl
        · rw [UInt8.le_iff_toNat_le]; simp at hb1 ⊢; omega
      simp at h' hb1 hb2; omega
    simp [upperFirst, e1, e2]
  constructor
  · simp [find, formatArgType?, h1, h2]
  · intro m items; simp [setArg, h1, h2]

/-- Only an explicit `required=false` makes a point optional. -/
theorem C19_required (a : Args) :
    isRequired a = false ↔ ∃ items, alookup kRequired a = some items ∧ vFalse ∈ items := by
  have hk : formatArgType? kRequired = some kRequired := by decide
  simp only [isRequired, has, find, hk]
  cases h : alookup kRequired a with
  | none => simp
  | some items => simp [List.any_eq_true]

/-- The tag scanner's default (DefaultTagScanDefinitionRegistryPostProcessor, `Required` field = `req`, set or left at
    its zero value) never changes required-ness: the marker it stores carries no items, and it is stored only when the
    tag has no required argument. -/
theorem C19_scan_required (req : Bool) (a : Args) : isRequired (scanDefault req a) = isRequired a := by
  have hk : formatArgType? kRequired = some kRequired := by decide
  have hs : ∀ m v, setArg m kRequired v = ainsert kRequired v m := by
    intro m v
    have e : kRequired = 82 :: ofString "equired" := by decide
    have u : upperFirst 82 = [82] := by decide
    rw [e]; simp [setArg, u]
  unfold scanDefault
  split
  · rename_i hc
    simp only [Bool.and_eq_true, Bool.not_eq_true'] at hc
    have hnone : alookup kRequired a = none := by
      have h2 := hc.2
      simp only [has, find, hk] at h2
      cases h : alookup kRequired a with
      | none => rfl
      | some items => simp [h] at h2
    simp [isRequired, has, find, hk, hs, alookup_ainsert_same, hnone]
  · rfl

/-- Scanning is total, whatever the scanner's `Required` field. -/
theorem C19_scan_total (req : Bool) (s : Bytes) : ∃ v a, scan? req s = some (v, a) := by
  obtain ⟨v, a, hp⟩ := parse?_total s
  exact ⟨v, scanDefault req a, by simp [scan?, hp]⟩

/-- End to end through a scanner: the scanned point is optional exactly when the TAG TEXT has a required argument
    listing the item `false` — for every tag text and every setting of the scanner's `Required` field
    (in particular a user-defined scanner that leaves it unset makes nothing optional by itself). -/
theorem C19_scan_only_explicit_false (req : Bool) (s v : Bytes) (a : Args) (h : parse? s = some (v, a)) :
    ∃ a', scan? req s = some (v, a') ∧
      (isRequired a' = false ↔ ∃ items, alookup kRequired a = some items ∧ vFalse ∈ items) :=
  ⟨scanDefault req a, by simp [scan?, h], by rw [C19_scan_required]; exact C19_required a⟩

/-- Faithfulness: a structured tag `v,name=i1 i2,…` (value and items bracket-balanced with separators only
    inside brackets, names non-empty without `=` `,` or brackets) parses to exactly what was rendered:
    the value, and the arguments stored by TagArg.Set in order (so a repeated name keeps the last). -/
theorem C19_roundtrip (v : Bytes) (as : List (Bytes × List Bytes))
    (hv : WFpre cComma isLB isRB v 0 = true) (has : ∀ a ∈ as, WFArg a) :
    parse? (render v as) = some (v, as.foldl (fun m a => setArg m a.1 a.2) []) :=
  parse?_render v as hv has

/-- strings2.Split is the exact inverse of joining bracket-balanced parts (separators only inside brackets). -/
theorem C19_split_join (sep : UInt8) (isL isR : UInt8 → Bool) (hsL : isL sep = false) (hsR : isR sep = false)
    (parts : List Bytes) (hne : parts ≠ []) (hwf : ∀ p ∈ parts, WFpre sep isL isR p 0 = true) :
    split? sep isL isR (joinB sep parts) = some parts :=
  split?_joinB sep isL isR hsL hsR parts hne hwf

/-! ### histories (fifth round): the parse is a function of the tag text, not of what happened to other properties -/

/-- `Args().Add` / `AddArg`: the items are appended to what the name held (nothing when it was absent). -/
theorem C19_add_find (m : Args) (k : Bytes) (items : List Bytes) (hk : k ≠ []) :
    find (addArg m k items) k = some ((find m k).getD [] ++ items) := by
  cases k with
  | nil => exact absurd rfl hk
  | cons b rest => simp [addArg, find, formatArgType?, alookup_ainsert_same]

/-- Every history is total: creating A, editing it with any list of edits, creating B — nothing panics. -/
theorem C19_history_total (scanned req : Bool) (t t2 : Bytes) (ops : List ArgOp) :
    ∃ a b, hist? scanned req t ops t2 = some (a, b) := by
  have hc : ∀ s, ∃ v a, create? scanned req s = some (v, a) := by
    intro s
    cases scanned with
    | true => simpa [create?] using C19_scan_total req s
    | false => simpa [create?] using C19_total s
  obtain ⟨va, aa, ha⟩ := hc t
  obtain ⟨vb, ab, hb⟩ := hc t2
  exact ⟨(va, applyOps aa ops), (vb, ab), by simp [hist?, ha, hb]⟩

/-- History independence: the property B created from `t2` is what `t2` alone creates — whatever property A was created
    from (the same text or another one) and however A's arguments were edited (`Args().Set/Add`, `SetArg/AddArg`). -/
theorem C19_history_fresh (scanned req : Bool) (t t2 : Bytes) (ops : List ArgOp)
    (a b : Bytes × Args) (h : hist? scanned req t ops t2 = some (a, b)) :
    create? scanned req t2 = some b ∧
    ∀ t' ops', ∃ a', hist? scanned req t' ops' t2 = some (a', b) := by
  have hb : create? scanned req t2 = some b := by
    unfold hist? at h
    split at h
    · rename_i va aa b' h1 h2
      simp only [Option.some.injEq, Prod.mk.injEq] at h
      rw [h2, h.2]
    · exact absurd h (by simp)
  refine ⟨hb, ?_⟩
  intro t' ops'
  obtain ⟨a', b', h'⟩ := C19_history_total scanned req t' t2 ops'
  have hb' : create? scanned req t2 = some b' := by
    unfold hist? at h'
    split at h'
    · rename_i va aa b'' h1 h2
      simp only [Option.some.injEq, Prod.mk.injEq] at h'
      rw [h2, h'.2]
    · exact absurd h' (by simp)
  have : b' = b := by rw [hb] at hb'; exact (Option.some.inj hb').symm
  exact ⟨a', by rw [h', this]⟩

/-- …and in particular B is optional exactly when ITS text has a required argument listing `false`, after any history. -/
theorem C19_history_only_explicit_false (scanned req : Bool) (t t2 v : Bytes) (ops : List ArgOp) (a : Args)
    (hp : parse? t2 = some (v, a)) :
    ∃ A a', hist? scanned req t ops t2 = some (A, (v, a')) ∧
      (isRequired a' = false ↔ ∃ items, alookup kRequired a = some items ∧ vFalse ∈ items) := by
  obtain ⟨A, b, h⟩ := C19_history_total scanned req t t2 ops
  have hb := (C19_history_fresh scanned req t t2 ops A b h).1
  cases scanned with
  | false =>
    simp only [create?, hp, Bool.false_eq_true, if_false, Option.some.injEq] at hb
    exact ⟨A, a, by rw [h, ← hb], C19_required a⟩
  | true =>
    obtain ⟨a', hs, hreq⟩ := C19_scan_only_explicit_false req t2 v a hp
    simp only [create?, hs, if_true, Option.some.injEq] at hb
    exact ⟨A, a', by rw [h, ← hb], hreq⟩

/-! ### consumers of arguments (seventh round): lookups hand out the items as stored; Property.Unmarshall -/

/-- An argument always has at least one item: whatever the tag text, the parser never stores an empty item list
    (a bare `name` and `name=` hold the one item ""), so a consumer's `args[0]` is in range. -/
theorem C19_parsed_items_nonempty (s v : Bytes) (a : Args) (h : parse? s = some (v, a)) (k : Bytes) (items : List Bytes)
    (hf : find a k = some items) : items ≠ [] :=
  find_items_ne a k items (parse?_nonempty s v a h) hf

/-- Find hands out the stored items unchanged — empty items included: an argument written `name=a  b` (two blanks)
    is found with its three items. -/
theorem C19_find_keeps_empty_items (m : Args) (k : Bytes) (hk : k ≠ []) (x y : Bytes) :
    find (setArg m k [x, [], y]) k = some [x, [], y] :=
  C19_set_find m k [x, [], y] hk

/-- Totality reaches the consumer: for EVERY tag text, scanned by a scanner with any `Required` setting, the two
    `args[0]` of Property.Unmarshall (`timeLayout`, `mapper`) are in range. -/
theorem C19_unmarshall_total (req : Bool) (s v : Bytes) (a : Args) (h : scan? req s = some (v, a)) :
    ∃ o, decodeOpts? a = some o := by
  obtain ⟨v0, a0, hp⟩ := parse?_total s
  simp only [scan?, hp, Option.map_some, Option.some.injEq, Prod.mk.injEq] at h
  rw [← h.2]
  have hn := parse?_nonempty s v0 a0 hp
  apply decodeOpts?_total
  · intro items hf; rw [find_scan_timeLayout] at hf; exact find_items_ne a0 _ items hn hf
  · intro items hf; rw [find_scan_mapper] at hf; exact find_items_ne a0 _ items hn hf

/-- The item reaches its consumer as written: for every tag text whose `timeLayout` argument has the first item `item`,
    a text is bound exactly as time.Parse reads it with the layout `item` — no byte of the item added, dropped or joined. -/
theorem C19_layout_as_written (req : Bool) (s v : Bytes) (a : Args) (h : scan? req s = some (v, a))
    (item : Bytes) (more : List Bytes) (hl : find a kTimeLayout = some (item :: more)) (value : Bytes) :
    bindTime? a value = some (.time (timeParse item value)) := by
  obtain ⟨v0, a0, hp⟩ := parse?_total s
  simp only [scan?, hp, Option.map_some, Option.some.injEq, Prod.mk.injEq] at h
  rw [← h.2] at hl ⊢
  apply bindTime?_item _ item more value hl
  intro items hf; rw [find_scan_mapper] at hf
  exact find_items_ne a0 _ items (parse?_nonempty s v0 a0 hp) hf

/-- … and for a well-formed structured tag that item is the text between `timeLayout=` and the next top-level blank or
    comma: a bracketed group (blanks and commas inside) is the layout, brackets included. -/
theorem C19_layout_roundtrip (req : Bool) (v : Bytes) (pre : List (Bytes × List Bytes)) (item : Bytes) (more : List Bytes)
    (hv : WFpre cComma isLB isRB v 0 = true) (hpre : ∀ x ∈ pre, WFArg x) (hit : WFArg (kTimeLayout, item :: more))
    (value : Bytes) :
    (scan? req (render v (pre ++ [(kTimeLayout, item :: more)]))).bind (fun va => bindTime? va.2 value)
      = some (.time (timeParse item value)) := by
  have hwf : ∀ x ∈ pre ++ [(kTimeLayout, item :: more)], WFArg x := by
    intro x hx
    simp only [List.mem_append, List.mem_singleton] at hx
    rcases hx with hx | hx
    · exact hpre x hx
    · rw [hx]; exact hit
  have hp := C19_roundtrip v _ hv hwf
  have hs : scan? req (render v (pre ++ [(kTimeLayout, item :: more)]))
      = some (v, scanDefault req ((pre ++ [(kTimeLayout, item :: more)]).foldl (fun m x => setArg m x.1 x.2) [])) := by
    simp [scan?, hp]
  rw [hs]
  simp only [Option.bind_some]
  apply C19_layout_as_written req _ v _ hs item more _ value
  rw [find_scan_timeLayout, List.foldl_append]
  simp only [List.foldl_cons, List.foldl_nil]
  exact C19_set_find _ kTimeLayout (item :: more) (by decide)

/-- An edit through `SetArg(name)` without items is the one way to an empty item list: the model pins the panic of
    `args[0]` there (the parser never produces this state: C19_unmarshall_total). -/
theorem C19_unmarshall_empty_list_panics : decodeOpts? (setArg [] kMapper []) = none := by decide

/-! non-vacuity: concrete, non-trivial inputs meet the hypotheses -/

example : parse? (ofString "a,required=false") = some (ofString "a", [(ofString "Required", [ofString "false"])]) := by decide
example : isRequired [(ofString "Required", [ofString "false"])] = false := by decide
example : WFpre cComma isLB isRB (ofString "f(a,b)") 0 = true := by decide
-- roundtrip hypotheses are met by a bracketed item containing a space, a comma and `=`; and by an empty item
example : WFArg (ofString "qualifier", [ofString "a", ofString "(b c,d=e)"]) := ⟨by decide, by decide, by decide, by decide⟩
example : WFArg (ofString "x", [[]]) := ⟨by decide, by decide, by decide, by decide⟩
example : parse? (render (ofString "v") [(ofString "q", [ofString "a", ofString "(b c)"]), (ofString "q", [ofString "z"])])
    = some (ofString "v", [(ofString "Q", [ofString "z"])]) := by decide
example : render (ofString "v") [(ofString "q", [ofString "a", ofString "(b c)"])] = ofString "v,q=a (b c)" := by decide
-- a scanner with Required left unset stores nothing; one with Required=true stores the bare marker; neither makes `main` optional
example : scan? false (ofString "main,qualifier=[x y]") = some (ofString "main", [(ofString "Qualifier", [ofString "[x y]"])]) := by decide
example : scan? true (ofString "main") = some (ofString "main", [(ofString "Required", [])]) := by decide
example : (scan? false (ofString "main")).map (fun va => isRequired va.2) = some true := by decide
example : (scan? true (ofString "main,required=false")).map (fun va => isRequired va.2) = some false := by decide
-- the unbalanced corner: still total, still in range
example : parse? (ofString "),(x") = some (ofString "),", [(ofString "X", [[]])]) := by decide
-- a history: A from `ledger,required=true` relaxed through Args().Set; B from the same text is still required
example : (hist? true true (ofString "l,required=true") [⟨false, ofString "required", [ofString "false"]⟩] (ofString "l,required=true")).map
      (fun r => (r.1.2, r.2.2))
    = some ([(ofString "Required", [ofString "false"])], [(ofString "Required", [ofString "true"])]) := by decide
example : (hist? true true (ofString "l,required=true") [⟨false, ofString "required", [ofString "false"]⟩] (ofString "l,required=true")).map
      (fun r => (isRequired r.1.2, isRequired r.2.2)) = some (false, true) := by decide
example : addArg [(ofString "Q", [ofString "a"])] (ofString "q") [ofString "b"] = [(ofString "Q", [ofString "a", ofString "b"])] := by decide
-- consumers: a bare `mapper` holds the one item "" (TagName "" = mapstructure's default); a bracketed layout is the layout
example : (scan? true (ofString "app,mapper")).map (fun va => bindTagName? va.2) = some (some (.tagName [])) := by decide
example : (scan? true (ofString "app,Mapper=,required=true")).map (fun va => bindTagName? va.2) = some (some (.tagName [])) := by decide
example : (scan? true (ofString "k,timeLayout=[2006-01-02]")).bind (fun va => bindTime? va.2 (ofString "[2024-05-06]"))
    = some (.time (.ok 2024 5 6 0 0 0 0)) := by decide
example : (scan? true (ofString "k,TimeLayout=(2006-01-02 15:04)")).bind (fun va => bindTime? va.2 (ofString "(2024-05-06 17:30)"))
    = some (.time (.ok 2024 5 6 17 30 0 0)) := by decide
example : (scan? true (ofString "k,timeLayout=2006-01-02")).bind (fun va => bindTime? va.2 (ofString "[2024-05-06]"))
    = some (.time .err) := by decide
-- an unbracketed blank splits the layout into two items; the first one is the layout
example : (scan? true (ofString "k,timeLayout=2006-01-02 15:04")).bind (fun va => bindTime? va.2 (ofString "2024-05-06"))
    = some (.time (.ok 2024 5 6 0 0 0 0)) := by decide
example : (scan? true (ofString "k,timeLayout=")).bind (fun va => bindTime? va.2 (ofString "2024-05-06")) = some (.time .err) := by decide
example : WFArg (kTimeLayout, [ofString "(2006-01-02 15:04)"]) := ⟨by decide, by decide, by decide, by decide⟩
example : timeParse (ofString "02.01.2006") (ofString "31.02.2024") = .err := by decide
example : timeParse (ofString "Jan 2") (ofString "Feb 3") = .unmodelled := by decide
example : find (setArg [] (ofString "x") [ofString "a", [], ofString "b"]) (ofString "X") = some [ofString "a", [], ofString "b"] := by decide

/-! ### the REGENERATED tag-argument functions (component_definition/arg.go)

    `Parse`, `Set`, `Add`, `formatArgType`, `Find`, `Has`, `isIntersect` as they are in /repo now, under the interpretation
    Ioc.SemArgs (the receiver — a Go map — is an association list, the string operations `strings2.Split`, `strings.Index`,
    slicing and `strings.ToUpper` are parameters).  `Ioc.Tag` (`parse?`, `find`, `has`, `formatArgType?`) is the byte-level
    instance of exactly these functions: the value part is what precedes the first top-level comma, every further part is ONE
    argument (bare name ⇒ the single empty value; `name=a b` ⇒ the blank-separated values), names are stored with their first
    letter in upper case, a later `Set` replaces, `Find` hands the stored values out AS STORED, `Has` = stored ∧ (nothing wanted ∨
    intersection). -/
section code
open Ioc.Go Ioc.Sem

theorem C19_code_Parse (o : StrOps) (tag : String) (w : SetLog) :
    run (parsePrims o) Progs.arg_Parse [.str tag] w =
      some (.str (o.splitC tag).1, w ++ (o.splitC tag).2.map (parseArg o)) :=
  argParse_sem o tag w

theorem C19_code_Set_Add (o : StrOps) (k : String) (vs : List String) (w : AM) :
    run (argPrims o) Progs.arg_Set [.str k, strsVal vs] w =
      some (.tuple [], if k = "" then w else amSet (o.fmtKey k) vs w) ∧
    run (argPrims o) Progs.arg_Add [.str k, strsVal vs] w =
      some (.tuple [], if k = "" then w else amSet (o.fmtKey k) ((amGet (o.fmtKey k) w).getD [] ++ vs) w) :=
  ⟨argSet_sem o k vs w, argAdd_sem o k vs w⟩

theorem C19_code_formatArgType (o : StrOps) (k : String) (w : AM) :
    run (argPrims o) Progs.arg_formatArgType [.str k] w = some (.str (o.upper (o.takeS k 1) ++ o.dropS k 1), w) :=
  argFmt_sem o k w

theorem C19_code_Find_Has (o : StrOps) (k : String) (wants : List String) (w : AM) :
    run (argPrims o) Progs.arg_Find [.str k] w =
      some (match amGet (o.fmtKey k) w with
            | some l => .tuple [strsVal l, .bool true]
            | none => .tuple [.nil, .bool false], w) ∧
    run (argPrims o) Progs.arg_Has [.str k, strsVal wants] w =
      some (.bool (match amGet (o.fmtKey k) w with
                   | none => false
                   | some l => wants.isEmpty || l.any (fun x => wants.contains x)), w) :=
  ⟨argFind_sem o k w, argHas_sem o k wants w⟩

theorem C19_code_isIntersect (a b : List String) :
    run noPrims Progs.arg_isIntersect [strsVal a, strsVal b] () = some (.bool (a.any (fun x => b.contains x)), ()) :=
  argIsIntersect_sem a b

/-- what was set under a name is what Find finds under it, whatever else was set under other names -/
theorem C19_code_set_then_get (k k' : String) (v : List String) (m : AM) :
    amGet k (amSet k v m) = some v ∧ (k' ≠ k → amGet k' (amSet k v m) = amGet k' m) := by
  constructor
  · induction m with
    | nil => simp [amSet, amGet]
    | cons e rest ih =>
      obtain ⟨a, b⟩ := e
      by_cases h : a = k
      · simp [amSet, amGet, h]
      · have h' : (a == k) = false := by simpa using h
        simp only [amSet, h, if_false, amGet, List.find?_cons, h']
        exact ih
  · intro hne
    induction m with
    | nil =>
      have : (k == k') = false := by simpa using Ne.symm hne
      simp [amSet, amGet, this]
    | cons e rest ih =>
      obtain ⟨a, b⟩ := e
      by_cases h : a = k
      · subst h
        have : (a == k') = false := by simpa using Ne.symm hne
        simp [amSet, amGet, this]
      · simp only [amSet, h, if_false, amGet, List.find?_cons]
        cases hak : (a == k')
        · exact ih
        · rfl

end code

end Ioc.C19
