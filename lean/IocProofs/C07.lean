/-
  C07 — Injection by name selects exactly the named component.  PROPERTY THEOREMS ONLY (lemmas: IocProofs/Lemmas/Match*.lean).

  Models: Ioc.Match (`candidatesWire` by name, `narrow`, `resolveOne`), Ioc.Container (the factory step that runs
  Inject), Ioc.Naming (GetComponentName, RegisterSingleton).  `p.name` is Meta.Name(), i.e. `componentName` of the
  registered object; names are unique in a registry (`C07_unique`), which is the hypothesis `(pop.map (·.name)).Nodup`.
-/
import IocProofs.Lemmas.MatchPoint
import IocProofs.Lemmas.MatchNaming
import IocProofs.Lemmas.MatchExamples
import IocProofs.Lemmas.SemDiscover
import IocProofs.Lemmas.SemMeta
import IocProofs.Lemmas.SemTypeId
import IocProofs.Lemmas.SemArgs
import IocProofs.Lemmas.SemUnmarshall
namespace Ioc.C07
open Ioc Ioc.Tag Ioc.Match

/-- EXACT: a single pointer / interface field whose wire tag names `nm` (no qualifier) resolves to exactly the component
    registered under `nm` — however many others share its type — and marks it incompatible iff it cannot be assigned. -/
theorem C07_exact (pop : List Prov) (hid : (pop.map (·.id)).Nodup) (hnm : (pop.map (·.name)).Nodup)
    (s : Slot) (nm : Bytes) (a0 : Args) (p : Prov)
    (hf : s.isFunc = false) (hp : parse? s.tag = some (nm, a0)) (hv : nm ≠ [])
    (hk : (∃ t, s.kind = .ptr t) ∨ (∃ i, s.kind = .iface i))
    (hq : find a0 kQualifier = none) (hm : p ∈ pop) (hn : p.name = nm) :
    resolveOne pop s = some { cands := [p.id], slice := false, required := isRequired a0,
                              incompat := if injAssignable s.kind p then [] else [p.id] } :=
  resolveOne_named pop hid hnm s nm a0 p hf hp hv hk hq hm hn

/-- ABSENT: nobody is registered under `nm` (any field kind): a required point is a start-up ERROR (`none`, not a panic:
    `resolveOne` has no panic outcome left, C19_total), an optional point resolves to nothing at all. -/
theorem C07_absent (pop : List Prov) (s : Slot) (nm : Bytes) (a0 : Args)
    (hf : s.isFunc = false) (hp : parse? s.tag = some (nm, a0)) (hv : nm ≠ [])
    (hno : ∀ p ∈ pop, p.name ≠ nm) :
    (isRequired a0 = true → resolveOne pop s = none) ∧
    (isRequired a0 = false →
      resolveOne pop s = some { cands := [], slice := s.kind.isSlice, required := false, incompat := [] }) := by
  have he := qualified_nil_of_discovered_nil pop s nm a0 (discovered_absent pop s nm _ hf hv hno)
  have := resolveOne_empty pop s nm a0 hp he
  constructor
  · intro hr; rw [this, if_pos hr]
  · intro hr; rw [this, if_neg (by rw [hr]; decide)]

/-- INCOMPATIBLE, factory side: the top frame has collected all candidates of a point (`f.d` past the end), something
    other than the holder was collected, and one collected object is marked incompatible.  Required: the creation
    fails with an error at the holder.  Optional: the field is left untouched and the frame moves to the next point. -/
theorem C07_incompatible_step (sc : M2.Scen) (st : M2.St) (f : M2.Frame) (rest : List M2.Frame)
    (hrun : st.status = .running) (hst : st.stack = f :: rest)
    (hp : f.p < (M2.pts sc f.name).length)
    (hd : ¬ f.d < ((M2.pts sc f.name)[f.p]).cands.length)
    (hc : ((M2.pts sc f.name)[f.p]).cands ≠ [])
    (hm : f.acc.filter (fun o => o.name != f.name) ≠ [])
    (hi : (f.acc.filter (fun o => o.name != f.name)).any
            (fun o => ((M2.pts sc f.name)[f.p]).incompat.contains o.name) = true) :
    (((M2.pts sc f.name)[f.p]).required = true → (M2.step sc st).status = .failed f.name st.stage) ∧
    (((M2.pts sc f.name)[f.p]).required = false →
        (M2.step sc st).fields = st.fields ∧ (M2.step sc st).status = .running ∧
        (M2.step sc st).stack = { f with p := f.p + 1, d := 0, acc := [] } :: rest) :=
  M2.step_incompat sc st f rest hrun hst hp hd hc hm hi

/-- NAME: a custom name wins when non-empty; otherwise package path "/" type name. -/
theorem C07_name (custom pkgPath typeName : Bytes) :
    (custom ≠ [] → Naming.componentName custom pkgPath typeName = custom) ∧
    (custom = [] → pkgPath ≠ [] → Naming.componentName custom pkgPath typeName = pkgPath ++ ofString "/" ++ typeName) ∧
    (custom = [] → pkgPath = [] → Naming.componentName custom pkgPath typeName = typeName) := by
  refine ⟨fun h => ?_, fun h1 h2 => ?_, fun h1 h2 => ?_⟩ <;> simp [Naming.componentName, Naming.joinPath, *]

/-- UNIQUE: after ANY history of registration attempts (panicking attempts skipped) no name is held twice, two
    entries under one name are the same object, and a name resolves to the FIRST object registered under it. -/
theorem C07_unique (ops : List (Bytes × Nat)) :
    ((Naming.registerAll [] ops).map (·.1)).Nodup ∧
    (∀ n o1 o2, (n, o1) ∈ Naming.registerAll [] ops → (n, o2) ∈ Naming.registerAll [] ops → o1 = o2) ∧
    (∀ name, Naming.lookup (Naming.registerAll [] ops) name = (ops.find? (fun op => op.1 == name)).map (·.2)) := by
  have hnd := Naming.registerAll_nodup [] ops List.nodup_nil
  refine ⟨hnd, ?_, ?_⟩
  · intro n o1 o2 h1 h2
    have := eq_of_key_nodup (fun e : Bytes × Nat => e.1) _ hnd _ h1 _ h2 rfl
    exact (Prod.mk.inj this).2
  · intro name
    rw [Naming.registerAll_lookup]; rfl

/-- a different object under a taken name is rejected (the Panicf), the same object again is a no-op -/
theorem C07_register_dup (reg : List (Bytes × Nat)) (name : Bytes) (o o' : Nat) (h : Naming.lookup reg name = some o) :
    Naming.register reg name o' = if o = o' then .ok reg else .error () := by
  unfold Naming.lookup at h
  simp [Naming.register, h]

/-! non-vacuity (population of Lemmas/MatchExamples.lean: providers 1 "b" and 2 "c" share type 2; 0, 1, 2, 4 implement I0) -/
section examples
open Ioc.Match.Ex

example : (pop.map (·.id)).Nodup ∧ (pop.map (·.name)).Nodup := by decide
-- `I0` by name "b": exactly 1, although 0, 2 (a Primary!) and 4 implement I0 as well
example : parse? namedB.tag = some (ofString "b", []) ∧ pB.name = ofString "b" ∧
    find ([] : Args) kQualifier = none ∧ namedB.isFunc = false := by decide
example : pB ∈ pop := by simp [pop]
example : (resolveOne pop namedB).map (fun pt => (pt.cands, pt.incompat)) = some ([1], []) := by decide
example : (resolveOne pop' namedB).map (fun pt => (pt.cands, pt.incompat)) = some ([1], []) := by decide
-- `*T1` by name "b": found, but not assignable → marked for Inject
example : assignable namedBwrong.kind pB = false ∧ injAssignable namedBwrong.kind pB = false := by decide
example : (resolveOne pop namedBwrong).map (fun pt => (pt.cands, pt.incompat)) = some ([1], [1]) := by decide
-- nobody is called "zz": required → error, optional → empty
example : (∀ p ∈ pop, p.name ≠ ofString "zz") := by decide
example : (resolveOne pop namedZ).isNone = true := by decide
example : (resolveOne pop namedZopt).map (fun pt => (pt.cands, pt.required)) = some ([], false) := by decide
-- names and the registry
example : Naming.componentName [] (ofString "github.com/x/app") (ofString "Svc") = ofString "github.com/x/app/Svc" := by decide
example : Naming.componentName (ofString "mine") (ofString "github.com/x/app") (ofString "Svc") = ofString "mine" := by decide
example : Naming.registerAll [] [(ofString "a", 1), (ofString "b", 2), (ofString "a", 3), (ofString "a", 1)]
    = [(ofString "a", 1), (ofString "b", 2)] := by decide
example : Naming.register [(ofString "a", 1)] (ofString "a") 3 = .error () := by rfl
-- the factory step: holder 9 collected object ⟨1,0⟩ for a required point that marks 1 incompatible → failed at 9
example : (M2.step (scBad true) (stBad true)).status = .failed 9 .refresh := by decide
example : (M2.step (scBad false) (stBad false)).status = .running ∧ (M2.step (scBad false) (stBad false)).fields 9 0 = [] ∧
    ((M2.step (scBad false) (stBad false)).stack.map (fun f => (f.name, f.p, f.d))) = [(9, 1, 0)] := by decide
end examples

/-- the tie to the code for BY-NAME points (regenerated wire processor, `C06_code_discovery_wire`): a `wire:"name"` point of
    pointer or interface kind gets exactly ONE candidate appended — what the registry answers for that name, a nil Meta when
    nothing is registered under it — never a by-type fallback; a named point of any other kind (slices, …) gets nothing -/
theorem C07_code_by_name (pop : List Match.Prov) (byName : String → Option Nat) (p : Sem.DProp)
    (hw : p.tag = "wire") (hn : p.tagVal ≠ "") :
    Sem.discoverWire pop byName p =
      (match p.kind with
       | .ptr _ => [byName p.tagVal]
       | .iface _ => [byName p.tagVal]
       | _ => []) := by
  have : (p.tagVal == "") = false := by simpa using hn
  simp only [Sem.discoverWire, hw, this, bne_self_eq_false, Bool.false_eq_true, if_false]
  cases p.kind <;> rfl

/-! ### the REGENERATED naming helper and definition methods (component.go, meta.go)

    Under the interpretation Ioc.SemMeta: a component is registered under its custom name when `Naming()` answers a non-empty
    text, else under the type-derived id — asked of the component ITSELF on every call (nothing remembers an earlier answer);
    a definition's `Name()` is its alias when it has one; `SetProperties` appends EVERY property it is handed to the group of its
    type, in order (no property is dropped for sharing a Go field name or a tag with an earlier one). -/
section naming
open Ioc.Go Ioc.Sem

theorem C07_code_GetComponentNameWithAlias (tyName : Nat → String) (naming namingZero : Nat → Option String) (i : Nat) :
    run (namePrims tyName naming namingZero) Progs.name_GetComponentNameWithAlias [.ref i 50] () =
      some (.tuple [.str (tyName i), .str ((naming i).getD "")], ()) ∧
    run (namePrims tyName naming namingZero) Progs.name_GetComponentNameWithAlias [.ref i 10] () =
      some (.tuple [.str (tyName i), .str ((naming i).getD "")], ()) ∧
    run (namePrims tyName naming namingZero) Progs.name_GetComponentNameWithAlias [.ref i 11] () =
      some (.tuple [.str (tyName i), .str ((namingZero i).getD "")], ()) :=
  ⟨(nameWithAlias_component_sem tyName naming namingZero i).1, (nameWithAlias_component_sem tyName naming namingZero i).2,
   nameWithAlias_type_sem tyName naming namingZero i⟩

theorem C07_code_GetComponentName (n a : String) (t : Go.Val) :
    run (name2Prims n a) Progs.name_GetComponentName [t] () = some (.str (if a != "" then a else n), ()) :=
  componentName_sem n a t

theorem C07_code_meta_names (idOf nameOf : Nat → String) (isComp : Nat → Bool) (n : String) (w : MW) :
    run (metaPrims idOf nameOf isComp) Progs.meta_Name [] w = some (.str (if w.alias != "" then w.alias else w.name), w) ∧
    run (metaPrims idOf nameOf isComp) Progs.meta_IsAlias [] w = some (.bool (w.alias != ""), w) ∧
    run (metaPrims idOf nameOf isComp) Progs.meta_SetName [.str n] w =
      some (.tuple [], if n != w.name then { w with alias := n } else w) :=
  ⟨metaName_sem idOf nameOf isComp w, metaIsAlias_sem idOf nameOf isComp w, metaSetName_sem idOf nameOf isComp n w⟩

theorem C07_code_SetProperties (idOf nameOf : Nat → String) (isComp : Nat → Bool) (ps : List Nat) (w : MW) :
    run (metaPrims idOf nameOf isComp) Progs.meta_SetProperties [.list (ps.map (fun i => Go.Val.ref i 20))] w =
      some (.tuple [], { w with comp := w.comp ++ ps.filter isComp, conf := w.conf ++ ps.filter (fun i => !isComp i) }) ∧
    run (metaPrims idOf nameOf isComp) Progs.meta_GetComponentProperties [] w = some (encProps w.comp, w) :=
  ⟨metaSetProperties_sem idOf nameOf isComp ps w, metaGetComponentProperties_sem idOf nameOf isComp w⟩

end naming


/-- reflectx.TypeId / Id, regenerated (interpretation Ioc.SemTypeId: a reflect.Type is an entry of a table of what reflection
    answers): the default name of a component is "<nil>" for nil, else the id of its dynamic type — exactly ONE pointer level
    removed, an unnamed type rendered by String(), a named type as path.Join(PkgPath, Name): two components have the same
    default name exactly when their (once dereferenced) types have the same package path and name -/
theorem C07_code_TypeId (ts : List Sem.TyD) (typeOf : Nat → Nat) (join : String → String → String) (t c : Nat) :
    Go.run (Sem.tiPrims ts typeOf join) Progs.reflectx_TypeId [.ref t 190] () = some (.str (Sem.typeIdOf ts join t), ()) ∧
    Go.run (Sem.tiPrims ts typeOf join) Progs.reflectx_Id [.nil] () = some (.str "<nil>", ()) ∧
    Go.run (Sem.tiPrims ts typeOf join) Progs.reflectx_Id [.ref c 0] () = some (.str (Sem.typeIdOf ts join (typeOf c)), ()) :=
  ⟨Sem.typeId_sem ts typeOf join t, (Sem.id_sem ts typeOf join c).1, (Sem.id_sem ts typeOf join c).2⟩

/-- TagArg.Parse (regenerated, `C19_code_Parse`) returns the value part of a tag text EXACTLY as the splitter delivers it and
    hands every argument to Set as written — nothing is trimmed, lower-cased or dropped on the way: the requested name is the name as written, blanks included, as the registered names are -/
theorem C07_code_tag_text_as_written (o : Sem.StrOps) (tag : String) (w : Sem.SetLog) :
    Go.run (Sem.parsePrims o) Progs.arg_Parse [.str tag] w =
      some (.str (o.splitC tag).1, w ++ (o.splitC tag).2.map (Sem.parseArg o)) :=
  Sem.argParse_sem o tag w

/-- a by-name point is required unless its `required` argument holds the value "false" (IsRequired, regenerated,
    `C09_code_IsRequired`): the bare flag `,required` and any other spelling leave it required, so an absent name fails -/
theorem C07_code_IsRequired (has : Sem.AM → String → List String → Bool) (fmtKey : String → String) (w : Sem.PW) :
    Go.run (Sem.pmPrims has fmtKey) Progs.prop_IsRequired [] w = some (.bool (!(has w.args "required" ["false"])), w) :=
  Sem.isRequired_sem has fmtKey w

end Ioc.C07
