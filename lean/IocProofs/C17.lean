/-
  C17 — Configuration values reach fields unchanged.  PROPERTY THEOREMS ONLY (lemmas live in IocProofs/Lemmas/Value*).

  Model: Ioc.Value (strconv2 ParseAny/FormatAny, the part of mapstructure's weak decoding the container relies
  on, SetValue, the quote/expression/value/prefix/validate stages).  encoding/json is the parameter `J`
  (assumed to round-trip safe values: `Json.Lawful`); the driver's concrete codec is `goJson`.

  The value path `${k}` → FormatAny → splice → ParseAny → decode is lossy by construction; the full statement
      ∀ ty v,  bindValue "${k}" {k ↦ v} = bindPrefix k {k ↦ v}
  is FALSE of the code.  It is proved for `Faithful` values (`_partial`); one counterexample per class of the
  complement is proved below by `decide` on the model and replayed on the real code by the `value` corpus.
-/
import IocProofs.Lemmas.ValueTop
import IocProofs.Lemmas.ValueDefault
import IocProofs.Lemmas.ValueTwice
import IocProofs.Lemmas.ValueBinder
import IocProofs.Lemmas.ValueKeys
import IocProofs.Lemmas.SemStages
import IocProofs.Lemmas.SemUnmarshall
import IocProofs.Lemmas.SemBinder
import IocProofs.Lemmas.SemArgs
namespace Ioc.C17
open Ioc Ioc.Tag Ioc.Value

/-- Binding by prefix gives exactly the configured value converted to the field's type (scalars, pointers,
    slices, maps, nested structs).  `convert` is the specification (Lemmas/ValueConvert): kinds must match
    (`convertible`), no weak conversion is involved; `k` is a plain key, `as` any well-formed arguments. -/
theorem C17_prefix_exact (J : Json) (cfg : Cfg) (k : Bytes) (as : List (Bytes × List Bytes)) (ty : FieldTy)
    (hk : PlainKey k = true) (has : ∀ a ∈ as, WFArg a)
    (hn : cfg k ≠ .null) (hc : convertible ty (cfg k) = true) :
    bindPrefix J cfg ty (render k as) = .ok (convert ty (cfg k)) :=
  prefix_exact J cfg k as ty hk has hn hc

/- FULL STATEMENT (false of the code, see C17_counterexamples):
     ∀ J cfg k as ty, bindValue J cfg ty (render (placeholder k) as) = bindPrefix J cfg ty (render k as) -/
/-- Binding a key through the value placeholder `${k}` (with any arguments) gives the same result as binding it
    by prefix — for `Faithful` values (Lemmas/ValueTop: plain strings, |int| ≤ 2^53, booleans, short decimals,
    non-empty JSON-safe lists/maps thereof, no `${…}`/`#{…}` in the formatted text), for EVERY field type,
    error cases of the decoder included.  encoding/json is the parameter `J`, assumed `Lawful`. -/
theorem C17_value_eq_prefix_partial (J : Json) (hJ : J.Lawful) (cfg : Cfg) (k : Bytes)
    (as : List (Bytes × List Bytes)) (ty : FieldTy)
    (hk : PlainKey k = true) (has : ∀ a ∈ as, WFArg a) (hf : Faithful J ty (cfg k) = true) :
    bindValue J cfg ty (render (placeholder k) as) = bindPrefix J cfg ty (render k as) :=
  value_eq_prefix_faithful J hJ cfg k as ty hk has hf

/-- The prop shorthand IS the value tag `${key}` with the same arguments (definitional + the C19 index lemma):
    `prop:"k,args"` binds exactly like `value:"${k},args"`, and `prop:"k"` like `value:"${k}"`. -/
theorem C17_prop_is_value (J : Json) (cfg : Cfg) (ty : FieldTy) (k rest : Bytes)
    (hk : WFpre cComma isLB isRB k 0 = true) :
    bindProp J cfg ty (k ++ cComma :: rest) = bindValue J cfg ty (placeholder k ++ cComma :: rest) ∧
    ((∀ b ∈ k, b ≠ cComma) → bindProp J cfg ty k = bindValue J cfg ty (placeholder k)) :=
  prop_is_value J cfg ty k rest hk

/-- A default declared in the placeholder, `${k:d}`, stands in for a key that is NOT configured and for nothing else:
    whenever `k` is configured with a present value — any value that is not null / an empty map / an empty list, in
    particular the zero values `0`, `false`, `0.0`, `""` — binding through `${k:d}` IS binding through `${k}`, for
    every field type and all arguments (so C17_value_eq_prefix_partial carries over to placeholders with defaults;
    with `C17_prop_is_value`, to `prop:"k:d"` as well). -/
theorem C17_default_ignored (J : Json) (cfg : Cfg) (k d : Bytes) (as : List (Bytes × List Bytes)) (ty : FieldTy)
    (hk : PlainKey k = true) (hd : PlainDefault d = true) (has : ∀ a ∈ as, WFArg a) (hp : present (cfg k) = true) :
    bindValue J cfg ty (render (placeholderD k d) as) = bindValue J cfg ty (render (placeholder k) as) :=
  value_default_ignored J noExpr noValidate cfg k d as ty hk hd has hp

/- FULL STATEMENT (false of the code: `value:"007"` binds "7"):  ∀ s, bindValue J cfg .string s = ok (str s) -/
/-- A literal written in a value tag is bound as written: the field receives the literal converted to its type;
    in particular a string field receives exactly the literal (`PlainLiteral`: not empty / bool-like /
    number-like / bracketed / quoted, no pattern, no top-level comma). -/
theorem C17_literal_partial (J : Json) (cfg : Cfg) (ty : FieldTy) (s : Bytes) (as : List (Bytes × List Bytes))
    (hl : PlainLiteral s = true) (has : ∀ a ∈ as, WFArg a) :
    bindValue J cfg ty (render s as) = decode ty (.str s) ∧
    bindValue J cfg .string (render s as) = .ok (.str s) :=
  literal_plain J cfg ty s as hl has

/-- Which key a struct member is bound from.  The decoder looks for the key spelled exactly like the member's (yaml) name and,
    failing that, for the first key equal to it up to letter case.  When no two keys of the map are equal up to letter
    case (`foldDistinct`: what a section of a loaded document always is, its keys being lower-cased, and what a map
    literal is unless it spells one key twice) that search IS the case-insensitive search: neither "exact first" nor
    "first match" — Go's map order — plays a part. -/
theorem C17_member_key_any_case (n : Bytes) (m : List (Bytes × Val)) (hd : foldDistinct m = true) :
    lookupField n m = (m.find? (fun kv => lowerEq kv.1 n)).map (·.2) :=
  lookupField_eq_find n m hd

/-- A map literal written in a value tag (`map[Host:a Port:1]`, keys as written) and the same data taken from the
    document (`host: a, port: 1`, keys lower-cased by the loader) bind the same struct: respelling the keys of a map in
    another letter case (`Respelled`: same order, same values) does not change what any struct type binds from it,
    error cases included. -/
theorem C17_struct_keys_respelled (fs : List (Bytes × FieldTy)) (m m' : List (Bytes × Val))
    (hr : Respelled m m') (hd : foldDistinct m = true) :
    decode (.struct fs) (.map m) = decode (.struct fs) (.map m') := by
  simp only [decode]
  rw [decodeFields_respelled fs hr hd]

/-- `-` and `_` are ordinary characters of a key: a sibling key that equals no member's name up to letter case (`_a`, `a-`
    next to `a`; `max_conn` next to `maxconn`) may stand anywhere in the section without changing what the struct binds. -/
theorem C17_decoy_key_ignored (fs : List (Bytes × FieldTy)) (d : Bytes) (w : Val) (m1 m2 : List (Bytes × Val))
    (h : ∀ f ∈ fs, lowerEq d f.1 = false) :
    decode (.struct fs) (.map (m1 ++ (d, w) :: m2)) = decode (.struct fs) (.map (m1 ++ m2)) := by
  simp only [decode]
  rw [decodeFields_decoy d w m1 m2 fs h]

/-- A property that is populated AGAIN (its component's earlier creation failed; the Property object with TagStr,
    TagVal, arguments and field survived in the definition registry; the configuration may have been changed in
    between): when TagStr contains a placeholder, whatever TagVal and field contents the earlier population left
    play no part — if a first-time population under the CURRENT configuration binds `v`, the re-population binds
    exactly `v` and ends in exactly the same state.  Holds for value tags, the prop shorthand (a value tag,
    `C17_prop_is_value`) and prefix tags whose key is written with a placeholder alike, so with
    `C17_value_eq_prefix_partial` the value path and the prefix path of a re-populated holder still agree on the
    current configuration. -/
theorem C17_repopulate_current (J : Json) (evalE : Bytes → Except Err Val) (validate : FVal → List Bytes → Bool)
    (cfg : Cfg) (ty : FieldTy) (isValue : Bool) (tagStr leftVal : Bytes) (args : Args) (leftBound : Option FVal)
    (r : Bytes × Bytes × Bytes) (hf : findEl cDollar tagStr = some r) (fresh : PState) (v : FVal)
    (h0 : runStagesOn J evalE validate cfg ty stageOrder ⟨isValue, tagStr, tagStr, args, none⟩ = .ok fresh)
    (hb : fresh.bound = some v) :
    runStagesOn J evalE validate cfg ty stageOrder ⟨isValue, tagStr, leftVal, args, leftBound⟩ = .ok fresh :=
  repopulate_current J evalE validate cfg ty isValue tagStr leftVal args leftBound r hf fresh v h0 hb

/-! ### the configuration changes between two populations (the binder model `Ioc.Value.Binder`: what was handed to Set,
    over the merged documents; a lookup is a function of the two layers as they are NOW)

    These say what "the configured value" of a path is after Configure.Set — at the path, below it and above it; with
    C17_prefix_exact / C17_value_eq_prefix_partial (which hold for EVERY configuration function, `Binder.get` of the
    current binder included) a holder populated after the change binds the current values through prefix, placeholder
    and shorthand alike. -/

/-- Set, then a lookup of the same path — written in any letter case — answers with the value that was set (any value
    but nil; the keys of a map value arrive in lower case), whatever was set or configured before. -/
theorem C17_set_get (b : Binder) (path path' : Bytes) (v : Val) (hc : lowerAscii path' = lowerAscii path)
    (hv : lowerKeys v ≠ .null) : (b.set path v).get path' = lowerKeys v :=
  set_get b path path' v hc hv

/-- Set BELOW, lookup ABOVE: after Set("a.q", v) the ancestor `a` answers with a map in which the rest of the path leads
    to v — a subtree bound by prefix after the change shows the change (for every depth of `a` and `q`: both may contain
    dots). -/
theorem C17_set_seen_through_ancestor (b : Binder) (a q : Bytes) (v : Val) :
    ∃ sub, (b.set (a ++ 46 :: q) v).get a = .map sub ∧ searchMap sub (splitDots (lowerAscii q)) = lowerKeys v :=
  set_seen_through_ancestor b a q v

/-- Set ABOVE, lookup BELOW: after Set("a", map) a path below `a` that the map gives a value answers with that value —
    a placeholder or shorthand naming a key of a replaced section shows the new section. -/
theorem C17_set_seen_below (b : Binder) (a q : Bytes) (vm : List (Bytes × Val)) (w : Val) (hw : w ≠ .null)
    (h : searchMap (lowerKeysM vm) (splitDots (lowerAscii q)) = w) :
    (b.set a (.map vm)).get (a ++ 46 :: q) = w :=
  set_seen_below b a q vm w hw h

/-- A holder populated LATER (a lazily created component, a component of a second application sharing the configuration)
    is populated under the configuration as it is then: the stages run over fresh properties with the lookups of the
    binder after all Set calls — nothing an earlier population looked up plays a part. -/
theorem C17_later_population_current (J : Json) (evalE : Bytes → Except Err Val) (validate : FVal → List Bytes → Bool)
    (b : Binder) (ops : List (Bytes × Val)) (late : List HProp) :
    populateLater J evalE validate b ops late = populateAll J evalE validate (b.setAll ops).get stageOrder late := rfl

/-! ### counterexamples: one per class of the known lossy value path (each is a corpus case of the `value`
    sub-harness, replayed on the real code on every run) -/

theorem C17_counterexamples :
    -- number-like strings
    bindValue goJson (cfgK (.str (ofString "1.10"))) .string tagV = .ok (.str (ofString "1.1")) ∧
    bindPrefix goJson (cfgK (.str (ofString "1.10"))) .string tagX = .ok (.str (ofString "1.10")) ∧
    bindValue goJson (cfgK (.str (ofString "007"))) .string tagV = .ok (.str (ofString "7")) ∧
    -- bool-like strings
    bindValue goJson (cfgK (.str (ofString "TRUE"))) .string tagV = .ok (.str (ofString "1")) ∧
    bindPrefix goJson (cfgK (.str (ofString "TRUE"))) .string tagX = .ok (.str (ofString "TRUE")) ∧
    -- quoted strings lose their quotes
    bindValue goJson (cfgK (.str (ofString "'q'"))) .string tagV = .ok (.str (ofString "q")) ∧
    -- bracketed strings are re-parsed as a list (and then do not fit a string field)
    bindValue goJson (cfgK (.str (ofString "[a,b]"))) .string tagV = .error .decode ∧
    bindValue goJson (cfgK (.str (ofString "[a,b]"))) (.slice .string) tagV = .ok (.list [.str (ofString "a"), .str (ofString "b")]) ∧
    bindPrefix goJson (cfgK (.str (ofString "[a,b]"))) .string tagX = .ok (.str (ofString "[a,b]")) ∧
    -- integers beyond 2^53 lose precision
    bindValue goJson (cfgK (.int 9007199254740993)) .int tagV = .ok (.int 9007199254740992) ∧
    bindPrefix goJson (cfgK (.int 9007199254740993)) .int tagX = .ok (.int 9007199254740993) ∧
    -- an empty string (or list) counts as absent
    bindValue goJson (cfgK (.str [])) .string tagV = .error .required ∧
    bindPrefix goJson (cfgK (.str [])) .string tagX = .ok (.str []) ∧
    bindValue goJson (cfgK (.list [])) (.slice .string) tagV = .error .required ∧
    bindPrefix goJson (cfgK (.list [])) (.slice .string) tagX = .ok (.list []) ∧
    -- a configured string that contains a placeholder / an expression is expanded again
    bindValue goJson (cfgK (.str (ofString "a${kz}b"))) .string tagV = .ok (.str (ofString "azzb")) ∧
    valuePipeline goJson (fun e => if e = ofString "1+2" then .ok (.int 3) else .error .expr) noValidate
      (cfgK (.str (ofString "#{1+2}"))) tagV .string = .ok (.str (ofString "3")) ∧
    bindPrefix goJson (cfgK (.str (ofString "#{1+2}"))) .string tagX = .ok (.str (ofString "#{1+2}")) ∧
    -- a one-byte quote string panics in ParseAny (val[1:len(val)-1])
    bindValue goJson (cfgK (.str (ofString "'"))) .string tagV = .error .panic ∧
    bindPrefix goJson (cfgK (.str (ofString "'"))) .string tagX = .ok (.str (ofString "'")) := by
  refine ⟨?_, ?_, ?_, ?_, ?_, ?_, ?_, ?_, ?_, ?_, ?_, ?_, ?_, ?_, ?_, ?_, ?_, ?_, ?_, ?_⟩ <;> decide +kernel

/-! ### non-vacuity -/

example : PlainKey (ofString "server.port-1_a") = true := by decide
-- faithful values of every kind, with a non-trivial target
example : Faithful goJson .string (.str (ofString "hello world, a:b {x} ü")) = true := by decide
example : Faithful goJson .int (.int (-9007199254740992)) = true := by decide
example : Faithful goJson .float (.dec (ofString "3.25")) = true := by decide
example : Faithful goJson (.slice .string) (.list [.str (ofString "1.10"), .str (ofString "TRUE"), .str (ofString "'q'")]) = true := by decide
example : Faithful goJson (.struct [(ofString "name", .string), (ofString "port", .uint)])
    (.map [(ofString "name", .str (ofString "007")), (ofString "port", .int 8080)]) = true := by decide
-- the complement: exactly the known classes
example : Faithful goJson .string (.str (ofString "1.10")) = false := by decide
example : Faithful goJson .string (.str (ofString "TRUE")) = false := by decide
example : Faithful goJson .int (.int 9007199254740993) = false := by decide
example : Faithful goJson .string (.str (ofString "#{1+2}")) = false := by decide
-- the assumption on the JSON codec holds of the concrete codec on a nested value with escapes and big numbers
example : goJson.dec (goJson.enc (.list [.str (ofString "a\"<b>\\"), .int 7, .dec (ofString "2.5"), .bool true, .null,
      .map [(ofString "k", .list [.int (-3)])]])) =
    some (.ok (toF64 (.list [.str (ofString "a\"<b>\\"), .int 7, .dec (ofString "2.5"), .bool true, .null,
      .map [(ofString "k", .list [.int (-3)])]]))) := by decide
-- the theorems applied: a struct bound through `${app}` and by prefix agree, and equal the converted document value
example : bindValue goJson (fun k => if k = ofString "app" then
      .map [(ofString "name", .str (ofString "007")), (ofString "port", .int 8080)] else .null)
      (.struct [(ofString "name", .string), (ofString "port", .uint)]) (ofString "${app}")
    = .ok (.struct [(ofString "name", .str (ofString "007")), (ofString "port", .int 8080)]) := by decide
example : convertible (.struct [(ofString "name", .string), (ofString "port", .uint), (ofString "opt", .ptr .int)])
    (.map [(ofString "name", .str (ofString "007")), (ofString "port", .int 8080)]) = true := by decide
-- a declared default does not shadow a configured zero value; it is used when the key is absent
example : present (.int 0) = true ∧ present (.bool false) = true ∧ present (.flt 0) = true ∧ present (.str []) = true := by decide
example : PlainDefault (ofString "0.5") = true ∧ placeholderD (ofString "k") (ofString "3") = ofString "${k:3}" := by decide
example : bindValue goJson (cfgK (.int 0)) .int (ofString "${k:3}") = .ok (.int 0) := by decide +kernel
example : bindValue goJson (cfgK (.bool false)) .bool (ofString "${k:true}") = .ok (.bool false) := by decide +kernel
example : bindValue goJson (cfgK (.flt 0)) .float (ofString "${k:0.5}") = .ok (.int 0) := by decide +kernel
example : bindProp goJson (cfgK (.int 0)) .int (ofString "k:3") = .ok (.int 0) := by decide +kernel
example : bindValue goJson (cfgK .null) .int (ofString "${k:3}") = .ok (.int 3) := by decide +kernel
-- keys and member names in different letter case; sibling keys that differ by a separator
def tyEndpoint : FieldTy := .struct [(ofString "host", .string), (ofString "PORT", .int)]
def cfgEndpoint : Cfg := fun k => if k = ofString "k" then .map [(ofString "host", .str (ofString "a.example.org")), (ofString "port", .int 8443)] else .null
example : Respelled [(ofString "Host", .str (ofString "a")), (ofString "Port", .int 1)] [(ofString "host", .str (ofString "a")), (ofString "port", .int 1)] :=
  .cons (by decide) (.cons (by decide) .nil)
example : foldDistinct [(ofString "Host", .str (ofString "a")), (ofString "Port", .int 1), (ofString "_host", .null)] = true := by decide
example : foldDistinct [(ofString "Host", .null), (ofString "HOST", .null)] = false := by decide
example : bindValue goJson cfgEndpoint tyEndpoint (ofString "map[Host:a.example.org Port:8443]") = bindPrefix goJson cfgEndpoint tyEndpoint (ofString "k") ∧
    bindValue goJson cfgEndpoint tyEndpoint (ofString "${kx:map[HOST:a.example.org pOrt:8443]}") =
      .ok (.struct [(ofString "host", .str (ofString "a.example.org")), (ofString "PORT", .int 8443)]) := by decide +kernel
example : decode (.struct [(ofString "A", .int), (ofString "a_B", .string)])
    (.map [(ofString "_a", .int 2), (ofString "a", .int 1), (ofString "a-", .int 3), (ofString "ab", .str (ofString "decoy")), (ofString "a_b", .str (ofString "right"))]) =
    .ok (.struct [(ofString "A", .int 1), (ofString "a_B", .str (ofString "right"))]) := by decide
-- tag-less fields: one type, two instances, two subtrees
example : PlainKey (ofString "cp.primary") = true ∧ convertible (.ptr (.struct [(ofString "host", .string), (ofString "port", .int)]))
    (.map [(ofString "host", .str (ofString "db1")), (ofString "port", .int 6432)]) = true := by decide
example : bindTagless goJson (Binder.get ⟨[], [(ofString "cp", .map [(ofString "default", .map [(ofString "host", .str (ofString "localhost"))]),
      (ofString "primary", .map [(ofString "host", .str (ofString "db1"))])])]⟩) .ptrPtrRecv (ofString "cp.primary")
      (.ptr (.struct [(ofString "host", .string)])) = .ok (some (.ptr (.struct [(ofString "host", .str (ofString "db1"))]))) := by decide +kernel
example : PlainLiteral (ofString "hello world") = true := by decide
example : bindValue goJson (cfgK .null) .string (ofString "hello world,required=false") = .ok (.str (ofString "hello world")) := by decide
example : bindProp goJson (cfgK (.int 5)) .int (ofString "k,required=false") = .ok (.int 5) := by decide

-- a holder populated twice: `G int value:"${kgate}"` fails first (kgate is not configured), then k is repointed and
-- kgate set: value placeholder, shorthand and prefix twin all show the CURRENT value; the hypothesis of
-- C17_repopulate_current is met by `${k}`
def cfgFirst : Cfg := fun k => if k = ofString "k" then .str (ofString "a.example.org") else .null
def cfgSecond : Cfg := fun k => if k = ofString "k" then .str (ofString "b.example.org") else if k = ofString "kgate" then .int 1 else .null
def holderGVPX : List HProp :=
  [⟨.int, ⟨true, ofString "${kgate}", ofString "${kgate}", [], none⟩⟩, ⟨.string, ⟨true, ofString "${k}", ofString "${k}", [], none⟩⟩,
   ⟨.string, ⟨true, ofString "${k}", ofString "${k}", [], none⟩⟩, ⟨.string, ⟨false, ofString "k", ofString "k", [], none⟩⟩]
example : (createTwice goJson noExpr noValidate cfgFirst cfgSecond false holderGVPX).failed = true ∧
    (createTwice goJson noExpr noValidate cfgFirst cfgSecond false holderGVPX).first = some .required ∧
    (createTwice goJson noExpr noValidate cfgFirst cfgSecond false holderGVPX).second = none ∧
    (createTwice goJson noExpr noValidate cfgFirst cfgSecond false holderGVPX).props.map (·.st.bound) =
      [some (.int 1), some (.str (ofString "b.example.org")), some (.str (ofString "b.example.org")), some (.str (ofString "b.example.org"))] ∧
    -- what the first population left in TagVal: the FIRST configuration's text
    ((populateAll goJson noExpr noValidate cfgFirst stageOrder holderGVPX).1.map (·.st.tagVal)) =
      [[], ofString "a.example.org", ofString "a.example.org", ofString "k"] := by decide +kernel
example : findEl cDollar (ofString "${k}") = some ([], ofString "k", []) := by decide

-- a start binds the section `db` by prefix, Set("db.host") repoints it, a later holder binds the section, the key through a
-- placeholder and through the shorthand: all three show the CURRENT host (and Set in another letter case is the same Set)
def docDb : Binder := ⟨[], [(ofString "db", .map [(ofString "host", .str (ofString "primary")), (ofString "port", .int 5432)])]⟩
def tyDbHost : FieldTy := .struct [(ofString "host", .string)]
def lateDb : List HProp :=
  [⟨tyDbHost, ⟨false, ofString "db", ofString "db", [], none⟩⟩, ⟨.string, ⟨true, ofString "${db.host}", ofString "${db.host}", [], none⟩⟩,
   ⟨.string, ⟨true, ofString "${DB.Host}", ofString "${DB.Host}", [], none⟩⟩, ⟨.int, ⟨true, ofString "${db.port}", ofString "${db.port}", [], none⟩⟩]
example : (populateLater goJson noExpr noValidate docDb [(ofString "db.host", .str (ofString "replica"))] lateDb).2 = none ∧
    (populateLater goJson noExpr noValidate docDb [(ofString "db.host", .str (ofString "replica"))] lateDb).1.map (·.st.bound) =
      [some (.struct [(ofString "host", .str (ofString "replica"))]), some (.str (ofString "replica")), some (.str (ofString "replica")), some (.int 5432)] ∧
    (populateLater goJson noExpr noValidate docDb [(ofString "DB.HOST", .str (ofString "replica"))] lateDb).1.map (·.st.bound) =
      (populateLater goJson noExpr noValidate docDb [(ofString "db.host", .str (ofString "replica"))] lateDb).1.map (·.st.bound) ∧
    -- the section replaced by a map: the key below it shows the new section
    ((docDb.set (ofString "db") (.map [(ofString "Host", .str (ofString "third"))])).get (ofString "db.host")) = .str (ofString "third") := by
  decide +kernel
example : lowerKeys (.map [(ofString "Host", .str (ofString "third"))]) ≠ .null := by decide

/-! ### counterexample: a Set below a section hides the section's other keys from a lookup of the section (KF-C17-9)

    FULL STATEMENT (false of the code): after Set("a.q", v) a lookup of the ancestor `a` still leads to the documents'
    value along every path `q'` that is neither `q` nor above nor below it —
        ∀ b a q q' v, unrelated q q' → ∃ sub, (b.set (a.q) v).get a = .map sub ∧ searchMap sub q' = b.get (a.q')
    so that binding the section by prefix and binding its keys through placeholders / the shorthand agree.  The binder
    answers a path from what was handed to Set ALONE as soon as that layer has anything at the path (viper.find: the
    override layer is consulted first and its nested map is returned as it is, not merged with the documents): the
    ancestor answers with a map that holds the path that was set and nothing else, while the sibling itself, looked up
    by its own path, still answers from the documents.  A struct bound by `prefix:"db"` after Set("db.host", …) has port 0,
    a map bound the same way has no `port`, `${db.port}` gives 5432.  C17_set_seen_through_ancestor (what WAS set is
    seen through the ancestor) is the part that holds.  Corpus case `HS z0 … o(sa.ka=…)` of the `value` sub-harness
    (oracle setget-sibling-lost) replays it on the real code on every run. -/
def tyDb : FieldTy := .struct [(ofString "host", .string), (ofString "port", .int)]
def lateDbWhole : List HProp :=
  [⟨tyDb, ⟨false, ofString "db", ofString "db", [], none⟩⟩, ⟨.map .any, ⟨false, ofString "db", ofString "db", [], none⟩⟩,
   ⟨.int, ⟨true, ofString "${db.port}", ofString "${db.port}", [], none⟩⟩, ⟨.int, ⟨false, ofString "db.port", ofString "db.port", [], none⟩⟩]
theorem C17_set_sibling_lost_counterexample :
    -- the section, looked up after Set("db.host", replica): the port is gone …
    (docDb.set (ofString "db.host") (.str (ofString "replica"))).get (ofString "db") = .map [(ofString "host", .str (ofString "replica"))] ∧
    -- … the port itself, looked up by its own path: still the document's
    (docDb.set (ofString "db.host") (.str (ofString "replica"))).get (ofString "db.port") = .int 5432 ∧
    -- a holder populated afterwards: struct and map by prefix have lost the port, placeholder and prefix on the key have it
    (populateLater goJson noExpr noValidate docDb [(ofString "db.host", .str (ofString "replica"))] lateDbWhole).2 = none ∧
    (populateLater goJson noExpr noValidate docDb [(ofString "db.host", .str (ofString "replica"))] lateDbWhole).1.map (·.st.bound) =
      [some (.struct [(ofString "host", .str (ofString "replica")), (ofString "port", .int 0)]),
       some (.map [(ofString "host", .str (ofString "replica"))]), some (.int 5432), some (.int 5432)] ∧
    -- before the Set the same holder has it everywhere
    (populateLater goJson noExpr noValidate docDb [] lateDbWhole).1.map (·.st.bound) =
      [some (.struct [(ofString "host", .str (ofString "primary")), (ofString "port", .int 5432)]),
       some (.map [(ofString "host", .str (ofString "primary")), (ofString "port", .int 5432)]), some (.int 5432), some (.int 5432)] := by
  decide +kernel

/-! ### a component that edits the value it was given changes nothing for anybody else

    A bound value is built by the decoder for the field (`FVal`); the binder is not a parameter of anything a component can
    do to its field.  A holder populated after such an edit is populated under the binder as it is — with no Set in
    between, as the documents say (kind HM of the `value` sub-harness observes exactly this on the real code). -/
theorem C17_edit_is_no_set (J : Json) (evalE : Bytes → Except Err Val) (validate : FVal → List Bytes → Bool)
    (b : Binder) (late : List HProp) :
    populateLater J evalE validate b [] late = populateAll J evalE validate b.get stageOrder late := rfl

/-! ### tag-less fields that name their own prefix (definition.ConfigurationProperties; eighth round)

    The prefix scanner's ExtractHandler asks the field's OWN value (`field.Value.Interface()`) for `Prefix()`; the answer is
    user code and therefore the parameter `own`.  `CPShape` says how field and method are declared (Go's method sets decide
    whether the value carries the method at all) and whether a pointer field is nil at scan time.  The `value` sub-harness
    (kind CP) observes exactly this on Go-declared holders whose instances are pre-populated with different states. -/

/-- For every shape in which the field's own value carries the method — a value with a value receiver, a non-nil pointer
    with either receiver, a nil pointer with a pointer receiver — the scanned property of the tag-less field IS the property
    that the tag `prefix:"<own>"` on the same field gives: same TagStr, TagVal, arguments, nothing bound. -/
theorem C17_tagless_is_prefix (sh : CPShape) (own : Bytes) (ty : FieldTy) (hp : HProp)
    (hs : sh ≠ .valPtrRecv) (hn : sh ≠ .nilValRecv) (h : freshProp false own ty = some hp) :
    taglessProp sh own ty = .ok (some hp) := by
  cases sh <;> simp_all [taglessProp, extractPrefix]

/-- … and the field is bound to exactly the configured value of the subtree that ITS OWN `Prefix()` names, converted to
    its type — what `C17_prefix_exact` says of the twin field tagged `prefix:"<own>"`.  No other instance of the type (a fresh
    zero value, say) plays a part: `own` is the only thing the binding depends on. -/
theorem C17_tagless_binds_own_subtree (J : Json) (cfg : Cfg) (sh : CPShape) (own : Bytes) (ty : FieldTy)
    (hs : sh ≠ .valPtrRecv) (hn : sh ≠ .nilValRecv) (hk : PlainKey own = true)
    (hcfg : cfg own ≠ .null) (hc : convertible ty (cfg own) = true) :
    bindTagless J cfg sh own ty = .ok (some (convert ty (cfg own))) ∧
    bindTagless J cfg sh own ty = (bindPrefix J cfg ty (render own [])).map some := by
  have hr : render own [] = own := by simp [render, joinB]
  have hp := prefix_exact J cfg own [] ty hk (by intro a ha; cases ha) hcfg hc
  rw [hr] at hp ⊢
  cases sh <;> simp_all [bindTagless, extractPrefix, Except.map]

/-- The two shapes in which the field's own value does NOT answer: a value field whose type has the method on the pointer
    receiver only is no configuration property (the library leaves it alone — observed, kind CP shape `vp`); a nil pointer
    field whose type has a value receiver makes the scanner panic (observed on the unchanged library, DESIGN section 10 —
    outside the twenty properties, kept out of the generated scenarios). -/
theorem C17_tagless_unseen (own : Bytes) (ty : FieldTy) :
    taglessProp .valPtrRecv own ty = .ok none ∧ taglessProp .nilValRecv own ty = .error .panic := by
  constructor <;> rfl

/-! ### the REGENERATED stage functions (harness/cmd/facts/prog.go → Ioc.Generated.Progs)

    `props_PostProcessProperties` and `value_PostProcessProperties` are the syntax trees of
    propertiesAwarePostProcessors.PostProcessProperties / valueAwarePostProcessors.PostProcessProperties as they are in /repo
    now.  Under the interpretation Ioc.SemStages (Configure.Get, Unmarshall, ParseAny, IsRequired are parameters; the world is
    the log of SetConfiguration / Unmarshall calls) they are the model loops `stageLoop (prefixNode …)` / `stageLoop (valueNode …)`
    for EVERY list of property nodes and every behaviour of the parameters; what a node decides is `prefixDecision` /
    `valueDecision`, and the hand-written stages `Value.prefixStage` / `Value.valueStage` are instances of the same decisions. -/
section code
open Ioc.Go Ioc.Sem
variable (props : List SProp) (cfg : String → Option Nat) (unm : Nat → Nat → Option String) (parse : String → Except String Nat)

theorem C17_code_prefix_stage (n : Nat) (w : SW) :
    run (stagePrims props cfg unm parse) Progs.props_PostProcessProperties
        [.list ((List.range' 0 n).map (fun i => Go.Val.ref i 20)), .str "c", .str "n"] w =
      some (stageResult (stageLoop (prefixNode props cfg unm) (List.range' 0 n) w).2,
            (stageLoop (prefixNode props cfg unm) (List.range' 0 n) w).1) :=
  props_sem props cfg unm parse n w

/-- a prefix node: SetConfiguration always, the decoder exactly when the key is configured, and the outcome is `prefixDecision` -/
theorem C17_code_prefix_node (i : Nat) (w : SW) (ht : (spropAt props i).tag = "prefix") :
    (prefixNode props cfg unm i w).2 = (match prefixNodeDecision props cfg unm i w with | .fail e => some e | _ => none) ∧
    (prefixNode props cfg unm i w).1 =
      w ++ [.setCfg i (tagValNow props w i) (cfg (tagValNow props w i))] ++
        (match cfg (tagValNow props w i) with | none => [] | some a => [.unmarshal i a]) :=
  ⟨prefixNode_decision props cfg unm i w ht, prefixNode_events props cfg unm i w ht⟩

/-- nodes of other tags are not touched by the prefix stage -/
theorem C17_code_prefix_skips_others (i : Nat) (w : SW) (ht : (spropAt props i).tag ≠ "prefix") :
    prefixNode props cfg unm i w = (w, none) := by
  simp [prefixNode, ht]

theorem C17_code_value_stage (n : Nat) (w : SW) :
    run (stagePrims props cfg unm parse) Progs.value_PostProcessProperties
        [.list ((List.range' 0 n).map (fun i => Go.Val.ref i 20)), .str "c", .str "n"] w =
      some (stageResult (stageLoop (valueNode props unm parse) (List.range' 0 n) w).2,
            (stageLoop (valueNode props unm parse) (List.range' 0 n) w).1) :=
  value_sem props cfg unm parse n w

theorem C17_code_value_node (i : Nat) (w : SW) (ht : (spropAt props i).tag = "value") :
    (valueNode props unm parse i w).2 = (match valueNodeDecision props unm parse i w with | .fail e => some e | _ => none) :=
  valueNode_decision props unm parse i w ht

/-- the hand-written prefix stage is the same decision: absent ⇒ required-error or skip, else the decoder's verdict -/
theorem C17_prefixStage_is_decision (c : Cfg) (args : Tag.Args) (ty : FieldTy) (tv : Bytes) :
    prefixStage c args ty tv =
      match prefixDecision (decide (c tv = .null)) (Tag.isRequired args) Err.required
              (match decode ty (c tv) with | .error e => some e | .ok _ => none) with
      | .skip => .ok none
      | .fail e => .error e
      | .bind => (decode ty (c tv)).map some := by
  unfold prefixStage prefixDecision unmarshall
  by_cases h : c tv = .null
  · simp only [h, if_true, decide_true]
    cases Tag.isRequired args <;> simp
  · simp only [h, if_false, decide_false, Bool.false_eq_true]
    cases decode ty (c tv) <;> simp [Except.map]

/-- … and so is the value stage: empty text ⇒ required-error or skip, else parse, then decode -/
theorem C17_valueStage_is_decision (J : Json) (args : Tag.Args) (ty : FieldTy) (tv : Bytes) :
    valueStage J args ty tv =
      match valueDecision tv.isEmpty (Tag.isRequired args) Err.required (parseAny J tv)
              (fun v => match unmarshall ty v with | .error e => some e | .ok _ => none) with
      | .skip => .ok none
      | .fail e => .error e
      | .bind => (match parseAny J tv with | .ok v => unmarshall ty v | .error e => .error e) := by
  unfold valueStage valueDecision
  cases tv.isEmpty
  · simp only [Bool.false_eq_true, if_false]
    cases parseAny J tv with
    | error e => simp
    | ok v => cases h : unmarshall ty v <;> simp [h]
  · simp only [if_true]
    cases Tag.isRequired args <;> simp

end code

/-! ### how the library drives mapstructure (regenerated facts)

    `Ioc.Value.decode` is the semantics of mapstructure's decoder under EXACTLY these options: weakly typed input (numbers,
    booleans and strings convert into one another, a single value becomes a one-element slice), member keys matched with the
    default matcher (`MatchName: nil` = the exact key first, else `strings.EqualFold`), the `yaml` tag for member names, no
    squashing, no zeroing of the target, unused and unset keys tolerated.  A change of the literal changes this fact, the theorem
    no longer checks, and the search for a failing input starts. -/
theorem C17_decoder_options :
    Facts.decoderOptions =
      [("DecodeHook", "mapstructure.ComposeDecodeHookFunc(hooks...)"), ("ErrorUnused", "false"), ("ErrorUnset", "false"),
       ("ZeroFields", "false"), ("WeaklyTypedInput", "true"), ("Squash", "false"), ("Metadata", "nil"), ("Result", "v"),
       ("TagName", "\"yaml\""), ("IgnoreUntaggedFields", "false"), ("MatchName", "nil")] := by decide

/-- the hooks Unmarshall installs: duration strings always; a time layout exactly as the FIRST item of the `timeLayout`
    argument is written (`args[0]`, nothing joined, trimmed or stripped); the `mapper` argument names the tag -/
theorem C17_unmarshall_hooks :
    Facts.unmarshallHooks = [("mapstructure.StringToTimeDurationHookFunc", ""), ("mapstructure.StringToTimeHookFunc", "args[0]")] ∧
    Facts.unmarshallArgNames = [("unmarshallArgTagName", "mapper"), ("unmarshallArgTimeLayout", "timeLayout")] := by decide

/-! ### Property.Unmarshall, newDecodeConfig and reflectx.SetValue, REGENERATED (interpretation Ioc.SemUnmarshall: what
    mapstructure's `NewDecoder` and `Decode` answer for a configuration are parameters) -/
section unmarshall
open Ioc.Go Ioc.Sem

/-- Unmarshall: a property that is not a Configuration property refuses; a nil value decodes nothing and writes nothing; any
    other value is decoded ONCE, with the duration hook, the time hook for the FIRST `timeLayout` value when that argument is
    present, and the tag name `yaml` unless `mapper` names another — and the field is written exactly when NewDecoder and
    Decode both succeed; their errors come back wrapped, never swallowed -/
theorem C17_code_Unmarshall (p : UMP) (w : UW) :
    (p.isConf = false → ∀ cv, run (umPrims p) Progs.prop_Unmarshall [cv] w = some (.str "not allowed to unmarshall", w)) ∧
    (p.isConf = true → run (umPrims p) Progs.prop_Unmarshall [.nil] w = some (.nil, w)) ∧
    (p.isConf = true → p.argsOk →
      run (umPrims p) Progs.prop_Unmarshall [.ref 0 72] w = some (encOptErrS (unmarshallS p w).1, (unmarshallS p w).2)) :=
  ⟨fun h cv => unmarshall_notConf p cv w h, unmarshall_nil p w, unmarshall_value p w⟩

/-- what `unmarshallS` is: the configuration, then NewDecoder, then Decode, then the write -/
theorem C17_code_Unmarshall_outcome (p : UMP) (w : UW) :
    ((unmarshallS p w).1 = none ↔ p.newDecoderErr (unmarshallCfg p) = none ∧ p.decodeErr (unmarshallCfg p) = none) ∧
    ((unmarshallS p w).2.set = true ↔ w.set = true ∨ (unmarshallS p w).1 = none) ∧
    (unmarshallCfg p).hooks.head? = some "duration" := by
  refine ⟨?_, ?_, rfl⟩
  · cases hn : p.newDecoderErr (unmarshallCfg p) <;> cases hd : p.decodeErr (unmarshallCfg p) <;> simp [unmarshallS, hn, hd]
  · cases hn : p.newDecoderErr (unmarshallCfg p) <;> cases hd : p.decodeErr (unmarshallCfg p) <;> simp [unmarshallS, hn, hd]

/-- newDecodeConfig: the switches of the composite literal as the syntax tree has them -/
theorem C17_code_newDecodeConfig (v hooks : Go.Val) :
    run ndcPrims Progs.prop_newDecodeConfig [v, hooks] () =
      some (.tuple [.str "DecoderConfig", .tuple [.str "compose", hooks], .bool false, .bool false, .bool false, .bool true,
                    .bool false, .nil, v, .str "yaml", .bool false, .nil], ()) :=
  newDecodeConfig_sem v hooks

/-- reflectx.SetValue: the setter runs once on a FRESH zero value; on failure the field keeps what it held and the error is
    returned as it is; on success the field holds the new value -/
theorem C17_code_SetValue {σ : Type} (isPtr : Bool) (setter : Nat → σ → Option String × σ) (w : SVW σ) :
    run (svPrims isPtr setter) Progs.reflectx_SetValue [.str "value", .str "setter"] w =
      some (encOptErrS (setter w.fresh w.inner).1,
        { cell := if (setter w.fresh w.inner).1.isNone then some (w.fresh, isPtr) else w.cell,
          fresh := w.fresh + 1, inner := (setter w.fresh w.inner).2 }) :=
  setValue_sem isPtr setter w

/-- SetConfiguration / Args / SetArg / AddArg go to the property's own maps -/
theorem C17_code_property_maps (has : AM → String → List String → Bool) (fmtKey : String → String) (w : PW) :
    (∀ path v, run (pmPrims has fmtKey) Progs.prop_SetConfiguration [.str path, v] w =
      some (.tuple [], { w with confs := (path, v) :: w.confs.filter (fun e => e.1 != path) })) ∧
    run (pmPrims has fmtKey) Progs.prop_Args [] w = some (.ref 0 78, w) ∧
    (∀ k vs, run (pmPrims has fmtKey) Progs.prop_SetArg [.str k, strsVal vs] w =
      some (.tuple [], { w with args := if k = "" then w.args else amSet (fmtKey k) vs w.args })) ∧
    (∀ k vs, run (pmPrims has fmtKey) Progs.prop_AddArg [.str k, strsVal vs] w =
      some (.tuple [], { w with args := if k = "" then w.args else amSet (fmtKey k) ((amGet (fmtKey k) w.args).getD [] ++ vs) w.args })) :=
  ⟨fun path v => setConfiguration_sem has fmtKey path v w, args_sem has fmtKey w,
   fun k vs => setArg_sem has fmtKey k vs w, fun k vs => addArg_sem has fmtKey k vs w⟩

/-- non-vacuity: a property with `timeLayout=2006` and `mapper=json` whose decode fails -/
example : (unmarshallS ⟨true, some ["2006"], some ["json"], fun _ => none, fun c => if c.tagName = "json" then some "boom" else none⟩
    ⟨none, [], false⟩) =
    (some "unmarshall property configuration failed: mapstructure decode: boom",
      ⟨some ⟨["duration", "time:2006"], "json"⟩, [⟨["duration", "time:2006"], "json"⟩], false⟩) := by decide

end unmarshall

/-! ### configure/binder/viper.go, REGENERATED (interpretation Ioc.SemBinder: configuration values live in a heap — maps and
    lists are objects a caller could write to; viper's `AllSettings` / `Get` / `Set` / `MergeConfig` are parameters) -/
section binder
open Ioc.Go Ioc.Sem

/-- Get hands out what viper holds under the path (all settings for the empty path) THROUGH cloneValue, on every path -/
theorem C17_code_binder_Get (b : VB) (path : String) (h : Heap) :
    run (bgPrims b) Progs.binder_Get [.str path] h = some (b.clone (if path = "" then b.all else b.get path) h) :=
  binderGet_sem b path h

/-- cloneValue, level by level (the recursive call is the parameter `rec`; the range over a map is interpreted for EVERY order
    in which the entries may be enumerated): a non-nil map of either kind / a non-nil list yields a NEW object that holds,
    under the same keys / at the same positions, what the recursive call returns for each value; typed nil maps and lists and
    every other value are returned as they are, and nothing is allocated for them -/
theorem C17_code_cloneValue (keq : Go.Val → Go.Val → Bool) (rec : Go.Val → Heap → Go.Val × Heap) (i : Nat) (h : Heap) :
    (∀ es, h[i]? = some (.mapS (some es)) →
      run (cvPrims keq rec) Progs.binder_cloneValue [.ref i 90] h =
        some (.ref h.length 90, cloneEntries keq rec h.length es (h ++ [.mapS (some [])]))) ∧
    (∀ es, h[i]? = some (.mapA (some es)) →
      run (cvPrims keq rec) Progs.binder_cloneValue [.ref i 90] h =
        some (.ref h.length 90, cloneEntries keq rec h.length es (h ++ [.mapA (some [])]))) ∧
    (∀ es, h[i]? = some (.lst (some es)) →
      run (cvPrims keq rec) Progs.binder_cloneValue [.ref i 90] h =
        some (.ref h.length 90, cloneItems keq rec h.length 0 es (h ++ [.lst (some (List.replicate es.length .nil))]))) ∧
    ((h[i]? = some (.mapS none) ∨ h[i]? = some (.mapA none) ∨ h[i]? = some (.lst none)) →
      run (cvPrims keq rec) Progs.binder_cloneValue [.ref i 90] h = some (.ref i 90, h)) ∧
    (∀ s, run (cvPrims keq rec) Progs.binder_cloneValue [.str s] h = some (.str s, h)) ∧
    (∀ n, run (cvPrims keq rec) Progs.binder_cloneValue [.int n] h = some (.int n, h)) := by
  refine ⟨fun es hi => cloneValue_mapS keq rec i es h hi, fun es hi => cloneValue_mapA keq rec i es h hi,
    fun es hi => cloneValue_list keq rec i es h hi, ?_, ?_, ?_⟩
  · intro hn
    apply cloneValue_asis
    rcases hn with hn | hn | hn <;> simp [assertMS, assertMA, assertL, hn]
  · intro s; apply cloneValue_asis; simp [assertMS, assertMA, assertL]
  · intro n; apply cloneValue_asis; simp [assertMS, assertMA, assertL]

/-- … and the copy never writes to an object that existed before the call: when the recursive call only allocates (leaves the
    first n objects as they are), so does the whole level — what a caller is handed shares no map or list with the
    configuration -/
theorem C17_code_cloneValue_frame (keq : Go.Val → Go.Val → Bool) (rec : Go.Val → Heap → Go.Val × Heap) (n : Nat)
    (hrec : RecFrame rec n) (h : Heap) (hn : n ≤ h.length) (i : Nat) (hi : i < n) :
    (∀ es, (cloneEntries keq rec n es h)[i]? = h[i]?) ∧ (∀ es s, (cloneItems keq rec n s es h)[i]? = h[i]?) :=
  ⟨fun es => cloneEntries_frame keq rec n hrec es h hn i hi, fun es s => cloneItems_frame keq rec n hrec es s h hn i hi⟩

/-- Set is exactly one `Viper.Set(path, val)`; SetConfig exactly one `MergeConfig`, whose error comes back wrapped -/
theorem C17_code_binder_Set (me : Go.Val → Option String) (w : List VCall) :
    (∀ path v, run (bsPrims me) Progs.binder_Set [.str path, v] w = some (.tuple [], w ++ [.set path v])) ∧
    (∀ c, run (bsPrims me) Progs.binder_SetConfig [c] w =
      some (match me c with | none => .nil | some e => .str ("viper merge config: " ++ e), w ++ [.merge c])) :=
  ⟨fun path v => binderSet_sem me path v w, fun c => binderSetConfig_sem me c w⟩

end binder

/-- TagArg.Parse (regenerated, `C19_code_Parse`) returns the value part of a tag text EXACTLY as the splitter delivers it and
    hands every argument to Set as written — nothing is trimmed, lower-cased or dropped on the way: a literal value reaches the field with its blanks -/
theorem C17_code_tag_text_as_written (o : Sem.StrOps) (tag : String) (w : Sem.SetLog) :
    Go.run (Sem.parsePrims o) Progs.arg_Parse [.str tag] w =
      some (.str (o.splitC tag).1, w ++ (o.splitC tag).2.map (Sem.parseArg o)) :=
  Sem.argParse_sem o tag w

end Ioc.C17
