/-
  C05 — Lifecycle: populate, then initialise exactly once, dependencies first.
  PROPERTY THEOREMS ONLY (lemmas: IocProofs/Lemmas/M2Step.lean, M2StepInv.lean, M2Log.lean, M2LogFields.lean,
  M2LogReach.lean, M2LogDeps.lean, M2LogEarly.lean).

  Model: the factory machine Ioc.Container (factory.go; InitializeComponent =
  post_processor_registration_delegate.go:96-136).  `log` is the event log (newest first) written by the observing
  post-processor / the component's own AfterPropertiesSet and Init: `new n` (instantiated), `conf n` (configuration
  values and properties callbacks done; the injection points are filled after it), `before n`, `aps n`, `init n`,
  `after n` (the four initialization callbacks), `early n` (GetEarlyBeanReference ran).
  Every theorem is for ALL scenarios `sc` (every dependency graph incl. cycles, candidate order, post-processor
  behaviour, fault placement) and EVERY step count `k`: invariants of `step`, lifted over `run` by induction.

  Vocabulary (lemma files, namespace Ioc.M2.Lc): see C05_vocabulary below.
-/
import IocProofs.Lemmas.M2LogDeps
import Ioc.FactorySkel
import Ioc.Generated.Facts
import IocProofs.Lemmas.M2LogEarly
import IocProofs.Lemmas.M2Examples
import IocProofs.Lemmas.SemFactory2
import IocProofs.Lemmas.SemPopulate
import IocProofs.Lemmas.SemInit
import IocProofs.Lemmas.SemMisc
namespace Ioc.C05
open Ioc Ioc.M2 Ioc.M2.Lc

/-- The vocabulary of the statements, spelled out:
    the component an event belongs to; the lifecycle in the order it has to occur; `Needs sc b c` = c is a candidate of
    an injection point of b that the factory iterates; `Reaches` = its reflexive-transitive closure. -/
theorem C05_vocabulary (sc : Scen) (n b c : Nat) :
    (evName (.new n) = n ∧ evName (.conf n) = n ∧ evName (.before n) = n ∧ evName (.aps n) = n ∧
      evName (.init n) = n ∧ evName (.after n) = n ∧ evName (.early n) = n) ∧
    lifecycle n = [.new n, .conf n, .before n, .aps n, .init n, .after n] ∧
    (Needs sc b c ↔ ∃ pt ∈ pts sc b, c ∈ pt.cands) ∧
    (Reaches sc b c ↔ b = c ∨ ∃ m, Reaches sc b m ∧ Needs sc m c) := by
  refine ⟨⟨rfl, rfl, rfl, rfl, rfl, rfl, rfl⟩, rfl, Iff.rfl, ?_⟩
  constructor
  · intro h
    cases h with
    | refl => exact Or.inl rfl
    | tail h1 h2 => exact Or.inr ⟨_, h1, h2⟩
  · rintro (rfl | ⟨m, h1, h2⟩)
    · exact Reaches.refl _
    · exact Reaches.tail h1 h2

/-- Exactly once, in order.  At every step count, for every published (= created) component whose events are observed
    and whose post-processors are wired: its lifecycle events occur in the log exactly once each and in the order
    new, conf (→ population), before-init, AfterPropertiesSet, Init, after-init. -/
theorem C05_once_in_order (sc : Scen) (k : Nat) (n : Nat) (hp : (run sc k (init sc)).l1 n ≠ none)
    (hl : sc.logged n = true) (hw : sc.wired n = true) :
    (run sc k (init sc)).log.reverse.filter (fun e => decide (evName e = n ∧ e ≠ Ev.early n)) = lifecycle n := by
  rw [once_in_order sc k n hp hl, hw]; rfl

/-- Finding D8 (the statement above without `wired n` is false): a component created while the instantiation-aware
    processors are not yet active (a post-processor created in the boot phase) gets AfterPropertiesSet and Init —
    exactly once each, in this order — and nothing else: no configuration, no injection, no before/after callbacks. -/
theorem C05_once_in_order_unwired (sc : Scen) (k : Nat) (n : Nat) (hp : (run sc k (init sc)).l1 n ≠ none)
    (hl : sc.logged n = true) (hw : sc.wired n = false) :
    (run sc k (init sc)).log.reverse.filter (fun e => decide (evName e = n ∧ e ≠ Ev.early n)) = [.aps n, .init n] := by
  rw [once_in_order sc k n hp hl, hw]; rfl

/-- The other two states of a component, while the start has not failed: in creation — exactly [new, conf] so far
    (no initialization callback yet); never entered — no event at all. -/
theorem C05_log_states (sc : Scen) (k : Nat) (n : Nat) (hl : sc.logged n = true)
    (hnf : ∀ x s, (run sc k (init sc)).status ≠ .failed x s) (hnp : (run sc k (init sc)).l1 n = none) :
    (n ∈ (run sc k (init sc)).stack.map (·.name) →
      (run sc k (init sc)).log.reverse.filter (fun e => decide (evName e = n ∧ e ≠ Ev.early n)) =
        if sc.wired n then [.new n, .conf n] else []) ∧
    (n ∉ (run sc k (init sc)).stack.map (·.name) →
      (run sc k (init sc)).log.filter (fun e => decide (evName e = n ∧ e ≠ Ev.early n)) = []) := by
  have h := logInv_run sc k
  have nf : ¬ Failed (run sc k (init sc)) := fun ⟨x, s, hx⟩ => hnf x s hx
  constructor
  · intro hn
    rw [List.filter_reverse]
    change (proj n _).reverse = _
    rw [h.onst nf n hl hn]
    unfold partLog; cases sc.wired n <;> simp
  · intro hn
    exact h.off nf n hl hnp hn

/-- The early reference (circular dependencies): ALL events of a published wired component, oldest first, are its
    lifecycle with at most one `early` event, and that one sits between `conf` and `before-init` — the early reference
    is handed out at most once and only while the component is being populated. -/
theorem C05_early_once (sc : Scen) (k : Nat) (n : Nat) (hp : (run sc k (init sc)).l1 n ≠ none)
    (hl : sc.logged n = true) (hw : sc.wired n = true) :
    (run sc k (init sc)).log.reverse.filter (fun e => decide (evName e = n)) =
        [.new n, .conf n, .before n, .aps n, .init n, .after n] ∨
    (run sc k (init sc)).log.reverse.filter (fun e => decide (evName e = n)) =
        [.new n, .conf n, .early n, .before n, .aps n, .init n, .after n] :=
  early_once sc k n hp hl hw

/-- Populate before initialise.  The step that logs the first initialization callback of n (or any of the four) is
    the finishing step of n's own frame, and that frame has gone through ALL injection points of n
    (p = number of points); the step itself writes no field. -/
theorem C05_populated_before_init (sc : Scen) (k : Nat) (n : Nat) (e : Ev)
    (he : e = .before n ∨ e = .aps n ∨ e = .init n ∨ e = .after n)
    (hnew : e ∈ (run sc (k + 1) (init sc)).log) (hold : e ∉ (run sc k (init sc)).log) :
    ∃ f rest, (run sc k (init sc)).stack = f :: rest ∧ f.name = n ∧ f.p = (pts sc n).length ∧
      (run sc (k + 1) (init sc)).fields = (run sc k (init sc)).fields := by
  rw [run_succ] at hnew ⊢
  have hr : (run sc k (init sc)).status = .running := by
    apply Classical.byContradiction
    intro hr
    rw [step_not_running sc _ hr] at hnew
    exact hold hnew
  exact callback_logged sc _ (frameInv_run sc k) hr n e he hnew hold

/-- A field of h is written only by the frame of h itself, at the point that frame is working on. -/
theorem C05_field_writer (sc : Scen) (st : St) (hr : st.status = .running) (h i : Nat)
    (hne : (step sc st).fields h i ≠ st.fields h i) :
    ∃ f rest, st.stack = f :: rest ∧ f.name = h ∧ f.p = i ∧ i < (pts sc h).length :=
  field_writer_rel sc st _ (step_rel sc st hr) h i hne

/-- Once published, a component is never entered again: its cache entry and all its fields stay as they are at every
    later step count — nothing is injected after initialization. -/
theorem C05_published_frozen (sc : Scen) (k m : Nat) (n : Nat) (hp : (run sc k (init sc)).l1 n ≠ none) :
    (run sc (k + m) (init sc)).l1 n = (run sc k (init sc)).l1 n ∧
    (run sc (k + m) (init sc)).fields n = (run sc k (init sc)).fields n :=
  published_frozen sc k m n hp

/-- LazyInit: whatever is ever entered (in creation or published) or has any event in the log — in particular
    whatever gets its Init called — is a boot / eager component or is (transitively) a candidate of an injection
    point of one.  A component outside boot ++ eager is initialised only if an eagerly created component needs it;
    by C05_once_in_order then exactly once. -/
theorem C05_lazy_only_if_needed (sc : Scen) (k : Nat) (n : Nat) :
    ((n ∈ (run sc k (init sc)).stack.map (·.name) ∨ (run sc k (init sc)).l1 n ≠ none) →
      ∃ r ∈ sc.boot ++ sc.eager, Reaches sc r n) ∧
    (∀ e ∈ (run sc k (init sc)).log, evName e = n → ∃ r ∈ sc.boot ++ sc.eager, Reaches sc r n) := by
  have h := reachInv_run sc k
  exact ⟨fun hn => h.ent n hn, fun e he hn => hn ▸ h.log e he⟩

/-- Dependencies first, local form.  In a running state whose top frame f has processed all its points (the next
    step runs f's initialization callbacks): every object held in a field of f belongs to another component that is
    either published or still in creation BELOW f on the stack; and every frame below f (transitively) depends on f
    — consecutive frames are joined by candidate edges. -/
theorem C05_deps_published_or_below (sc : Scen) (wf : WF sc) (k : Nat) (f : Frame) (rest : List Frame)
    (hr : (run sc k (init sc)).status = .running) (hs : (run sc k (init sc)).stack = f :: rest) :
    (∀ i, ∀ o ∈ (run sc k (init sc)).fields f.name i,
      o.name ≠ f.name ∧ ((run sc k (init sc)).l1 o.name ≠ none ∨ o.name ∈ rest.map (·.name))) ∧
    (∀ g ∈ rest, Reaches sc g.name f.name) := by
  obtain ⟨⟨_, hl⟩, hc⟩ := deps_run sc wf k
  have hl := hl (not_failed_of_running hr)
  rw [hs] at hc
  refine ⟨fun i o ho => ?_, chain_reaches hc⟩
  obtain ⟨he, hne⟩ := hl.fld f.name i o ho
  refine ⟨hne, ?_⟩
  rcases he with he | he
  · simp [snames, hs] at he
    rcases he with he | he
    · exact absurd he hne
    · exact Or.inr (by simpa using he)
  · exact Or.inl he

/-- Dependencies first.  When the initialization callbacks of f run (top frame, all points processed), every
    dependency o injected into f that does not (transitively) depend back on f is already published, hence has
    completed its own initialization: its `after` event is in the log before the step, and the step appends
    `before f` (then AfterPropertiesSet, Init, …) on top of that log. -/
theorem C05_deps_first (sc : Scen) (wf : WF sc) (k : Nat) (f : Frame) (rest : List Frame)
    (hr : (run sc k (init sc)).status = .running) (hs : (run sc k (init sc)).stack = f :: rest)
    (hp : ¬ f.p < (pts sc f.name).length) (i : Nat) (o : Obj) (ho : o ∈ (run sc k (init sc)).fields f.name i)
    (hback : ¬ Reaches sc o.name f.name) :
    (run sc k (init sc)).l1 o.name ≠ none ∧
    (sc.logged o.name = true → sc.wired o.name = true → Ev.after o.name ∈ (run sc k (init sc)).log) ∧
    (sc.logged f.name = true → sc.wired f.name = true →
      ∃ l, (run sc (k + 1) (init sc)).log = l ++ Ev.before f.name :: (run sc k (init sc)).log) := by
  obtain ⟨hfld, hchain⟩ := C05_deps_published_or_below sc wf k f rest hr hs
  have hpub : (run sc k (init sc)).l1 o.name ≠ none := by
    rcases (hfld i o ho).2 with h | h
    · exact h
    · obtain ⟨g, hg, hgn⟩ := List.mem_map.mp h
      exact absurd (hgn ▸ hchain g hg) hback
  refine ⟨hpub, fun hlo hwo => ?_, fun hlf hwf => ?_⟩
  · have := (logInv_run sc k).pub o.name hlo hpub
    have hmem : Ev.after o.name ∈ proj o.name (run sc k (init sc)).log := by
      rw [this]; simp [fullLog, hwo]
    exact (List.mem_filter.mp hmem).1
  · obtain ⟨l, hl⟩ := cbEvs_before sc f.name hlf hwf
    refine ⟨l, ?_⟩
    rw [run_succ, step_finish_log sc _ f rest hr hs hp, hl]; simp

/-! ### non-vacuity -/

open Ioc.M2.Ex

theorem cyc_wf : WF cyc := ⟨fun _ => rfl, fun _ => rfl⟩

/-- the 3-cycle with a diamond tail: all six eager-or-needed components are published, the lazy 6 is not -/
example : (final cyc).status = .done ∧ (∀ n ∈ [0, 1, 2, 3, 4, 5], (final cyc).l1 n ≠ none) ∧
    (final cyc).l1 6 = none := by decide

/-- the lifecycle of 2 (member of the cycle) and of 5 (lazy, needed twice through the diamond: initialised once) -/
example : (final cyc).log.reverse.filter (fun e => decide (evName e = 2 ∧ e ≠ Ev.early 2)) = lifecycle 2 ∧
    (final cyc).log.reverse.filter (fun e => decide (evName e = 5 ∧ e ≠ Ev.early 5)) = lifecycle 5 ∧
    (final cyc).log.filter (fun e => decide (evName e = 6)) = [] := by decide

/-- 0 is the member of the cycle that is referenced early -/
example : (final cyc).log.reverse.filter (fun e => decide (evName e = 0)) =
    [.new 0, .conf 0, .early 0, .before 0, .aps 0, .init 0, .after 0] := by decide

/-- D8: a boot post-processor created before the dependency processors are active -/
example : let sc : Scen := { cyc with boot := [6], wired := fun n => n != 6 }
    (final sc).status = .done ∧
    (final sc).log.reverse.filter (fun e => decide (evName e = 6 ∧ e ≠ Ev.early 6)) = [.aps 6, .init 6] := by decide

/-- the hypotheses of C05_deps_first in a reachable state: after 16 steps the top frame is 2 with all three points
    processed; its fields hold 0 (early reference — 0 is below on the stack and depends on 2), 3 and 4 (published) -/
example : (run cyc 16 (init cyc)).status = .running ∧
    (run cyc 16 (init cyc)).stack.map (fun f => (f.name, f.p)) = [(2, 3), (1, 0), (0, 0)] ∧
    (pts cyc 2).length = 3 ∧
    (run cyc 16 (init cyc)).fields 2 0 = [raw 0] ∧ (run cyc 16 (init cyc)).fields 2 1 = [raw 3] ∧
    (run cyc 16 (init cyc)).l1 0 = none ∧ (run cyc 16 (init cyc)).l1 3 = some (raw 3) ∧
    Ev.after 3 ∈ (run cyc 16 (init cyc)).log ∧ Ev.before 2 ∉ (run cyc 16 (init cyc)).log ∧
    Ev.before 2 ∈ (run cyc 17 (init cyc)).log := by decide

/-- 3 does not depend back on 2 (it reaches only 3 and 5), 0 does -/
example : ¬ Reaches cyc 3 2 ∧ Reaches cyc 0 2 := by
  constructor
  · intro h
    have key : ∀ x, Reaches cyc 3 x → x = 3 ∨ x = 5 := by
      intro x hx
      induction hx with
      | refl => exact Or.inl rfl
      | tail _ hn ih =>
        obtain ⟨p, hp, hc⟩ := hn
        rcases ih with rfl | rfl
        · simp [pts, cyc, benign, cycPoints, pt] at hp; subst hp; simp at hc; exact Or.inr hc
        · simp [pts, cyc, benign, cycPoints] at hp
    rcases key 2 h with h | h <;> cases h
  · have h1 : Reaches cyc 0 1 :=
      Reaches.tail (Reaches.refl 0) ⟨pt [1], by simp [pts, cyc, benign, cycPoints], by simp [pt]⟩
    exact Reaches.tail h1 ⟨pt [2], by simp [pts, cyc, benign, cycPoints], by simp [pt]⟩


/-- regenerated fact: in doCreateComponent populateComponent precedes InitializeComponent, and populateComponent runs
    ResolveAfterInstantiation before any dependency is fetched and Inject after all candidates of a point were fetched -/
theorem C05_create_skeleton : Ioc.Facts.factorySkel = Ioc.expectedFactorySkel := rfl

/-! ### the tie to the code: createComponent (regenerated)

`Ioc.Progs.fac_createComponent` is the syntax tree of `defaultFactory.createComponent` (factory.go:164-188): an unknown name
is an error before anything runs; ResolveBeforeInstantiation runs first; only when it returns nothing does
doCreateComponent (early exposure, populate, initialize — C03_code_doCreateComponent) run, and its result is returned. -/
theorem C05_code_createComponent (d : Sem.CCC) :
    Go.run (Sem.cccPrims d) Progs.fac_createComponent [.int d.n] [] =
      some (Sem.encMeta d.n (Sem.createModel d).1, (Sem.createModel d).2) :=
  Sem.createComponent_sem d

/-! ### the tie to the code: populateComponent (regenerated)

`Ioc.Progs.fac_populateComponent` is the syntax tree of `defaultFactory.populateComponent` (factory.go:252-283).  For every
list of properties with their candidate lists and every behaviour of ResolveAfterInstantiation / doGetComponent / Inject it
makes exactly the calls of `Sem.populateModel`, in that order: every property node's `Injects` is reset to nil (so that a
creation retried after a failure discovers its candidates anew instead of adding to the ones the failed attempt left —
`d.stale`, which the result does not depend on), the instantiation-aware processors; then property by
property, in the order of GetComponentProperties, every candidate in the order of `Injects` through doGetComponent — the
first error ends everything — and only after ALL candidates of the property were obtained, `Inject` with exactly those
components in that order (a property without candidates is not injected at all).  This is the order in which the machine's
frame walks its points (`p`, `d`, `acc`), hence "every injection point is set before initialization" (C05_populated_before_init):
doCreateComponent calls InitializeComponent only after populateComponent returned nil (C03_code_doCreateComponent). -/
theorem C05_code_populateComponent (d : Sem.PC) :
    ∃ out, Go.run (Sem.pcPrims d) Progs.fac_populateComponent [.int d.n, .ref d.n 0] [] = some (out, (Sem.populateModel d).1) ∧
      out = (if (Sem.populateModel d).2 then .nil else Sem.errP) :=
  Sem.populateComponent_sem d

/-- non-vacuity: two properties with candidates [5,6] and [7]; doGetComponent(7) fails: both candidates of the first point
    are obtained and injected, then 7 is tried and the error returned — the second point is never injected -/
example : Sem.populateModel { n := 1, resolveOk := true, props := [[5, 6], [7]], getOk := (· != 7), injectOk := fun _ => true } =
    ([.reset 0, .reset 1, .resolve, .get 5, .get 6, .inject 0 [5, 6], .get 7], false) := by decide

/-- a retried creation is populated exactly like a first one: what an earlier, failed attempt left in the property nodes
    (the processors APPEND their discoveries to `Injects`) is neither obtained nor injected — for every leftover -/
theorem C05_code_populate_ignores_leftovers (d : Sem.PC) (leftover : Nat → List Nat) :
    ∃ out, Go.run (Sem.pcPrims { d with stale := leftover }) Progs.fac_populateComponent [.int d.n, .ref d.n 0] [] =
        some (out, (Sem.populateModel d).1) ∧ out = (if (Sem.populateModel d).2 then .nil else Sem.errP) := by
  have := Sem.populateComponent_sem { d with stale := leftover }
  rwa [Sem.populateModel_stale] at this

/-! ### the tie to the code: InitializeComponent and invokeInitMethods (regenerated)

`Ioc.Progs.del_InitializeComponent`, `del_invokeInitMethods`, `del_applyBefore`, `del_applyAfter` are the syntax trees of the
delegate's initialization path (container/factory/post_processor_registration_delegate.go:95-171).  For EVERY list of
post-processors, every behaviour of their callbacks (error / nil / another component) and every component (with or without
AfterPropertiesSet / Init, succeeding or failing) the regenerated InitializeComponent makes exactly the calls of
`Sem.initializeModel`, in that order: every before-initialization callback in list order (each fed the previous result),
then AfterPropertiesSet, then Init — each at most once, on the component the before-chain handed over —, then every
after-initialization callback in list order; the first error ends everything; a nil from a before-callback hands back the
original component without initializing it.  This is the order `C05_once_in_order` states for the machine's event log. -/

theorem C05_code_invokeInitMethods (procs : List Nat) (before after : Nat → Nat → Order.Res Nat) (im : Sem.InitM) (c : Nat)
    (w : List Sem.IEv) :
    Go.run (Sem.initBase procs before after im) Progs.del_invokeInitMethods [.str "n", Sem.encC c] w =
      some (if (Sem.initMethods im c).2 then Sem.errN else .nil, w ++ (Sem.initMethods im c).1) :=
  Sem.invokeInitMethods_sem procs before after im c w

theorem C05_code_InitializeComponent (procs : List Nat) (before after : Nat → Nat → Order.Res Nat) (im : Sem.InitM) (c : Nat) :
    Go.run (Sem.initFull procs before after im) Progs.del_InitializeComponent [.str "n", Sem.encC c] [] =
      some (Sem.encAfter (Sem.initializeModel procs before after im c).1, (Sem.initializeModel procs before after im c).2) :=
  Sem.initializeComponent_sem procs before after im c

/-- … and `Order.initializeComponent` (M4, what C12's invocation-order theorems are about) is that function -/
theorem C05_code_initialize_is_model (procs : List Nat) (before after : Nat → Nat → Order.Res Nat) (im : Sem.InitM) (c : Nat) :
    Order.initializeComponent before after (fun w => (Sem.initMethods im w).2) procs c =
      (match Sem.beforeLoop before procs c with
       | (lb, .err) => (lb, [], none)
       | (lb, .nil) => (lb, [], some c)
       | (lb, .val w1) =>
         if (Sem.initMethods im w1).2 then (lb, [], none)
         else (lb, (Sem.afterLoop after procs w1).1, (Sem.afterLoop after procs w1).2)) :=
  Sem.initializeModel_eq procs before after im c

/-- non-vacuity: two processors; the first wraps 7 into 8 before initialization; component 8 has both init methods -/
example : Sem.initializeModel [1, 2] (fun p c => if p == 1 then .val (c + 1) else .val c) (fun _ c => .val c)
    { hasAps := fun _ => true, apsOk := fun _ => true, hasInit := fun _ => true, initOk := fun _ => true } 7 =
    (some 8, [.before 1, .before 2, .aps 8, .init 8, .after 1, .after 2]) := by decide

/-- the short-circuit creation path, regenerated (delegate:178-211): ResolveBeforeInstantiation asks nobody without an
    InstantiationAware processor; otherwise the InstantiationAware processors' PostProcessBeforeInstantiation in list order
    until one fails or hands out a component, and a component handed out that way goes through the after-initialization
    chain ONLY (no population, no init callbacks: it is the processor's own object) -/
theorem C05_code_applyBeforeInstantiation (procs : List Nat) (isInst : Nat → Bool) (bi : Nat → Order.Res Nat) (w : List Nat) :
    Go.run (Sem.abiPrims procs isInst bi) Progs.del_applyBeforeInstantiation [.str "meta", .str "n"] w =
      some (Sem.encRes (Sem.abiLoop isInst bi procs).2, w ++ (Sem.abiLoop isInst bi procs).1) :=
  Sem.applyBeforeInstantiation_sem procs isInst bi w

theorem C05_code_ResolveBeforeInstantiation (hasInst : Bool) (bi : Order.Res Nat) (af : Nat → Option Nat) :
    Go.run (Sem.rbiPrims hasInst bi af) Progs.del_ResolveBeforeInstantiation [.str "meta", .str "n"] [] =
      some (Sem.encRes (Sem.rbiModel hasInst bi af).1, (Sem.rbiModel hasInst bi af).2) :=
  Sem.resolveBeforeInstantiation_sem hasInst bi af

example : Sem.abiLoop (fun p => p != 2) (fun p => if p == 3 then .val 8 else .nil) [1, 2, 3, 4] = ([1, 3], .val 8) := by rfl

end Ioc.C05
