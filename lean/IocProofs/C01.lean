/-
  C01 — singleton identity: every holder of a component receives the one object registered (published) under that name.

  About the Go code
    container/factory/factory.go                          doGetComponent (cache lookup, else create),
                                                          createComponent / doCreateComponent (early exposure, populate,
                                                          initialization callbacks, version check), populateComponent
    container/support/singleton_component_registry.go     GetSingleton / AddSingleton / the three cache levels
    component_definition/property.go                      Inject (what a field finally receives)
  through the model Ioc.Container (M2), an executable small-step machine checked against that code by the differential
  harness (sub-harness `graph`).  A scenario `sc : Scen` fixes the definitions, the candidate lists of every injection
  point in the enumeration order imposed on the run (so: every dependency graph — chains, diamonds, slice fan-in, cycles
  of any length — every candidate order, every scan order), which callbacks fail, and two ARBITRARY functions
  `earlyO`, `afterO` for substituting post-processors.  `WF sc` only says a substitute keeps the component's name.

  Proofs: IocProofs/Lemmas/M2InvStep.lean (one characterisation of `step`) and IocProofs/Lemmas/M2Inv.lean (the invariant).
-/
import IocProofs.Lemmas.M2Inv
import IocProofs.Lemmas.SemFactory2
import IocProofs.Lemmas.M2Lookups
import IocProofs.Lemmas.SemAppRun
namespace Ioc.C01
open Ioc.M2

/-- After a successful start every field holds the object published under its name. -/
theorem C01_identity (sc : Scen) (wf : WF sc) (h : (final sc).status = .done) :
    ∀ k i o, o ∈ (final sc).fields k i → (final sc).l1 o.name = some o := by
  have hi : Inv sc (final sc) := inv_run sc wf (fuelBound sc)
  exact hi.quiescent (NF_of_done h) (hi.quiet (by rw [h]; intro h'; cases h'))

/-- Two holders of the same name hold the same object. -/
theorem C01_one_object (sc : Scen) (wf : WF sc) (h : (final sc).status = .done) :
    ∀ k i k' i' o o', o ∈ (final sc).fields k i → o' ∈ (final sc).fields k' i' → o.name = o'.name → o = o' := by
  intro k i k' i' o o' ho ho' hn
  have h1 := C01_identity sc wf h k i o ho
  have h2 := C01_identity sc wf h k' i' o' ho'
  rw [hn, h2] at h1
  exact (Option.some.inj h1).symm

/-- ... and this needs neither success nor the end of the start: at EVERY reachable state (also after a failed start)
    no two fields hold different objects of one name. -/
theorem C01_one_object_everywhere (sc : Scen) (wf : WF sc) (n : Nat) :
    ∀ k i k' i' o o', o ∈ (run sc n (init sc)).fields k i → o' ∈ (run sc n (init sc)).fields k' i' →
      o.name = o'.name → o = o' :=
  fun k i k' i' o o' => (inv_run sc wf n).one_ver k i o k' i' o'

/-
  Full statement asked for:
    theorem C01_every_quiescent_state (sc) (wf) (n : Nat) : (run sc n (init sc)).stack = [] →
      ∀ k i o, o ∈ (run sc n (init sc)).fields k i → (run sc n (init sc)).l1 o.name = some o
  It is FALSE of the machine (and of the code) for a start that has failed: a failure empties the stack and removes the
  failed components from the cache (RemoveSingleton), while a component published earlier keeps the early reference it
  was given (`C01_every_quiescent_state_counterexample`).  It holds at every quiescent state of a start that has not failed:
-/
theorem C01_every_quiescent_state_partial (sc : Scen) (wf : WF sc) (n : Nat)
    (hnf : ∀ w s, (run sc n (init sc)).status ≠ .failed w s) : (run sc n (init sc)).stack = [] →
    ∀ k i o, o ∈ (run sc n (init sc)).fields k i → (run sc n (init sc)).l1 o.name = some o :=
  fun he => (inv_run sc wf n).quiescent hnf he

/-- GetComponentByName after the start (doGetComponent on a published name): the published object, and nothing is
    created or changed. -/
theorem C01_lookup_after_start (sc : Scen) (st : St) (n : Nat) (o : Obj) (hn : st.l1 n = some o) :
    (match lookup sc st n with
     | .hit o' st' => o' = o ∧ st'.l1 = st.l1 ∧ st'.l2 = st.l2 ∧ st'.l3 = st.l3 ∧ st'.stack = st.stack ∧
         st'.fields = st.fields
     | _ => False) := by
  simp [lookup, hn]

/-- Without substitution every holder sees the registered instance itself. -/
theorem C01_raw (sc : Scen) (wf : WF sc) (ns : ∀ n, sc.earlyO n = raw n ∧ sc.afterO n = raw n)
    (h : (final sc).status = .done) :
    ∀ k i o, o ∈ (final sc).fields k i → o = raw o.name := by
  intro k i o ho
  have hi : Inv sc (final sc) := inv_run sc wf (fuelBound sc)
  rcases hi.l1_src o.name o (C01_identity sc wf h k i o ho) with h1 | h1
  · exact h1.trans (ns o.name).1
  · refine h1.trans ?_
    unfold initResult; split
    · exact (ns o.name).2
    · rfl

/-! ### non-vacuity -/

/-- a scenario without faults -/
def mk (names : List Nat) (points : Nat → Option (List Point)) (earlyO afterO : Nat → Obj)
    (fInit : Nat → Bool := fun _ => false) : Scen :=
  { names := names, boot := [], eager := names, points := points, wired := fun _ => true, logged := fun _ => true,
    cfgOk := fun _ => true, fBefore := fun _ => false, fAps := fun _ => false, fInit := fInit, fAfter := fun _ => false,
    fEarly := fun _ => false, earlyO := earlyO, afterO := afterO }

/-- 3-cycle 0 → 1 → 2 → 0, a slice point of 0 fed by 1, 2, 3 (fan-in), and a diamond tail 1 → 4 ← 2 (and 3 → 4) -/
def cyc : Scen := mk [0, 1, 2, 3, 4]
  (fun n => match n with
    | 0 => some [⟨[1], false, true, []⟩, ⟨[1, 2, 3], true, true, []⟩]
    | 1 => some [⟨[2], false, true, []⟩, ⟨[4], false, true, []⟩]
    | 2 => some [⟨[0], false, true, []⟩, ⟨[4], false, true, []⟩]
    | 3 => some [⟨[4], false, false, []⟩]
    | _ => some []) raw raw

theorem cyc_wf : WF cyc := ⟨fun _ => rfl, fun _ => rfl⟩

example : (final cyc).status = .done := by decide
example : (final cyc).fields 0 1 = [raw 1, raw 2, raw 3] := by decide
example : (final cyc).fields 2 0 = [raw 0] ∧ (final cyc).l1 0 = some (raw 0) := by decide
-- the hypotheses of C01_identity / C01_one_object / C01_raw hold for `cyc`, and the conclusion speaks about non-empty fields
example : ∀ k i o, o ∈ (final cyc).fields k i → (final cyc).l1 o.name = some o :=
  C01_identity cyc cyc_wf (by decide)
example : ∀ k i o, o ∈ (final cyc).fields k i → o = raw o.name :=
  C01_raw cyc cyc_wf (fun _ => ⟨rfl, rfl⟩) (by decide)

/-- the same cycle created through 2 first, with an early substitute for 2 (InitializeComponent returns the raw instance
    later) and 4 substituted after initialization: still one object per name -/
def cycSub : Scen :=
  { cyc with eager := [2, 0, 1, 3, 4], earlyO := fun n => if n = 2 then ⟨2, 9⟩ else raw n,
             afterO := fun n => if n = 4 then ⟨4, 5⟩ else raw n }
theorem cycSub_wf : WF cycSub :=
  ⟨fun n => by simp only [cycSub]; split <;> simp_all [raw], fun n => by simp only [cycSub]; split <;> simp_all [raw]⟩
example : (final cycSub).status = .done ∧ (final cycSub).fields 1 0 = [⟨2, 9⟩] ∧ (final cycSub).l1 2 = some ⟨2, 9⟩ ∧
    (final cycSub).fields 1 1 = [⟨4, 5⟩] ∧ (final cycSub).fields 3 0 = [⟨4, 5⟩] := by
  decide

/-- a published name looked up later -/
example : (match lookup cyc (final cyc) 3 with
    | .hit o' st' => o' = raw 3 ∧ st'.l1 = (final cyc).l1 ∧ st'.l2 = (final cyc).l2 ∧ st'.l3 = (final cyc).l3 ∧
        st'.stack = (final cyc).stack ∧ st'.fields = (final cyc).fields
    | _ => False) :=
  C01_lookup_after_start cyc (final cyc) 3 (raw 3) (by decide)

/-- 0 {1, 2}, 1 {0}, Init of 2 fails: 1 was published holding the early reference of 0, then 0 is abandoned -/
def dangling : Scen := mk [0, 1, 2]
  (fun n => match n with
    | 0 => some [⟨[1], false, true, []⟩, ⟨[2], false, true, []⟩]
    | 1 => some [⟨[0], false, true, []⟩]
    | _ => some []) raw raw (fun n => n == 2)

/-- the full `C01_every_quiescent_state` fails after a failed start -/
theorem C01_every_quiescent_state_counterexample :
    WF dangling ∧ (final dangling).stack = [] ∧ (final dangling).status = .failed 2 .refresh ∧
    raw 0 ∈ (final dangling).fields 1 0 ∧ (final dangling).l1 1 = some (raw 1) ∧ (final dangling).l1 0 = none :=
  ⟨⟨fun _ => rfl, fun _ => rfl⟩, by decide, by decide, by decide, by decide, by decide⟩

/-- GetComponentByName (factory.go:131-137), regenerated: the instance (`Raw`) of exactly the meta doGetComponent returned —
    the lookup adds no copy of its own; an error of doGetComponent is returned as it is -/
theorem C01_code_GetComponentByName (n : Nat) (res : Option Nat) :
    Go.run (Sem.gcbPrims res) Progs.fac_GetComponentByName [.int n] () =
      some (match res with
            | some v => .tuple [.ref n (1000 + v), .nil]
            | none => .tuple [.nil, Sem.errF], ()) :=
  Sem.getComponentByName_sem n res

/-! ### lazily created components: lookups after the start

`M2.lookupAfter sc st n` resumes creation for the name `n` from the state the start (or an earlier lookup) left —
`GetComponentByName` of a component that was not needed at start-up.  As long as NO attempt fails, the machine invariant is
carried from lookup to lookup (`Lc.lookupsAfter_inv`), so after ANY sequence of such lookups that ends in a finished state,
every field of every holder — created at start-up or by any of the lookups — holds the published instance of its
component, and no two fields hold different versions of one name.  (With a FAILED attempt in the sequence this is false:
`C03_retry_counterexample`, known finding KF-C03-1.) -/
theorem C01_identity_after_lookups (sc : Scen) (wf : WF sc) (ns : List Nat)
    (hall : Lc.AllNF sc (final sc) ns) (hd : (Lc.lookupsAfter sc (final sc) ns).status = .done) :
    ∀ k i o, o ∈ (Lc.lookupsAfter sc (final sc) ns).fields k i → (Lc.lookupsAfter sc (final sc) ns).l1 o.name = some o := by
  obtain ⟨hi, hnf⟩ := Lc.lookupsAfter_inv sc wf ns (final sc) (inv_run sc wf (fuelBound sc)) hall
  exact hi.quiescent hnf (hi.quiet (by rw [hd]; intro h'; cases h'))

theorem C01_one_object_after_lookups (sc : Scen) (wf : WF sc) (ns : List Nat) (hall : Lc.AllNF sc (final sc) ns) :
    ∀ k i k' i' o o', o ∈ (Lc.lookupsAfter sc (final sc) ns).fields k i →
      o' ∈ (Lc.lookupsAfter sc (final sc) ns).fields k' i' → o.name = o'.name → o = o' :=
  fun k i k' i' o o' => (Lc.lookupsAfter_inv sc wf ns (final sc) (inv_run sc wf (fuelBound sc)) hall).1.one_ver k i o k' i' o'

/-- … and what was published before a lookup stays published: a lookup never replaces an instance -/
theorem C01_published_survives_lookups (sc : Scen) (wf : WF sc) (st : St) (hi : Inv sc st) (hnf : NF st) (n x : Nat) (o : Obj)
    (h : st.l1 x = some o) : (lookupAfter sc st n).l1 x = some o := by
  unfold lookupAfter
  cases hs : st.status with
  | running => exact h
  | done => exact l1_stable_run sc wf _ _ (Lc.Inv.restart hi hnf n) x o h
  | failed w s => exact absurd hs (hnf w s)

/-- non-vacuity: a lazy two-cycle 1 ⇄ 2 (nothing is created by the start), looked up as 1, then 2: both attempts end done,
    and the hypotheses of the theorems above hold -/
def lazyPair : Scen :=
  { names := [1, 2], boot := [], eager := [],
    points := fun n => match n with
      | 1 => some [⟨[2], false, true, []⟩]
      | 2 => some [⟨[1], false, true, []⟩]
      | _ => some [],
    wired := fun _ => true, logged := fun _ => true, cfgOk := fun _ => true,
    fBefore := fun _ => false, fAps := fun _ => false, fInit := fun _ => false, fAfter := fun _ => false,
    fEarly := fun _ => false, earlyO := fun n => if n = 1 then ⟨1, 1⟩ else raw n, afterO := raw }

example : Lc.AllNF lazyPair (final lazyPair) [1, 2] ∧ (Lc.lookupsAfter lazyPair (final lazyPair) [1, 2]).status = .done ∧
    (Lc.lookupsAfter lazyPair (final lazyPair) [1, 2]).fields 2 0 = [⟨1, 1⟩] ∧
    (Lc.lookupsAfter lazyPair (final lazyPair) [1, 2]).l1 1 = some ⟨1, 1⟩ :=
  ⟨⟨NF_of_done (by decide), NF_of_done (by decide), NF_of_done (by decide)⟩, by decide, by decide, by decide⟩

/-- registry.RegisterSingleton, regenerated (`Panicf` kept as a call that does not return): a new name is stored; the SAME
    object again changes nothing; a DIFFERENT object under a name that is taken panics and the registry keeps what it had —
    two objects never share a name, so a name never stands for two instances -/
theorem C01_code_RegisterSingleton (nameOf : Nat → String) (i : Nat) (w : Sem.CMap) :
    Go.run (Sem.rsPrims nameOf) Progs.sreg_RegisterSingleton [.ref i 0] w =
      (match Sem.cmLoad w (nameOf i) with
       | none => some (.tuple [], Sem.cmStore (nameOf i) i w)
       | some j => if j = i then some (.tuple [], w) else none) :=
  Sem.registerSingleton_sem nameOf i w

end Ioc.C01
