/-
  iocdriver <sub>  — reads one scenario per line on stdin, prints one observation per line.
  Imports the model (`Ioc.*`, core Lean only); no proof module is linked.
-/
import Driver.Tag
import Driver.Order
import Driver.Placeholder
import Driver.Registry
import Driver.Scan
import Driver.Conc
import Driver.Config
import Driver.Value
import Driver.Graph
import Driver.Naming

partial def loopIO (h : IO.FS.Stream) (out : IO.FS.Stream) (f : String → String) : IO Unit := do
  let line ← h.getLine
  if line.isEmpty then return ()
  let l := (line.dropEndWhile (· == (Char.ofNat 10))).toString
  out.putStrLn (f l)
  loopIO h out f

def subs : List (String × (String → String)) :=
  [ ("tag", Driver.Tag.handle), ("order", Driver.Order.handle), ("placeholder", Driver.Placeholder.handle),
    ("registry", Driver.Registry.handle), ("scan", Driver.Scan.handle), ("conc", Driver.Conc.handle),
    ("config", Driver.Config.handle), ("value", Driver.Value.handle), ("graph", Driver.Graph.handle), ("naming", Driver.Naming.handle) ]

def main (args : List String) : IO UInt32 := do
  match args with
  | [sub] =>
    match subs.lookup sub with
    | some f =>
      let out ← IO.getStdout
      loopIO (← IO.getStdin) out f
      out.flush
      return 0
    | none => IO.eprintln s!"unknown sub-driver {sub}"; return 2
  | _ => IO.eprintln "usage: iocdriver <sub>"; return 2
