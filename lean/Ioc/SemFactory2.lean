/-
  Ioc.SemFactory2 — interpretation of the primitives called by the REGENERATED programs of factory.go
  `createComponent`, `getEarlyBeanReference`, `GetComponentByName` and the functions they compute.
  Tokens as in Ioc.SemCreate: raw meta of n `.ref n 0`, proxy meta of version v `.ref n v`, instances `.ref n (1000+v)`.
-/
import Ioc.GoSem
import Ioc.Generated.Progs
namespace Ioc.Sem
open Ioc Ioc.Go

def errF : Val := .str "error"

/-- what createComponent asks: is there a definition; what ResolveBeforeInstantiation returns (`none` error, `some none`
    nil, `some (some v)` an instance of version v, 0 = the registered instance itself); CreateProxy; doCreateComponent -/
structure CCC where
  n : Nat
  found : Bool
  before : Option (Option Nat)
  proxyOk : Bool
  doCreate : Option Nat            -- `none` error, `some v` the exposed component of version v

def cccFn (d : CCC) : String → List Val → List String → Option (Val × List String)
  | "self.definitionRegistry.GetMetaByName", [.int m], t => some (if d.found then .ref m.toNat 0 else .nil, t)
  | "errors.Errorf", _, t => some (errF, t)
  | "self.postProcessorRegistrationDelegate.ResolveBeforeInstantiation", [.ref m 0, .int _], t =>
      some (match d.before with
            | none => .tuple [.nil, errF]
            | some none => .tuple [.nil, .nil]
            | some (some v) => .tuple [.ref m (1000 + v), .nil], t ++ ["before"])
  | ".Raw", [.ref m 0], t => some (.ref m 1000, t)
  | "component_definition.CreateProxy", [.ref m 0, .int _, .ref _ v], t =>
      some (if d.proxyOk then .tuple [.ref m (v - 1000), .nil] else .tuple [.nil, errF], t ++ ["proxy"])
  | "self.doCreateComponent", [.int m, .ref _ 0], t =>
      some (match d.doCreate with
            | some v => .tuple [.ref m.toNat v, .nil]
            | none => .tuple [.nil, errF], t ++ ["doCreate"])
  | _, _, _ => none

def cccPrims (d : CCC) : Prims (List String) := { fn := cccFn d }

/-- createComponent: (version of the returned meta or error, calls made) -/
def createModel (d : CCC) : Option Nat × List String :=
  if !d.found then (none, []) else
  match d.before with
  | none => (none, ["before"])
  | some (some 0) => (some 0, ["before"])
  | some (some v) => (if d.proxyOk then some v else none, ["before", "proxy"])
  | some none => (d.doCreate, ["before", "doCreate"])

def encMeta (n : Nat) : Option Nat → Val
  | some v => .tuple [.ref n v, .nil]
  | none => .tuple [.nil, errF]

/-- getEarlyBeanReference: the processors' answer (`none` error, `some v` version, 0 = the instance itself), genProxy -/
structure GEB where
  n : Nat
  early : Option Nat
  proxyOk : Bool

def gebFn (d : GEB) : String → List Val → List String → Option (Val × List String)
  | ".Raw", [.ref m 0], t => some (.ref m 1000, t)
  | "self.postProcessorRegistrationDelegate.GetEarlyBeanReference", [.int m, .ref _ 1000], t =>
      some (match d.early with
            | some v => .tuple [.ref m.toNat (1000 + v), .nil]
            | none => .tuple [.nil, errF], t ++ ["early"])
  | "self.genProxyComponent", [.ref m 0, .int _, .ref _ v], t =>
      some (if d.proxyOk then .tuple [.ref m (v - 1000), .nil] else .tuple [.nil, errF], t ++ ["proxy"])
  | _, _, _ => none

def gebPrims (d : GEB) : Prims (List String) := { fn := gebFn d }

def earlyModel (d : GEB) : Option Nat × List String :=
  match d.early with
  | none => (none, ["early"])
  | some 0 => (some 0, ["early"])
  | some v => (if d.proxyOk then some v else none, ["early", "proxy"])

/-- GetComponentByName: doGetComponent's answer -/
def gcbFn (res : Option Nat) : String → List Val → Unit → Option (Val × Unit)
  | "self.doGetComponent", [.int m], _ =>
      some (match res with
            | some v => .tuple [.ref m.toNat v, .nil]
            | none => .tuple [.nil, errF], ())
  | ".Raw", [.ref m v], _ => some (.ref m (1000 + v), ())
  | _, _, _ => none

def gcbPrims (res : Option Nat) : Prims Unit := { fn := gcbFn res }

end Ioc.Sem
