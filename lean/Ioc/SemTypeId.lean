/-
  Ioc.SemTypeId — interpretation of the primitives called by the REGENERATED reflectx.Id / reflectx.TypeId (the type part of a
  component's default name) and FileLoader.Order.  A reflect.Type is an index into a table of type descriptions.
-/
import Ioc.GoSem
import Ioc.Generated.Progs
namespace Ioc.Sem
open Ioc Ioc.Go

/-- what reflection answers about one type -/
structure TyD where
  isPtr : Bool          -- Kind() == reflect.Pointer
  elem : Nat            -- Elem() (meaningful for a pointer type)
  name : String         -- Name(): empty for unnamed types (pointers, slices, anonymous structs …)
  pkg : String          -- PkgPath()
  str : String          -- String()
deriving Inhabited

def tyAt (ts : List TyD) (i : Nat) : TyD := ts.getD i default

def tiFn (ts : List TyD) (typeOf : Nat → Nat) (join : String → String → String) : String → List Val → Unit → Option (Val × Unit)
  | ".Kind", [.ref t 190], w => some (.str (if (tyAt ts t).isPtr then "ptr" else "other"), w)
  | "$reflect.Pointer", [], w => some (.str "ptr", w)
  | ".Elem", [.ref t 190], w => some (.ref (tyAt ts t).elem 190, w)
  | ".Name", [.ref t 190], w => some (.str (tyAt ts t).name, w)
  | ".String", [.ref t 190], w => some (.str (tyAt ts t).str, w)
  | ".PkgPath", [.ref t 190], w => some (.str (tyAt ts t).pkg, w)
  | "path.Join", [.str a, .str b], w => some (.str (join a b), w)
  | "reflect.TypeOf", [.ref c 0], w => some (.ref (typeOf c) 190, w)
  | "TypeId", [.ref t 190], w =>         -- (as proved of its own body: `typeId_sem`)
      some (.str (let u := if (tyAt ts t).isPtr then tyAt ts (tyAt ts t).elem else tyAt ts t
                  if u.name = "" then u.str else join u.pkg u.name), w)
  | _, _, _ => none

def tiPrims (ts : List TyD) (typeOf : Nat → Nat) (join : String → String → String) : Prims Unit := { fn := tiFn ts typeOf join }

/-- the type id: ONE pointer level is removed; an unnamed type is rendered by String(), a named one as path.Join(PkgPath, Name) -/
def typeIdOf (ts : List TyD) (join : String → String → String) (t : Nat) : String :=
  let u := if (tyAt ts t).isPtr then tyAt ts (tyAt ts t).elem else tyAt ts t
  if u.name = "" then u.str else join u.pkg u.name

end Ioc.Sem
