/-
  Ioc.SemSmall — interpretation of the primitives called by the REGENERATED programs
    container/support/singleton_registry.go   registry.GetSingleton, ContainsSingleton, GetSingletonNames, GetSingletonCount
    component_definition/holder.go            NewHolder, NewEmbedHolder
    component_definition/meta.go              Meta.GetAllProperties
  The registry's map is the list of its entries IN THE ORDER IN WHICH THIS RUN ENUMERATES THEM (sync2.Map.Range / a Go map
  range): the theorems hold for every such order.
-/
import Ioc.GoSem
import Ioc.Generated.Progs
import Ioc.SemAppRun
namespace Ioc.Sem
open Ioc Ioc.Go

/-- Range over a literal that may assign to captured variables: every entry in order, `false` stops -/
def rangeLoopG {σ : Type} (k : HandlerE σ) : List (String × Nat) → Env → σ → Option (Val × Env × σ)
  | [], env, w => some (.tuple [], env, w)
  | (n, i) :: rest, env, w =>
    match k [.str n, .ref i 0] env w with
    | some (.bool true, env', w') => rangeLoopG k rest env' w'
    | some (.bool false, env', w') => some (.tuple [], env', w')
    | _ => none

def strsNil : List String → Val
  | [] => .nil
  | l => .list (l.map Val.str)

def srFn : String → List Val → CMap → Option (Val × CMap)
  | "self.componentsMap.Load", [.str n], w =>
      some (match cmLoad w n with
            | some j => .tuple [.ref j 0, .bool true]
            | none => .tuple [.nil, .bool false], w)
  | "errors.Errorf", [.str "singleton '%s' not exist", .str n], w => some (.str ("singleton not exist: " ++ n), w)
  | "append", [.nil, .str k], w => some (.list [.str k], w)
  | "append", [.list l, .str k], w => some (.list (l ++ [.str k]), w)
  | "self.GetSingletonNames", [], w => some (strsNil (w.map (·.1)), w)
  | _, _, _ => none

def srPrims : Prims CMap :=
  { fn := srFn
    hfnE := fun f args k env w =>
      match f, args with
      | "self.componentsMap.Range", [] => rangeLoopG k w env w
      | _, _ => none }

/-! ### holders -/

def hoFn : String → List Val → Unit → Option (Val × Unit)
  | ".Base", [.ref m 1], w => some (.ref m 130, w)                 -- m.Base
  | ".Meta", [.tuple [.str "Holder", _, m, _, _]], w => some (m, w)  -- holder.Meta
  | "&Holder{Base,Meta}", [b, m], w => some (.tuple [.str "Holder", b, m, .bool false, .nil], w)
  | "&Holder{Base,Meta,IsEmbed,Holder}", [b, m, e, h], w => some (.tuple [.str "Holder", b, m, e, h], w)
  | _, _, _ => none

def hoPrims : Prims Unit := { fn := hoFn }

/-! ### Meta.GetAllProperties -/

/-- the property groups as the map range enumerates them: (type, the group's properties) -/
def groupsVal (gs : List (String × List Nat)) : Val :=
  .tuple (.str "$map" :: gs.map (fun g => Val.tuple [.str g.1, .list (g.2.map (fun i => Val.ref i 20))]))

def gaFn (gs : List (String × List Nat)) : String → List Val → Unit → Option (Val × Unit)
  | "$self.propertyGroup", [], w => some (groupsVal gs, w)
  | "append...", [.nil, .list b], w => some (.list b, w)
  | "append...", [.list a, .list b], w => some (.list (a ++ b), w)
  | _, _, _ => none

def gaPrims (gs : List (String × List Nat)) : Prims Unit := { fn := gaFn gs }

end Ioc.Sem
