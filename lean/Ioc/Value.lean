/-
  Ioc.Value — M7b: how a configuration value reaches a field.

  Mirrors
    github.com/go-kid/strconv2@v0.0.2   any.go  ParseAny / FormatAny / isNumber,
                                        map.go  ParseAnyMap / isMap,  slice.go  ParseAnySlice / isSlice
    github.com/mitchellh/mapstructure@v1.5.0  mapstructure.go  decode / decodeString / decodeInt / decodeUint /
        decodeBool / decodeFloat / decodeBasic / decodeSlice / decodeMap / decodeStructFromMap
        (the configuration of component_definition/property.go:146-160: WeaklyTypedInput, TagName "yaml")
    util/reflectx/set_value.go:139-156  SetValue   (pointer fields: decode into a fresh element)
    util/el/el.go:46-63  ReplaceAllContent  for the two regular expressions  \${[^{}]*}  and  #{[^{}]*}
    container/processors/config_quote_aware_post_processors.go:44-97     (quote stage)
    container/processors/expression_tag_aware_post_processors.go:35-66   (expression stage)
    container/processors/value_aware_post_processors.go:48-72            (value stage)
    container/processors/properties_aware_post_processors.go:52-72       (prefix stage)
    container/processors/validate_aware_post_processors.go:39-66         (validate stage)
    util/framework_helper/order_component.go:8-37  SortOrderedComponents

  What is NOT modelled here and is a parameter instead:
    * encoding/json  (FormatAny of a list/map, ParseAny of a JSON-valid bracketed text):  `Json`;
      the driver uses the concrete `goJson` below, the theorems hold for every codec that round-trips.
    * expr (`evalE`) and validator (`validate`): opaque functions.
    * Configure.Get (`Cfg`): a function from key to value (`null` = nothing configured).

  Numbers.  A Go int from the YAML document is `int i`.  A float64 is either `flt i` (integer valued; the
  integer is the exact value, already rounded to 53 bits) or `dec t` (not integer valued) carried as the decimal
  text that Go prints for it (`%v`, FormatFloat 'f' -1 and json all print the same text for the class used
  here: 1e-4 ≤ |x| < 1e21 with at most 15 significant digits, where the shortest round-trip text of the
  nearest float64 is the canonical text itself; `%v` switches to the exponent form from 1e6 on: `fmtV`, `fmtVDec`).  Anything outside this class is the explicit outcome
  `Err.unmodelled`, never a silent guess.  float64→int64 of a value ≥ 2^63 is implementation defined in Go;
  it is modelled as what amd64 does (MinInt64) and flagged where used.
-/
import Ioc.Basic
import Ioc.Tag
import Ioc.FactTypes
import Ioc.Generated.Facts
namespace Ioc
namespace Value

inductive Err
  | parse        -- ParseAny returned an error
  | decode       -- mapstructure returned an error
  | required     -- nothing to bind and the point is required
  | quote        -- the quote stage failed (default value did not parse, replacement bound reached)
  | expr         -- the expression engine returned an error (or the replacement bound was reached)
  | validate     -- the validator rejected the bound value
  | panic        -- a Go panic (slice expression out of range in ParseAny / the tag grammar)
  | unmodelled   -- outside the modelled class of inputs (see header); no claim is made
deriving DecidableEq, Repr, Inhabited

/-! ## values -/

inductive Val
  | null
  | str (s : Bytes)
  | int (i : Int)
  | flt (i : Int)
  | dec (t : Bytes)
  | bool (b : Bool)
  | list (l : List Val)
  | map (m : List (Bytes × Val))
deriving Repr, Inhabited

/-- the types a configuration point can have (ints and uints are the 64-bit kinds) -/
inductive FieldTy
  | string | int | uint | float | bool | any
  | ptr (t : FieldTy)
  | slice (t : FieldTy)
  | map (t : FieldTy)                              -- map[string]t
  | struct (fs : List (Bytes × FieldTy))           -- (yaml name, type) in field order
deriving Repr, Inhabited

/-- what a field holds after binding; numbers are kept up to their numeric value (`int` = integer valued,
    `dec` = decimal text), the Go kind is the field's static type (under `any` it is not tracked). -/
inductive FVal
  | nil
  | str (s : Bytes)
  | int (i : Int)
  | dec (t : Bytes)
  | bool (b : Bool)
  | list (l : List FVal)
  | map (m : List (Bytes × FVal))
  | struct (fs : List (Bytes × FVal))
  | ptr (v : FVal)
deriving Repr, Inhabited

/-! ### decidable equality (the deriving handler does not do nested inductives) -/

mutual
def Val.beq : Val → Val → Bool
  | .null, .null => true
  | .str a, .str b => a == b
  | .int a, .int b => a == b
  | .flt a, .flt b => a == b
  | .dec a, .dec b => a == b
  | .bool a, .bool b => a == b
  | .list a, .list b => Val.beqL a b
  | .map a, .map b => Val.beqM a b
  | _, _ => false
def Val.beqL : List Val → List Val → Bool
  | [], [] => true
  | x :: xs, y :: ys => Val.beq x y && Val.beqL xs ys
  | _, _ => false
def Val.beqM : List (Bytes × Val) → List (Bytes × Val) → Bool
  | [], [] => true
  | (k, x) :: xs, (k', y) :: ys => k == k' && Val.beq x y && Val.beqM xs ys
  | _, _ => false
end

mutual
theorem Val.eq_of_beq : ∀ a b : Val, Val.beq a b = true → a = b
  | .null, b, h => by cases b <;> simp_all [Val.beq]
  | .str a, b, h => by cases b <;> simp_all [Val.beq]
  | .int a, b, h => by cases b <;> simp_all [Val.beq]
  | .flt a, b, h => by cases b <;> simp_all [Val.beq]
  | .dec a, b, h => by cases b <;> simp_all [Val.beq]
  | .bool a, b, h => by cases b <;> simp_all [Val.beq]
  | .list a, b, h => by
    cases b <;> simp [Val.beq] at h
    rename_i l; rw [Val.eqL a l h]
  | .map a, b, h => by
    cases b <;> simp [Val.beq] at h
    rename_i l; rw [Val.eqM a l h]
theorem Val.eqL : ∀ a b : List Val, Val.beqL a b = true → a = b
  | [], b, h => by cases b <;> simp_all [Val.beqL]
  | x :: xs, b, h => by
    cases b with
    | nil => simp [Val.beqL] at h
    | cons y ys => simp [Val.beqL] at h; rw [Val.eq_of_beq x y h.1, Val.eqL xs ys h.2]
theorem Val.eqM : ∀ a b : List (Bytes × Val), Val.beqM a b = true → a = b
  | [], b, h => by cases b <;> simp_all [Val.beqM]
  | (k, x) :: xs, b, h => by
    cases b with
    | nil => simp [Val.beqM] at h
    | cons y ys =>
      obtain ⟨k', y⟩ := y
      simp [Val.beqM] at h; rw [h.1.1, Val.eq_of_beq x y h.1.2, Val.eqM xs ys h.2]
end

mutual
theorem Val.beq_refl : ∀ a : Val, Val.beq a a = true
  | .null => by simp [Val.beq]
  | .str a => by simp [Val.beq]
  | .int a => by simp [Val.beq]
  | .flt a => by simp [Val.beq]
  | .dec a => by simp [Val.beq]
  | .bool a => by simp [Val.beq]
  | .list a => by simp [Val.beq, Val.beqL_refl a]
  | .map a => by simp [Val.beq, Val.beqM_refl a]
theorem Val.beqL_refl : ∀ a : List Val, Val.beqL a a = true
  | [] => by simp [Val.beqL]
  | x :: xs => by simp [Val.beqL, Val.beq_refl x, Val.beqL_refl xs]
theorem Val.beqM_refl : ∀ a : List (Bytes × Val), Val.beqM a a = true
  | [] => by simp [Val.beqM]
  | (k, x) :: xs => by simp [Val.beqM, Val.beq_refl x, Val.beqM_refl xs]
end

instance : DecidableEq Val := fun a b =>
  if h : Val.beq a b = true then isTrue (Val.eq_of_beq a b h)
  else isFalse (fun e => h (e ▸ Val.beq_refl a))

mutual
def FVal.beq : FVal → FVal → Bool
  | .nil, .nil => true
  | .str a, .str b => a == b
  | .int a, .int b => a == b
  | .dec a, .dec b => a == b
  | .bool a, .bool b => a == b
  | .list a, .list b => FVal.beqL a b
  | .map a, .map b => FVal.beqM a b
  | .struct a, .struct b => FVal.beqM a b
  | .ptr a, .ptr b => FVal.beq a b
  | _, _ => false
def FVal.beqL : List FVal → List FVal → Bool
  | [], [] => true
  | x :: xs, y :: ys => FVal.beq x y && FVal.beqL xs ys
  | _, _ => false
def FVal.beqM : List (Bytes × FVal) → List (Bytes × FVal) → Bool
  | [], [] => true
  | (k, x) :: xs, (k', y) :: ys => k == k' && FVal.beq x y && FVal.beqM xs ys
  | _, _ => false
end

mutual
theorem FVal.eq_of_beq : ∀ a b : FVal, FVal.beq a b = true → a = b
  | .nil, b, h => by cases b <;> simp_all [FVal.beq]
  | .str a, b, h => by cases b <;> simp_all [FVal.beq]
  | .int a, b, h => by cases b <;> simp_all [FVal.beq]
  | .dec a, b, h => by cases b <;> simp_all [FVal.beq]
  | .bool a, b, h => by cases b <;> simp_all [FVal.beq]
  | .list a, b, h => by
    cases b <;> simp [FVal.beq] at h
    rename_i l; rw [FVal.eqL a l h]
  | .map a, b, h => by
    cases b <;> simp [FVal.beq] at h
    rename_i l; rw [FVal.eqM a l h]
  | .struct a, b, h => by
    cases b <;> simp [FVal.beq] at h
    rename_i l; rw [FVal.eqM a l h]
  | .ptr a, b, h => by
    cases b <;> simp [FVal.beq] at h
    rename_i l; rw [FVal.eq_of_beq a l h]
theorem FVal.eqL : ∀ a b : List FVal, FVal.beqL a b = true → a = b
  | [], b, h => by cases b <;> simp_all [FVal.beqL]
  | x :: xs, b, h => by
    cases b with
    | nil => simp [FVal.beqL] at h
    | cons y ys => simp [FVal.beqL] at h; rw [FVal.eq_of_beq x y h.1, FVal.eqL xs ys h.2]
theorem FVal.eqM : ∀ a b : List (Bytes × FVal), FVal.beqM a b = true → a = b
  | [], b, h => by cases b <;> simp_all [FVal.beqM]
  | (k, x) :: xs, b, h => by
    cases b with
    | nil => simp [FVal.beqM] at h
    | cons y ys =>
      obtain ⟨k', y⟩ := y
      simp [FVal.beqM] at h; rw [h.1.1, FVal.eq_of_beq x y h.1.2, FVal.eqM xs ys h.2]
end

mutual
theorem FVal.beq_refl : ∀ a : FVal, FVal.beq a a = true
  | .nil => by simp [FVal.beq]
  | .str a => by simp [FVal.beq]
  | .int a => by simp [FVal.beq]
  | .dec a => by simp [FVal.beq]
  | .bool a => by simp [FVal.beq]
  | .list a => by simp [FVal.beq, FVal.beqL_refl a]
  | .map a => by simp [FVal.beq, FVal.beqM_refl a]
  | .struct a => by simp [FVal.beq, FVal.beqM_refl a]
  | .ptr a => by simp [FVal.beq, FVal.beq_refl a]
theorem FVal.beqL_refl : ∀ a : List FVal, FVal.beqL a a = true
  | [] => by simp [FVal.beqL]
  | x :: xs => by simp [FVal.beqL, FVal.beq_refl x, FVal.beqL_refl xs]
theorem FVal.beqM_refl : ∀ a : List (Bytes × FVal), FVal.beqM a a = true
  | [] => by simp [FVal.beqM]
  | (k, x) :: xs => by simp [FVal.beqM, FVal.beq_refl x, FVal.beqM_refl xs]
end

instance : DecidableEq FVal := fun a b =>
  if h : FVal.beq a b = true then isTrue (FVal.eq_of_beq a b h)
  else isFalse (fun e => h (e ▸ FVal.beq_refl a))

instance {ε α : Type} [DecidableEq ε] [DecidableEq α] : DecidableEq (Except ε α)
  | .ok a, .ok b => if h : a = b then isTrue (by rw [h]) else isFalse (by intro e; cases e; exact h rfl)
  | .error a, .error b => if h : a = b then isTrue (by rw [h]) else isFalse (by intro e; cases e; exact h rfl)
  | .ok _, .error _ => isFalse (by intro e; cases e)
  | .error _, .ok _ => isFalse (by intro e; cases e)

/-! ## decimal text -/

def isDigit (b : UInt8) : Bool := 48 ≤ b && b ≤ 57

def digitByte (d : Nat) : UInt8 := UInt8.ofNat (48 + d)

/-- strconv.FormatInt(_, 10) of a natural number (fuel = number of digits allowed; 40 covers every float64 < 1e40) -/
def natDigits : Nat → Nat → Bytes → Bytes
  | 0, _, acc => acc
  | f + 1, n, acc => if n < 10 then digitByte n :: acc else natDigits f (n / 10) (digitByte (n % 10) :: acc)

def natToDec (n : Nat) : Bytes := natDigits 40 n []

def intToDec (i : Int) : Bytes := if i < 0 then 45 :: natToDec i.natAbs else natToDec i.natAbs

/-- value of a digit string (callers check `all isDigit`) -/
def decToNat (s : Bytes) : Nat := s.foldl (fun a b => 10 * a + (b.toNat - 48)) 0

def allDigits (s : Bytes) : Bool := !s.isEmpty && s.all isDigit

def dropZeros : Bytes → Bytes
  | [] => []
  | b :: rest => if b = 48 then dropZeros rest else b :: rest

/-- digits without trailing zeros -/
def dropTrailingZeros (s : Bytes) : Bytes := (dropZeros s.reverse).reverse

/-! ## float64 on integers -/

/-- number of binary digits (fuel 70 is enough for everything below 2^70) -/
def bitLenAux : Nat → Nat → Nat
  | 0, _ => 0
  | f + 1, n => if n = 0 then 0 else bitLenAux f (n / 2) + 1

def bitLen (n : Nat) : Nat := bitLenAux 70 n

/-- float64(n) for a natural number below 2^70: nearest, ties to even, 53-bit significand -/
def roundF64 (n : Nat) : Nat :=
  if n ≤ 2 ^ 53 then n else
    let e := bitLen n - 53
    let q := n / 2 ^ e
    let r := n % 2 ^ e
    let half := 2 ^ (e - 1)
    let q' := if r > half ∨ (r = half ∧ q % 2 = 1) then q + 1 else q
    q' * 2 ^ e

def roundF64I (i : Int) : Int := if i < 0 then -(roundF64 i.natAbs : Int) else (roundF64 i.natAbs : Int)

/-- strconv.FormatFloat(f, 'f', -1, 64) / `%v` below 1e21 of an integer valued float64 `m` (= roundF64 m):
    the shortest digit string that reads back as `m`, padded with zeros.  Identity up to 2^53. -/
def shortestAux (m nd : Nat) : Nat → Nat → Nat
  | 0, _ => m
  | f + 1, k =>
    let p := 10 ^ (nd - k)
    let c := ((m + p / 2) / p) * p
    if roundF64 c = m then c else shortestAux m nd f (k + 1)

def fmtFltNat (m : Nat) : Bytes :=
  if m ≤ 2 ^ 53 then natToDec m else
    let nd := (natToDec m).length
    natToDec (shortestAux m nd nd 1)

def fmtFlt (i : Int) : Bytes := if i < 0 then 45 :: fmtFltNat i.natAbs else fmtFltNat i.natAbs

/-- `d.ddde+XX` from the significant digits `ds` (no trailing zeros) and the decimal exponent -/
def expForm (ds : Bytes) (e : Nat) : Bytes :=
  let mant := match ds with
    | [] => [48]
    | [d] => [d]
    | d :: rest => d :: 46 :: rest
  mant ++ [101, 43] ++ (if e < 10 then 48 :: natToDec e else natToDec e)

/-- fmt `%v` of an integer valued float64 (strconv 'g' with the shortest digits: exponent form from 1e6 on) -/
def fmtVNat (m : Nat) : Bytes :=
  let ds := fmtFltNat m
  if ds.length ≤ 6 then ds else expForm (dropTrailingZeros ds) (ds.length - 1)

def fmtV (i : Int) : Bytes := if i < 0 then 45 :: fmtVNat i.natAbs else fmtVNat i.natAbs

/-- fmt `%v` of a non-integer float64 given by its canonical decimal text: exponent form once the integer
    part has seven digits (the small side, below 1e-4, is outside the modelled class) -/
def fmtVDec (t : Bytes) : Bytes :=
  let neg := t.head? = some 45
  let body := if neg then t.drop 1 else t
  let ip := body.takeWhile isDigit
  let fr := (body.dropWhile isDigit).drop 1
  if ip.length < 7 then t
  else (if neg then [45] else []) ++ expForm (ip ++ fr) (ip.length - 1)

/-! ## ParseAny / FormatAny -/

def lowerByte (b : UInt8) : UInt8 := if 65 ≤ b ∧ b ≤ 90 then b + 32 else b
/-- strings.ToLower for the comparison with "true"/"false" (only ASCII letters can produce those) -/
def lowerAscii (s : Bytes) : Bytes := s.map lowerByte

def sTrue : Bytes := ofString "true"
def sFalse : Bytes := ofString "false"
def sNil : Bytes := ofString "<nil>"
def sMapOpen : Bytes := ofString "map["

/-- split a number text  [+-]digits[.digits]  into (negative, integer digits, fraction digits);
    `none` = does not match  ^(-|\+)?\d+(\.\d+)?$  (strconv2 any.go:36-41) -/
def splitNumber (s : Bytes) : Option (Bool × Bytes × Bytes) :=
  let (neg, body) := match s with
    | 45 :: r => (true, r)
    | 43 :: r => (false, r)
    | _ => (false, s)
  let ip := body.takeWhile isDigit
  let rest := body.dropWhile isDigit
  if ip.isEmpty then none else
  match rest with
  | [] => some (neg, ip, [])
  | 46 :: fr => if allDigits fr then some (neg, ip, fr) else none
  | _ => none

def isNumber (s : Bytes) : Bool := (splitNumber s).isSome

/-- strconv.ParseFloat on a text matched by `isNumber` (for the modelled class, see header) -/
def parseNumber (neg : Bool) (ip fr : Bytes) : Except Err Val :=
  let ip' := dropZeros ip
  let fr' := dropTrailingZeros fr
  if fr'.isEmpty then
    let n := decToNat ip'
    if n = 0 ∧ neg then .error .unmodelled            -- negative zero prints as "-0"
    else if n ≥ 10 ^ 19 then .error .unmodelled       -- beyond the integers the tie exercises
    else .ok (.flt (if neg then -(roundF64 n : Int) else (roundF64 n : Int)))
  else
    let sig := if ip'.isEmpty then (dropZeros fr').length else ip'.length + fr'.length
    if sig > 15 ∨ (ip'.isEmpty ∧ fr'.length - (dropZeros fr').length ≥ 4) then .error .unmodelled
    else
      let body := (if ip'.isEmpty then [48] else ip') ++ 46 :: fr'
      .ok (.dec (if neg then 45 :: body else body))

/-- the opaque JSON codec: `enc` = json.Marshal of a list/map, `dec` = json.Valid + json.Unmarshal into `any`
    (`none` = not valid JSON, so that ParseAny falls back to its own bracket grammar) -/
structure Json where
  enc : Val → Bytes
  dec : Bytes → Option (Except Err Val)

/-- FormatAny (strconv2 any.go:43-68) on the values Configure.Get / expr can return -/
def formatAny (J : Json) : Val → Bytes
  | .null => sNil
  | .str s => s
  | .bool b => if b then sTrue else sFalse
  | .int i => intToDec i
  | .flt i => fmtV i
  | .dec t => fmtVDec t
  | .list l => J.enc (.list l)
  | .map m => J.enc (.map m)

def lastIs (s : Bytes) (c : UInt8) : Bool := s.getLast? = some c

/-- isSlice (strconv2 slice.go:71-73) -/
def isSlice (s : Bytes) : Bool := s.length > 1 && s.head? = some 91 && lastIs s 93

/-- isMap (strconv2 map.go:52-55), with json.Valid from the codec -/
def isMap (J : Json) (s : Bytes) : Bool :=
  (s.length > 4 && s.take 4 = sMapOpen && lastIs s 93) ||
  (s.length > 1 && s.head? = some 123 && lastIs s 125 && (J.dec s).isSome)

def isQuoted (s : Bytes) : Bool :=
  (s.head? = some 39 && lastIs s 39) || (s.head? = some 34 && lastIs s 34)

/-- strings.SplitN(part, ":", 2) -/
def splitColon (s : Bytes) : Option (Bytes × Bytes) :=
  match Tag.idxFrom (58 : UInt8) s with
  | none => none
  | some i => some (s.take i, s.drop (i + 1))

/-- ParseAny; `fuel` bounds the nesting of `[..]` / `map[..]` texts (each level strips two bytes, so
    `s.length` is always enough).  A one-byte `'` or `"` makes `val[1:len(val)-1]` panic. -/
def parseAnyF (J : Json) : Nat → Bytes → Except Err Val
  | 0, _ => .error .unmodelled
  | fuel + 1, s =>
    if s.isEmpty then .ok (.str [])
    else if lowerAscii s = sTrue then .ok (.bool true)
    else if lowerAscii s = sFalse then .ok (.bool false)
    else match splitNumber s with
    | some (neg, ip, fr) => parseNumber neg ip fr
    | none =>
      if isMap J s then
        -- ParseAnyMap (map.go:10-50)
        match J.dec s with
        | some r => r
        | none =>
          let inner := (s.drop 4).take (s.length - 5)
          if inner.isEmpty then .ok (.map []) else
          match Tag.split? Tag.cSp Tag.isLB Tag.isRB inner with
          | none => .error .panic
          | some parts =>
            let step : Except Err (List (Bytes × Val)) → Bytes → Except Err (List (Bytes × Val)) := fun acc part =>
              match acc with
              | .error e => .error e
              | .ok m =>
                match splitColon part with
                | none => .error .parse
                | some (k, v) =>
                  match parseAnyF J fuel v with
                  | .ok x => .ok (ainsert k x m)
                  | .error e => .error e
            match parts.foldl step (.ok []) with
            | .ok m => .ok (.map m)
            | .error e => .error e
      else if isSlice s then
        -- ParseAnySlice (slice.go:9-32)
        match J.dec s with
        | some r => r
        | none =>
          let inner := (s.drop 1).take (s.length - 2)
          if inner.isEmpty then .ok (.list []) else
          match Tag.split? Tag.cComma Tag.isLB Tag.isRB inner with
          | none => .error .panic
          | some parts =>
            match parts.mapM (parseAnyF J fuel) with
            | .ok l => .ok (.list l)
            | .error e => .error e
      else if isQuoted s then
        if s.length < 2 then .error .panic else .ok (.str ((s.drop 1).take (s.length - 2)))
      else .ok (.str s)

def parseAny (J : Json) (s : Bytes) : Except Err Val := parseAnyF J (s.length + 1) s

/-! ## what a JSON round trip does to a value, and when the codec is trusted to do exactly that -/

mutual
/-- json.Unmarshal into `any` after json.Marshal: every number becomes a float64, nothing else changes -/
def toF64 : Val → Val
  | .int i => .flt (roundF64I i)
  | .list l => .list (toF64L l)
  | .map m => .map (toF64M m)
  | .null => .null
  | .str s => .str s
  | .flt i => .flt i
  | .dec t => .dec t
  | .bool b => .bool b
def toF64L : List Val → List Val
  | [] => []
  | v :: r => toF64 v :: toF64L r
def toF64M : List (Bytes × Val) → List (Bytes × Val)
  | [] => []
  | (k, v) :: r => (k, toF64 v) :: toF64M r
end

def isCont (b : UInt8) : Bool := 0x80 ≤ b && b ≤ 0xBF

/-- valid UTF-8 (what YAML guarantees for every configured string; json replaces anything else by U+FFFD) -/
def utf8Valid : Bytes → Bool
  | [] => true
  | b :: rest =>
    if b < 0x80 then utf8Valid rest
    else if 0xC2 ≤ b ∧ b ≤ 0xDF then
      match rest with
      | c :: r => isCont c && utf8Valid r
      | _ => false
    else if 0xE0 ≤ b ∧ b ≤ 0xEF then
      match rest with
      | c :: d :: r =>
        isCont c && isCont d && (b ≠ 0xE0 || 0xA0 ≤ c) && (b ≠ 0xED || c ≤ 0x9F) && utf8Valid r
      | _ => false
    else if 0xF0 ≤ b ∧ b ≤ 0xF4 then
      match rest with
      | c :: d :: e :: r =>
        isCont c && isCont d && isCont e && (b ≠ 0xF0 || 0x90 ≤ c) && (b ≠ 0xF4 || c ≤ 0x8F) && utf8Valid r
      | _ => false
    else false

def keysSorted : List (Bytes × Val) → Bool
  | [] => true
  | [_] => true
  | a :: b :: r => bytesLt a.1 b.1 && keysSorted (b :: r)

mutual
/-- the values on which encoding/json is expected to round-trip: strings and keys are valid UTF-8, the keys of
    a map are strictly ascending (a Go map has no order and no repeated key; this is its normal form here) -/
def jsonSafe : Val → Bool
  | .str s => utf8Valid s
  | .list l => jsonSafeL l
  | .map m => keysSorted m && jsonSafeM m
  | _ => true
def jsonSafeL : List Val → Bool
  | [] => true
  | v :: r => jsonSafe v && jsonSafeL r
def jsonSafeM : List (Bytes × Val) → Bool
  | [] => true
  | (k, v) :: r => utf8Valid k && jsonSafe v && jsonSafeM r
end

/-- The assumption about encoding/json under which the list/map part of C17 is stated: a safe list is written
    as `[`…`]`, a safe map as `{`…`}`, and reading the text back gives the same value with float64 numbers. -/
structure Json.Lawful (J : Json) : Prop where
  list_shape : ∀ l, jsonSafeL l = true → ∃ mid, J.enc (.list l) = 91 :: (mid ++ [93])
  map_shape : ∀ m, jsonSafe (.map m) = true → ∃ mid, J.enc (.map m) = 123 :: (mid ++ [125])
  list_rt : ∀ l, jsonSafeL l = true → J.dec (J.enc (.list l)) = some (.ok (toF64 (.list l)))
  map_rt : ∀ m, jsonSafe (.map m) = true → J.dec (J.enc (.map m)) = some (.ok (toF64 (.map m)))

/-! ## the concrete JSON codec used by the driver (encoding/json as the container meets it)

  Encoder: json.Marshal of `[]any` / `map[string]any` (keys sorted, HTML escaping on, U+2028/2029 escaped);
  strings are assumed to be valid UTF-8 (YAML guarantees it), other bytes ≥ 0x80 are copied.
  Decoder: json.Valid + Unmarshal into `any`: numbers become float64 (exponent forms: `unmodelled`),
  `\uXXXX` escapes of the basic plane are decoded (surrogates: `unmodelled`). -/

def hexNib (n : Nat) : UInt8 := if n < 10 then UInt8.ofNat (48 + n) else UInt8.ofNat (87 + n)

def jsonU00 (b : UInt8) : Bytes := [92, 117, 48, 48, hexNib (b.toNat / 16), hexNib (b.toNat % 16)]

def jsonEncStrBody : Bytes → Bytes
  | [] => []
  | 0xE2 :: 0x80 :: 0xA8 :: r => ofString "\\u2028" ++ jsonEncStrBody r
  | 0xE2 :: 0x80 :: 0xA9 :: r => ofString "\\u2029" ++ jsonEncStrBody r
  | b :: r =>
    (if b = 34 ∨ b = 92 then [92, b]
     else if b = 8 then [92, 98] else if b = 12 then [92, 102]
     else if b = 10 then [92, 110] else if b = 13 then [92, 114] else if b = 9 then [92, 116]
     else if b < 32 ∨ b = 60 ∨ b = 62 ∨ b = 38 then jsonU00 b
     else [b]) ++ jsonEncStrBody r

def jsonEncStr (s : Bytes) : Bytes := 34 :: jsonEncStrBody s ++ [34]

mutual
def sortKeys : Val → Val
  | .list l => .list (sortKeysL l)
  | .map m => .map (isort (fun a b => bytesLt a.1 b.1) (sortKeysM m))
  | v => v
def sortKeysL : List Val → List Val
  | [] => []
  | v :: r => sortKeys v :: sortKeysL r
def sortKeysM : List (Bytes × Val) → List (Bytes × Val)
  | [] => []
  | (k, v) :: r => (k, sortKeys v) :: sortKeysM r
end

mutual
def jsonEncRaw : Val → Bytes
  | .null => ofString "null"
  | .str s => jsonEncStr s
  | .bool b => if b then sTrue else sFalse
  | .int i => intToDec i
  | .flt i => fmtFlt i
  | .dec t => t
  | .list l => 91 :: jsonEncL l ++ [93]
  | .map m => 123 :: jsonEncM m ++ [125]
def jsonEncL : List Val → Bytes
  | [] => []
  | [v] => jsonEncRaw v
  | v :: r => jsonEncRaw v ++ 44 :: jsonEncL r
def jsonEncM : List (Bytes × Val) → Bytes
  | [] => []
  | [(k, v)] => jsonEncStr k ++ 58 :: jsonEncRaw v
  | (k, v) :: r => jsonEncStr k ++ 58 :: jsonEncRaw v ++ 44 :: jsonEncM r
end

def jsonEnc (v : Val) : Bytes := jsonEncRaw (sortKeys v)

inductive JR (α : Type)
  | ok (a : α) (rest : Bytes)
  | invalid
  | unmodelled

def isWs (b : UInt8) : Bool := b = 32 || b = 9 || b = 10 || b = 13

def skipWs : Bytes → Bytes
  | [] => []
  | b :: r => if isWs b then skipWs r else b :: r

def hexv (b : UInt8) : Option Nat :=
  if 48 ≤ b ∧ b ≤ 57 then some (b.toNat - 48)
  else if 97 ≤ b ∧ b ≤ 102 then some (b.toNat - 87)
  else if 65 ≤ b ∧ b ≤ 70 then some (b.toNat - 55)
  else none

/-- UTF-8 of a code point of the basic plane -/
def utf8Enc (c : Nat) : Bytes :=
  if c < 0x80 then [UInt8.ofNat c]
  else if c < 0x800 then [UInt8.ofNat (0xC0 + c / 64), UInt8.ofNat (0x80 + c % 64)]
  else [UInt8.ofNat (0xE0 + c / 4096), UInt8.ofNat (0x80 + (c / 64) % 64), UInt8.ofNat (0x80 + c % 64)]

/-- the body of a JSON string after the opening quote; `acc` is reversed -/
def jStr : Bytes → Bytes → JR Bytes
  | [], _ => .invalid
  | 34 :: r, acc => .ok acc.reverse r
  | 92 :: 117 :: a :: b :: c :: d :: r, acc =>
    match hexv a, hexv b, hexv c, hexv d with
    | some a, some b, some c, some d =>
      let cp := 4096 * a + 256 * b + 16 * c + d
      if 0xD800 ≤ cp ∧ cp ≤ 0xDFFF then .unmodelled else jStr r ((utf8Enc cp).reverse ++ acc)
    | _, _, _, _ => .invalid
  | 92 :: e :: r, acc =>
    if e = 34 ∨ e = 92 ∨ e = 47 then jStr r (e :: acc)
    else if e = 98 then jStr r (8 :: acc) else if e = 102 then jStr r (12 :: acc)
    else if e = 110 then jStr r (10 :: acc) else if e = 114 then jStr r (13 :: acc)
    else if e = 116 then jStr r (9 :: acc) else .invalid
  | [92], _ => .invalid
  | b :: r, acc => if b < 32 then .invalid else jStr r (b :: acc)

/-- a JSON number at the head of the input: (negative, integer digits, fraction digits, has exponent, rest) -/
def jNum (s : Bytes) : Option (Bool × Bytes × Bytes × Bool × Bytes) :=
  let (neg, s1) := match s with
    | 45 :: r => (true, r)
    | _ => (false, s)
  let ip := s1.takeWhile isDigit
  let s2 := s1.dropWhile isDigit
  if ip.isEmpty ∨ (ip.length > 1 ∧ ip.head? = some 48) then none else
  let frs : Option (Bytes × Bytes) := match s2 with
    | 46 :: r =>
      let fr := r.takeWhile isDigit
      if fr.isEmpty then none else some (fr, r.dropWhile isDigit)
    | _ => some ([], s2)
  match frs with
  | none => none
  | some (fr, s3) =>
    match s3 with
    | e :: r =>
      if e = 101 ∨ e = 69 then
        let r' := match r with
          | 43 :: x => x
          | 45 :: x => x
          | _ => r
        let ex := r'.takeWhile isDigit
        if ex.isEmpty then none else some (neg, ip, fr, true, r'.dropWhile isDigit)
      else some (neg, ip, fr, false, s3)
    | [] => some (neg, ip, fr, false, [])

def startsWith (p s : Bytes) : Bool := s.take p.length = p

mutual
def jVal : Nat → Bytes → JR Val
  | 0, _ => .unmodelled
  | f + 1, s0 =>
    match skipWs s0 with
    | [] => .invalid
    | 34 :: r =>
      match jStr r [] with
      | .ok x rest => .ok (.str x) rest
      | .invalid => .invalid
      | .unmodelled => .unmodelled
    | 91 :: r =>
      match skipWs r with
      | 93 :: rest => .ok (.list []) rest
      | _ => jArr f r []
    | 123 :: r =>
      match skipWs r with
      | 125 :: rest => .ok (.map []) rest
      | _ => jObj f r []
    | b :: r =>
      let s := b :: r
      if startsWith sTrue s then .ok (.bool true) (s.drop 4)
      else if startsWith sFalse s then .ok (.bool false) (s.drop 5)
      else if startsWith (ofString "null") s then .ok .null (s.drop 4)
      else match jNum s with
        | none => .invalid
        | some (neg, ip, fr, hasExp, rest) =>
          if hasExp then .unmodelled else
          match parseNumber neg ip fr with
          | .ok v => .ok v rest
          | .error _ => .unmodelled
/-- elements after `[` or `,`; `acc` reversed -/
def jArr : Nat → Bytes → List Val → JR Val
  | 0, _, _ => .unmodelled
  | f + 1, s, acc =>
    match jVal f s with
    | .ok v rest =>
      match skipWs rest with
      | 44 :: r => jArr f r (v :: acc)
      | 93 :: r => .ok (.list (v :: acc).reverse) r
      | _ => .invalid
    | .invalid => .invalid
    | .unmodelled => .unmodelled
/-- members after `{` or `,`; a repeated key overwrites (Go map store) -/
def jObj : Nat → Bytes → List (Bytes × Val) → JR Val
  | 0, _, _ => .unmodelled
  | f + 1, s, acc =>
    match skipWs s with
    | 34 :: r =>
      match jStr r [] with
      | .ok k rest =>
        match skipWs rest with
        | 58 :: r2 =>
          match jVal f r2 with
          | .ok v rest2 =>
            match skipWs rest2 with
            | 44 :: r3 => jObj f r3 (ainsert k v acc)
            | 125 :: r3 => .ok (.map (ainsert k v acc)) r3
            | _ => .invalid
          | .invalid => .invalid
          | .unmodelled => .unmodelled
        | _ => .invalid
      | .invalid => .invalid
      | .unmodelled => .unmodelled
    | _ => .invalid
end

def jsonDec (s : Bytes) : Option (Except Err Val) :=
  match jVal (2 * s.length + 2) s with
  | .ok v rest => if (skipWs rest).isEmpty then some (.ok v) else none
  | .invalid => none
  | .unmodelled => some (.error .unmodelled)

def goJson : Json := ⟨jsonEnc, jsonDec⟩

/-! ## mapstructure weak decoding -/

mutual
/-- decodeBasic into an `any` slot: the value is stored as it is (numeric kind not tracked) -/
def ofVal : Val → FVal
  | .null => .nil
  | .str s => .str s
  | .int i => .int i
  | .flt i => .int i
  | .dec t => .dec t
  | .bool b => .bool b
  | .list l => .list (ofValL l)
  | .map m => .map (ofValM m)
def ofValL : List Val → List FVal
  | [] => []
  | v :: r => ofVal v :: ofValL r
def ofValM : List (Bytes × Val) → List (Bytes × FVal)
  | [] => []
  | (k, v) :: r => (k, ofVal v) :: ofValM r
end

mutual
/-- the zero value of a field type (nil slices/maps are not distinguished from empty ones) -/
def zero : FieldTy → FVal
  | .string => .str []
  | .int => .int 0
  | .uint => .int 0
  | .float => .int 0
  | .bool => .bool false
  | .any => .nil
  | .ptr _ => .nil
  | .slice _ => .list []
  | .map _ => .map []
  | .struct fs => .struct (zeroFields fs)
def zeroFields : List (Bytes × FieldTy) → List (Bytes × FVal)
  | [] => []
  | (n, t) :: r => (n, zero t) :: zeroFields r
end

def digitVal (base : Nat) (b : UInt8) : Option Nat :=
  match hexv b with
  | some d => if d < base then some d else none
  | none => none

def digitsVal (base : Nat) : Bytes → Nat → Option Nat
  | [], acc => some acc
  | b :: r, acc => match digitVal base b with
    | some d => digitsVal base r (base * acc + d)
    | none => none

/-- strconv.ParseUint(s, 0, 64) without the range check: base prefix, then digits (underscores: unmodelled) -/
def parseUMag (s : Bytes) : Except Err Nat :=
  if s.isEmpty then .error .decode
  else if s.contains 95 then .error .unmodelled
  else
    let (base, body) : Nat × Bytes :=
      match s with
      | 48 :: c :: d :: r =>
        if lowerByte c = 98 then (2, d :: r) else if lowerByte c = 111 then (8, d :: r)
        else if lowerByte c = 120 then (16, d :: r) else (8, c :: d :: r)
      | 48 :: r => (8, r)
      | _ => (10, s)
    match digitsVal base body 0 with
    | some n => .ok n
    | none => .error .decode

/-- strconv.ParseInt(s, 0, 64) -/
def parseIntBase0 (s : Bytes) : Except Err Int :=
  let (neg, body) := match s with
    | 45 :: r => (true, r)
    | 43 :: r => (false, r)
    | _ => (false, s)
  match parseUMag body with
  | .error e => .error e
  | .ok n =>
    if neg then (if n > 2 ^ 63 then .error .decode else .ok (-(n : Int)))
    else (if n ≥ 2 ^ 63 then .error .decode else .ok (n : Int))

/-- strconv.ParseUint(s, 0, 64) -/
def parseUintBase0 (s : Bytes) : Except Err Int :=
  match parseUMag s with
  | .error e => .error e
  | .ok n => if n ≥ 2 ^ 64 then .error .decode else .ok (n : Int)

/-- strconv.ParseBool -/
def parseBool (s : Bytes) : Option Bool :=
  if s = ofString "1" ∨ s = ofString "t" ∨ s = ofString "T" ∨ s = ofString "TRUE" ∨ s = ofString "true" ∨ s = ofString "True" then some true
  else if s = ofString "0" ∨ s = ofString "f" ∨ s = ofString "F" ∨ s = ofString "FALSE" ∨ s = ofString "false" ∨ s = ofString "False" then some false
  else none

/-- integer part of a decimal text, truncated toward zero (Go `int64(f)`) -/
def truncDec (t : Bytes) : Int :=
  match t with
  | 45 :: r => -((decToNat (r.takeWhile isDigit) : Nat) : Int)
  | _ => ((decToNat (t.takeWhile isDigit) : Nat) : Int)

def inAlphabet (al : String) (s : Bytes) : Bool := s.all (fun b => (ofString al).contains b)

def floatSpecials : List Bytes :=
  ["inf", "+inf", "-inf", "infinity", "+infinity", "-infinity", "nan"].map ofString

/-- `[-]d[.ddd]e+XX` with an exponent that makes the value an integer below 1e19 (what `%v` prints for an
    integer valued float64 from 1e6 on) -/
def parseExpForm (s : Bytes) : Option Int :=
  let neg := s.head? = some 45
  let body := if neg then s.drop 1 else s
  let ip := body.takeWhile isDigit
  let r1 := body.dropWhile isDigit
  let fr := match r1 with
    | 46 :: r => r.takeWhile isDigit
    | _ => []
  let r2 := match r1 with
    | 46 :: r => r.dropWhile isDigit
    | _ => r1
  match r2 with
  | 101 :: 43 :: ex =>
    if ip.length = 1 ∧ allDigits ex ∧ (r1.head? ≠ some 46 ∨ ¬ fr.isEmpty) then
      let e := decToNat ex
      if fr.length ≤ e ∧ e ≤ 18 then
        let n := roundF64 (decToNat (ip ++ fr) * 10 ^ (e - fr.length))
        some (if neg then -(n : Int) else (n : Int))
      else none
    else none
  | _ => none

/-- strconv.ParseFloat(s, 64) on a non-empty string, for the modelled class -/
def parseFloatStr (s : Bytes) : Except Err FVal :=
  match splitNumber s with
  | some (neg, ip, fr) =>
    match parseNumber neg ip fr with
    | .ok (.flt i) => .ok (.int i)
    | .ok (.dec t) => .ok (.dec t)
    | .ok _ => .error .unmodelled
    | .error e => .error e
  | none =>
    match parseExpForm s with
    | some i => .ok (.int i)
    | none =>
    if inAlphabet "0123456789+-.eE" s ∧ s.any isDigit then .error .unmodelled
    else if floatSpecials.contains (lowerAscii s) then .error .unmodelled
    else if inAlphabet "0123456789abcdefABCDEFxXpP_+-." s ∧ s.any (fun b => b = 120 ∨ b = 88 ∨ b = 95) then .error .unmodelled
    else .error .decode

def decString : Val → Except Err FVal
  | .str s => .ok (.str s)
  | .bool b => .ok (.str (if b then [49] else [48]))
  | .int i => .ok (.str (intToDec i))
  | .flt i => .ok (.str (fmtFlt i))
  | .dec t => .ok (.str t)
  | _ => .error .decode

def decInt : Val → Except Err FVal
  | .int i => .ok (.int i)
  | .flt i => .ok (.int (if -(2 ^ 63 : Int) ≤ i ∧ i < 2 ^ 63 then i else -(2 ^ 63 : Int)))   -- amd64 (see header)
  | .dec t => .ok (.int (truncDec t))
  | .bool b => .ok (.int (if b then 1 else 0))
  | .str s => (parseIntBase0 (if s.isEmpty then [48] else s)).map .int
  | _ => .error .decode

def decUint : Val → Except Err FVal
  | .int i => .ok (.int (if i < 0 then i + 2 ^ 64 else i))
  | .flt i => if 0 ≤ i ∧ i < 2 ^ 64 then .ok (.int i) else .error .unmodelled
  | .dec t => if truncDec t < 0 then .error .unmodelled else .ok (.int (truncDec t))
  | .bool b => .ok (.int (if b then 1 else 0))
  | .str s => (parseUintBase0 (if s.isEmpty then [48] else s)).map .int
  | _ => .error .decode

def decFloat : Val → Except Err FVal
  | .int i => .ok (.int (roundF64I i))
  | .flt i => .ok (.int i)
  | .dec t => .ok (.dec t)
  | .bool b => .ok (.int (if b then 1 else 0))
  | .str s => if s.isEmpty then .ok (.int 0) else parseFloatStr s
  | _ => .error .decode

def decBool : Val → Except Err FVal
  | .bool b => .ok (.bool b)
  | .int i => .ok (.bool (i ≠ 0))
  | .flt i => .ok (.bool (i ≠ 0))
  | .dec _ => .ok (.bool true)
  | .str s =>
    match parseBool s with
    | some b => .ok (.bool b)
    | none => if s.isEmpty then .ok (.bool false) else .error .decode
  | _ => .error .decode

def lowerEq (a b : Bytes) : Bool := lowerAscii a = lowerAscii b

/-- decodeStructFromMap's key search: the exact name, else the first key equal up to (ASCII) case -/
def lookupField (n : Bytes) (m : List (Bytes × Val)) : Option Val :=
  match alookup n m with
  | some v => some v
  | none => (m.find? (fun kv => lowerEq kv.1 n)).map (·.2)

def mapMExcept {α β : Type} (f : α → Except Err β) : List α → Except Err (List β)
  | [] => .ok []
  | a :: r => match f a with
    | .error e => .error e
    | .ok b => match mapMExcept f r with
      | .error e => .error e
      | .ok bs => .ok (b :: bs)

mutual
/-- Decoder.decode for a non-nil input; a nil input (`null`) leaves the target at its zero value -/
def decode : FieldTy → Val → Except Err FVal
  | .string, v => decString v
  | .int, v => decInt v
  | .uint, v => decUint v
  | .float, v => decFloat v
  | .bool, v => decBool v
  | .any, v => .ok (ofVal v)
  | .ptr t, v => match decode t v with
    | .ok x => .ok (.ptr x)
    | .error e => .error e
  | .slice t, v =>
    match v with
    | .list l => (mapMExcept (fun x => if x = Val.null then .ok (zero t) else decode t x) l).map .list
    | .map [] => .ok (.list [])
    | v => match decode t v with
      | .ok x => .ok (.list [x])
      | .error e => .error e
  | .map t, v =>
    match v with
    | .map m => (mapMExcept (fun kv => if kv.2 = Val.null then .ok (kv.1, zero t) else
        match decode t kv.2 with
        | .ok x => .ok (kv.1, x)
        | .error e => .error e) m).map .map
    | .list [] => .ok (.map [])
    | .list _ => .error .unmodelled
    | _ => .error .decode
  | .struct fs, v =>
    match v with
    | .map m => (decodeFields fs m).map .struct
    | _ => .error .decode
def decodeFields : List (Bytes × FieldTy) → List (Bytes × Val) → Except Err (List (Bytes × FVal))
  | [], _ => .ok []
  | (n, t) :: rest, m =>
    let here : Except Err FVal := match lookupField n m with
      | none => .ok (zero t)
      | some v => if v = Val.null then .ok (zero t) else decode t v
    match here with
    | .error e => .error e
    | .ok x => match decodeFields rest m with
      | .error e => .error e
      | .ok r => .ok ((n, x) :: r)
end

/-- Property.Unmarshall (property.go:127-160) through reflectx.SetValue: nil → nothing is set -/
def unmarshall (ty : FieldTy) (v : Val) : Except Err (Option FVal) :=
  if v = .null then .ok none else (decode ty v).map some

/-! ## the two regular expressions and ReplaceAllContent -/

def notBrace (b : UInt8) : Bool := b ≠ 123 && b ≠ 125

/-- leftmost match of  `x{[^{}]*}`:  (text before, content, text after) -/
def findEl (x : UInt8) : Bytes → Option (Bytes × Bytes × Bytes)
  | [] => none
  | b :: rest =>
    let later := (findEl x rest).map (fun r => (b :: r.1, r.2.1, r.2.2))
    if b = x then
      match rest with
      | 123 :: r2 =>
        match r2.dropWhile notBrace with
        | 125 :: post => some ([], r2.takeWhile notBrace, post)
        | _ => later
      | _ => later
    else later

def cDollar : UInt8 := 36
def cHash : UInt8 := 35

/-- el.ReplaceAllContent (el.go:46-63): `n` = replacements still allowed (starts at maxReplaceRounds) -/
def replaceAllF (x : UInt8) (f : Bytes → Except Err Bytes) (onBound : Err) : Nat → Bytes → Except Err Bytes
  | 0, s => match findEl x s with
    | none => .ok s
    | some _ => .error onBound
  | n + 1, s => match findEl x s with
    | none => .ok s
    | some (pre, c, post) =>
      match f c with
      | .error e => .error e
      | .ok r => replaceAllF x f onBound n (pre ++ r ++ post)

def maxRounds : Nat := Facts.replaceBound.getD 1000

/-! ## the stages -/

/-- Configure.Get as the stages see it: `null` = nothing configured -/
abbrev Cfg := Bytes → Val

/-- the callback of the quote stage (config_quote_aware_post_processors.go:50-89) -/
def resolveQuote (J : Json) (cfg : Cfg) (exp : Bytes) : Except Err Bytes :=
  let key := match splitColon exp with
    | none => exp
    | some kd => kd.1
  let dflt : Bytes := match splitColon exp with
    | none => []
    | some kd => kd.2
  let v := cfg key
  let useDefault := v = .null ∨ v = .map [] ∨ v = .list []
  let v' : Except Err Val :=
    if useDefault then
      -- an empty map or list counts as absent (line 66: expVal = nil)
      if dflt.isEmpty then .ok .null else
      match parseAny J dflt with
      | .ok d => .ok d
      | .error .panic => .error .panic
      | .error .unmodelled => .error .unmodelled
      | .error _ => .error .quote
    else .ok v
  match v' with
  | .error e => .error e
  | .ok w => if w = .null then .ok [] else .ok (formatAny J w)

def quoteStage (J : Json) (cfg : Cfg) (tagStr : Bytes) : Except Err Bytes :=
  replaceAllF cDollar (resolveQuote J cfg) .quote maxRounds tagStr

/-- the callback of the expression stage (expression_tag_aware_post_processors.go:42-56) -/
def evalFormat (J : Json) (evalE : Bytes → Except Err Val) (c : Bytes) : Except Err Bytes :=
  match evalE c with
  | .ok v => .ok (formatAny J v)
  | .error e => .error e

def exprStage (J : Json) (evalE : Bytes → Except Err Val) (tagVal : Bytes) : Except Err Bytes :=
  replaceAllF cHash (evalFormat J evalE) .expr maxRounds tagVal

/-- value_aware_post_processors.go:48-72 for one `value` property -/
def valueStage (J : Json) (args : Tag.Args) (ty : FieldTy) (tagVal : Bytes) : Except Err (Option FVal) :=
  if tagVal.isEmpty then (if Tag.isRequired args then .error .required else .ok none)
  else match parseAny J tagVal with
    | .error e => .error e
    | .ok v => unmarshall ty v

/-- properties_aware_post_processors.go:52-72 for one `prefix` property -/
def prefixStage (cfg : Cfg) (args : Tag.Args) (ty : FieldTy) (tagVal : Bytes) : Except Err (Option FVal) :=
  if cfg tagVal = .null then (if Tag.isRequired args then .error .required else .ok none)
  else unmarshall ty (cfg tagVal)

def kValidate : Bytes := ofString "Validate"

def isPtrTy : FieldTy → Bool
  | .ptr _ => true
  | _ => false

/-- validate_aware_post_processors.go:39-66: runs only with a `validate` argument, skips a nil pointer -/
def validateStage (validate : FVal → List Bytes → Bool) (args : Tag.Args) (ty : FieldTy) (b : Option FVal) :
    Except Err (Option FVal) :=
  match Tag.find args kValidate with
  | none => .ok b
  | some cs =>
    let cur := b.getD (zero ty)
    if isPtrTy ty ∧ cur = .nil then .ok b
    else if validate cur cs then .ok b else .error .validate

/-- a `value:"…"` point: the composition of the stages in the order quote → expression → value → validate -/
def valuePipeline (J : Json) (evalE : Bytes → Except Err Val) (validate : FVal → List Bytes → Bool)
    (cfg : Cfg) (tag : Bytes) (ty : FieldTy) : Except Err FVal :=
  match Tag.parse? tag with
  | none => .error .panic
  | some (tv, args) =>
    quoteStage J cfg tv >>= fun s1 =>
    exprStage J evalE s1 >>= fun s2 =>
    valueStage J args ty s2 >>= fun b =>
    validateStage validate args ty b >>= fun b' =>
    pure (b'.getD (zero ty))

/-- a `prefix:"…"` point: quote → expression → prefix → validate -/
def prefixPipeline (J : Json) (evalE : Bytes → Except Err Val) (validate : FVal → List Bytes → Bool)
    (cfg : Cfg) (tag : Bytes) (ty : FieldTy) : Except Err FVal :=
  match Tag.parse? tag with
  | none => .error .panic
  | some (tv, args) =>
    quoteStage J cfg tv >>= fun s1 =>
    exprStage J evalE s1 >>= fun s2 =>
    prefixStage cfg args ty s2 >>= fun b =>
    validateStage validate args ty b >>= fun b' =>
    pure (b'.getD (zero ty))

def noExpr : Bytes → Except Err Val := fun _ => .error .expr
def noValidate : FVal → List Bytes → Bool := fun _ _ => true

/-- binding through a value tag (C17): the value pipeline with no expression engine and no validator -/
def bindValue (J : Json) (cfg : Cfg) (ty : FieldTy) (tag : Bytes) : Except Err FVal :=
  valuePipeline J noExpr noValidate cfg tag ty

/-- binding through `prop:"…"`: the ExtractHandler rewrite (Ioc.Tag.propShorthand?) and then a value tag -/
def bindProp (J : Json) (cfg : Cfg) (ty : FieldTy) (propTag : Bytes) : Except Err FVal :=
  match Tag.propShorthand? propTag with
  | none => .error .panic
  | some t => bindValue J cfg ty t

/-- binding by prefix (C17) -/
def bindPrefix (J : Json) (cfg : Cfg) (ty : FieldTy) (tag : Bytes) : Except Err FVal :=
  prefixPipeline J noExpr noValidate cfg tag ty

/-! ## the order of the stages, computed from the regenerated processor table -/

/-- SortOrderedComponents (order_component.go:8-33): priority-ordered ones sorted by Order(), then the
    ordered ones sorted by Order() (every built-in processor has an Order method) -/
def sortOrdered (ps : List ProcFact) : List ProcFact :=
  isort (fun a b => a.order ≤ b.order) (ps.filter (·.priority)) ++
  isort (fun a b => a.order ≤ b.order) (ps.filter (fun p => !p.priority))

def stageOrder : List String := (sortOrdered Facts.builtinProcessors).map (·.name)

def idx (name : String) (l : List String) : Nat := l.findIdx (· = name)

/-- what a processor does to one configuration property -/
structure PState where
  isValue : Bool               -- tag `value` (else `prefix`)
  tagStr : Bytes
  tagVal : Bytes
  args : Tag.Args
  bound : Option FVal

def nQuote := "configQuoteAwarePostProcessors"
def nExpr := "expressionTagAwarePostProcessors"
def nValue := "valueAwarePostProcessors"
def nProps := "propertiesAwarePostProcessors"
def nValidate := "validateAwarePostProcessors"
def nDepAware := "dependencyAwarePostProcessors"
def nFurther := "dependencyFurtherMatchingPostProcessors"

/-- PostProcessProperties of the named built-in processor on one configuration property -/
def stageFn (J : Json) (evalE : Bytes → Except Err Val) (validate : FVal → List Bytes → Bool) (cfg : Cfg)
    (ty : FieldTy) (name : String) (st : PState) : Except Err PState :=
  if name = nQuote then
    -- config_quote_aware_post_processors.go:45-47: `if !c.el.MatchString(prop.TagStr) { continue }` — a tag without a
    -- placeholder is skipped, its TagVal keeps whatever it holds (on a fresh property: TagStr itself)
    match findEl cDollar st.tagStr with
    | none => .ok st
    | some _ => (quoteStage J cfg st.tagStr).map (fun s => { st with tagVal := s })   -- reads TagStr, writes TagVal
  else if name = nExpr then
    (exprStage J evalE st.tagVal).map (fun s => { st with tagVal := s })
  else if name = nValue then
    if st.isValue then (valueStage J st.args ty st.tagVal).map (fun b => { st with bound := b.orElse (fun _ => st.bound) })
    else .ok st
  else if name = nProps then
    if st.isValue then .ok st
    else (prefixStage cfg st.args ty st.tagVal).map (fun b => { st with bound := b.orElse (fun _ => st.bound) })
  else if name = nValidate then
    (validateStage validate st.args ty st.bound).map (fun b => { st with bound := b })
  else .ok st                                                                 -- logger / dependency processors

def runStagesOn (J : Json) (evalE : Bytes → Except Err Val) (validate : FVal → List Bytes → Bool) (cfg : Cfg)
    (ty : FieldTy) : List String → PState → Except Err PState
  | [], st => .ok st
  | n :: rest, st => match stageFn J evalE validate cfg ty n st with
    | .error e => .error e
    | .ok st' => runStagesOn J evalE validate cfg ty rest st'

/-- ResolveAfterInstantiation (post_processor_registration_delegate.go:212-230) restricted to one property:
    every processor, in the sorted order, sees the property -/
def runProperty (J : Json) (evalE : Bytes → Except Err Val) (validate : FVal → List Bytes → Bool) (cfg : Cfg)
    (isValue : Bool) (tag : Bytes) (ty : FieldTy) : Except Err FVal :=
  match Tag.parse? tag with
  | none => .error .panic
  | some (tv, args) =>
    match runStagesOn J evalE validate cfg ty stageOrder ⟨isValue, tv, tv, args, none⟩ with
    | .error e => .error e
    | .ok st => .ok (st.bound.getD (zero ty))

/-! ## a holder with several configuration properties, populated more than once

  The Property objects (TagStr, TagVal, arguments) and the fields they point to live in the definition registry and
  survive a failed creation of their component: a second creation runs the same processors over the SAME objects,
  under whatever the configuration is by then. -/

/-- one configuration property of a holder together with the type of its field -/
structure HProp where
  ty : FieldTy
  st : PState

/-- PostProcessProperties of ONE processor over the properties of a holder (the `for _, prop := range properties`
    loops): the processor returns at the first property that fails; the properties before it keep what the
    processor did to them, the failing one and those after it are left as they were. -/
def stageAll (J : Json) (evalE : Bytes → Except Err Val) (validate : FVal → List Bytes → Bool) (cfg : Cfg)
    (name : String) : List HProp → List HProp × Option Err
  | [] => ([], none)
  | p :: rest =>
    match stageFn J evalE validate cfg p.ty name p.st with
    | .error e => (p :: rest, some e)
    | .ok st' =>
      let r := stageAll J evalE validate cfg name rest
      ({ p with st := st' } :: r.1, r.2)

/-- ResolveAfterInstantiation (post_processor_registration_delegate.go:212-230) over all configuration properties
    of a holder: the processors in the given order, stopping at the first processor that fails.  The result is
    the state the properties are LEFT in (they are mutated in place) and the error, if any. -/
def populateAll (J : Json) (evalE : Bytes → Except Err Val) (validate : FVal → List Bytes → Bool) (cfg : Cfg) :
    List String → List HProp → List HProp × Option Err
  | [], ps => (ps, none)
  | n :: ns, ps =>
    match stageAll J evalE validate cfg n ps with
    | (ps', some e) => (ps', some e)
    | (ps', none) => populateAll J evalE validate cfg ns ps'

/-- a freshly scanned property (NewProperty, property.go:21-33): TagVal starts as TagStr, nothing is bound -/
def freshProp (isValue : Bool) (tag : Bytes) (ty : FieldTy) : Option HProp :=
  (Tag.parse? tag).map fun p => ⟨ty, ⟨isValue, p.1, p.1, p.2, none⟩⟩

/-- what two creations of the same holder leave behind -/
structure Twice where
  first : Option Err      -- the processor error of the first population, if any
  failed : Bool           -- the first creation failed (in a processor, or afterwards)
  props : List HProp      -- the properties after the second request
  second : Option Err     -- the processor error of the second population, if any

/-- Two creations of the same holder: the first under `cfg1`; when it fails — in a processor (`populateAll`) or
    afterwards for a reason outside the properties (`failsAfter`: a dependency that cannot be created, a failing
    Init) — the singleton registry forgets the instance, the properties stay as the first population left them,
    and the second creation populates them again under `cfg2`.  When the first creation succeeds the second
    request returns the finished instance: nothing is populated again. -/
def createTwice (J : Json) (evalE : Bytes → Except Err Val) (validate : FVal → List Bytes → Bool)
    (cfg1 cfg2 : Cfg) (failsAfter : Bool) (ps : List HProp) : Twice :=
  let r1 := populateAll J evalE validate cfg1 stageOrder ps
  if r1.2.isSome || failsAfter then
    let r2 := populateAll J evalE validate cfg2 stageOrder r1.1
    ⟨r1.2, true, r2.1, r2.2⟩
  else ⟨none, false, r1.1, none⟩

/-! ## the binder: viper's layers

  configure/binder/viper.go:37-46  Get = viper.Get (for a non-empty path), Set = viper.Set
  github.com/spf13/viper@v1.19.0  viper.go  Get / find (override first, then — unless a set scalar shadows the path —
      the merged documents), searchMap, isPathShadowedInDeepMap, Set, deepSearch;  util.go  toCaseInsensitiveValue
      (copyAndInsensitiviseMap: the keys of a map handed to Set, and of the maps inside it, are lower-cased)

  Two layers only (no flags, environment, key/value store or defaults are configured by the container).  Paths are
  dotted, compared in lower case, and run through MAPS: the keys of this unit's documents contain no dot, and a path
  segment applied to a list (viper: an index, `Ioc.Placeholder.search`) is answered `null` here — the scenarios of this
  unit do not index lists.  `Get("")` (AllSettings) is not modelled here either (`Ioc.Placeholder.get`).

  There is NO memory of earlier lookups: `get` is a function of the two layers as they are now. -/

/-- strings.Split(s, ".") -/
def splitDots : Bytes → List Bytes
  | [] => [[]]
  | c :: rest =>
    match splitDots rest with
    | [] => [[c]]                                   -- unreachable
    | hd :: tl => if c = 46 then [] :: hd :: tl else (c :: hd) :: tl

/-- viper.go searchMap: down the nested maps; a scalar (or a list) on the way answers nil -/
def searchMap : List (Bytes × Val) → List Bytes → Val
  | m, [] => .map m
  | m, k :: rest =>
    match alookup k m with
    | none => .null
    | some v =>
      match rest with
      | [] => v
      | _ :: _ =>
        match v with
        | .map m' => searchMap m' rest
        | _ => .null

/-- viper.go isPathShadowedInDeepMap: some proper prefix of the path (from the first segment on) holds a value that
    is not a map; the scan stops at the first prefix that holds nothing -/
def shadowedFrom (m : List (Bytes × Val)) (path : List Bytes) : Nat → Nat → Bool
  | 0, _ => false
  | fuel + 1, i =>
    if i ≥ path.length then false
    else match searchMap m (path.take i) with
      | .null => false
      | .map _ => shadowedFrom m path fuel (i + 1)
      | _ => true

def shadowed (m : List (Bytes × Val)) (path : List Bytes) : Bool := shadowedFrom m path path.length 1

mutual
/-- util.go copyAndInsensitiviseMap -/
def lowerKeys : Val → Val
  | .map m => .map (lowerKeysM m)
  | .null => .null
  | .str s => .str s
  | .int i => .int i
  | .flt i => .flt i
  | .dec t => .dec t
  | .bool b => .bool b
  | .list l => .list l
def lowerKeysM : List (Bytes × Val) → List (Bytes × Val)
  | [] => []
  | (k, v) :: rest => ainsert (lowerAscii k) (lowerKeys v) (lowerKeysM rest)
end

/-- viper.go deepSearch + the final store of Set: intermediate keys that hold no map are replaced by a fresh map -/
def deepSet (m : List (Bytes × Val)) : List Bytes → Val → List (Bytes × Val)
  | [], _ => m
  | [k], v => ainsert k v m
  | k :: k2 :: rest, v =>
    let sub := match alookup k m with
      | some (.map m') => m'
      | _ => []
    ainsert k (.map (deepSet sub (k2 :: rest) v)) m

/-- the two layers of the binder: what was handed to Set, and the merged documents -/
structure Binder where
  over : List (Bytes × Val)
  conf : List (Bytes × Val)

/-- ViperBinder.Set -/
def Binder.set (b : Binder) (path : Bytes) (v : Val) : Binder :=
  { b with over := deepSet b.over (splitDots (lowerAscii path)) (lowerKeys v) }

/-- ViperBinder.Get for a non-empty path -/
def Binder.get (b : Binder) (path : Bytes) : Val :=
  let p := splitDots (lowerAscii path)
  match searchMap b.over p with
  | .null => if p.length > 1 && shadowed b.over p then .null else searchMap b.conf p
  | v => v

def Binder.setAll (b : Binder) : List (Bytes × Val) → Binder
  | [] => b
  | (p, v) :: rest => (b.set p v).setAll rest

/-- a start of an application, changes of the configuration, a later population of another holder: the later
    holder's properties are fresh, they are populated under the configuration as it is THEN -/
def populateLater (J : Json) (evalE : Bytes → Except Err Val) (validate : FVal → List Bytes → Bool)
    (b : Binder) (ops : List (Bytes × Val)) (late : List HProp) : List HProp × Option Err :=
  populateAll J evalE validate (b.setAll ops).get stageOrder late

/-! ## tag-less fields that name their own prefix (definition.ConfigurationProperties)

  properties_aware_post_processors.go:23-29 (ExtractHandler of the prefix scanner) and
  default_tag_scan_definition_registry_post_processor.go:20-38: a field WITHOUT a `prefix` tag becomes a configuration
  property exactly when `field.Value.Interface().(definition.ConfigurationProperties)` succeeds — the assertion is about
  the field's OWN dynamic value, so Go's method sets decide — and its TagVal is what `Prefix()` answers WHEN CALLED ON THAT
  VALUE.  `Prefix` is user code: its answer on the field's own value is the parameter `own`. -/

/-- how the field and the method are declared, and whether a pointer field is nil at scan time -/
inductive CPShape
  | ptrPtrRecv   -- F *T, non-nil, func (*T) Prefix()
  | nilPtrRecv   -- F *T, nil,     func (*T) Prefix()   (the method is called with a nil receiver and answers)
  | ptrValRecv   -- F *T, non-nil, func (T) Prefix()    (the method set of *T contains the value-receiver methods)
  | nilValRecv   -- F *T, nil,     func (T) Prefix()    (Go panics: value method called using nil pointer)
  | valValRecv   -- F T,           func (T) Prefix()
  | valPtrRecv   -- F T,           func (*T) Prefix()   (the method set of T does not contain it: the assertion fails)
deriving DecidableEq, Repr

/-- the ExtractHandler: `none` = not a configuration property, the field is left alone -/
def extractPrefix (sh : CPShape) (own : Bytes) : Except Err (Option Bytes) :=
  match sh with
  | .valPtrRecv => .ok none
  | .nilValRecv => .error .panic
  | _ => .ok (some own)

/-- the scanned property of a tag-less field: `NewProperty(field, Configuration, "prefix", Prefix())` -/
def taglessProp (sh : CPShape) (own : Bytes) (ty : FieldTy) : Except Err (Option HProp) :=
  match extractPrefix sh own with
  | .error e => .error e
  | .ok none => .ok none
  | .ok (some p) =>
    match freshProp false p ty with
    | none => .error .panic
    | some hp => .ok (some hp)

/-- binding through the tag-less route (C17): `none` = the field is not bound at all -/
def bindTagless (J : Json) (cfg : Cfg) (sh : CPShape) (own : Bytes) (ty : FieldTy) : Except Err (Option FVal) :=
  match extractPrefix sh own with
  | .error e => .error e
  | .ok none => .ok none
  | .ok (some p) => (bindPrefix J cfg ty p).map some

end Value
end Ioc
