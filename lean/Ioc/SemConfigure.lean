/-
  Ioc.SemConfigure — interpretation of the primitives called by the REGENERATED programs of configure/configure.go
  (`loadConfigure`, `Initialize`) in terms of M4's `twoStepLoop` (Ioc.Order): loaders are `.ref i 0`, `res i` says what
  loader i does (LoadConfig fails / returns nothing / returns a document whose SetConfig succeeds or fails),
  SortOrderedComponents answers with an arbitrary arrangement `sorted` (its contract: C12_code_sortOrderedComponents).
-/
import Ioc.SemOrder
namespace Ioc.Sem
open Ioc Ioc.Go Ioc.Order

structure CfgW where
  loaders : List Nat
  log : List (Ev Nat) := []
deriving Repr

def errG : Val := .str "error"

def cfgFn (res : Nat → Step) (sorted : List Nat) : String → List Val → CfgW → Option (Val × CfgW)
  | "$self.loaders", [], w => some (.list (w.loaders.map encR), w)
  | "$self", [], w => some (.ref 0 9, w)
  | "framework_helper.SortOrderedComponents", [.list _], w => some (.list (sorted.map encR), w)
  | ".set:loaders", [.ref 0 9, .list vs], w => (decList vs).map (fun l => (.tuple [], { w with loaders := l }))
  | ".LoadConfig", [.ref i 0], w =>
      some (match res i with
            | .err => .tuple [.nil, errG]
            | .skip => .tuple [.list [], .nil]
            | .next _ => .tuple [.list [.int i], .nil], { w with log := w.log ++ [.first i] })
  | "self.Binder.SetConfig", [.list [.int i]], w =>
      some (match res i.toNat with
            | .next true => errG
            | _ => .nil, { w with log := w.log ++ [.second i.toNat] })
  | "errors.WithMessagef", _, w => some (errG, w)
  | "string", [_], w => some (.str "", w)
  | "self.loadConfigure", [], w => none
  | _, _, _ => none

def cfgPrims (res : Nat → Step) (sorted : List Nat) : Prims CfgW := { fn := cfgFn res sorted }

end Ioc.Sem
