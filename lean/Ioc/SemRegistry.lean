/-
  Ioc.SemRegistry — interpretation of the primitives called by the REGENERATED programs of
  container/support/singleton_component_registry.go (`Ioc.Progs.reg_*`, see Ioc.GoSem) over the model registry `Reg`:

    self.singletonObjects / earlySingletonObjects / singletonFactories   sync2.Map Load / Store / Delete
    self.singletonCurrentlyInCreation                                    ConcurrentSets Put / Remove / Exists
    factory.GetComponent()                                               the two kinds of factory values:
        `.ref n 0` = the early-reference factory stored for n   (returns `early`, leaves the registry alone)
        `.ref n 1` = the creation factory passed by doGetComponent (runs `body` on the registry)
    self.RemoveSingleton / self.AddSingleton                             the regenerated programs of those methods

  Encoding: names are `.int n`, objects `.ref name ver`, errors `errVal`.
-/
import Ioc.GoSem
import Ioc.Registry
import Ioc.Generated.Progs
namespace Ioc.Sem
open Ioc Ioc.Go

def encObj (o : Obj) : Val := .ref o.name o.ver
def encOpt : Option Obj → Val
  | some o => encObj o
  | none => .nil

/-- the one error value (the model does not distinguish error texts) -/
def errVal : Val := .str "error"

def encRes : Except Err Obj → Val
  | .ok o => .tuple [encObj o, .nil]
  | .error _ => .tuple [.nil, errVal]

def encGet : Except Err (Option Obj) → Val
  | .ok o => .tuple [encOpt o, .nil]
  | .error _ => .tuple [.nil, errVal]

/-- what a creation body does to the registry and what it returns -/
abbrev Body := Reg → Except Err Obj × Reg

/-- the map / set primitives and the factory values -/
def baseFn (early : Except Err Obj) (body : Body) : String → List Val → Reg → Option (Val × Reg)
  | "self.singletonObjects.Load", [.int n], r => some (.tuple [encOpt (r.l1? n.toNat), .bool (r.l1? n.toNat).isSome], r)
  | "self.singletonObjects.Store", [.int n, .ref a b], r => some (.tuple [], { r with l1 := aset n.toNat ⟨a, b⟩ r.l1 })
  | "self.singletonObjects.Delete", [.int n], r => some (.tuple [], { r with l1 := adel n.toNat r.l1 })
  | "self.earlySingletonObjects.Load", [.int n], r => some (.tuple [encOpt (r.l2? n.toNat), .bool (r.l2? n.toNat).isSome], r)
  | "self.earlySingletonObjects.Store", [.int n, .ref a b], r => some (.tuple [], { r with l2 := aset n.toNat ⟨a, b⟩ r.l2 })
  | "self.earlySingletonObjects.Delete", [.int n], r => some (.tuple [], { r with l2 := adel n.toNat r.l2 })
  | "self.singletonFactories.Load", [.int n], r =>
      some (.tuple [if n.toNat ∈ r.l3 then .ref n.toNat 0 else .nil, .bool (decide (n.toNat ∈ r.l3))], r)
  | "self.singletonFactories.Store", [.int n, .ref _ 0], r => some (.tuple [], { r with l3 := sput n.toNat r.l3 })
  | "self.singletonFactories.Delete", [.int n], r => some (.tuple [], { r with l3 := sdel n.toNat r.l3 })
  | "self.singletonCurrentlyInCreation.Put", [.int n], r => some (.tuple [], { r with inCr := sput n.toNat r.inCr })
  | "self.singletonCurrentlyInCreation.Remove", [.int n], r => some (.tuple [], { r with inCr := sdel n.toNat r.inCr })
  | "self.singletonCurrentlyInCreation.Exists", [.int n], r => some (.bool (decide (n.toNat ∈ r.inCr)), r)
  | ".GetComponent", [.ref _ 0], r => some (encRes early, r)
  | ".GetComponent", [.ref _ 1], r => let x := body r; some (encRes x.1, x.2)
  | _, _, _ => none

def basePrims (early : Except Err Obj) (body : Body) : Prims Reg := { fn := baseFn early body }

/-- a call of the sibling method RemoveSingleton / AddSingleton = a run of its regenerated program -/
def callRemove (early : Except Err Obj) (body : Body) (args : List Val) (r : Reg) : Option (Val × Reg) :=
  run (basePrims early body) Progs.reg_RemoveSingleton args r
def callAdd (early : Except Err Obj) (body : Body) (args : List Val) (r : Reg) : Option (Val × Reg) :=
  run (basePrims early body) Progs.reg_AddSingleton args r

/-- the registry as its own methods see it: the primitives plus calls of sibling methods, which run the
    regenerated programs of those methods -/
def regPrims (early : Except Err Obj) (body : Body) : Prims Reg :=
  { fn := fun f args r =>
      match f with
      | "self.RemoveSingleton" => callRemove early body args r
      | "self.AddSingleton" => callAdd early body args r
      | _ => baseFn early body f args r }

end Ioc.Sem
