/-
  Ioc.Scan — M8b: which fields of a component the container looks at, and which properties the
  tag-scan processors build from them.
  Mirrors
    component_definition/meta.go:151-173        Meta.scanFields
    util/reflectx/range_struct.go:15-36         ForEachFieldV2 (fields in declaration order)
    component_definition/holder.go:23-30        NewEmbedHolder (the path of embedded structs)
    container/processors/default_tag_scan_definition_registry_post_processor.go:17-46
                                                PostProcessDefinitionRegistry
    component_definition/property.go:21-33      NewProperty (= Ioc.Tag.parse?)
  and the five built-in scanners (logger, properties, value, dependencyAware, dependencyFunctionAware).

  reflect, as observed on the real code by the `scan` sub-harness (static types ScanStatic0..3):
    * `Value.Field(i)` inherits only the sticky read-only bit; the embed-read-only bit is cleared on
      descent.  The scanner descends through anonymous struct fields only, so a field it reaches is
      settable iff the field ITSELF is exported — also below an embedded struct whose type name is
      lower-case (`scanLower` in ScanStatic0: X is scanned, y is not).
    * an anonymous field that carries any tag text, or is a pointer, or a named (non-anonymous) struct
      field, is not descended into; it is a field of its own, kept iff exported.
    * `StructTag.Lookup` is a first-match lookup in the list of `key:"value"` pairs; text after the
      first malformed pair is invisible (the harness puts malformed text last, key `!raw`).
-/
import Ioc.Tag
namespace Ioc
namespace Scan

/-- what the container can see of one declared field -/
structure FInfo where
  name : Bytes
  exported : Bool
  /-- the struct tag as `key:"value"` pairs in textual order; `[]` ⇔ the tag text is empty -/
  tags : List (Bytes × Bytes)
  /-- opaque type code (only compared, never interpreted) -/
  ty : Bytes
  /-- `some p` iff the field's value implements definition.ConfigurationProperties, p = Prefix() -/
  marker : Option Bytes
deriving DecidableEq, Repr

mutual
inductive FieldT
  | leaf (i : FInfo)
  | struct (i : FInfo) (anonymous byValue : Bool) (fields : Shape)
inductive Shape
  | nil
  | cons (f : FieldT) (rest : Shape)
end

/-- `field.Tag == ""` -/
def FInfo.untagged (i : FInfo) : Bool := i.tags.isEmpty

/-- meta.go:158  `field.Anonymous && field.Tag == "" && field.Type.Kind() == reflect.Struct` -/
def descends (i : FInfo) (anonymous byValue : Bool) : Bool := anonymous && i.untagged && byValue

/-- a *Field of meta.Fields: the embedded structs it was reached through (Holder chain, outermost first) and its declaration -/
structure ScannedField where
  path : List Bytes
  info : FInfo
deriving DecidableEq, Repr

def ScannedField.fullPath (f : ScannedField) : List Bytes := f.path ++ [f.info.name]

-- Meta.scanFields (meta.go:151-173).  `value.CanSet()` = the field itself is exported (see header).
mutual
def scanField (path : List Bytes) : FieldT → List ScannedField
  | .leaf i => if i.exported then [⟨path, i⟩] else []
  | .struct i anon byv fs =>
      if descends i anon byv then scanShape (path ++ [i.name]) fs
      else if i.exported then [⟨path, i⟩] else []
def scanShape (path : List Bytes) : Shape → List ScannedField
  | .nil => []
  | .cons f rest => scanField path f ++ scanShape path rest
end

/-- NewMeta: scan from the component itself -/
def scan (sh : Shape) : List ScannedField := scanShape [] sh

def Shape.append : Shape → Shape → Shape
  | .nil, t => t
  | .cons f r, t => .cons f (r.append t)

-- inline exactly the structs the scanner descends into, depth first, in place
mutual
def flattenField : FieldT → Shape
  | .leaf i => .cons (.leaf i) .nil
  | .struct i anon byv fs =>
      if descends i anon byv then flattenShape fs
      else .cons (.struct i anon byv fs) .nil
def flattenShape : Shape → Shape
  | .nil => .nil
  | .cons f rest => (flattenField f).append (flattenShape rest)
end

def flatten (sh : Shape) : Shape := flattenShape sh

/-! ### tag-scan processors -/

/-- reflect.StructTag.Lookup on the pair list -/
def lookupTag (k : Bytes) : List (Bytes × Bytes) → Option Bytes
  | [] => none
  | (k', v) :: rest => if k' = k then some v else lookupTag k rest

/-- result of an ExtractHandler call, and of the whole per-field recognition: `(tag, tagVal, ok)` or a Go panic -/
inductive Extract
  | no
  | yes (tag tagVal : Bytes)
  | panic
deriving DecidableEq, Repr

/-- DefaultTagScanDefinitionRegistryPostProcessor.  The ExtractHandler is user code: any function of the scanned field. -/
structure TagProc where
  nodeType : Bytes
  tag : Bytes
  extract : Option (ScannedField → Extract)
  required : Bool

/-- component_definition.Property as built at scan time -/
structure Property where
  field : ScannedField
  nodeType : Bytes
  tag : Bytes
  /-- TagStr = TagVal at scan time: the value part -/
  tagVal : Bytes
  args : Tag.Args
deriving DecidableEq, Repr

/-- NewProperty; `none` = TagArg.Parse panics -/
def newProperty? (f : ScannedField) (nodeType tag tagVal : Bytes) : Option Property :=
  (Tag.parse? tagVal).map fun r => ⟨f, nodeType, tag, r.1, r.2⟩

/-- what one processor recognises on one field (lines 21-35): the `d.Tag` lookup wins (`continue`, line 24),
    else the ExtractHandler, whose empty tag means `d.Tag` -/
def recognise (d : TagProc) (f : ScannedField) : Extract :=
  match (if d.tag ≠ [] then lookupTag d.tag f.info.tags else none) with
  | some tv => .yes d.tag tv
  | none =>
    match d.extract with
    | some h =>
      match h f with
      | .yes t tv => .yes (if t = [] then d.tag else t) tv
      | .no => .no
      | .panic => .panic
    | none => .no

/-- the `for _, field := range meta.Fields` loop (lines 20-36); `none` = a panic in NewProperty -/
def propsLoop? (d : TagProc) : List ScannedField → Option (List Property)
  | [] => some []
  | f :: rest =>
    match recognise d f with
    | .no => propsLoop? d rest
    | .panic => none
    | .yes t tv =>
      match newProperty? f d.nodeType t tv with
      | none => none
      | some p => (propsLoop? d rest).map (p :: ·)

/-- lines 38-42: `if d.Required && !property.Args().Has(ArgRequired) { property.SetArg(ArgRequired) }` -/
def requiredDefault (required : Bool) (a : Tag.Args) : Tag.Args :=
  if required && !(Tag.has a Tag.kRequired []) then Tag.setArg a Tag.kRequired [] else a

def applyRequired (d : TagProc) (p : Property) : Property :=
  { p with args := requiredDefault d.required p.args }

/-- one PostProcessDefinitionRegistry call for this component -/
def propsOf? (d : TagProc) (fields : List ScannedField) : Option (List Property) :=
  (propsLoop? d fields).map (·.map (applyRequired d))

/-- all definition-registry post-processors, in the order the factory enumerates them (an input);
    meta.SetProperties appends -/
def properties? : List TagProc → List ScannedField → Option (List Property)
  | [], _ => some []
  | d :: ds, fields =>
    match propsOf? d fields, properties? ds fields with
    | some a, some b => some (a ++ b)
    | _, _ => none

/-! the same without the panic outcome (`properties?_eq` in IocProofs.Lemmas.Scan: they agree whenever no
    ExtractHandler panics; NewProperty never does, C19_total) -/

def parseD (s : Bytes) : Bytes × Tag.Args := (Tag.parse? s).getD ([], [])

def mkProperty (d : TagProc) (f : ScannedField) (t tv : Bytes) : Property :=
  ⟨f, d.nodeType, t, (parseD tv).1, requiredDefault d.required (parseD tv).2⟩

def propsOf (d : TagProc) (fields : List ScannedField) : List Property :=
  fields.filterMap fun f =>
    match recognise d f with
    | .yes t tv => some (mkProperty d f t tv)
    | _ => none

def properties (procs : List TagProc) (fields : List ScannedField) : List Property :=
  procs.flatMap fun d => propsOf d fields

/-- the fields a processor can set: a processor is handed Properties only, and writes through `property.Value` -/
def writes (procs : List TagProc) (sh : Shape) : List (List Bytes) :=
  (properties procs (scan sh)).map (·.field.fullPath)

/-! ### the built-in scanners (app/app.go:47-58) and a user-supplied one -/

def tWire : Bytes := ofString "wire"
def tFunc : Bytes := ofString "func"
def tValue : Bytes := ofString "value"
def tProp : Bytes := ofString "prop"
def tPrefix : Bytes := ofString "prefix"
def tLogger : Bytes := ofString "logger"
def ntComponent : Bytes := ofString "Component"
def ntConfiguration : Bytes := ofString "Configuration"
def ntLogger : Bytes := ofString "Logger"

/-- value_aware_post_processors.go:24-34: `prop:"k,args"` ↦ `${k},args` (tag "" ↦ d.Tag); an out-of-range
    slice there is a panic of the scan -/
def valueExtract (f : ScannedField) : Extract :=
  match lookupTag tProp f.info.tags with
  | some tv =>
    match Tag.propShorthand? tv with
    | some t => .yes [] t
    | none => .panic
  | none => .no

/-- properties_aware_post_processors.go:23-29: the ConfigurationProperties marker -/
def markerExtract (f : ScannedField) : Extract :=
  match f.info.marker with
  | some p => .yes [] p
  | none => .no

def procLogger : TagProc := ⟨ntLogger, tLogger, none, true⟩
def procProperties : TagProc := ⟨ntConfiguration, tPrefix, some markerExtract, true⟩
def procValue : TagProc := ⟨ntConfiguration, tValue, some valueExtract, true⟩
def procWire : TagProc := ⟨ntComponent, tWire, none, true⟩
def procFunc : TagProc := ⟨ntComponent, tFunc, none, true⟩

def builtinProcs : List TagProc := [procLogger, procProperties, procValue, procWire, procFunc]

/-- a user component embedding DefaultTagScanDefinitionRegistryPostProcessor{NodeType, Tag} -/
def customProc (nodeType tag : Bytes) : TagProc := ⟨nodeType, tag, none, false⟩

/-! ### specification vocabulary (used by the C11 theorems, not by the scanner) -/

def Shape.toList : Shape → List FieldT
  | .nil => []
  | .cons f r => f :: r.toList

/-- `Reach sh path i`: the declaration `i` is a field (a leaf, or a struct the scanner does not descend into)
    lying in `sh` below exactly the structs named by `path`, every one of them anonymous, untagged and by value -/
inductive Reach : Shape → List Bytes → FInfo → Prop
  | leaf {sh i} : FieldT.leaf i ∈ sh.toList → Reach sh [] i
  | struct {sh i anon byv fs} : FieldT.struct i anon byv fs ∈ sh.toList → descends i anon byv = false → Reach sh [] i
  | down {sh j anon byv fs p i} : FieldT.struct j anon byv fs ∈ sh.toList → descends j anon byv = true →
      Reach fs p i → Reach sh (j.name :: p) i

/-- an ExtractHandler that looks at the field's declaration and value only, not at where it is embedded -/
def PathIndep (d : TagProc) : Prop :=
  ∀ h, d.extract = some h → ∀ f g : ScannedField, f.info = g.info → h f = h g

/-- no ExtractHandler panics on these fields -/
def NoPanic (procs : List TagProc) (fields : List ScannedField) : Prop :=
  ∀ d ∈ procs, ∀ f ∈ fields, recognise d f ≠ .panic

/-- a property without its holder chain -/
def Property.erase (p : Property) : FInfo × Bytes × Bytes × Bytes × Tag.Args :=
  (p.field.info, p.nodeType, p.tag, p.tagVal, p.args)

/-! ### which properties a component post-processor is handed (ResolveAfterInstantiation)

    container/factory/post_processor_registration_delegate.go:213-231.  The properties built above are stored in the
    component's Meta; when the component is created every InstantiationAware processor of the chain (the built-in tag
    processors, user tag processors, any other user processor) is called with `meta.GetAllProperties()` and picks the
    properties of its own tag. -/

/-- what ONE processor's PostProcessProperties returns for the list it is handed (`none` = nil).  User code: any function. -/
abbrev PropsRet := List Property → Option (List Property)

/-- the data flow of the property list through the loop of ResolveAfterInstantiation:
    `_, err := ipb.PostProcessProperties(meta.GetAllProperties(), meta.Raw, name)` — the list is collected afresh for every
    processor, the list a processor returns is dropped.  Result: what each processor is handed, in chain order. -/
def handedLoop (all : List Property) : List PropsRet → List (List Property)
  | [] => []
  | ret :: rest =>
    let _returned := ret all       -- delegate:221  `_, err := …`: dropped (the `//meta.SetProperties(properties...)` below it is a comment)
    all :: handedLoop all rest     -- delegate:221  the next processor's argument is `meta.GetAllProperties()` again

/-- the filter every tag processor applies to the list it is handed (`if p.Tag != tag { continue }`) -/
def ofTag (tag : Bytes) (handed : List Property) : List Property := handed.filter (fun q => q.tag = tag)

/-! ### a component that is ITSELF a post-processor: by which processors it is populated

    container/factory/post_processor_registration_delegate.go:49-62 (InvokeBeanFactoryPostProcessors), after the sort:

        for _, processor := range f.rawComponentPostProcessors {            -- the SORTED raw processors
            if _, lazy := processor.(definition.LazyInit); !lazy {
                instance, err := factory.GetComponentByName(name(processor)) -- creates AND POPULATES the processor as a component:
                …                                                            -- ResolveAfterInstantiation (delegate:213) ranges over
            }                                                                -- f.componentPostProcessors AS IT IS AT THIS MOMENT
            f.componentPostProcessors = append(f.componentPostProcessors, processor)
        }

    so a non-lazy user post-processor that carries tagged fields of its own has them served by exactly the processors
    registered so far — those sorted ahead of it; every other component is created later (Refresh) under the final chain. -/

/-- a raw post-processor as the loop sees it: who it is, and whether it is a definition.LazyInit -/
structure RawPP (α : Type) where
  id : α
  lazy : Bool
deriving DecidableEq, Repr

/-- the loop; `cpp` = f.componentPostProcessors on entry of the iteration.  Result: for every processor the loop creates
    (the non-lazy ones, in order) the chain it is populated by, and the final f.componentPostProcessors.
    (A failing GetComponentByName ends Run with an error: not C11's subject, see Order.registerLoop for that exit.) -/
def populateLoop {α : Type} : List (RawPP α) → List α → List (α × List α) × List α
  | [], cpp => ([], cpp)
  | p :: rest, cpp =>
    let r := populateLoop rest (cpp ++ [p.id])            -- delegate:60  append, then the next iteration
    (if p.lazy then r.1 else (p.id, cpp) :: r.1, r.2)      -- delegate:52  GetComponentByName: populated under `cpp`

/-- the chain a processor is populated by when the loop creates it (`none`: lazy, or not among the raw processors) -/
def populatedBy {α : Type} [DecidableEq α] (sorted : List (RawPP α)) (cpp : List α) (h : α) : Option (List α) :=
  ((populateLoop sorted cpp).1.find? (fun e => e.1 = h)).map (·.2)

/-- the chain every OTHER component is populated by (created by Refresh, after the loop) -/
def finalChain {α : Type} (sorted : List (RawPP α)) (cpp : List α) : List α := (populateLoop sorted cpp).2

end Scan
end Ioc
