/-
  Ioc.Naming — the name a component is registered under, and the singleton registry's duplicate rule.
  Mirrors
    util/framework_helper/component.go:9-32    GetComponentNameWithAlias / GetComponentName (Naming() wins when non-empty)
    util/reflectx/reflect_x.go:66-81           Id / TypeId: pointer stripped, then path.Join(PkgPath, Name) for named types
    container/support/singleton_registry.go:52-62  RegisterSingleton (same object again = no-op, different object = Panicf)
  Not modelled: unnamed types (`p.Name() == ""` → `p.String()`) — a component is a pointer to a NAMED struct type;
  path.Join's cleaning is the identity on package import paths (no `.`/`..`/`//` elements), only its dropping of an
  empty element is kept.
-/
import Ioc.Basic
namespace Ioc
namespace Naming

/-- path.Join(pkgPath, typeName) on clean elements: empty elements are ignored -/
def joinPath (pkgPath typeName : Bytes) : Bytes :=
  if pkgPath = [] then typeName else pkgPath ++ ofString "/" ++ typeName

/-- GetComponentName: the custom name (NamingComponent.Naming()) if non-empty, else reflectx.Id -/
def componentName (custom pkgPath typeName : Bytes) : Bytes :=
  if custom ≠ [] then custom else joinPath pkgPath typeName

/-- RegisterSingleton with the name already computed; objects are identities (pointer equality `exist != singleton`).
    `.error ()` = the Panicf -/
def register (reg : List (Bytes × Nat)) (name : Bytes) (obj : Nat) : Except Unit (List (Bytes × Nat)) :=
  match alookup name reg with
  | some e => if e = obj then .ok reg else .error ()
  | none => .ok (reg ++ [(name, obj)])

/-- GetSingleton by name -/
def lookup (reg : List (Bytes × Nat)) (name : Bytes) : Option Nat := alookup name reg

/-- one registration attempt inside a history: an attempt that panics (recovered by the caller, or silenced by the
    log level) leaves the registry as it was -/
def attempt (reg : List (Bytes × Nat)) (op : Bytes × Nat) : List (Bytes × Nat) :=
  match register reg op.1 op.2 with
  | .ok r' => r'
  | .error _ => reg

/-- a history of registration attempts -/
def registerAll (reg : List (Bytes × Nat)) (ops : List (Bytes × Nat)) : List (Bytes × Nat) :=
  ops.foldl attempt reg

end Naming
end Ioc
