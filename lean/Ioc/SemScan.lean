/-
  Ioc.SemScan — interpretation of the primitives of the REGENERATED ResolveAfterInstantiation
  (container/factory/post_processor_registration_delegate.go:213-231, `Progs.del_ResolveAfterInstantiation`) for the question
  C11 asks of it: WHICH property list is each processor handed?  (Ioc.SemDelegate reads the same program for C12's question,
  the order of the calls.)

  Every processor of the chain is InstantiationAware and answers `true` to PostProcessAfterInstantiation (a processor that
  is skipped is handed nothing).  `all` is the value `meta.GetAllProperties()` evaluates to; `ret p handed` is what
  processor p's PostProcessProperties RETURNS for the list it is handed — an arbitrary value (nil, the same list, a partial,
  empty or reordered list, …).  The world is the log of (processor, list it was handed).
-/
import Ioc.GoSem
import Ioc.SemInit
import Ioc.Generated.Progs
namespace Ioc.Sem
open Ioc Ioc.Go

def handFn (procs : List Nat) (all : Val) (ret : Nat → Val → Val) :
    String → List Val → List (Nat × Val) → Option (Val × List (Nat × Val))
  | "$self.componentPostProcessors", [], w => some (.list (procs.map encP), w)
  | "assert2:container.InstantiationAwareComponentPostProcessor", [.ref p 0], w => some (.tuple [.ref p 1, .bool true], w)
  | ".Raw", [_], w => some (.str "raw", w)
  | ".GetAllProperties", [_], w => some (all, w)
  | ".PostProcessAfterInstantiation", [.ref _ 1, _, _], w => some (.tuple [.bool true, .nil], w)
  | ".PostProcessProperties", [.ref p 1, handed, _, _], w => some (.tuple [ret p handed, .nil], w ++ [(p, handed)])
  | "errors.Wrapf", _, w => some (errN, w)
  | _, _, _ => none

def handPrims (procs : List Nat) (all : Val) (ret : Nat → Val → Val) : Prims (List (Nat × Val)) :=
  { fn := handFn procs all ret }

end Ioc.Sem
