/-
  Ioc.SemStages — interpretation of the primitives called by the REGENERATED programs of the configuration stages:
    container/processors/properties_aware_post_processors.go      PostProcessProperties   (prefix)
    container/processors/value_aware_post_processors.go           PostProcessProperties   (value)
    container/processors/validate_aware_post_processors.go        PostProcessProperties   (validate)
    container/processors/config_quote_aware_post_processors.go    PostProcessProperties   (`${…}`, with its callback)
    container/processors/expression_tag_aware_post_processors.go  PostProcessProperties   (`#{…}`, with its callback)
    util/el/el.go                                                 ReplaceAllContent       (the bounded replacement loop)
  and the DECISION each of them takes per property node, written once as a function of a few answers
  (`prefixDecision`, `valueDecision`, `validateDecision`, `quoteDecision`) so that the regenerated code (theorems in
  IocProofs/Lemmas/SemStages) and the hand-written model of the stages (Ioc.Value, Ioc.Placeholder) are both shown to
  compute it.

  Property nodes are `.ref i 20`; configuration values and parsed values are `.nil` or `.ref a 30`; errors are strings.
  The world is the log of what happened to the nodes (`SEv`), so ORDER and ABSENCE of effects are part of every statement;
  `prop.TagVal` is read through the log (the last stage that stored it wins).
-/
import Ioc.GoSem
import Ioc.Generated.Progs
import Ioc.Generated.Facts
namespace Ioc.Sem
open Ioc Ioc.Go

/-- one property node as the configuration stages see it -/
structure SProp where
  tag : String := ""                 -- prop.Tag ("prefix", "value", "wire", …)
  tagStr : String := ""              -- prop.TagStr: the tag text as written
  tagVal : String := ""              -- prop.TagVal before any stage stored into it
  required : Bool := false           -- prop.IsRequired()
  cfgType : Bool := false            -- prop.PropertyType == PropertyTypeConfiguration
  validate : Option (List String) := none   -- prop.Args().Find("validate")
  isPtr : Bool := false              -- prop.Type.Kind() == reflect.Pointer
  isNil : Bool := false              -- prop.Value.IsNil()
  isStruct : Bool := false           -- the (pointee) type is a struct
  isTime : Bool := false             -- … convertible to time.Time (validated as a variable)
  canIface : Bool := true            -- prop.Value.CanInterface()

def SProp.dflt : SProp := {}

def spropAt (props : List SProp) (i : Nat) : SProp := props.getD i .dflt

/-- what happened, in order -/
inductive SEv
  | setCfg (i : Nat) (key : String) (v : Option Nat)   -- prop.SetConfiguration(key, value)
  | unmarshal (i : Nat) (v : Nat)                      -- prop.Unmarshall(value)
  | setTagVal (i : Nat) (s : String)                   -- prop.TagVal = s
  | vStruct (i : Nat)                                  -- validator.Struct(prop.Value.Interface())
  | vVar (i : Nat) (cs : String)                       -- validator.Var(prop.Value.Interface(), cs)
deriving Repr, DecidableEq

abbrev SW := List SEv

/-- the last text stored into `prop.TagVal` of node i, if any -/
def lastTagVal : SW → Nat → Option String
  | [], _ => none
  | ev :: rest, i =>
    match lastTagVal rest i with
    | some s => some s
    | none => match ev with
      | .setTagVal j s => if j = i then some s else none
      | _ => none

/-- `prop.TagVal` now: the last store, else the text the scan left there -/
def tagValNow (props : List SProp) (w : SW) (i : Nat) : String := (lastTagVal w i).getD (spropAt props i).tagVal

def encCV : Option Nat → Val
  | none => .nil
  | some a => .ref a 30

def encErr : Option String → Val
  | none => .nil
  | some e => .str e

/-- what a stage decides for one node -/
inductive Decision (ε : Type)
  | skip                 -- nothing is bound, no error
  | fail (e : ε)
  | bind                 -- the value was decoded into the field
deriving Repr, DecidableEq

/-- properties_aware_post_processors.go:52-66: absent and required → error, absent → skip, else the decoder's verdict -/
def prefixDecision {ε : Type} (absent required : Bool) (reqErr : ε) (unm : Option ε) : Decision ε :=
  if absent then (if required then .fail reqErr else .skip)
  else match unm with
    | none => .bind
    | some e => .fail e

/-- value_aware_post_processors.go:52-68: empty text and required → error, empty → skip, else parse, then decode -/
def valueDecision {ε α : Type} (empty required : Bool) (reqErr : ε) (parse : Except ε α) (unm : α → Option ε) : Decision ε :=
  if empty then (if required then .fail reqErr else .skip)
  else match parse with
    | .error e => .fail e
    | .ok v => match unm v with
      | none => .bind
      | some e => .fail e

/-! ### the prefix and the value loop -/

def encParse : Except String Nat → Val
  | .ok a => .tuple [.ref a 30, .nil]
  | .error e => .tuple [.nil, .str e]

/-- `cfg k` = Configure.Get(k) (`none` = nil); `unm i a` = what prop.Unmarshall answers for node i and value a (`none` = nil);
    `parse s` = strconv2.ParseAny(s) -/
def stageFn (props : List SProp) (cfg : String → Option Nat) (unm : Nat → Nat → Option String) (parse : String → Except String Nat) :
    String → List Val → SW → Option (Val × SW)
  | "$definition.PrefixTag", [], w => some (.str "prefix", w)
  | "$definition.ValueTag", [], w => some (.str "value", w)
  | ".Tag", [.ref i 20], w => some (.str (spropAt props i).tag, w)
  | ".TagVal", [.ref i 20], w => some (.str (tagValNow props w i), w)
  | ".IsRequired", [.ref i 20], w => some (.bool (spropAt props i).required, w)
  | "self.Configure.Get", [.str k], w => some (encCV (cfg k), w)
  | ".SetConfiguration", [.ref i 20, .str k, .nil], w => some (.tuple [], w ++ [.setCfg i k none])
  | ".SetConfiguration", [.ref i 20, .str k, .ref a 30], w => some (.tuple [], w ++ [.setCfg i k (some a)])
  | ".Unmarshall", [.ref i 20, .ref a 30], w => some (encErr (unm i a), w ++ [.unmarshal i a])
  | "strconv2.ParseAny", [.str s], w => some (encParse (parse s), w)
  | "errors.Errorf", _, w => some (.str "required", w)
  | "errors.WithMessagef", e :: _, w => some (e, w)
  | _, _, _ => none

section eqs
variable (props : List SProp) (cfg : String → Option Nat) (unm : Nat → Nat → Option String) (parse : String → Except String Nat)
theorem stageFn_prefixTag (w : SW) : stageFn props cfg unm parse "$definition.PrefixTag" [] w = some (.str "prefix", w) := rfl
theorem stageFn_valueTag (w : SW) : stageFn props cfg unm parse "$definition.ValueTag" [] w = some (.str "value", w) := rfl
theorem stageFn_Tag (i : Nat) (w : SW) : stageFn props cfg unm parse ".Tag" [.ref i 20] w = some (.str (spropAt props i).tag, w) := rfl
theorem stageFn_TagVal (i : Nat) (w : SW) : stageFn props cfg unm parse ".TagVal" [.ref i 20] w = some (.str (tagValNow props w i), w) := rfl
theorem stageFn_IsRequired (i : Nat) (w : SW) : stageFn props cfg unm parse ".IsRequired" [.ref i 20] w = some (.bool (spropAt props i).required, w) := rfl
theorem stageFn_Get (k : String) (w : SW) : stageFn props cfg unm parse "self.Configure.Get" [.str k] w = some (encCV (cfg k), w) := rfl
theorem stageFn_SetCfgNil (i : Nat) (k : String) (w : SW) :
    stageFn props cfg unm parse ".SetConfiguration" [.ref i 20, .str k, .nil] w = some (.tuple [], w ++ [.setCfg i k none]) := rfl
theorem stageFn_SetCfg (i a : Nat) (k : String) (w : SW) :
    stageFn props cfg unm parse ".SetConfiguration" [.ref i 20, .str k, .ref a 30] w = some (.tuple [], w ++ [.setCfg i k (some a)]) := rfl
theorem stageFn_Unmarshall (i a : Nat) (w : SW) :
    stageFn props cfg unm parse ".Unmarshall" [.ref i 20, .ref a 30] w = some (encErr (unm i a), w ++ [.unmarshal i a]) := rfl
theorem stageFn_ParseAny (s : String) (w : SW) : stageFn props cfg unm parse "strconv2.ParseAny" [.str s] w = some (encParse (parse s), w) := rfl
theorem stageFn_Errorf (args : List Val) (w : SW) : stageFn props cfg unm parse "errors.Errorf" args w = some (.str "required", w) := rfl
theorem stageFn_WithMessagef (e : Val) (args : List Val) (w : SW) :
    stageFn props cfg unm parse "errors.WithMessagef" (e :: args) w = some (e, w) := rfl
end eqs

def stagePrims (props : List SProp) (cfg : String → Option Nat) (unm : Nat → Nat → Option String) (parse : String → Except String Nat) :
    Prims SW := { fn := stageFn props cfg unm parse }

/-- the prefix stage on node i: events and, when the stage fails, the error -/
def prefixNode (props : List SProp) (cfg : String → Option Nat) (unm : Nat → Nat → Option String) (i : Nat) (w : SW) :
    SW × Option String :=
  let p := spropAt props i
  if p.tag != "prefix" then (w, none) else
  let k := tagValNow props w i
  let w1 := w ++ [.setCfg i k (cfg k)]
  match cfg k with
  | none => (w1, if p.required then some "required" else none)
  | some a => (w1 ++ [.unmarshal i a], unm i a)

/-- … and the decision it is an instance of -/
def prefixNodeDecision (props : List SProp) (cfg : String → Option Nat) (unm : Nat → Nat → Option String) (i : Nat) (w : SW) :
    Decision String :=
  let k := tagValNow props w i
  prefixDecision (cfg k).isNone (spropAt props i).required "required" ((cfg k).bind (unm i))

/-- the value stage on node i -/
def valueNode (props : List SProp) (unm : Nat → Nat → Option String) (parse : String → Except String Nat) (i : Nat) (w : SW) :
    SW × Option String :=
  let p := spropAt props i
  if p.tag != "value" then (w, none) else
  let s := tagValNow props w i
  if s == "" then (w, if p.required then some "required" else none) else
  match parse s with
  | .error e => (w, some e)
  | .ok a => (w ++ [.unmarshal i a], unm i a)

def valueNodeDecision (props : List SProp) (unm : Nat → Nat → Option String) (parse : String → Except String Nat) (i : Nat) (w : SW) :
    Decision String :=
  let s := tagValNow props w i
  valueDecision (s == "") (spropAt props i).required "required" (parse s) (unm i)

/-- a stage over the nodes in order: the first failure ends it -/
def stageLoop (node : Nat → SW → SW × Option String) : List Nat → SW → SW × Option String
  | [], w => (w, none)
  | i :: rest, w =>
    match node i w with
    | (w', none) => stageLoop node rest w'
    | (w', some e) => (w', some e)

/-! ### the validate loop -/

/-- validate_aware_post_processors.go:38-62: only configuration nodes with a `validate` argument; a nil pointer is skipped;
    a struct (or pointer to struct) that is NOT a time value goes to validator.Struct, anything else that can be read —
    time values included (fix of defect D25) — to validator.Var; `isStruct` below = "struct and not convertible to time.Time" -/
def validateDecision {ε α : Type} (cfgType : Bool) (arg : Option α) (nilPtr isStruct canIface : Bool) (vs : Option ε)
    (vv : α → Option ε) : Decision ε :=
  if !cfgType then .skip else
  match arg with
  | none => .skip
  | some a =>
    if nilPtr then .skip else
    if isStruct then (match vs with | none => .bind | some e => .fail e)
    else if canIface then (match vv a with | none => .bind | some e => .fail e)
    else .skip

def strsOf : List Val → Option (List String)
  | [] => some []
  | .str s :: rest => (strsOf rest).map (s :: ·)
  | _ :: _ => none

theorem strsOf_map (ts : List String) : strsOf (ts.map Val.str) = some ts := by
  induction ts with
  | nil => rfl
  | cons t rest ih => simp [strsOf, ih]

/-- `vS i` = validator.Struct on the value of node i, `vV i cs` = validator.Var with the constraint text `cs` -/
def validFn (props : List SProp) (vS : Nat → Option String) (vV : Nat → String → Option String) :
    String → List Val → SW → Option (Val × SW)
  | "$component_definition.PropertyTypeConfiguration", [], w => some (.str "configuration", w)
  | "$ArgValidate", [], w => some (.str "validate", w)
  | "$reflect.Pointer", [], w => some (.str "ptr", w)
  | "$reflect.Struct", [], w => some (.str "struct", w)
  | "$timeType", [], w => some (.str "time.Time", w)
  | ".ConvertibleTo", [.ref i 21, .str "time.Time"], w => some (.bool (spropAt props i).isTime, w)
  | ".ConvertibleTo", [.ref i 23, .str "time.Time"], w => some (.bool (spropAt props i).isTime, w)
  | ".PropertyType", [.ref i 20], w => some (.str (if (spropAt props i).cfgType then "configuration" else "component"), w)
  | ".Args", [.ref i 20], w => some (.ref i 22, w)
  | ".Find", [.ref i 22, .str "validate"], w =>
      some (match (spropAt props i).validate with
            | none => .tuple [.nil, .bool false]
            | some ts => .tuple [.list (ts.map Val.str), .bool true], w)
  | ".Type", [.ref i 20], w => some (.ref i 21, w)
  | ".Kind", [.ref i 21], w =>
      some (.str (if (spropAt props i).isPtr then "ptr" else if (spropAt props i).isStruct then "struct" else "other"), w)
  | ".Elem", [.ref i 21], w => some (.ref i 23, w)
  | ".Kind", [.ref i 23], w => some (.str (if (spropAt props i).isStruct then "struct" else "other"), w)
  | ".Value", [.ref i 20], w => some (.ref i 24, w)
  | ".IsNil", [.ref i 24], w => some (.bool (spropAt props i).isNil, w)
  | ".CanInterface", [.ref i 24], w => some (.bool (spropAt props i).canIface, w)
  | ".Interface", [.ref i 24], w => some (.ref i 25, w)
  | "self.v.Struct", [.ref i 25], w => some (encErr (vS i), w ++ [.vStruct i])
  | "self.v.Var", [.ref i 25, .str cs], w => some (encErr (vV i cs), w ++ [.vVar i cs])
  | "strings.Join", [.list vs, .str sep], w => (strsOf vs).map (fun ss => (.str (sep.intercalate ss), w))
  | "errors.Wrapf", e :: _, w => some (e, w)
  | _, _, _ => none

section veqs
variable (props : List SProp) (vS : Nat → Option String) (vV : Nat → String → Option String)
theorem validFn_cfgType (w : SW) : validFn props vS vV "$component_definition.PropertyTypeConfiguration" [] w = some (.str "configuration", w) := rfl
theorem validFn_argValidate (w : SW) : validFn props vS vV "$ArgValidate" [] w = some (.str "validate", w) := rfl
theorem validFn_rPointer (w : SW) : validFn props vS vV "$reflect.Pointer" [] w = some (.str "ptr", w) := rfl
theorem validFn_rStruct (w : SW) : validFn props vS vV "$reflect.Struct" [] w = some (.str "struct", w) := rfl
theorem validFn_timeType (w : SW) : validFn props vS vV "$timeType" [] w = some (.str "time.Time", w) := rfl
theorem validFn_Conv (i : Nat) (w : SW) : validFn props vS vV ".ConvertibleTo" [.ref i 21, .str "time.Time"] w =
    some (.bool (spropAt props i).isTime, w) := rfl
theorem validFn_ConvElem (i : Nat) (w : SW) : validFn props vS vV ".ConvertibleTo" [.ref i 23, .str "time.Time"] w =
    some (.bool (spropAt props i).isTime, w) := rfl
theorem validFn_PropertyType (i : Nat) (w : SW) : validFn props vS vV ".PropertyType" [.ref i 20] w =
    some (.str (if (spropAt props i).cfgType then "configuration" else "component"), w) := rfl
theorem validFn_Args (i : Nat) (w : SW) : validFn props vS vV ".Args" [.ref i 20] w = some (.ref i 22, w) := rfl
theorem validFn_Find (i : Nat) (w : SW) : validFn props vS vV ".Find" [.ref i 22, .str "validate"] w =
    some (match (spropAt props i).validate with
          | none => .tuple [.nil, .bool false]
          | some ts => .tuple [.list (ts.map Val.str), .bool true], w) := rfl
theorem validFn_Type (i : Nat) (w : SW) : validFn props vS vV ".Type" [.ref i 20] w = some (.ref i 21, w) := rfl
theorem validFn_Kind (i : Nat) (w : SW) : validFn props vS vV ".Kind" [.ref i 21] w =
    some (.str (if (spropAt props i).isPtr then "ptr" else if (spropAt props i).isStruct then "struct" else "other"), w) := rfl
theorem validFn_Elem (i : Nat) (w : SW) : validFn props vS vV ".Elem" [.ref i 21] w = some (.ref i 23, w) := rfl
theorem validFn_KindElem (i : Nat) (w : SW) : validFn props vS vV ".Kind" [.ref i 23] w =
    some (.str (if (spropAt props i).isStruct then "struct" else "other"), w) := rfl
theorem validFn_Value (i : Nat) (w : SW) : validFn props vS vV ".Value" [.ref i 20] w = some (.ref i 24, w) := rfl
theorem validFn_IsNil (i : Nat) (w : SW) : validFn props vS vV ".IsNil" [.ref i 24] w = some (.bool (spropAt props i).isNil, w) := rfl
theorem validFn_CanInterface (i : Nat) (w : SW) : validFn props vS vV ".CanInterface" [.ref i 24] w = some (.bool (spropAt props i).canIface, w) := rfl
theorem validFn_Interface (i : Nat) (w : SW) : validFn props vS vV ".Interface" [.ref i 24] w = some (.ref i 25, w) := rfl
theorem validFn_Struct (i : Nat) (w : SW) : validFn props vS vV "self.v.Struct" [.ref i 25] w = some (encErr (vS i), w ++ [.vStruct i]) := rfl
theorem validFn_Var (i : Nat) (cs : String) (w : SW) : validFn props vS vV "self.v.Var" [.ref i 25, .str cs] w =
    some (encErr (vV i cs), w ++ [.vVar i cs]) := rfl
theorem validFn_Join (vs : List Val) (sep : String) (w : SW) : validFn props vS vV "strings.Join" [.list vs, .str sep] w =
    (strsOf vs).map (fun ss => (.str (sep.intercalate ss), w)) := rfl
theorem validFn_Wrapf (e : Val) (args : List Val) (w : SW) : validFn props vS vV "errors.Wrapf" (e :: args) w = some (e, w) := rfl
end veqs

def validPrims (props : List SProp) (vS : Nat → Option String) (vV : Nat → String → Option String) : Prims SW :=
  { fn := validFn props vS vV }

/-- the validate stage on node i -/
def validateNode (props : List SProp) (vS : Nat → Option String) (vV : Nat → String → Option String) (i : Nat) (w : SW) :
    SW × Option String :=
  let p := spropAt props i
  if !p.cfgType then (w, none) else
  match p.validate with
  | none => (w, none)
  | some ts =>
    if p.isPtr && p.isNil then (w, none) else
    if p.isStruct && !p.isTime then (w ++ [.vStruct i], vS i)
    else if p.canIface then (w ++ [.vVar i (",".intercalate ts)], vV i (",".intercalate ts))
    else (w, none)

def validateNodeDecision (props : List SProp) (vS : Nat → Option String) (vV : Nat → String → Option String) (i : Nat) :
    Decision String :=
  let p := spropAt props i
  validateDecision p.cfgType p.validate (p.isPtr && p.isNil) (p.isStruct && !p.isTime) p.canIface (vS i) (fun ts => vV i (",".intercalate ts))

/-! ### util/el ReplaceAllContent: the bounded replacement loop, for ANY callback (which may change the world) -/

/-- the string operations the loop uses, over any type of strings `S`:
    `find s` = FindString (the EMPTY string when nothing matches), `content elr` = the match without its delimiters,
    `replace1 s old new` = strings.Replace(s, old, new, 1) -/
structure ElOps (S : Type) where
  find : S → S
  isEmpty : S → Bool
  content : S → S
  replace1 : S → S → S → S

/-- el.go:42-61 as a function: `fuel` rounds at most are interpreted (`none` beyond), `round` counts replacements,
    `bound` = maxReplaceRounds -/
def elLoop {S σ ε : Type} (ops : ElOps S) (cb : S → σ → Except ε S × σ) (boundErr : ε) (bound : Nat) :
    Nat → Nat → S → σ → Option (Except ε S × σ)
  | 0, _, _, _ => none
  | fuel + 1, round, s, w =>
    if ops.isEmpty (ops.find s) then some (.ok s, w)
    else if round ≥ bound then some (.error boundErr, w)
    else match cb (ops.content (ops.find s)) w with
      | (.error e, w') => some (.error e, w')
      | (.ok r, w') => elLoop ops cb boundErr bound fuel (round + 1) (ops.replace1 s (ops.find s) r) w'

def encStrRes : Except String String → Val
  | .ok r => .tuple [.str r, .nil]
  | .error e => .tuple [.str "", .str e]

/-- the callback is `.ref 0 40`; calling it is the primitive `.call` -/
def elFn {σ : Type} (ops : ElOps String) (cb : String → σ → Except String String × σ) (bound : Nat) :
    String → List Val → σ → Option (Val × σ)
  | "self.FindString", [.str s], w => some (.str (ops.find s), w)
  | "self.content", [.str s], w => some (.str (ops.content s), w)
  | ".call", [.ref 0 40, .str c], w => some (encStrRes (cb c w).1, (cb c w).2)
  | "strings.Replace", [.str s, .str old, .str new, .int 1], w => some (.str (ops.replace1 s old new), w)
  | "$maxReplaceRounds", [], w => some (.int bound, w)
  | "fmt.Errorf", _, w => some (.str "unresolved", w)
  | _, _, _ => none

def elPrims {σ : Type} (ops : ElOps String) (cb : String → σ → Except String String × σ) (bound fuel : Nat) : Prims σ :=
  { fn := elFn ops cb bound, fuel := fuel }

/-! ### the quote stage: PostProcessProperties with its callback -/

/-- the loop over a function literal (what the primitive `self.el.ReplaceAllContent` does with the literal it is given) -/
def elLoopK {σ : Type} (ops : ElOps String) (k : Handler σ) (bound : Nat) : Nat → Nat → String → σ → Option (Val × σ)
  | 0, _, _, _ => none
  | fuel + 1, round, s, w =>
    if ops.find s == "" then some (.tuple [.str s, .nil], w)
    else if round ≥ bound then some (.tuple [.str "", .str "unresolved"], w)
    else match k [.str (ops.content (ops.find s))] w with
      | some (.tuple [.str r, .nil], w') => elLoopK ops k bound fuel (round + 1) (ops.replace1 s (ops.find s) r) w'
      | some (.tuple [.str _, .str e], w') => some (.tuple [.str "", .str e], w')
      | _ => none

inductive QKind | scalar | map | list
deriving DecidableEq, Repr

def QKind.code : QKind → Nat
  | .scalar => 30
  | .map => 31
  | .list => 32

/-- a configured value: identity and kind -/
abbrev QV := Nat × QKind

def encQV : Option QV → Val
  | none => .nil
  | some (a, k) => .ref a k.code

/-- config_quote_aware_post_processors.go:56-62: nil, an empty map and an empty list count as absent -/
def quoteAbsent (lenOf : Nat → Nat) : Option QV → Bool
  | none => true
  | some (a, .map) => lenOf a == 0
  | some (a, .list) => lenOf a == 0
  | some (_, .scalar) => false

/-- lines 50-92 as a decision: which value is recorded and formatted — the configured one, the parsed default, or nothing;
    a default that does not parse is an error BEFORE anything is recorded -/
def quoteDecision {ε α S : Type} (absent : Bool) (configured : α) (dflt : Option S) (dEmpty : S → Bool)
    (parse : S → Except ε α) : Except ε (Option α) :=
  if absent then
    match dflt with
    | none => .ok none
    | some d => if dEmpty d then .ok none else (parse d).map some
  else .ok (some configured)

/-- the callback on node i: `splitN` = strings.SplitN(exp, ":", 2), `cfg` = Configure.Get, `parse` = strconv2.ParseAny,
    `fmtAny` = strconv2.FormatAny -/
def quoteCb (splitN : String → String × Option String) (cfg : String → Option QV) (lenOf : Nat → Nat)
    (parse : String → Except String Nat) (fmtAny : Nat → Except String String) (i : Nat) (exp : String) (w : SW) :
    Except String String × SW :=
  let key := (splitN exp).1
  match quoteDecision (quoteAbsent lenOf (cfg key)) ((cfg key).map (·.1) |>.getD 0) (splitN exp).2 (· == "") parse with
  | .error e => (.error e, w)
  | .ok none => (.ok "", w ++ [.setCfg i key none])
  | .ok (some a) => (fmtAny a, w ++ [.setCfg i key (some a)])

def quoteFn (props : List SProp) (ops : ElOps String) (splitN : String → String × Option String) (cfg : String → Option QV)
    (lenOf : Nat → Nat) (parse : String → Except String Nat) (fmtAny : Nat → Except String String) :
    String → List Val → SW → Option (Val × SW)
  | "self.el.MatchString", [.str s], w => some (.bool (!(ops.find s == "")), w)
  | ".TagStr", [.ref i 20], w => some (.str (spropAt props i).tagStr, w)
  | "strings.SplitN", [.str e, .str ":", .int 2], w =>
      some (match (splitN e).2 with
            | none => .list [.str (splitN e).1]
            | some d => .list [.str (splitN e).1, .str d], w)
  | "self.Configure.Get", [.str k], w => some (encQV (cfg k), w)
  | "assert2:map[string]any", [.ref a 31], w => some (.tuple [.list (List.replicate (lenOf a) .nil), .bool true], w)
  | "assert2:map[string]any", [.ref _ _], w => some (.tuple [.nil, .bool false], w)
  | "assert2:[]any", [.ref a 32], w => some (.tuple [.list (List.replicate (lenOf a) .nil), .bool true], w)
  | "assert2:[]any", [.ref _ _], w => some (.tuple [.nil, .bool false], w)
  | "strconv2.ParseAny", [.str s], w => some (encParse (parse s), w)
  | "strconv2.FormatAny", [.ref a _], w => some (encStrRes (fmtAny a), w)
  | ".SetConfiguration", [.ref i 20, .str k, .nil], w => some (.tuple [], w ++ [.setCfg i k none])
  | ".SetConfiguration", [.ref i 20, .str k, .ref a _], w => some (.tuple [], w ++ [.setCfg i k (some a)])
  | ".set:TagVal", [.ref i 20, .str s], w => some (.tuple [], w ++ [.setTagVal i s])
  | "errors.Wrapf", e :: _, w => some (e, w)
  | "errors.WithMessagef", e :: _, w => some (e, w)
  | _, _, _ => none

section qeqs
variable (props : List SProp) (ops : ElOps String) (splitN : String → String × Option String) (cfg : String → Option QV)
  (lenOf : Nat → Nat) (parse : String → Except String Nat) (fmtAny : Nat → Except String String)
theorem quoteFn_Match (s : String) (w : SW) : quoteFn props ops splitN cfg lenOf parse fmtAny "self.el.MatchString" [.str s] w =
    some (.bool (!(ops.find s == "")), w) := rfl
theorem quoteFn_TagStr (i : Nat) (w : SW) : quoteFn props ops splitN cfg lenOf parse fmtAny ".TagStr" [.ref i 20] w =
    some (.str (spropAt props i).tagStr, w) := rfl
theorem quoteFn_SplitN (e : String) (w : SW) : quoteFn props ops splitN cfg lenOf parse fmtAny "strings.SplitN" [.str e, .str ":", .int 2] w =
    some (match (splitN e).2 with
          | none => .list [.str (splitN e).1]
          | some d => .list [.str (splitN e).1, .str d], w) := rfl
theorem quoteFn_Get (k : String) (w : SW) : quoteFn props ops splitN cfg lenOf parse fmtAny "self.Configure.Get" [.str k] w =
    some (encQV (cfg k), w) := rfl
theorem quoteFn_assertMap31 (a : Nat) (w : SW) : quoteFn props ops splitN cfg lenOf parse fmtAny "assert2:map[string]any" [.ref a 31] w =
    some (.tuple [.list (List.replicate (lenOf a) .nil), .bool true], w) := rfl
theorem quoteFn_assertMap30 (a : Nat) (w : SW) : quoteFn props ops splitN cfg lenOf parse fmtAny "assert2:map[string]any" [.ref a 30] w =
    some (.tuple [.nil, .bool false], w) := rfl
theorem quoteFn_assertMap32 (a : Nat) (w : SW) : quoteFn props ops splitN cfg lenOf parse fmtAny "assert2:map[string]any" [.ref a 32] w =
    some (.tuple [.nil, .bool false], w) := rfl
theorem quoteFn_assertList30 (a : Nat) (w : SW) : quoteFn props ops splitN cfg lenOf parse fmtAny "assert2:[]any" [.ref a 30] w =
    some (.tuple [.nil, .bool false], w) := rfl
theorem quoteFn_assertList31 (a : Nat) (w : SW) : quoteFn props ops splitN cfg lenOf parse fmtAny "assert2:[]any" [.ref a 31] w =
    some (.tuple [.nil, .bool false], w) := rfl
theorem quoteFn_assertList32 (a : Nat) (w : SW) : quoteFn props ops splitN cfg lenOf parse fmtAny "assert2:[]any" [.ref a 32] w =
    some (.tuple [.list (List.replicate (lenOf a) .nil), .bool true], w) := rfl
theorem quoteFn_ParseAny (s : String) (w : SW) : quoteFn props ops splitN cfg lenOf parse fmtAny "strconv2.ParseAny" [.str s] w =
    some (encParse (parse s), w) := rfl
theorem quoteFn_FormatAny (a k : Nat) (w : SW) : quoteFn props ops splitN cfg lenOf parse fmtAny "strconv2.FormatAny" [.ref a k] w =
    some (encStrRes (fmtAny a), w) := rfl
theorem quoteFn_SetCfgNil (i : Nat) (k : String) (w : SW) :
    quoteFn props ops splitN cfg lenOf parse fmtAny ".SetConfiguration" [.ref i 20, .str k, .nil] w = some (.tuple [], w ++ [.setCfg i k none]) := rfl
theorem quoteFn_SetCfg (i a kk : Nat) (k : String) (w : SW) :
    quoteFn props ops splitN cfg lenOf parse fmtAny ".SetConfiguration" [.ref i 20, .str k, .ref a kk] w =
      some (.tuple [], w ++ [.setCfg i k (some a)]) := rfl
theorem quoteFn_setTagVal (i : Nat) (s : String) (w : SW) :
    quoteFn props ops splitN cfg lenOf parse fmtAny ".set:TagVal" [.ref i 20, .str s] w = some (.tuple [], w ++ [.setTagVal i s]) := rfl
theorem quoteFn_Wrapf (e : Val) (args : List Val) (w : SW) :
    quoteFn props ops splitN cfg lenOf parse fmtAny "errors.Wrapf" (e :: args) w = some (e, w) := rfl
theorem quoteFn_WithMessagef (e : Val) (args : List Val) (w : SW) :
    quoteFn props ops splitN cfg lenOf parse fmtAny "errors.WithMessagef" (e :: args) w = some (e, w) := rfl
end qeqs

def quotePrims (props : List SProp) (ops : ElOps String) (splitN : String → String × Option String) (cfg : String → Option QV)
    (lenOf : Nat → Nat) (parse : String → Except String Nat) (fmtAny : Nat → Except String String) (bound fuel : Nat) : Prims SW :=
  { fn := quoteFn props ops splitN cfg lenOf parse fmtAny
    hfn := fun f args k w =>
      match f, args with
      | "self.el.ReplaceAllContent", [.str s] => elLoopK ops k bound fuel 0 s w
      | _, _ => none }

/-- the quote stage on node i: untouched without a match; else the loop over the tag text AS WRITTEN, and the result is
    stored into TagVal only when every replacement succeeded -/
def quoteNode (props : List SProp) (ops : ElOps String) (splitN : String → String × Option String) (cfg : String → Option QV)
    (lenOf : Nat → Nat) (parse : String → Except String Nat) (fmtAny : Nat → Except String String) (bound fuel : Nat)
    (i : Nat) (w : SW) : SW × Option String :=
  let p := spropAt props i
  if ops.find p.tagStr == "" then (w, none) else
  match elLoop ops (quoteCb splitN cfg lenOf parse fmtAny i) "unresolved" bound fuel 0 p.tagStr w with
  | none => (w, some "out of fuel")
  | some (.error e, w') => (w', some e)
  | some (.ok s, w') => (w' ++ [.setTagVal i s], none)

/-! ### the expression stage -/

/-- expression_tag_aware_post_processors.go:42-56: compile, run, format — the first failure is the answer -/
def exprCb (compile : String → Except String Nat) (runP : Nat → Except String Nat) (fmtAny : Nat → Except String String)
    (c : String) (w : SW) : Except String String × SW :=
  match compile c with
  | .error e => (.error e, w)
  | .ok p =>
    match runP p with
    | .error e => (.error e, w)
    | .ok r => (fmtAny r, w)

def encNatRes : Except String Nat → Nat → Val
  | .ok a, k => .tuple [.ref a k, .nil]
  | .error e, _ => .tuple [.nil, .str e]

def exprFn (props : List SProp) (ops : ElOps String) (compile : String → Except String Nat) (runP : Nat → Except String Nat)
    (fmtAny : Nat → Except String String) : String → List Val → SW → Option (Val × SW)
  | "self.el.MatchString", [.str s], w => some (.bool (!(ops.find s == "")), w)
  | ".TagVal", [.ref i 20], w => some (.str (tagValNow props w i), w)
  | "expr.Compile", [.str c], w => some (encNatRes (compile c) 33, w)
  | "expr.Run", [.ref p 33, .nil], w => some (encNatRes (runP p) 30, w)
  | "strconv2.FormatAny", [.ref a 30], w => some (encStrRes (fmtAny a), w)
  | ".set:TagVal", [.ref i 20, .str s], w => some (.tuple [], w ++ [.setTagVal i s])
  | "errors.Wrapf", e :: _, w => some (e, w)
  | "errors.WithMessagef", e :: _, w => some (e, w)
  | _, _, _ => none

section xeqs
variable (props : List SProp) (ops : ElOps String) (compile : String → Except String Nat) (runP : Nat → Except String Nat)
  (fmtAny : Nat → Except String String)
theorem exprFn_Match (s : String) (w : SW) : exprFn props ops compile runP fmtAny "self.el.MatchString" [.str s] w =
    some (.bool (!(ops.find s == "")), w) := rfl
theorem exprFn_TagVal (i : Nat) (w : SW) : exprFn props ops compile runP fmtAny ".TagVal" [.ref i 20] w =
    some (.str (tagValNow props w i), w) := rfl
theorem exprFn_Compile (c : String) (w : SW) : exprFn props ops compile runP fmtAny "expr.Compile" [.str c] w =
    some (encNatRes (compile c) 33, w) := rfl
theorem exprFn_Run (p : Nat) (w : SW) : exprFn props ops compile runP fmtAny "expr.Run" [.ref p 33, .nil] w =
    some (encNatRes (runP p) 30, w) := rfl
theorem exprFn_FormatAny (a : Nat) (w : SW) : exprFn props ops compile runP fmtAny "strconv2.FormatAny" [.ref a 30] w =
    some (encStrRes (fmtAny a), w) := rfl
theorem exprFn_setTagVal (i : Nat) (s : String) (w : SW) :
    exprFn props ops compile runP fmtAny ".set:TagVal" [.ref i 20, .str s] w = some (.tuple [], w ++ [.setTagVal i s]) := rfl
theorem exprFn_Wrapf (e : Val) (args : List Val) (w : SW) :
    exprFn props ops compile runP fmtAny "errors.Wrapf" (e :: args) w = some (e, w) := rfl
theorem exprFn_WithMessagef (e : Val) (args : List Val) (w : SW) :
    exprFn props ops compile runP fmtAny "errors.WithMessagef" (e :: args) w = some (e, w) := rfl
end xeqs

def exprPrims (props : List SProp) (ops : ElOps String) (compile : String → Except String Nat) (runP : Nat → Except String Nat)
    (fmtAny : Nat → Except String String) (bound fuel : Nat) : Prims SW :=
  { fn := exprFn props ops compile runP fmtAny
    hfn := fun f args k w =>
      match f, args with
      | "self.el.ReplaceAllContent", [.str s] => elLoopK ops k bound fuel 0 s w
      | _, _ => none }

/-- the expression stage on node i: works on TagVal AS IT IS NOW (what the quote stage left there) -/
def exprNode (props : List SProp) (ops : ElOps String) (compile : String → Except String Nat) (runP : Nat → Except String Nat)
    (fmtAny : Nat → Except String String) (bound fuel : Nat) (i : Nat) (w : SW) : SW × Option String :=
  let tv := tagValNow props w i
  if ops.find tv == "" then (w, none) else
  match elLoop ops (exprCb compile runP fmtAny) "unresolved" bound fuel 0 tv w with
  | none => (w, some "out of fuel")
  | some (.error e, w') => (w', some e)
  | some (.ok s, w') => (w' ++ [.setTagVal i s], none)

end Ioc.Sem
