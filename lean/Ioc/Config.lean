/-
  Ioc.Config — M6: configuration sources.
  Mirrors
    configure/configure.go:55-75     loadConfigure  (SortOrderedComponents, then Binder.SetConfig per non-empty output,
                                     `return err` on the first failing loader)
    util/framework_helper/order_component.go:8-39   SortOrderedComponents (partition into priority / ordered / rest,
                                     sort the first two by Order(), concatenate)
    configure/binder/viper.go:26-32  SetConfig = viper.MergeConfig  (third party, MODELLED: spf13/viper v1.19.0
                                     viper.go:1696-1715 MergeConfig/MergeConfigMap, viper.go:1878-1954 mergeMaps,
                                     util.go:73-100 insensitiviseVal/insensitiviseMap)
    configure/binder/viper.go:34-39  Get  (viper.AllSettings for "", viper.Get otherwise)
    configure/loader/{raw,file,args}.go   the three loaders; FileLoader is Priority with Order 0
    app/options.go:40-66, configure/configure.go:28-34   SetConfig / SetConfigLoader / AddConfigLoader / SetConfigure,
                                     Configure.AddLoaders / SetLoaders
    app/app.go:27-35, configure/configure.go:21-26       NewApp → configure.Default() = [ArgsLoader(os.Args)]
    app/global_option.go:3-7, app/app.go:65-68           Settings appends to the package-level list; Run applies the
                                     call's options, then ALL registered ones, on every call (`runApp`, `runProc`)

  A Go map is an association list with unique keys (`Cfg.wf`); which entry comes first never matters
  (lookups are by key, output is sorted).
-/
import Ioc.Basic
namespace Ioc
namespace Config

/-! ### configuration trees -/

/-- a YAML scalar as the binder hands it out: `null`, or a value identified by its `fmt %v` text -/
inductive Scalar
  | null
  | val (b : Bytes)
  deriving DecidableEq, Repr

abbrev Key := Bytes
abbrev Path := List Key

inductive Cfg
  | scalar (s : Scalar)
  | list (l : List Cfg)
  | map (kvs : List (Key × Cfg))
  deriving Repr

abbrev Kvs := List (Key × Cfg)

mutual
def Cfg.decEq : (x y : Cfg) → Decidable (x = y)
  | .scalar a, .scalar b => if h : a = b then isTrue (by rw [h]) else isFalse (by intro e; cases e; exact h rfl)
  | .list a, .list b => match decEqList a b with
    | isTrue h => isTrue (by rw [h])
    | isFalse h => isFalse (by intro e; cases e; exact h rfl)
  | .map a, .map b => match decEqKvs a b with
    | isTrue h => isTrue (by rw [h])
    | isFalse h => isFalse (by intro e; cases e; exact h rfl)
  | .scalar _, .list _ | .scalar _, .map _ | .list _, .scalar _ | .list _, .map _ | .map _, .scalar _ | .map _, .list _ =>
    isFalse (by intro e; cases e)
def decEqList : (x y : List Cfg) → Decidable (x = y)
  | [], [] => isTrue rfl
  | [], _ :: _ | _ :: _, [] => isFalse (by intro e; cases e)
  | a :: as, b :: bs => match Cfg.decEq a b, decEqList as bs with
    | isTrue h1, isTrue h2 => isTrue (by rw [h1, h2])
    | isFalse h, _ => isFalse (by intro e; cases e; exact h rfl)
    | _, isFalse h => isFalse (by intro e; cases e; exact h rfl)
def decEqKvs : (x y : Kvs) → Decidable (x = y)
  | [], [] => isTrue rfl
  | [], _ :: _ | _ :: _, [] => isFalse (by intro e; cases e)
  | (k, a) :: as, (k', b) :: bs =>
    if hk : k = k' then
      match Cfg.decEq a b, decEqKvs as bs with
      | isTrue h1, isTrue h2 => isTrue (by rw [hk, h1, h2])
      | isFalse h, _ => isFalse (by intro e; cases e; exact h rfl)
      | _, isFalse h => isFalse (by intro e; cases e; exact h rfl)
    else isFalse (by intro e; cases e; exact hk rfl)
end
instance : DecidableEq Cfg := Cfg.decEq

def Cfg.isMap : Cfg → Bool
  | .map _ => true
  | _ => false

/-- first entry with key `k` (a Go map index expression) -/
def lookup (k : Key) : Kvs → Option Cfg
  | [] => none
  | (k', v) :: rest => if k' = k then some v else lookup k rest

/-- `rtmp[key] = val` : replace or add -/
def put (k : Key) (v : Cfg) : Kvs → Kvs
  | [] => [(k, v)]
  | (k', v') :: rest => if k' = k then (k, v) :: rest else (k', v') :: put k v rest

def keysOf (kvs : Kvs) : List Key := kvs.map (·.1)

/-- the body of mergeMaps' loop for one source entry `(k, dflt)`: key absent → `tgt[sk] = sv`;
    key present → the entry becomes `f (old value)` -/
def updKv (f : Cfg → Cfg) (k : Key) (dflt : Cfg) : Kvs → Kvs
  | [] => [(k, dflt)]
  | (k', v') :: a => if k' = k then (k', f v') :: a else (k', v') :: updKv f k dflt a

mutual
/-- viper mergeMaps, one key (viper.go:1879-1952): absent → store the source value; target value a map →
    recurse if the source value is a map too, otherwise `continue` (THE TARGET MAP IS KEPT: known finding KF-C15-1);
    any other target value → replaced by the source value.  First argument = target (what is already
    loaded), second = source (the later loader).  Structural recursion on the source. -/
def merge : Cfg → Cfg → Cfg
  | .map a, .map b => .map (mergeKvs a b)
  | .map a, _ => .map a
  | _, b => b
termination_by structural _ s => s
/-- the `for sk, sv := range src` loop of mergeMaps -/
def mergeKvs : Kvs → Kvs → Kvs
  | a, [] => a
  | a, (k, v) :: rest => mergeKvs (updKv (fun t => merge t v) k v a) rest
termination_by structural _ s => s
end

/-- `Viper.Get` restricted to map steps (viper.go searchIndexableWithPathPrefixes on keys that contain no `.`
    and are not numeric): the value at a path, `none` where Get returns nil because a key is missing or a
    non-map is in the way -/
def Cfg.get : Cfg → Path → Option Cfg
  | c, [] => some c
  | .map kvs, k :: p => match lookup k kvs with
    | some v => v.get p
    | none => none
  | _, _ :: _ => none

/-- viper.MergeConfig called once per document, starting from the empty configuration -/
def mergeAll (docs : List Cfg) : Cfg := docs.foldl merge (.map [])

mutual
/-- representation invariant of a Go map: keys are unique at every level -/
def Cfg.wf : Cfg → Bool
  | .scalar _ => true
  | .list l => wfList l
  | .map kvs => wfKvs kvs
def wfList : List Cfg → Bool
  | [] => true
  | c :: rest => c.wf && wfList rest
def wfKvs : Kvs → Bool
  | [] => true
  | (k, v) :: rest => !(keysOf rest).contains k && v.wf && wfKvs rest
end

/-! ### what one document looks like after viper read it: keys lower-cased (util.go:89-100) -/

def lowerByte (b : UInt8) : UInt8 := if 65 ≤ b ∧ b ≤ 90 then b + 32 else b
/-- strings.ToLower on ASCII keys -/
def lower (k : Key) : Key := k.map lowerByte

/-- an entry spelled in lower case is overwritten when the same map also holds another spelling of the key
    (insensitiviseMap: `delete(m,key); m[lower]=val` for every non-lower-case key, whatever the iteration order).
    Two different non-lower-case spellings of one key in one map make viper's result depend on Go's map
    iteration order: outside the modelled fragment (generator never produces it). -/
def shadowed (k : Key) (all : List Key) : Bool :=
  lower k = k && all.any (fun k' => k' ≠ k && lower k' = k)

mutual
def insens : Cfg → Cfg
  | .scalar s => .scalar s
  | .list l => .list (insensList l)
  | .map kvs => .map (insensKvs (keysOf kvs) kvs)
def insensList : List Cfg → List Cfg
  | [] => []
  | c :: rest => insens c :: insensList rest
def insensKvs (all : List Key) : Kvs → Kvs
  | [] => []
  | (k, v) :: rest => if shadowed k all then insensKvs all rest else (lower k, insens v) :: insensKvs all rest
end

/-! ### ArgsLoader (configure/loader/args.go:24-52): `--app.config=a.b=v` pairs → properties.Set → YAML -/

/-- go-kid/properties util.go:22-103 buildMap with mode 0 and index-free keys: descend through maps, create
    missing ones, store at the last key.  `none` = the Go code panics (a longer path through an existing
    non-map value). -/
def setPath? : Kvs → Path → Cfg → Option Kvs
  | _, [], _ => none
  | kvs, [k], v => some (put k v kvs)
  | kvs, k :: p, v =>
    match lookup k kvs with
    | none => (setPath? [] p v).map fun sub => put k (.map sub) kvs
    | some (.map sub) => (setPath? sub p v).map fun sub' => put k (.map sub') kvs
    | some _ => none

def argsKvs? : List (Path × Cfg) → Kvs → Option Kvs
  | [], acc => some acc
  | (p, v) :: rest, acc =>
    match setPath? acc p v with
    | some acc' => argsKvs? rest acc'
    | none => none

/-! ### loaders and the loader sequence -/

/-- what `LoadConfig` returns: nothing (`len(config) == 0`), a document (as written, keys in their
    original spelling), an error, or a panic -/
inductive Out
  | empty
  | doc (c : Cfg)
  | fail
  | panic
  deriving Repr

/-- ArgsLoader.LoadConfig (args.go:24-52): no `--app.config` argument → `nil, nil`; otherwise the YAML of the
    properties tree -/
def argsOut (pairs : List (Path × Cfg)) : Out :=
  if pairs.isEmpty then .empty else
  match argsKvs? pairs [] with
  | some kvs => .doc (.map kvs)
  | none => .panic

/-- definition.Priority+Ordered | definition.Ordered only | neither (order_component.go:16-26) -/
inductive Cls
  | prio (k : Int)
  | ord (k : Int)
  | plain
  deriving DecidableEq, Repr

structure Loader where
  id : Nat
  cls : Cls
  out : Out
  deriving Repr

def Cls.isPrio : Cls → Bool
  | .prio _ => true
  | _ => false
def Cls.isOrd : Cls → Bool
  | .ord _ => true
  | _ => false
def Cls.isPlain : Cls → Bool
  | .plain => true
  | _ => false
def Cls.key : Cls → Int
  | .prio k => k
  | .ord k => k
  | .plain => 0

/-- insertion step of Go's insertionSortLessFunc (sort/zsortfunc.go): the new element moves left while it is
    strictly smaller than its predecessor, i.e. it lands before the first strictly greater element -/
def insertByKey (x : Loader) : List Loader → List Loader
  | [] => [x]
  | y :: ys => if x.cls.key < y.cls.key then x :: y :: ys else y :: insertByKey x ys

/-- sort.Slice of one class (order_component.go:28-29).  Up to 12 elements Go's pdqsort_func is exactly this
    insertion sort, left to right (stable: equal Order() values stay in the order in which they were added).
    From 13 elements on it is pdqsort, which may reorder EQUAL elements; when no two members of the class share an
    Order() value the ascending arrangement is unique and is this one whatever the algorithm
    (`sortByKey_unique`, `C15_sequence_determined`).  A class of 13+ members WITH equal Order() values is outside
    the modelled fragment (the harness never generates it; the property is silent on ties).
    The none-ordered class is never sorted (appended as it is), for any size. -/
def sortByKey (l : List Loader) : List Loader := l.foldl (fun acc x => insertByKey x acc) []

/-- framework_helper.SortOrderedComponents (order_component.go:8-35) -/
def loaderSeq (ls : List Loader) : List Loader :=
  sortByKey (ls.filter (·.cls.isPrio)) ++ sortByKey (ls.filter (·.cls.isOrd)) ++ ls.filter (·.cls.isPlain)

/-- the loop of loadConfigure (configure.go:58-73) over an already ordered loader list -/
def loadLoop : List Loader → Cfg → Except Bool Cfg
  | [], acc => .ok acc
  | l :: rest, acc =>
    match l.out with
    | .panic => .error true
    | .fail => .error false
    | .empty => loadLoop rest acc
    | .doc d =>
      if d.isMap then loadLoop rest (merge acc (insens d))     -- MergeConfigMap: insensitiviseMap(cfg); mergeMaps(cfg, v.config)
      else .error false                                        -- yaml: cannot unmarshal a non-mapping into map[string]any

/-- configure.Initialize + loadConfigure: `.error true` = panic, `.error false` = Run returns an error -/
def loadAll (ls : List Loader) : Except Bool Cfg := loadLoop (loaderSeq ls) (.map [])

/-- the document a loader contributes, as viper sees it -/
def docOf (l : Loader) : Option Cfg :=
  match l.out with
  | .doc d => some (insens d)
  | _ => none

/-! ### options -/

inductive Opt
  | setLoaders (ls : List Loader)      -- app.SetConfigLoader(ls…)      → Configure.SetLoaders
  | addLoaders (ls : List Loader)      -- app.AddConfigLoader(ls…)      → Configure.AddLoaders (appends)
  | setConfig (f : Loader)             -- app.SetConfig(file)           → Configure.AddLoaders(FileLoader(file))
  | configureAdd (ls : List Loader)    -- s.Configure.AddLoaders(ls…)   (configure.go:28-30)
  | setConfigure (ls : List Loader)    -- app.SetConfigure(c), c a fresh Configure holding ls
  deriving Repr

/-- loader.NewFileLoader: Priority, Order() = 0 (configure/loader/file.go:10-15) -/
def fileLoader (id : Nat) (out : Out) : Loader := ⟨id, .prio 0, out⟩

/-- a FileLoader whose path names a pipe (a FIFO, /dev/stdin, a shell process substitution): LoadConfig is os.ReadFile
    (file.go:21-27), which reads to the END OF THE INPUT whatever size the file system reports for the path (0 for a pipe),
    so the loader's output is what the pipe delivers: the FileLoader with that output -/
def pipeLoader (id : Nat) (delivered : Out) : Loader := fileLoader id delivered

def applyStep (cur : List Loader) : Opt → List Loader
  | .setLoaders ls => ls
  | .addLoaders ls => cur ++ ls
  | .setConfig f => cur ++ [f]
  | .configureAdd ls => cur ++ ls
  | .setConfigure ls => ls

def applyFrom (init : List Loader) (opts : List Opt) : List Loader := opts.foldl applyStep init

/-- configure.Default(): one ArgsLoader over os.Args; the process is started without `--app.config`
    arguments, so its output is empty -/
def defaultLoader : Loader := ⟨0, .plain, .empty⟩

def applyOptions (opts : List Opt) : List Loader := applyFrom [defaultLoader] opts

/-- configure.Default() in a process whose command line holds `--app.config=path=value` arguments (`pairs`, in command
    line order): the same ONE ArgsLoader over os.Args (configure.go:21-26), now with an output.  It is installed by
    `app.NewApp()`, i.e. before any option is applied: the first loader of the list. -/
def cmdLoader (pairs : List (Path × Cfg)) : Loader := ⟨0, .plain, argsOut pairs⟩

def applyOptionsCmd (pairs : List (Path × Cfg)) (opts : List Opt) : List Loader := applyFrom [cmdLoader pairs] opts

/-! ### several Initialize calls on ONE live Configure (configure.go:40-72)

  `configure` keeps two things between calls: the loader list (`c.loaders`, which loadConfigure REPLACES by the sorted
  list, configure.go:55) and the binder (viper: everything merged so far; there is no reset).  Initialize has no
  "already initialised" state: every call sorts the whole current list and feeds EVERY loader's output to
  Binder.SetConfig again, on top of what the binder holds. -/

/-- a live Configure: the loader list as stored now, and what its binder holds -/
structure St where
  loaders : List Loader
  acc : Cfg
  deriving Repr

/-- `app.NewApp()`: configure.Default() = [ArgsLoader(os.Args)], a new viper -/
def St.app : St := ⟨[defaultLoader], .map []⟩
/-- `app.NewApp()` in a process started with the `--app.config` arguments `pairs` -/
def St.appCmd (pairs : List (Path × Cfg)) : St := ⟨[cmdLoader pairs], .map []⟩
/-- `configure.NewConfigure()` + `SetBinder(binder.NewViperBinder("yaml"))`: no loader at all -/
def St.bare : St := ⟨[], .map []⟩

/-- one option applied to a live App (`opt(app)`) / one call on a live Configure.  SetConfigure installs ANOTHER
    Configure (options.go:34-38) — in the scenarios a fresh one with its own new binder —, everything else changes
    the loader list only (options.go:40-62, configure.go:28-34) and leaves the binder alone. -/
def stepOpt (s : St) : Opt → St
  | .setConfigure ls => ⟨ls, .map []⟩
  | o => ⟨applyStep s.loaders o, s.acc⟩

/-- Configure.Initialize (configure.go:40-52) with loadConfigure (54-72): nothing for an empty list; otherwise the
    list is replaced by the sorted one and all of it is loaded on top of the binder's content.
    `.error true` = panic, `.error false` = an error is returned (the walk stops at the first failing loader). -/
def initOnce (s : St) : Except Bool St :=
  if s.loaders.isEmpty then .ok s
  else
    match loadLoop (loaderSeq s.loaders) s.acc with
    | .ok c => .ok ⟨loaderSeq s.loaders, c⟩
    | .error b => .error b

/-- a batch of options / calls followed by one Initialize (the first batch of an App is `Run(opts…)`) -/
def runPhase (s : St) (opts : List Opt) : Except Bool St := initOnce (opts.foldl stepOpt s)

/-! ### several Apps in ONE process; options registered through `app.Settings` (app/global_option.go:3-7, app/app.go:65-68)

  `globalOptions` is a package-level list: `Settings(ops…)` appends to it and nothing ever removes from it.  `Run` walks
  `append(ops, globalOptions...)`: the options of the call first, then ALL registered ones — on every call, for every
  App.  The list is the only state that outlives an App: every `NewApp()` has its own Configure and binder. -/

/-- one step of a process: `app.Settings(ops…)`, or `app.NewApp().Run(ops…)` -/
inductive ProcStep
  | settings (ops : List Opt)
  | newApp (ops : List Opt)
  deriving Repr

/-- `app.NewApp().Run(ops…)` in a process whose registered options are `globals` (app.go:65-68): a new App, the options
    of the call, then the registered ones, then Initialize -/
def runApp (globals ops : List Opt) : Except Bool St := runPhase St.app (ops ++ globals)

/-- a process history: the result of every App, in the order in which they were started (`globals` = what is registered
    so far) -/
def runProc : List Opt → List ProcStep → List (Except Bool St)
  | _, [] => []
  | g, .settings ops :: rest => runProc (g ++ ops) rest
  | g, .newApp ops :: rest => runApp g ops :: runProc g rest

/-- everything registered by the `Settings` calls of a history, in order -/
def registeredBy : List ProcStep → List Opt
  | [] => []
  | .settings ops :: rest => ops ++ registeredBy rest
  | .newApp _ :: rest => registeredBy rest

/-! ### rendering helpers shared by driver and examples -/

mutual
/-- does viper.AllKeys see a leaf below this value?  (AllSettings drops nil leaves and maps without leaves) -/
def hasLeaf : Cfg → Bool
  | .scalar .null => false
  | .scalar (.val _) => true
  | .list _ => true
  | .map kvs => hasLeafKvs kvs
def hasLeafKvs : Kvs → Bool
  | [] => false
  | (_, v) :: rest => hasLeaf v || hasLeafKvs rest
end

end Config
end Ioc
