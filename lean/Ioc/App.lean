/-
  Ioc.App — M5: the start-up pipeline of app.App.run over the factory machine (M2):
    configuration → factory preparation (definition scan, boot of user post-processors) → refresh → runners.
  Mirrors app/app.go:80-154 (run, callRunners) and util/framework_helper/order_component.go (SortOrderedComponents,
  instantiated with a stable insertion sort: sort.Slice uses insertion sort below 12 elements).
-/
import Ioc.Container
namespace Ioc
namespace App
open M2

inductive OrdClass | prio | ord | plain
deriving DecidableEq, Repr

structure Runner where
  obj : Obj
  cls : OrdClass
  key : Int
  fails : Bool
deriving Repr

/-- SortOrderedComponents: priority-ordered (sorted by Order), then ordered (sorted), then the rest in the given order -/
def sortOrdered (l : List Runner) : List Runner :=
  let p := l.filter (fun r => r.cls == .prio)
  let o := l.filter (fun r => r.cls == .ord)
  let n := l.filter (fun r => r.cls == .plain)
  isortStable (fun a b => decide (a.key < b.key)) p ++ isortStable (fun a b => decide (a.key < b.key)) o ++ n

/-- callRunners: invoke in order, stop at the first error. Returns the invoked runners and whether all succeeded. -/
def callRunners : List Runner → List Runner × Bool
  | [] => ([], true)
  | r :: rest =>
    if r.fails then ([r], false)
    else
      let (inv, ok) := callRunners rest
      (r :: inv, ok)

inductive Outcome
  | ok | errConfig | errFactory | errRefresh | errRunners
deriving DecidableEq, Repr

structure AppScen where
  loaderFail : Bool                       -- a configuration loader fails
  scanFail : Bool                         -- a definition-registry post-processor fails
  sc : Scen
  appRow : Nat                            -- the App component itself
  runnersPoint : Nat                      -- index of App.ApplicationRunners among the App's points
  runnerInfo : Nat → OrdClass × Int × Bool  -- class, Order(), Run() fails — per component name

structure Result where
  outcome : Outcome
  st : St
  invoked : List Runner

def runnersOf (a : AppScen) (st : St) : List Runner :=
  (st.fields a.appRow a.runnersPoint).map fun o =>
    let (c, k, f) := a.runnerInfo o.name
    { obj := o, cls := c, key := k, fails := f }

/-- App.run: each stage runs only if the previous one succeeded; runners only after a successful refresh -/
def appRun (a : AppScen) : Result :=
  if a.loaderFail then { outcome := .errConfig, st := init a.sc, invoked := [] }
  else if a.scanFail then { outcome := .errFactory, st := init a.sc, invoked := [] }
  else
    let st := final a.sc
    match st.status with
    | .failed _ .factory => { outcome := .errFactory, st := st, invoked := [] }
    | .failed _ .refresh => { outcome := .errRefresh, st := st, invoked := [] }
    | .running => { outcome := .errRefresh, st := st, invoked := [] }   -- unreachable (C02_terminates)
    | .done =>
      let (inv, ok) := callRunners (sortOrdered (runnersOf a st))
      { outcome := if ok then .ok else .errRunners, st := st, invoked := inv }

end App
end Ioc
