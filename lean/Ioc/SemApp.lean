/-
  Ioc.SemApp — interpretation of the primitives called by the REGENERATED programs of app/app.go
  (`Ioc.Progs.app_run`, `Ioc.Progs.app_callRunners`) in terms of the start-up model M5 (Ioc.App).

  app_run:        the world is the trace of stage methods called so far; a stage fails as the parameter `fails` says.
  app_callRunners: the world is the list of runners whose Run() was invoked so far; runners are `.ref i 0`
                   (i = position in the injected list), SortOrderedComponents is the model's `sortOrdered`.
-/
import Ioc.GoSem
import Ioc.App
import Ioc.Generated.Progs
namespace Ioc.Sem
open Ioc Ioc.Go Ioc.App

def errA : Val := .str "error"

/-! ### App.run -/

def stageCall (fails : String → Bool) (stage : String) (tr : List String) : Option (Val × List String) :=
  some (if fails stage then errA else .nil, tr ++ [stage])

def runFn (fails : String → Bool) : String → List Val → List String → Option (Val × List String)
  | "self.initConfiguration", [], tr => stageCall fails "initConfiguration" tr
  | "self.initFactory", [], tr => stageCall fails "initFactory" tr
  | "self.refresh", [], tr => stageCall fails "refresh" tr
  | "self.callRunners", [], tr => stageCall fails "callRunners" tr
  | "errors.WithMessage", [_, _], tr => some (errA, tr)
  | "errors.WithMessagef", [_, _], tr => some (errA, tr)
  | _, _, _ => none

def runPrims (fails : String → Bool) : Prims (List String) := { fn := runFn fails }

/-- the stages in order, each only if the previous ones succeeded: (stages called, all succeeded) -/
def stagesUntilFail (fails : String → Bool) : List String → List String × Bool
  | [] => ([], true)
  | s :: rest =>
    if fails s then ([s], false)
    else
      let r := stagesUntilFail fails rest
      (s :: r.1, r.2)

def theStages : List String := ["initConfiguration", "initFactory", "refresh", "callRunners"]

/-! ### App.callRunners -/

structure RunW where
  invoked : List Nat := []          -- positions (in the injected list) of the runners whose Run() was called, in call order
  cleared : Bool := false           -- s.ApplicationRunners = nil was executed
deriving Repr

def crFn (rs : List Runner) (sorted : List Nat) : String → List Val → RunW → Option (Val × RunW)
  | "$self.ApplicationRunners", [], w => some (.list ((List.range rs.length).map (fun i => .ref i 0)), w)
  | "framework_helper.SortOrderedComponents", [.list _], w => some (.list (sorted.map (fun i => .ref i 0)), w)
  | ".Run", [.ref i 0], w =>
      some ((match rs[i]? with | some r => if r.fails then errA else .nil | none => errA), { w with invoked := w.invoked ++ [i] })
  | "errors.Wrapf", _, w => some (errA, w)
  | "$self", [], w => some (.ref 0 9, w)
  | ".set:ApplicationRunners", [.ref 0 9, .nil], w => some (.tuple [], { w with cleared := true })
  | _, _, _ => none

def crPrims (rs : List Runner) (sorted : List Nat) : Prims RunW := { fn := crFn rs sorted }

/-- callRunners of the model on positions: invoke in order, stop at the first failing one -/
def callIdx (rs : List Runner) : List Nat → List Nat × Bool
  | [] => ([], true)
  | i :: rest =>
    match rs[i]? with
    | some r =>
      if r.fails then ([i], false)
      else
        let x := callIdx rs rest
        (i :: x.1, x.2)
    | none => ([i], false)

end Ioc.Sem
