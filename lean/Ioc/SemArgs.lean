/-
  Ioc.SemArgs — interpretation of the primitives called by the REGENERATED tag-argument functions
  (component_definition/arg.go: Parse, Set, Add, formatArgType, Find, Has, isIntersect).
  The receiver (a Go map) is the association list `AM`; string operations are parameters:
    splitC s  = strings2.Split(s, ",", DefaultSplitBlock)  (never empty: head and tail)
    splitB s  = strings2.Split(s, " ", DefaultSplitBlock)
    indexEq s = strings.Index(s, "=")  (`none` = -1)
    takeS / dropS = s[:i] / s[i:]      upper = strings.ToUpper
-/
import Ioc.GoSem
import Ioc.Generated.Progs
namespace Ioc.Sem
open Ioc Ioc.Go

abbrev AM := List (String × List String)

/-- m[k] = v on a Go map: replace in place or add -/
def amSet (k : String) (v : List String) : AM → AM
  | [] => [(k, v)]
  | (k', v') :: rest => if k' = k then (k, v) :: rest else (k', v') :: amSet k v rest

def amGet (k : String) (m : AM) : Option (List String) := (m.find? (fun e => e.1 == k)).map (·.2)

structure StrOps where
  splitC : String → String × List String
  splitB : String → List String
  indexEq : String → Option Nat
  takeS : String → Nat → String
  dropS : String → Nat → String
  upper : String → String
  fmtKey : String → String       -- formatArgType (itself regenerated: `argFmt_sem`)

/-- the world of Parse: the calls of Set it makes, in order -/
abbrev SetLog := List (String × List String)

def strsVal (l : List String) : Val := .list (l.map Val.str)

def valStrs : List Val → List String
  | [] => []
  | .str s :: rest => s :: valStrs rest
  | _ :: rest => valStrs rest

theorem valStrs_map (l : List String) : valStrs (l.map Val.str) = l := by
  induction l with
  | nil => rfl
  | cons x rest ih => simp [valStrs, ih]

def parseFn (o : StrOps) : String → List Val → SetLog → Option (Val × SetLog)
  | "$argSep", [], w => some (.str ",", w)
  | "$argExpSep", [], w => some (.str "=", w)
  | "$strings2.DefaultSplitBlock", [], w => some (.ref 0 7, w)
  | "strings2.Split", [.str s, .str ",", .ref 0 7], w => some (strsVal ((o.splitC s).1 :: (o.splitC s).2), w)
  | "strings2.Split", [.str s, .str " ", .ref 0 7], w => some (strsVal (o.splitB s), w)
  | "slice", [.list l, .int 1, .nil], w => some (.list (l.drop 1), w)
  | "slice", [.str s, .nil, .int i], w => some (.str (o.takeS s i.toNat), w)
  | "slice", [.str s, .int i, .nil], w => some (.str (o.dropS s i.toNat), w)
  | "strings.Index", [.str s, .str "="], w => some (.int (match o.indexEq s with | some i => (i : Int) | none => -1), w)
  | "self.Set", [.str k, .str v], w => some (.tuple [], w ++ [(k, [v])])              -- one variadic argument
  | "self.Set", [.str k, .list vs], w => some (.tuple [], w ++ [(k, valStrs vs)])     -- a spread slice
  | _, _, _ => none

def parsePrims (o : StrOps) : Prims SetLog := { fn := parseFn o }

/-- what Parse does with one argument text -/
def parseArg (o : StrOps) (exp : String) : String × List String :=
  match o.indexEq exp with
  | none => (exp, [""])
  | some i => (o.takeS exp i, o.splitB (o.dropS exp (i + 1)))

/-- the map functions: the world is the map -/
def argFn (o : StrOps) : String → List Val → AM → Option (Val × AM)
  | "formatArgType", [.str k], w => some (.str (o.fmtKey k), w)
  | "$self", [], w => some (.ref 0 6, w)
  | ".setidx", [.ref 0 6, .str k, .list vs], w => some (.tuple [], amSet k (valStrs vs) w)
  | ".setidx", [.ref 0 6, .str k, .nil], w => some (.tuple [], amSet k [] w)
  | ".getidx2", [.ref 0 6, .str k], w =>
      some (match amGet k w with
            | some l => .tuple [strsVal l, .bool true]
            | none => .tuple [.nil, .bool false], w)
  | ".getidx", [.ref 0 6, .str k], w => some (match amGet k w with | some l => strsVal l | none => .nil, w)
  | "append...", [.list a, .list b], w => some (.list (a ++ b), w)
  | "append...", [.nil, .list b], w => some (.list b, w)
  | "append...", [.list a, .nil], w => some (.list a, w)
  | "append...", [.nil, .nil], w => some (.nil, w)
  | "isIntersect", [.list a, .list b], w => some (.bool ((valStrs a).any (fun x => (valStrs b).contains x)), w)
  | "string", [v], w => some (v, w)
  | "strings.ToUpper", [.str s], w => some (.str (o.upper s), w)
  | "slice", [.str s, .nil, .int i], w => some (.str (o.takeS s i.toNat), w)
  | "slice", [.str s, .int i, .nil], w => some (.str (o.dropS s i.toNat), w)
  | _, _, _ => none

def argPrims (o : StrOps) : Prims AM := { fn := argFn o }

end Ioc.Sem
