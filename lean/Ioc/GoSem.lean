/-
  Ioc.GoSem — "MiniGo": a deep embedding of the fragment of Go in which the decision logic of go-kid/ioc is
  written, with a big-step interpreter.

  The facts translator (harness/cmd/facts, `prog_*.go`) turns selected Go function bodies into terms of
  `Go.Func` — an almost 1:1 image of go/ast — in `Ioc/Generated/Progs.lean`, regenerated from /repo's source
  on every run.  Theorems in `IocProofs` then state that the regenerated program, run by `Go.run` under an
  interpretation of the primitives it calls (sync.Map operations, reflection answers, user callbacks — all
  parameters), computes exactly the hand-written model function (`Reg.get`, `Match.narrow`, …).  So for these
  functions the tie between model and code is a theorem about the code's own syntax tree, not a sample.

  What is interpreted (= the trusted reading of Go, kept small):
    * values: nil, bool, int, string, opaque references, tuples (multi-value results), lists (slices)
    * expressions: variables, literals, calls of named primitives (`self.x.Load`, `fas.Filter`, `len`, …),
      method calls on local values (receiver passed as first argument, name prefixed with `.`), unary `!`,
      binary `== != && || < <= > >=` (`&&`/`||` short-circuit, as in Go), indexing, field selection through the
      primitive table, slice literals, function literals only as arguments of known higher-order primitives
      (`fas.Filter`)
    * statements: `:=`/`=` to variables (lexical block scoping: a `:=` inside a block is dropped at its end,
      an `=` updates the innermost binding), field stores through a primitive, `if` with init statement and
      else, `for range` over a slice with `break`/`continue`/`return` inside, `return`, expression statements
    * anything else is translated to `.unsupported` and evaluates to `none` (stuck), so a theorem `= some …`
      fails rather than silently ignoring code.
  Logging calls (`syslog.*`, `x.logger().*`, `log.*`) are dropped by the translator (they have no effect on the
  modelled state) — that is the one deliberate abstraction.

  Core Lean only.
-/
namespace Ioc.Go

inductive Val
  | nil
  | bool (b : Bool)
  | int (i : Int)
  | str (s : String)
  | ref (a b : Nat)                 -- an opaque reference (object ⟨name, version⟩, meta, factory, …)
  | tuple (vs : List Val)           -- multi-value result
  | list (vs : List Val)            -- slice
deriving Repr, Inhabited

mutual
inductive Expr
  | var (x : String)
  | nil
  | bool (b : Bool)
  | int (i : Int)
  | str (s : String)
  | call (f : String) (args : List Expr)              -- package function or call through the receiver
  | mcall (recv : Expr) (m : String) (args : List Expr)   -- method call on a local value
  | hcall (f : String) (args : List Expr) (params : List String) (body : List Stmt)
                                                      -- call with ONE function literal as last argument: f(args…, func(params){body})
  | filter (xs : Expr) (param : String) (body : List Stmt)   -- fas.Filter(xs, func(param T) bool { body })
  | glob (name : String)                              -- package-level variable / constant / function value
  | assert2 (e : Expr) (ty : String)                  -- v, ok := e.(T)
  | assert1 (e : Expr) (ty : String)                  -- e.(T) in a single-value context (panics when it fails: stuck)
  | not (e : Expr)
  | bin (op : String) (a b : Expr)
  | idx (e i : Expr)
  | sel (e : Expr) (field : String)                   -- x.f (not called)
  | sliceLit (es : List Expr)
  | unsupported (what : String)
inductive Stmt
  | define (lhs : List String) (rhs : Expr)           -- a, b := e
  | assign (lhs : List String) (rhs : Expr)           -- a, b = e
  | store (target : Expr) (field : String) (rhs : Expr)   -- x.f = e
  | ifs (init : List Stmt) (cond : Expr) (thn els : List Stmt)
  | range (k v : String) (coll : Expr) (body : List Stmt)    -- for k, v := range coll   (`_` = not bound)
  | forc (init : List Stmt) (cond : Expr) (post body : List Stmt)   -- for init; cond; post { body }
  | ret (es : List Expr)
  | brk
  | cont
  | expr (e : Expr)
  | hcallS (lhs : List String) (f : String) (args : List Expr) (params : List String) (body : List Stmt)
      -- `[lhs :=] f(args…, func(params){body})` as a STATEMENT whose function literal assigns to variables it captures:
      -- the literal runs in the caller's environment and what it assigns there stays assigned (capture by reference)
  | unsupported (what : String)
end

structure Func where
  name : String
  params : List String
  body : List Stmt

/-- control outcome of a statement -/
inductive Ctl
  | norm
  | brk
  | cont
  | ret (v : Val)
deriving Repr

abbrev Env := List (String × Val)

def Env.get (env : Env) (x : String) : Option Val :=
  match env with
  | [] => none
  | (y, v) :: rest => if y = x then some v else Env.get rest x

/-- `x = v` : update the innermost binding of `x`; `_` is a sink -/
def Env.set (env : Env) (x : String) (v : Val) : Option Env :=
  if x = "_" then some env else
  match env with
  | [] => none
  | (y, w) :: rest => if y = x then some ((y, v) :: rest) else (Env.set rest x v).map ((y, w) :: ·)

/-- `x := v` -/
def Env.def (env : Env) (x : String) (v : Val) : Env :=
  if x = "_" then env else (x, v) :: env

/-- leave a block: forget what the block defined, keep updates to outer variables -/
def Env.leave (env : Env) (outerLen : Nat) : Env := env.drop (env.length - outerLen)

/-- destructure a (possibly multi-valued) result onto `lhs` -/
def bindVals (lhs : List String) (v : Val) : Option (List (String × Val)) :=
  match lhs, v with
  | [x], v => some [(x, v)]
  | xs, .tuple vs => if xs.length = vs.length then some (xs.zip vs) else none
  | _, _ => none

def truthy : Val → Option Bool
  | .bool b => some b
  | _ => none

/-- `==` of Go on the values of the fragment; `x == nil` is defined for every reference-like value (pointer,
    interface, error, slice: a slice made by `make`/`append`/a literal is not nil even when it is empty) -/
def valEq : Val → Val → Option Bool
  | .nil, .nil => some true
  | .bool a, .bool b => some (a == b)
  | .int a, .int b => some (a == b)
  | .str a, .str b => some (a == b)
  | .ref a b, .ref c d => some (a == c && b == d)
  | .nil, .ref _ _ => some false
  | .ref _ _, .nil => some false
  | .nil, .str _ => some false       -- an error value (modelled as a string) against nil
  | .str _, .nil => some false
  | .nil, .list _ => some false
  | .list _, .nil => some false
  | .nil, .tuple _ => some false     -- a (non-nil) map given as its entries against nil
  | .tuple _, .nil => some false
  | _, _ => none

def binOp (op : String) (a b : Val) : Option Val :=
  match op with
  | "==" => (valEq a b).map .bool
  | "!=" => (valEq a b).map (fun x => .bool (!x))
  | "<" => match a, b with | .int x, .int y => some (.bool (x < y)) | _, _ => none
  | "<=" => match a, b with | .int x, .int y => some (.bool (x ≤ y)) | _, _ => none
  | ">" => match a, b with | .int x, .int y => some (.bool (x > y)) | _, _ => none
  | ">=" => match a, b with | .int x, .int y => some (.bool (x ≥ y)) | _, _ => none
  | "+" => match a, b with | .int x, .int y => some (.int (x + y)) | .str x, .str y => some (.str (x ++ y)) | _, _ => none
  | "-" => match a, b with | .int x, .int y => some (.int (x - y)) | _, _ => none
  | _ => none

/-- a function literal passed to a primitive: the primitive may run it (any number of times) on the world -/
abbrev Handler (σ : Type) := List Val → σ → Option (Val × σ)

/-- a function literal that may assign to captured variables: it is run in (and returns) the environment of its definition -/
abbrev HandlerE (σ : Type) := List Val → List (String × Val) → σ → Option (Val × List (String × Val) × σ)

/-- the interpretation of everything a program calls but does not define: `fn name args world`;
    `hfn` for the primitives that take a function literal (`GetSingletonOrCreateByFactory(name, func…)`) -/
structure Prims (σ : Type) where
  fn : String → List Val → σ → Option (Val × σ)
  hfn : String → List Val → Handler σ → σ → Option (Val × σ) := fun _ _ _ _ => none
  /-- the same for literals that assign to captured variables (statement form `hcallS`): the primitive threads the
      environment through the calls of the literal -/
  hfnE : String → List Val → HandlerE σ → List (String × Val) → σ → Option (Val × List (String × Val) × σ) := fun _ _ _ _ _ => none
  /-- how many iterations a three-clause `for` may make before the interpretation gives up (`none`); theorems about such
      loops hold for EVERY fuel above the number of iterations the loop needs -/
  fuel : Nat := 0

/-- run `f` over the elements of a slice, left to right, stopping at `break`/`return` -/
def loopM {σ : Type} (f : Nat → Val → Env → σ → Option (Env × σ × Ctl)) (i : Nat) : List Val → Env → σ → Option (Env × σ × Ctl)
  | [], env, w => some (env, w, .norm)
  | v :: vs, env, w =>
    match f i v env w with
    | none => none
    | some (env', w', .norm) => loopM f (i + 1) vs env' w'
    | some (env', w', .cont) => loopM f (i + 1) vs env' w'
    | some (env', w', .brk) => some (env', w', .norm)
    | some (env', w', .ret r) => some (env', w', .ret r)

/-- a three-clause loop: `iter` evaluates condition, body and post statement once; `none` as control = go round again.
    Out of fuel = stuck (`none`), never a made-up result. -/
def whileM {σ : Type} (iter : Env → σ → Option (Env × σ × Option Ctl)) : Nat → Env → σ → Option (Env × σ × Ctl)
  | 0, _, _ => none
  | n + 1, env, w =>
    match iter env w with
    | none => none
    | some (env', w', none) => whileM iter n env' w'
    | some (env', w', some c) => some (env', w', c)

/-- after one run of a three-clause loop's body: `continue`/normal end → the post statement, then round again -/
def afterBody {σ : Type} (post : Env → σ → Option (Env × σ × Ctl)) : Option (Env × σ × Ctl) → Option (Env × σ × Option Ctl)
  | some (e', w3, Ctl.norm) =>
    (match post e' w3 with
     | some (e'', w4, Ctl.norm) => some (e'', w4, none)
     | _ => none)
  | some (e', w3, Ctl.cont) =>
    (match post e' w3 with
     | some (e'', w4, Ctl.norm) => some (e'', w4, none)
     | _ => none)
  | some (e', w3, Ctl.brk) => some (e', w3, some Ctl.norm)
  | some (e', w3, Ctl.ret v) => some (e', w3, some (Ctl.ret v))
  | none => none

/-- keep the elements on which `f` answers true (the body of fas.Filter), threading the world -/
def filterM {σ : Type} (f : Val → σ → Option (Bool × σ)) : List Val → σ → Option (List Val × σ)
  | [], w => some ([], w)
  | v :: vs, w =>
    match f v w with
    | none => none
    | some (keep, w') =>
      match filterM f vs w' with
      | none => none
      | some (rest, w'') => some (if keep then v :: rest else rest, w'')

mutual
def evalE {σ : Type} (P : Prims σ) (env : Env) (w : σ) : Expr → Option (Val × σ)
  | .var x => (env.get x).map (·, w)
  | .nil => some (.nil, w)
  | .bool b => some (.bool b, w)
  | .int i => some (.int i, w)
  | .str s => some (.str s, w)
  | .call "len" [e] =>
    match evalE P env w e with
    | some (.list vs, w') => some (.int vs.length, w')
    | some (.nil, w') => some (.int 0, w')
    | some (.tuple (.str "$map" :: ps), w') => some (.int ps.length, w')     -- a Go map given as its entries (see `.range`)
    | some (v, w') => P.fn "len" [v] w'          -- the length of an OBJECT (a map or slice behind a reference): a primitive
    | none => none
  | .call f args =>
    match evalEs P env w args with
    | some (vs, w') => P.fn f vs w'
    | none => none
  | .mcall recv m args =>
    match evalE P env w recv with
    | some (r, w1) =>
      match evalEs P env w1 args with
      | some (vs, w2) => P.fn ("." ++ m) (r :: vs) w2
      | none => none
    | none => none
  | .hcall f args params body =>
    match evalEs P env w args with
    | some (vs, w') =>
      P.hfn f vs (fun as w'' =>
        if params.length = as.length then
          match evalB P ((params.zip as) ++ env) w'' body with
          | some (_, w3, .ret v) => some (v, w3)
          | some (_, w3, .norm) => some (.tuple [], w3)
          | _ => none
        else none) w'
    | none => none
  | .glob name => P.fn ("$" ++ name) [] w
  | .assert2 e ty =>
    match evalE P env w e with
    | some (v, w1) => P.fn ("assert2:" ++ ty) [v] w1
    | none => none
  | .assert1 e ty =>
    match evalE P env w e with
    | some (v, w1) => P.fn ("assert1:" ++ ty) [v] w1
    | none => none
  | .filter xs param body =>
    match evalE P env w xs with
    | some (.list vs, w1) =>
      (filterM (fun v w' =>
        match evalB P (Env.def env param v) w' body with
        | some (_, w'', .ret (.bool b)) => some (b, w'')
        | _ => none) vs w1).map (fun (r, w2) => (.list r, w2))
    | some (.nil, w1) => some (.list [], w1)
    | _ => none
  | .not e =>
    match evalE P env w e with
    | some (.bool b, w') => some (.bool (!b), w')
    | _ => none
  | .bin "&&" a b =>
    match evalE P env w a with
    | some (.bool true, w') => evalE P env w' b
    | some (.bool false, w') => some (.bool false, w')
    | _ => none
  | .bin "||" a b =>
    match evalE P env w a with
    | some (.bool false, w') => evalE P env w' b
    | some (.bool true, w') => some (.bool true, w')
    | _ => none
  | .bin op a b =>
    match evalE P env w a with
    | some (x, w1) =>
      match evalE P env w1 b with
      | some (y, w2) => (binOp op x y).map (·, w2)
      | none => none
    | none => none
  | .idx e i =>
    match evalE P env w e with
    | some (.list vs, w1) =>
      match evalE P env w1 i with
      | some (.int n, w2) => if 0 ≤ n then (vs[n.toNat]?).map (·, w2) else none
      | _ => none
    | _ => none
  | .sel e f =>
    match evalE P env w e with
    | some (v, w1) => P.fn ("." ++ f) [v] w1
    | none => none
  | .sliceLit es =>
    match evalEs P env w es with
    | some (vs, w') => some (.list vs, w')
    | none => none
  | .unsupported _ => none
def evalEs {σ : Type} (P : Prims σ) (env : Env) (w : σ) : List Expr → Option (List Val × σ)
  | [] => some ([], w)
  | e :: es =>
    match evalE P env w e with
    | some (v, w1) =>
      match evalEs P env w1 es with
      | some (vs, w2) => some (v :: vs, w2)
      | none => none
    | none => none
def evalS {σ : Type} (P : Prims σ) (env : Env) (w : σ) : Stmt → Option (Env × σ × Ctl)
  | .define lhs rhs =>
    match evalE P env w rhs with
    | some (v, w') =>
      match bindVals lhs v with
      | some bs => some (bs.foldl (fun e (x, v) => Env.def e x v) env, w', .norm)
      | none => none
    | none => none
  | .assign lhs rhs =>
    match evalE P env w rhs with
    | some (v, w') =>
      match bindVals lhs v with
      | some bs =>
        (bs.foldl (fun (e : Option Env) (x, v) => e.bind (fun e => Env.set e x v)) (some env)).map (·, w', .norm)
      | none => none
    | none => none
  | .store target field rhs =>
    match evalE P env w target with
    | some (t, w1) =>
      match evalE P env w1 rhs with
      | some (v, w2) => (P.fn (".set:" ++ field) [t, v] w2).map (fun (_, w3) => (env, w3, .norm))
      | none => none
    | none => none
  | .ifs init cond thn els =>
    match evalB P env w init with
    | some (env1, w1, .norm) =>
      match evalE P env1 w1 cond with
      | some (.bool true, w2) =>
        (evalB P env1 w2 thn).map (fun (e, w3, c) => (Env.leave e env.length, w3, c))
      | some (.bool false, w2) =>
        (evalB P env1 w2 els).map (fun (e, w3, c) => (Env.leave e env.length, w3, c))
      | _ => none
    | _ => none
  | .range k v coll body =>
    match evalE P env w coll with
    | some (.list vs, w1) =>
      (loopM (fun i x e w' =>
          (evalB P (Env.def (Env.def e k (.int i)) v x) w' body).map
            (fun (e', w'', c) => (Env.leave e' e.length, w'', c)))
        0 vs env w1)
    | some (.nil, w1) => some (env, w1, .norm)
    | some (.tuple (.str "$map" :: ps), w1) =>
      -- a Go map, given as its entries `.tuple [key, value]` in the order in which this run enumerates them
      (loopM (fun _ x e w' =>
          match x with
          | .tuple [kk, vv] =>
            (evalB P (Env.def (Env.def e k kk) v vv) w' body).map
              (fun (e', w'', c) => (Env.leave e' e.length, w'', c))
          | _ => none)
        0 ps env w1)
    | _ => none
  | .forc init cond post body =>
    match evalB P env w init with
    | some (env1, w1, .norm) =>
      (whileM (fun e w' =>
          match evalE P e w' cond with
          | some (.bool true, w2) =>
            afterBody (fun e' w3 => evalB P e' w3 post)
              ((evalB P e w2 body).map (fun (e', w'', c) => (Env.leave e' e.length, w'', c)))
          | some (.bool false, w2) => some (e, w2, some Ctl.norm)
          | _ => none)
        P.fuel env1 w1).map (fun (e, w', c) => (Env.leave e env.length, w', c))
    | _ => none
  | .ret es =>
    match evalEs P env w es with
    | some ([v], w') => some (env, w', .ret v)
    | some (vs, w') => some (env, w', .ret (.tuple vs))
    | none => none
  | .brk => some (env, w, .brk)
  | .cont => some (env, w, .cont)
  | .expr e => (evalE P env w e).map (fun (_, w') => (env, w', .norm))
  | .hcallS lhs f args params body =>
    match evalEs P env w args with
    | some (vs, w1) =>
      match P.hfnE f vs (fun as env' w'' =>
          if params.length = as.length then
            match evalB P ((params.zip as) ++ env') w'' body with
            | some (e2, w3, .ret v) => some (v, Env.leave e2 env'.length, w3)
            | some (e2, w3, .norm) => some (.tuple [], Env.leave e2 env'.length, w3)
            | _ => none
          else none) env w1 with
      | some (v, env2, w2) =>
        if lhs.isEmpty then some (env2, w2, .norm)
        else match bindVals lhs v with
          | some bs => some (bs.foldl (fun e (x, v) => Env.def e x v) env2, w2, .norm)
          | none => none
      | none => none
    | none => none
  | .unsupported _ => none
def evalB {σ : Type} (P : Prims σ) (env : Env) (w : σ) : List Stmt → Option (Env × σ × Ctl)
  | [] => some (env, w, .norm)
  | s :: rest =>
    match evalS P env w s with
    | some (env', w', .norm) => evalB P env' w' rest
    | other => other
end

/-- call a function: bind the parameters, run the body; falling off the end returns the empty tuple -/
def run {σ : Type} (P : Prims σ) (f : Func) (args : List Val) (w : σ) : Option (Val × σ) :=
  if f.params.length = args.length then
    match evalB P (f.params.zip args) w f.body with
    | some (_, w', .ret v) => some (v, w')
    | some (_, w', .norm) => some (.tuple [], w')
    | _ => none
  else none

end Ioc.Go
