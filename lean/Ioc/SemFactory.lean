/-
  Ioc.SemFactory — interpretation of the primitives called by the REGENERATED program of
  container/factory/factory.go `doGetComponent` (Ioc.Progs.fac_doGetComponent) over the model registry `Reg` (M1):

    self.singletonComponentRegistry.GetSingleton / IsSingletonCurrentlyInCreation   the model functions `Reg.get` /
        `Reg.isInCreation` (that these ARE the registry's regenerated methods is C04_code_GetSingleton / …)
    self.singletonComponentRegistry.GetSingletonOrCreateByFactory(name, func(){…})  `beginCreate`, the function literal,
        `endCreate` (C04_code_GetSingletonOrCreateByFactory)
    self.createComponent(name)                                                       a parameter: what the creation does to
        the registry and what it returns
-/
import Ioc.SemRegistry
namespace Ioc.Sem
open Ioc Ioc.Go

def facFn (early : Except Err Obj) (create : Body) : String → List Val → Reg → Option (Val × Reg)
  | "self.singletonComponentRegistry.GetSingleton", [.int n, .bool b], r =>
      some (encGet (r.get n.toNat b early).1, (r.get n.toNat b early).2)
  | "self.singletonComponentRegistry.IsSingletonCurrentlyInCreation", [.int n], r => some (.bool (r.isInCreation n.toNat), r)
  | "self.createComponent", [.int _], r => let x := create r; some (encRes x.1, x.2)
  | _, _, _ => none

def facHfn : String → List Val → Handler Reg → Reg → Option (Val × Reg)
  | "self.singletonComponentRegistry.GetSingletonOrCreateByFactory", [.int n], h, r =>
      match (r.beginCreate n.toNat).1 with
      | some o => some (.tuple [encObj o, .nil], r)
      | none =>
        match h [] (r.beginCreate n.toNat).2 with
        | some (.tuple [.ref a b, .nil], r2) => some (.tuple [.ref a b, .nil], r2.endCreate n.toNat (.ok ⟨a, b⟩))
        | some (.tuple [.nil, _], r2) => some (.tuple [.nil, errVal], r2.endCreate n.toNat (.error .fail))
        | _ => none
  | _, _, _, _ => none

def facPrims (early : Except Err Obj) (create : Body) : Prims Reg := { fn := facFn early create, hfn := facHfn }

/-- doGetComponent on the model registry (factory.go:140-162) -/
def doGet (r : Reg) (n : Nat) (early : Except Err Obj) (create : Body) : Val × Reg :=
  match (r.get n true early).1 with
  | .ok (some o) => (.tuple [encObj o, .nil], (r.get n true early).2)
  | .error _ => (.tuple [.nil, errVal], (r.get n true early).2)
  | .ok none =>
    let r0 := (r.get n true early).2
    match (r0.beginCreate n).1 with
    | some o => (.tuple [encObj o, .nil], r0)
    | none =>
      let x := create (r0.beginCreate n).2
      (encRes x.1, x.2.endCreate n x.1)

end Ioc.Sem
