/-
  Ioc.FactorySkel — the call skeletons of the creation path that the factory machine (Ioc.M2, Container.lean) abstracts,
  as EXPECTED (compact form: `return`s, log-only branches and guard clauses without one of the listed calls are dropped, so that
  adding a log line or an early return does not change the term); `Ioc.Facts.factorySkel / injectSkel / isSelfSkel` are REGENERATED from /repo by harness/cmd/facts on every
  run and must equal these (theorems C03_inject_skeleton, C03_version_check_skeleton, C05_create_skeleton).
  How the machine reads them:
    doGetComponent        = `lookup` (GetSingleton … true) then, on a miss, `enter` (GetSingletonOrCreateByFactory)
    doCreateComponent     = early exposure (AddSingletonFactory) BEFORE populateComponent BEFORE InitializeComponent, then the
                            version check: GetSingleton(name,false), BOTH dependents lists, IsSingletonCurrentlyInCreation per dependent
    populateComponent     = ResolveAfterInstantiation first, then per point one doGetComponent per candidate, then Inject
    Property.Inject       = IsRequired; self filter; assignability loop; slice branch: Set + dependOn for EVERY element;
                            single branch: Set + dependOn of the first
    Meta.IsSelf           = a loop along the proxy chain
-/
import Ioc.FactTypes
namespace Ioc

def expectedFactorySkel : List (String × List Sk) := [
  ("doGetComponent", [.call "GetSingleton", .branch [.call "IsSingletonCurrentlyInCreation"], .call "GetSingletonOrCreateByFactory"]),
  ("createComponent", [.call "GetMetaByName", .call "ResolveBeforeInstantiation", .branch [.branch [.call "CreateProxy"]], .call "doCreateComponent"]),
  ("doCreateComponent", [.call "IsSingletonCurrentlyInCreation", .branch [.call "AddSingletonFactory"], .call "populateComponent", .call "InitializeComponent", .branch [.call "genProxyComponent"], .branch [.call "GetSingleton", .branch [.call "GetDependents", .call "GetDependents", .branch [.loop [.call "IsSingletonCurrentlyInCreation"]]]]]),
  ("populateComponent", [.call "ResolveAfterInstantiation", .branch [.loop [.branch [.loop [.call "doGetComponent"], .call "Inject"]]]]),
  ("getEarlyBeanReference", [.call "GetEarlyBeanReference", .branch [.call "genProxyComponent"]])
]

def expectedInjectSkel : List Sk := [.call "IsRequired", .call "filter", .loop [.call "AssignableTo"], .branch [.call "MakeSlice", .call "Set", .loop [.call "Set", .call "dependOn"]], .branch [.call "Set", .call "dependOn"]]

def expectedIsSelfSkel : List Sk := [.loop [.branch [.call "return"]], .call "return"]

end Ioc
