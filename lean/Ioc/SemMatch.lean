/-
  Ioc.SemMatch — interpretation of the primitives called by the REGENERATED program of
  container/processors/dependency_further_matching_processors.go `filterDependencies` (Ioc.Progs.filterDependencies)
  in terms of the matching model M3 (Ioc.Match): reflection answers and tag arguments of the model are what the
  corresponding Go calls return.

    n                      the property            `.ref 0 1`
    n.Args()               its tag arguments       `.ref 0 2`;  Find / Has on ArgQualifier = Tag.find / Tag.has
    n.Type.Kind()          Slice (23) for slice kinds, Ptr (22) otherwise
    n.Holder.Meta.IsSelf(m)   m is the holder
    m (a *Meta)            `.ref id 0` / nil;  m.Raw `.ref id 4`; m.Raw.(WireQualifier) succeeds iff the provider has a
                           qualifier; m.Type `.ref id 6`; IsTypeImplement(m.Type, primaryInterface) = Prov.primary;
                           m.IsAlias() = Prov.custom
-/
import Ioc.GoSem
import Ioc.Match
import Ioc.Generated.Progs
namespace Ioc.Sem
open Ioc Ioc.Go Ioc.Match Ioc.Tag

def encId (i : Nat) : Val := .ref i 0
def encOptId : Option Nat → Val
  | some i => encId i
  | none => .nil

/-- the error value (see Ioc.SemRegistry.errVal; repeated to keep the files independent) -/
def errV : Val := .str "error"

structure FDCtx where
  byId : Nat → Option Prov
  holder : Nat
  kind : Kind
  args : Args

def provQual (c : FDCtx) (i : Nat) : Option Bytes := (c.byId i).bind (·.qual)
def provPrimary (c : FDCtx) (i : Nat) : Bool := match c.byId i with | some p => p.primary | none => false
def provCustom (c : FDCtx) (i : Nat) : Bool := match c.byId i with | some p => p.custom | none => true

def fdFn (c : FDCtx) : String → List Val → Unit → Option (Val × Unit)
  | ".Args", [.ref 0 1], _ => some (.ref 0 2, ())
  | "$component_definition.ArgQualifier", [], _ => some (.str "Qualifier", ())
  | ".Find", [.ref 0 2, .str "Qualifier"], _ =>
      some (.tuple [.ref 0 10, .bool (find c.args kQualifier).isSome], ())
  | ".Has", [.ref 0 2, .str "Qualifier", .ref i 3], _ =>
      some (.bool (match provQual c i with | some q => has c.args kQualifier [q] | none => false), ())
  | ".Raw", [.ref i 0], _ => some (.ref i 4, ())
  | "assert2:definition.WireQualifier", [.ref i 4], _ => some (.tuple [.ref i 4, .bool (provQual c i).isSome], ())
  | ".Qualifier", [.ref i 4], _ => some (.ref i 3, ())
  | ".Type", [.ref 0 1], _ => some (.ref 0 5, ())
  | ".Kind", [.ref 0 5], _ => some (.int (if c.kind.isSlice then 23 else 22), ())
  | "$reflect.Slice", [], _ => some (.int 23, ())
  | "$reflect.Array", [], _ => some (.int 17, ())
  | ".Type", [.ref i 0], _ => some (.ref i 6, ())
  | "$primaryInterface", [], _ => some (.ref 0 7, ())
  | "reflectx.IsTypeImplement", [.ref i 6, .ref 0 7], _ => some (.bool (provPrimary c i), ())
  | ".Holder", [.ref 0 1], _ => some (.ref 0 8, ())
  | ".Meta", [.ref 0 8], _ => some (.ref 0 9, ())
  | ".IsSelf", [.ref 0 9, .ref i 0], _ => some (.bool (i == c.holder), ())
  | ".IsAlias", [.ref i 0], _ => some (.bool (provCustom c i), ())
  | "errors.Errorf", _, _ => some (errV, ())
  | _, _, _ => none

def fdPrims (c : FDCtx) : Prims Unit := { fn := fdFn c }

/-- the qualifier filter of filterDependencies :66-69 on the model -/
def qualOk (c : FDCtx) (i : Nat) : Bool :=
  match c.byId i with
  | some p => (match p.qual with
      | some q => has c.args kQualifier [q]
      | none => false)
  | none => false

/-- filterDependencies on the model: `none` = the error return, `some l` = the narrowed candidates -/
def filterDeps (c : FDCtx) (cs : List (Option Nat)) : Option (List Nat) :=
  let r1 := cs.filterMap id
  if r1.isEmpty then none
  else
    let r2 := match find c.args kQualifier with
      | some _ => r1.filter (qualOk c)
      | none => r1
    if r2.isEmpty then none
    else if r2.length > 1 && c.kind.isSingle then
      let others := r2.filter (· != c.holder)
      let r3 := if others.isEmpty then r2 else others
      match choose c.byId r3 with
      | some x => some [x]
      | none => some r3
    else some r2

def encFD : Option (List Nat) → Val
  | some l => .tuple [.list (l.map encId), .nil]
  | none => .tuple [.nil, errV]

end Ioc.Sem
