/-
  Ioc.SemCreate — interpretation of the primitives called by the REGENERATED program of
  container/factory/factory.go `doCreateComponent` (Ioc.Progs.fac_doCreateComponent), and the decision it takes written
  as a plain function (`createDecision`): early exposure BEFORE population, population, initialization, the early-reference
  reconciliation of factory.go:222-247.

  Tokens: the raw meta of component n is `.ref n 0`, a proxy meta of version v is `.ref n v`; `meta.Raw` and the instances
  handed to / returned by InitializeComponent are `.ref n (1000 + v)`.
  The world is the trace of effectful calls, so that their ORDER is part of the statement.
-/
import Ioc.GoSem
import Ioc.Generated.Progs
namespace Ioc.Sem
open Ioc Ioc.Go

/-- everything doCreateComponent asks its collaborators, as data -/
structure DCC where
  n : Nat
  singleton : Bool                    -- meta.IsSingleton()
  allow : Bool                        -- f.allowCircularReferences
  populateOk : Bool                   -- populateComponent succeeds
  initRes : Option Nat                -- InitializeComponent: `some v` = returns the object of version v (0 = the instance itself), `none` = error
  proxyOk : Bool                      -- genProxyComponent succeeds
  earlyRes : Option (Option Nat)      -- GetSingleton(name, false): `none` = error, `some none` = nil, `some (some e)` = early reference of version e
  depsEarly : List Nat                -- earlySingletonReference.GetDependents()
  depsRaw : List Nat                  -- meta.GetDependents()
  inCrOf : Nat → Bool                 -- IsSingletonCurrentlyInCreation(·): of the component itself at entry, of its dependents at the end

def errC : Val := .str "error"

def dccFn (d : DCC) : String → List Val → List String → Option (Val × List String)
  | ".IsSingleton", [.ref _ 0], t => some (.bool d.singleton, t)
  | "$self.allowCircularReferences", [], t => some (.bool d.allow, t)
  | "self.singletonComponentRegistry.IsSingletonCurrentlyInCreation", [.int m], t =>
      some (.bool (d.inCrOf m.toNat), t)
  | "self.populateComponent", [.int _, .ref _ 0], t => some (if d.populateOk then .nil else errC, t ++ ["populate"])
  | ".Raw", [.ref m 0], t => some (.ref m 1000, t)
  | "self.postProcessorRegistrationDelegate.InitializeComponent", [.int m, .ref _ 1000], t =>
      some (match d.initRes with
            | some v => .tuple [.ref m.toNat (1000 + v), .nil]
            | none => .tuple [.nil, errC], t ++ ["initialize"])
  | "self.genProxyComponent", [.ref _ 0, .int m, .ref _ v], t =>
      some (if d.proxyOk then .tuple [.ref m.toNat (v - 1000), .nil] else .tuple [.nil, errC], t ++ ["proxy"])
  | "self.singletonComponentRegistry.GetSingleton", [.int m, .bool false], t =>
      some (match d.earlyRes with
            | none => .tuple [.nil, errC]
            | some none => .tuple [.nil, .nil]
            | some (some e) => .tuple [.ref m.toNat e, .nil], t ++ ["getEarly"])
  | ".GetDependents", [.ref _ 0], t => some (.list (d.depsRaw.map (fun (x : Nat) => Val.int (x : Int))), t)
  | ".GetDependents", [.ref _ _], t => some (.list (d.depsEarly.map (fun (x : Nat) => Val.int (x : Int))), t)
  | "append...", [.list a, .list b], t => some (.list (a ++ b), t)
  | "append", [.nil, v], t => some (.list [v], t)
  | "append", [.list a, v], t => some (.list (a ++ [v]), t)
  | "errors.Errorf", _, t => some (errC, t)
  | _, _, _ => none

def dccHfn : String → List Val → Handler (List String) → List String → Option (Val × List String)
  | "self.singletonComponentRegistry.AddSingletonFactory", [.int _], _, t => some (.tuple [], t ++ ["addFactory"])
  | _, _, _, _ => none

def dccPrims (d : DCC) : Prims (List String) := { fn := dccFn d, hfn := dccHfn }

/-- what doCreateComponent returns (version of the exposed component, or an error) and the calls it made, in order -/
def createDecision (d : DCC) : Option Nat × List String :=
  let exposure := d.singleton && d.allow && d.inCrOf d.n
  let t0 := if exposure then ["addFactory"] else []
  if !d.populateOk then (none, t0 ++ ["populate"]) else
  match d.initRes with
  | none => (none, t0 ++ ["populate", "initialize"])
  | some w =>
    let t1 := t0 ++ ["populate", "initialize"] ++ (if w ≠ 0 then ["proxy"] else [])
    if w ≠ 0 ∧ !d.proxyOk then (none, t1) else
    if !exposure then (some w, t1) else
    match d.earlyRes with
    | none => (none, t1 ++ ["getEarly"])
    | some none => (some w, t1 ++ ["getEarly"])
    | some (some e) =>
      if w = 0 then (some e, t1 ++ ["getEarly"])
      else if ((d.depsEarly ++ d.depsRaw).filter (fun x => !(d.inCrOf x))).isEmpty then (some w, t1 ++ ["getEarly"])
      else (none, t1 ++ ["getEarly"])

def encDecision (n : Nat) : Option Nat → Val
  | some v => .tuple [.ref n v, .nil]
  | none => .tuple [.nil, errC]

end Ioc.Sem
