/-
  Ioc.Order — M4: the ordering rule and the loops that consume its result.
  Mirrors
    util/framework_helper/order_component.go:8-38   SortOrderedComponents / orderedComponentComparator
    util/sort2/sort.go:5-9                          sort2.Slice = sort.Slice (UNSTABLE) — an abstract parameter here
    app/app.go:135-154                              App.callRunners
    configure/configure.go:54-72                    configure.loadConfigure
    container/factory/post_processor_registration_delegate.go
        :36-66    InvokeBeanFactoryPostProcessors (sort, resolve, append to componentPostProcessors)
        :95-118   InitializeComponent
        :137-171  applyPostProcessBeforeInitialization / applyPostProcessAfterInitialization
        :213-231  ResolveAfterInstantiation
        :178-211  ResolveBeforeInstantiation / applyPostProcessBeforeInstantiation (factory.go:164-190 createComponent)
        :232-246  GetEarlyBeanReference (called from factory.go:194-201, 283-296 for a singleton in a circular reference)
    configure/configure.go:28-52                    AddLoaders / SetLoaders / Initialize (several times on one Configure)

  The sort is a PARAMETER `sort : (α → α → Bool) → List α → List α` (comparator first, as sort2.Slice
  takes it).  The theorems of IocProofs.C12 assume only `SortSpec`: the result is a permutation and is
  ordered by the key.  The driver instantiates `sort := Ioc.isort`.

  API for other model files:  `Part`, `Cls`, `classOf`, `keyOf`, `less`, `sortOrdered`, `SortSpec`.
-/
import Ioc.Basic
namespace Ioc
namespace Order

/-- What SortOrderedComponents can see of a participant: which of the two interfaces
    `definition.Ordered` (`Order() int`) and `definition.Priority` (`Priority()`) it implements.
    A participant with `Priority()` but without `Order()` is `plain` (order_component.go:16: the
    `Ordered` assertion is the outer test). -/
inductive Part
  | prio (k : Int)   -- Ordered and Priority; k = Order()
  | ord (k : Int)    -- Ordered only;        k = Order()
  | plain            -- not Ordered
deriving DecidableEq, Repr

inductive Cls
  | prio | ord | plain
deriving DecidableEq, Repr

/-- the two nested type assertions of order_component.go:16-24;
    `order = some k` ⇔ implements Ordered with Order() = k, `priority` ⇔ implements Priority -/
def Part.ofIfaces (order : Option Int) (priority : Bool) : Part :=
  match order with
  | some k => if priority then .prio k else .ord k
  | none => .plain

def Part.cls : Part → Cls
  | .prio _ => .prio
  | .ord _ => .ord
  | .plain => .plain

/-- `any(x).(definition.Ordered).Order()` of the comparator (order_component.go:37): an UNCHECKED type
    assertion — `none` is the Go panic. -/
def Part.order? : Part → Option Int
  | .prio k => some k
  | .ord k => some k
  | .plain => none

def Part.key (p : Part) : Int := p.order?.getD 0

/-- position of the class block in the output -/
def Cls.rank : Cls → Nat
  | .prio => 0
  | .ord => 1
  | .plain => 2

section
variable {α : Type}

def classOf (part : α → Part) (x : α) : Cls := (part x).cls
def keyOf (part : α → Part) (x : α) : Int := (part x).key

def isPrio (part : α → Part) (x : α) : Bool := classOf part x = .prio
def isOrd (part : α → Part) (x : α) : Bool := classOf part x = .ord
def isPlain (part : α → Part) (x : α) : Bool := classOf part x = .plain

/-- orderedComponentComparator (order_component.go:36-38): `Order() < Order()` on Go `int`; only
    comparisons, no arithmetic, so `Int` is exact for every int64 value. -/
def less (part : α → Part) (x y : α) : Bool := decide (keyOf part x < keyOf part y)

/-- the comparator with its type assertions kept: `none` = panic -/
def less? (part : α → Part) (x y : α) : Option Bool :=
  match (part x).order?, (part y).order? with
  | some a, some b => some (decide (a < b))
  | _, _ => none

/-- the `for _, component := range components` loop (order_component.go:15-25):
    three accumulators, each extended by `append` at its end -/
def partitionLoop (part : α → Part) : List α → List α × List α × List α → List α × List α × List α
  | [], acc => acc
  | x :: rest, (p, o, n) =>
    match (part x).cls with
    | .prio => partitionLoop part rest (p ++ [x], o, n)
    | .ord => partitionLoop part rest (p, o ++ [x], n)
    | .plain => partitionLoop part rest (p, o, n ++ [x])

/-- SortOrderedComponents (order_component.go:8-34): partition, sort the first two blocks with the
    comparator, concatenate priority-ordered ++ ordered ++ none. -/
def sortOrdered (sort : (α → α → Bool) → List α → List α) (part : α → Part) (l : List α) : List α :=
  let r := partitionLoop part l ([], [], [])
  (([] ++ sort (less part) r.1) ++ sort (less part) r.2.1) ++ r.2.2

/-- All that is assumed of `sort.Slice` with the comparator `less part`: the result is a permutation
    of the input and no later element is smaller than an earlier one.  (Nothing about ties.) -/
def SortSpec (part : α → Part) (sort : (α → α → Bool) → List α → List α) : Prop :=
  ∀ l : List α, (sort (less part) l).Perm l ∧
    (sort (less part) l).Pairwise (fun a b => keyOf part a ≤ keyOf part b)

/-! ### the loops that walk the sorted slice -/

/-- specification vocabulary: the elements of `l` up to and including the first one that `stop`s -/
def takeUntil (stop : α → Bool) : List α → List α
  | [] => []
  | x :: rest => if stop x then [x] else x :: takeUntil stop rest

/-- `for i := range runners { err := runner.Run(); if err != nil { return … } }` (app.go:143-150);
    `fails r` ⇔ r.Run() returns an error.  Result: (runners invoked so far, error?) -/
def runLoop (fails : α → Bool) : List α → List α → List α × Bool
  | [], log => (log, false)
  | r :: rest, log =>
    if fails r then (log ++ [r], true) else runLoop fails rest (log ++ [r])

/-- App.callRunners (app.go:135-154) -/
def callRunners (sort : (α → α → Bool) → List α → List α) (part : α → Part) (fails : α → Bool)
    (runners : List α) : List α × Bool :=
  if runners.isEmpty then ([], false)                      -- app.go:137-140
  else runLoop fails (sortOrdered sort part runners) []    -- app.go:142-150

/-- outcome of one element of a "call; on error return; if <cond> { second call; on error return }" loop body -/
inductive Step
  | err                     -- the first call returns an error
  | skip                    -- first call fine, condition false
  | next (fails : Bool)     -- first call fine, condition true, second call (fails?)
deriving DecidableEq, Repr

/-- which call of the loop body -/
inductive Ev (α : Type)
  | first (x : α)
  | second (x : α)
deriving DecidableEq, Repr

/-- the loop shape shared by loadConfigure (configure.go:57-70: LoadConfig, then SetConfig when the
    config is not empty) and ResolveAfterInstantiation (delegate:214-229: PostProcessAfterInstantiation,
    then PostProcessProperties when it answered true). Result: (calls made, error?) -/
def twoStepLoop (res : α → Step) : List α → List (Ev α) → List (Ev α) × Bool
  | [], log => (log, false)
  | x :: rest, log =>
    match res x with
    | .err => (log ++ [.first x], true)
    | .skip => twoStepLoop res rest (log ++ [.first x])
    | .next false => twoStepLoop res rest (log ++ [.first x, .second x])
    | .next true => (log ++ [.first x, .second x], true)

/-- specification vocabulary for `twoStepLoop`: does the loop return at x, and which calls does x receive -/
def Step.stops : Step → Bool
  | .err => true
  | .next true => true
  | _ => false

def Step.evs (x : α) : Step → List (Ev α)
  | .err => [.first x]
  | .skip => [.first x]
  | .next _ => [.first x, .second x]

/-- the elements that received the first call, in call order / the second call, in call order -/
def firsts : List (Ev α) → List α
  | [] => []
  | .first x :: rest => x :: firsts rest
  | .second _ :: rest => firsts rest

def seconds : List (Ev α) → List α
  | [] => []
  | .first _ :: rest => seconds rest
  | .second x :: rest => x :: seconds rest

/-- configure.loadConfigure (configure.go:54-72); `Initialize` (configure.go:40-52) skips it for an
    empty loader list, which is the same as running the empty loop. -/
def loadConfigure (sort : (α → α → Bool) → List α → List α) (part : α → Part) (res : α → Step)
    (loaders : List α) : List (Ev α) × Bool :=
  twoStepLoop res (sortOrdered sort part loaders) []

/-- the registration loop of InvokeBeanFactoryPostProcessors (delegate:50-63).  `resolve p = none` ⇔
    GetComponentByName fails for a non-lazy processor; `some q` = the processor that is appended
    (p itself when it is LazyInit).  Result: (componentPostProcessors, error?) -/
def registerLoop (resolve : α → Option α) : List α → List α → List α × Bool
  | [], cpp => (cpp, false)
  | p :: rest, cpp =>
    match resolve p with
    | none => (cpp, true)
    | some q => registerLoop resolve rest (cpp ++ [q])

/-- delegate:49-63 -/
def invokeRegister (sort : (α → α → Bool) → List α → List α) (part : α → Part)
    (resolve : α → Option α) (raw : List α) (cpp : List α) : List α × Bool :=
  registerLoop resolve (sortOrdered sort part raw) cpp

/-- result of one post-processor callback on a component of type β -/
inductive Res (β : Type)
  | err
  | nil                  -- returned a nil component
  | val (b : β)
deriving Repr

/-- applyPostProcessBeforeInitialization (delegate:137-152): stop at the first error, stop at the first nil -/
def applyBefore {β : Type} (before : α → β → Res β) : List α → β → List α → List α × Res β
  | [], cur, log => (log, .val cur)
  | p :: rest, cur, log =>
    match before p cur with
    | .err => (log ++ [p], .err)
    | .nil => (log ++ [p], .nil)
    | .val c => applyBefore before rest c (log ++ [p])

/-- applyPostProcessAfterInitialization (delegate:154-171): stop at the first error (`none`),
    a nil answer returns the last non-nil result -/
def applyAfter {β : Type} (after : α → β → Res β) : List α → β → List α → List α × Option β
  | [], result, log => (log, some result)
  | p :: rest, result, log =>
    match after p result with
    | .err => (log ++ [p], none)
    | .nil => (log ++ [p], some result)
    | .val c => applyAfter after rest c (log ++ [p])

/-- InitializeComponent (delegate:95-118); `initFails` = invokeInitMethods returns an error.
    Result: (before-log, after-log, `none` = error) -/
def initializeComponent {β : Type} (before after : α → β → Res β) (initFails : β → Bool)
    (procs : List α) (m : β) : List α × List α × Option β :=
  match applyBefore before procs m [] with
  | (lb, .err) => (lb, [], none)
  | (lb, .nil) => (lb, [], some m)                        -- delegate:104-106
  | (lb, .val w) =>
    if initFails w then (lb, [], none)
    else
      let r := applyAfter after procs w []
      (lb, r.1, r.2)

/-- ResolveAfterInstantiation (delegate:213-231): only the InstantiationAware processors take part -/
def resolveAfterInstantiation (isInst : α → Bool) (res : α → Step) (procs : List α) : List (Ev α) × Bool :=
  twoStepLoop res (procs.filter isInst) []

/-- what a start with ONE probe component shows of the three sequences -/
structure StartLog (α : Type) where
  loads : List (Ev α) := []     -- LoadConfig / SetConfig calls
  inst : List (Ev α) := []      -- PostProcessAfterInstantiation / PostProcessProperties calls for the probe
  before : List α := []         -- PostProcessBeforeInitialization calls for the probe
  after : List α := []          -- PostProcessAfterInitialization calls for the probe
  runs : List α := []           -- Run calls
  err : Bool := false           -- App.Run returned an error
  early : List α := []          -- GetEarlyBeanReference calls of the one early-reference request (`startC` only)

/-- App.run (app.go:78-108; `Facts.runStages`): initConfiguration → initFactory → refresh → callRunners,
    each stage returning on error — restricted to what the three sorted sequences do for a single probe
    component without injection points (createComponent → populateComponent → InitializeComponent,
    factory.go:164-215, 252-256). -/
def start (sort : (α → α → Bool) → List α → List α) (part : α → Part)
    (loadRes : α → Step) (resolve : α → Option α) (isInst : α → Bool) (instRes : α → Step)
    (before after : α → Unit → Res Unit) (runFails : α → Bool)
    (loaders procs runners : List α) : StartLog α :=
  let lc := loadConfigure sort part loadRes loaders
  if lc.2 then { loads := lc.1, err := true } else
  let reg := invokeRegister sort part resolve procs []
  if reg.2 then { loads := lc.1, err := true } else
  let ri := resolveAfterInstantiation isInst instRes reg.1
  if ri.2 then { loads := lc.1, inst := ri.1, err := true } else
  let ic := initializeComponent before after (fun _ => false) reg.1 ()
  match ic.2.2 with
  | none => { loads := lc.1, inst := ri.1, before := ic.1, after := ic.2.1, err := true }
  | some _ =>
    let cr := callRunners sort part runFails runners
    { loads := lc.1, inst := ri.1, before := ic.1, after := ic.2.1, runs := cr.1, err := cr.2 }

/-! ### early references (a singleton in a circular reference) -/

/-- the loop of GetEarlyBeanReference (delegate:236-244): walks ALL of `componentPostProcessors`, the type
    assertion to SmartInstantiationAwareBeanPostProcessor is inside the loop; `get p c = none` ⇔ the callback
    returns an error (the loop returns).  Result: (processors called, `none` = error) -/
def earlyRefLoop {β : Type} (isSmart : α → Bool) (get : α → β → Option β) :
    List α → β → List α → List α × Option β
  | [], cur, log => (log, some cur)
  | p :: rest, cur, log =>
    if isSmart p then
      match get p cur with
      | none => (log ++ [p], none)
      | some c => earlyRefLoop isSmart get rest c (log ++ [p])
    else earlyRefLoop isSmart get rest cur log

/-- PostProcessorRegistrationDelegate.GetEarlyBeanReference (delegate:232-246); `hasInst` is the flag
    `hasInstantiationAwareComponentPostProcessor` set at registration (delegate:25-33) -/
def getEarlyBeanReference {β : Type} (hasInst : Bool) (isSmart : α → Bool) (get : α → β → Option β)
    (procs : List α) (m : β) : List α × Option β :=
  if hasInst then earlyRefLoop isSmart get procs m [] else ([], some m)

/-- `start` with the probe in a circular reference with a second singleton (probe ⇄ mate, both plain `wire` points).
    Whichever of the two is created first, both pass ResolveAfterInstantiation before the second one's population
    asks for the first one — still in creation — and the registry calls its singleton factory (factory.go:194-201 →
    getEarlyBeanReference, factory.go:283-296): ONE early-reference request, after the probe's
    ResolveAfterInstantiation and before either InitializeComponent.  An error of a GetEarlyBeanReference callback
    fails the creation (and the start) before the probe is initialised.
    `builtinInst`: some built-in processor is InstantiationAware (sets the flag as well). -/
def startC (sort : (α → α → Bool) → List α → List α) (part : α → Part)
    (loadRes : α → Step) (resolve : α → Option α) (isInst : α → Bool) (instRes : α → Step)
    (before after : α → Unit → Res Unit) (runFails : α → Bool)
    (builtinInst : Bool) (isSmart : α → Bool) (get : α → Unit → Option Unit)
    (loaders procs runners : List α) : StartLog α :=
  let g := start sort part loadRes resolve isInst instRes before after runFails loaders procs runners
  let lc := loadConfigure sort part loadRes loaders
  let reg := invokeRegister sort part resolve procs []
  let ri := resolveAfterInstantiation isInst instRes reg.1
  if lc.2 || reg.2 || ri.2 then g     -- the factory never gets as far as the request
  else
    let ge := getEarlyBeanReference (builtinInst || procs.any isInst) isSmart get reg.1 ()
    match ge.2 with
    | none => { loads := lc.1, inst := ri.1, early := ge.1, err := true }
    | some _ => { g with early := ge.1 }

/-! ### one Configure, several Initialize calls -/

/-- the calls a program makes on one `configure.Configure` -/
inductive ConfOp (α : Type)
  | set (ls : List α)     -- SetLoaders (configure.go:32-34): replaces
  | add (ls : List α)     -- AddLoaders (configure.go:28-30): appends to what is there (after an Initialize: the SORTED slice)
  | init                  -- Initialize (configure.go:40-52)
deriving Repr

/-- Initialize (configure.go:40-52) with loadConfigure's write-back `c.loaders = SortOrderedComponents(c.loaders)`
    (configure.go:55).  Result: (the loader slice afterwards, (calls made, error?)) -/
def confInitialize (sort : (α → α → Bool) → List α → List α) (part : α → Part) (res : α → Step)
    (cur : List α) : List α × (List (Ev α) × Bool) :=
  if cur.isEmpty then (cur, ([], false))                      -- configure.go:41-44
  else
    let s := sortOrdered sort part cur                        -- configure.go:55
    (s, twoStepLoop res s [])                                 -- configure.go:57-70

/-- a whole call sequence on one Configure whose loader slice is `cur`; one result per Initialize -/
def confRun (sort : (α → α → Bool) → List α → List α) (part : α → Part) (res : α → Step) :
    List (ConfOp α) → List α → List (List (Ev α) × Bool)
  | [], _ => []
  | .set ls :: rest, _ => confRun sort part res rest ls
  | .add ls :: rest, cur => confRun sort part res rest (cur ++ ls)
  | .init :: rest, cur =>
    let r := confInitialize sort part res cur
    r.2 :: confRun sort part res rest r.1

/-- specification vocabulary: the loaders REGISTERED at each Initialize of the sequence, in registration order
    (SetLoaders replaces, AddLoaders appends; no sorting) -/
def confRegistered : List (ConfOp α) → List α → List (List α)
  | [], _ => []
  | .set ls :: rest, _ => confRegistered rest ls
  | .add ls :: rest, cur => confRegistered rest (cur ++ ls)
  | .init :: rest, cur => cur :: confRegistered rest cur

end

/-! ### instances supplied before instantiation (the short-circuit of createComponent) -/
section
variable {α : Type}

/-- specification vocabulary: the callback's answer ends the before-instantiation chain (an error or a component) -/
def Res.answers {β : Type} : Res β → Bool
  | .nil => false
  | _ => true

/-- applyPostProcessBeforeInstantiation (delegate:193-211): walks ALL of `componentPostProcessors`, the type assertion to
    InstantiationAwareComponentPostProcessor is inside the loop; the first error and the first non-nil component end it.
    `bi p` = what `p.PostProcessBeforeInstantiation(meta, name)` answers.  Result: (processors asked, answer) -/
def applyBeforeInstantiation {β : Type} (isInst : α → Bool) (bi : α → Res β) : List α → List α → List α × Res β
  | [], log => (log, .nil)
  | p :: rest, log =>
    if isInst p then
      match bi p with
      | .err => (log ++ [p], .err)
      | .val c => (log ++ [p], .val c)
      | .nil => applyBeforeInstantiation isInst bi rest (log ++ [p])
    else applyBeforeInstantiation isInst bi rest log

/-- ResolveBeforeInstantiation (delegate:178-191): nobody is asked without an InstantiationAware processor (`hasInst`,
    the flag set at registration, delegate:25-33); a component handed out by the before-instantiation chain goes through
    applyPostProcessAfterInitialization (and nothing else), whose answer is returned.
    Result: (before-instantiation log, after-initialization log, answer: `.nil` = no short-circuit) -/
def resolveBeforeInstantiation {β : Type} (hasInst : Bool) (isInst : α → Bool) (bi : α → Res β)
    (after : α → β → Res β) (procs : List α) : List α × List α × Res β :=
  if hasInst then
    match applyBeforeInstantiation isInst bi procs [] with
    | (lb, .err) => (lb, [], .err)
    | (lb, .nil) => (lb, [], .nil)
    | (lb, .val c) =>
      let r := applyAfter after procs c []
      (lb, r.1, match r.2 with | none => .err | some c' => .val c')
  else ([], [], .nil)

/-- the callbacks one component creation makes -/
structure CompLog (α : Type) where
  binst : List α := []         -- PostProcessBeforeInstantiation
  inst : List (Ev α) := []     -- PostProcessAfterInstantiation / PostProcessProperties
  before : List α := []        -- PostProcessBeforeInitialization
  after : List α := []         -- PostProcessAfterInitialization

/-- createComponent (factory.go:164-190) for a component without injection points: ResolveBeforeInstantiation first; a
    non-nil answer IS the component (factory.go:174-180; wrapped into a proxy Meta when it is not the registered
    instance) and doCreateComponent is skipped; otherwise populateComponent (→ ResolveAfterInstantiation, factory.go:252-256)
    and InitializeComponent (factory.go:207).  `raw` = the registered instance.  Result: (log, `none` = error) -/
def createComponent {β : Type} (hasInst : Bool) (isInst : α → Bool) (bi : α → Res β) (instRes : α → Step)
    (before after : α → β → Res β) (initFails : β → Bool) (procs : List α) (raw : β) : CompLog α × Option β :=
  match resolveBeforeInstantiation hasInst isInst bi after procs with
  | (lb, la, .err) => ({ binst := lb, after := la }, none)
  | (lb, la, .val c) => ({ binst := lb, after := la }, some c)
  | (lb, _, .nil) =>
    let ri := resolveAfterInstantiation isInst instRes procs
    if ri.2 then ({ binst := lb, inst := ri.1 }, none) else
    let ic := initializeComponent before after initFails procs raw
    ({ binst := lb, inst := ri.1, before := ic.1, after := ic.2.1 }, ic.2.2)

/-- the loop of Refresh (factory.go:106-112) over the watched components `cs` (in name order): each is created once,
    the first failing creation ends the loop.  `bi c` / `raw c`: the before-instantiation answers for component c and
    its registered instance.  Result: (one log and final instance per component reached, error?) -/
def refreshLoop {β γ : Type} (hasInst : Bool) (isInst : α → Bool) (bi : γ → α → Res β) (instRes : α → Step)
    (before after : α → β → Res β) (initFails : β → Bool) (procs : List α) (raw : γ → β) :
    List γ → List (CompLog α × Option β) → List (CompLog α × Option β) × Bool
  | [], acc => (acc, false)
  | c :: rest, acc =>
    let r := createComponent hasInst isInst (bi c) instRes before after initFails procs (raw c)
    match r.2 with
    | none => (acc ++ [r], true)
    | some _ => refreshLoop hasInst isInst bi instRes before after initFails procs raw rest (acc ++ [r])

/-- what a start with several watched components shows -/
structure StartLogB (α β : Type) where
  loads : List (Ev α) := []
  comps : List (CompLog α × Option β) := []
  runs : List α := []
  err : Bool := false

/-- `start` for several watched components without injection points, with processors that may supply instances from
    PostProcessBeforeInstantiation (App.run, app.go:78-108: configuration → registration of the processors → Refresh →
    callRunners, each stage returning on error) -/
def startB {β γ : Type} (sort : (α → α → Bool) → List α → List α) (part : α → Part)
    (loadRes : α → Step) (resolve : α → Option α) (hasInst : Bool) (isInst : α → Bool) (bi : γ → α → Res β)
    (instRes : α → Step) (before after : α → β → Res β) (runFails : α → Bool) (raw : γ → β) (cs : List γ)
    (loaders procs runners : List α) : StartLogB α β :=
  let lc := loadConfigure sort part loadRes loaders
  if lc.2 then { loads := lc.1, err := true } else
  let reg := invokeRegister sort part resolve procs []
  if reg.2 then { loads := lc.1, err := true } else
  let rf := refreshLoop hasInst isInst bi instRes before after (fun _ => false) reg.1 raw cs []
  if rf.2 then { loads := lc.1, comps := rf.1, err := true } else
  let cr := callRunners sort part runFails runners
  { loads := lc.1, comps := rf.1, runs := cr.1, err := cr.2 }

end

/-! ### one instance reaching the singleton registry through several routes (ninth round)

`app.SetComponents(cs...)` (app/options.go:26-32) registers every listed component, in order, and a start may apply several
such options (a module's option bundle next to the application's own list; `ioc.Register` adds one more).  The list of
post-processors / runners the container later sequences is read off the registry (`GetSingletonNames`,
factory.go PrepareComponents), so "every participant appears exactly once" starts here. -/

section Routes
variable {α ν : Type} [DecidableEq ν]

/-- `registry.RegisterSingleton` (container/support/singleton_registry.go:52-62) for instances with different names:
    `Load(name)` finds the name taken — by this very object: `return`, nothing is stored a second time — or stores it.
    `acc` = the stored instances, one per name, in the order in which they were stored.  (A DIFFERENT object under a taken
    name panics: `C01_code_RegisterSingleton`; participants of one start have names of their own.) -/
def registerSingleton (name : α → ν) (acc : List α) (x : α) : List α :=
  if acc.any (fun y => name y = name x) then acc else acc ++ [x]

/-- all registrations of a start, in the order the options perform them -/
def registerAll (name : α → ν) (regs : List α) : List α := regs.foldl (registerSingleton name) []

/-- one `SetComponents` call that lists some of its components twice (`app.SetComponents(x, x)`) -/
def listed (twice : α → Bool) (l : List α) : List α := l.flatMap fun x => if twice x then [x, x] else [x]

end Routes

/-! ### concrete participants for the driver and the examples -/

/-- a participant: what the sorter sees of it, and an identity (position in the registration list) -/
structure Participant where
  part : Part
  id : Nat
deriving DecidableEq, Repr

/-- the driver's concrete sorter -/
def sortParticipants (l : List Participant) : List Participant :=
  sortOrdered (fun lt l => isort lt l) Participant.part l

end Order
end Ioc
