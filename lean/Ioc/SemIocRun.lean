/-
  Ioc.SemIocRun — interpretation of the primitives called by the REGENERATED package-level entry points (run.go: Run, Register).
  The world is the package-level list `registerHandlers` and the option lists that were handed to `App.Run`, in order.
-/
import Ioc.GoSem
import Ioc.Generated.Progs
namespace Ioc.Sem
open Ioc Ioc.Go

structure IRW where
  reg : List Val := []               -- registerHandlers
  started : List (List Val) := []    -- the option list of every App.Run call, in call order
deriving Inhabited

def iocFn (flag : String) (runFails : Bool) : String → List Val → IRW → Option (Val × IRW)
  | "NewApp", [], w => some (.ref 0 1, w)
  | "$flagLogLevel", [], w => some (.str flag, w)
  | "$registerHandlers", [], w => some (.list w.reg, w)
  | "append...", [.list a, .list b], w => some (.list (a ++ b), w)
  | "append...", [.nil, .list b], w => some (.list b, w)
  | "append", [.list a, v], w => some (.list (a ++ [v]), w)
  | "SetComponents", [cs], w => some (.tuple [.str "SetComponents", cs], w)
  | ".setglob:registerHandlers", [.list l], w => some (.tuple [], { w with reg := l })
  | ".Run", [.ref 0 1, .list opts], w =>
      some (if runFails then .str "error" else .nil, { w with started := w.started ++ [opts] })
  | _, _, _ => none

def iocPrims (flag : String) (runFails : Bool) : Prims IRW := { fn := iocFn flag runFails }

end Ioc.Sem
