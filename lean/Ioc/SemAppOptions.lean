/-
  Ioc.SemAppOptions — interpretation of the primitives called by the REGENERATED start options of package app
  (app/options.go: Options, SetRegistry, SetComponents, SetConfigure, SetConfig, SetFactory, SetConfigLoader, AddConfigLoader,
  SetConfigBinder; each returns a function literal: translated curried, the App is the last parameter).
  The App is `.ref 0 1`; the world is what its fields point at and what was done to the registries / configures so far.
-/
import Ioc.GoSem
import Ioc.Generated.Progs
namespace Ioc.Sem
open Ioc Ioc.Go

/-- an operation on a configure object (identified by number) -/
inductive CfgOp
  | addLoaders (ls : Val)
  | setLoaders (ls : Val)
  | setBinder (b : Val)
deriving Inhabited

structure AW where
  registry : Nat            -- what s.registry points at
  factory : Nat
  configure : Nat
  registered : List (Nat × Val) := []     -- (registry, component) of every RegisterSingleton call, in order
  cfgOps : List (Nat × CfgOp) := []       -- (configure, operation), in order
  applied : List Nat := []                -- Options: which options were called, in order

def aoptFn : String → List Val → AW → Option (Val × AW)
  | ".set:registry", [.ref 0 1, .ref r 2], w => some (.tuple [], { w with registry := r })
  | ".set:Factory", [.ref 0 1, .ref f 3], w => some (.tuple [], { w with factory := f })
  | ".set:Configure", [.ref 0 1, .ref c 4], w => some (.tuple [], { w with configure := c })
  | ".registry", [.ref 0 1], w => some (.ref w.registry 2, w)
  | ".Configure", [.ref 0 1], w => some (.ref w.configure 4, w)
  | ".RegisterSingleton", [.ref r 2, c], w => some (.tuple [], { w with registered := w.registered ++ [(r, c)] })
  | ".AddLoaders", [.ref c 4, ls], w => some (.tuple [], { w with cfgOps := w.cfgOps ++ [(c, .addLoaders ls)] })
  | ".SetLoaders", [.ref c 4, ls], w => some (.tuple [], { w with cfgOps := w.cfgOps ++ [(c, .setLoaders ls)] })
  | ".SetBinder", [.ref c 4, b], w => some (.tuple [], { w with cfgOps := w.cfgOps ++ [(c, .setBinder b)] })
  | "loader.NewFileLoader", [.str p], w => some (.tuple [.str "file", .str p], w)
  | ".call", [.ref i 5, .ref 0 1], w => some (.tuple [], { w with applied := w.applied ++ [i] })
  | _, _, _ => none

def aoptPrims : Prims AW := { fn := aoptFn }

end Ioc.Sem
