/-
  Ioc.RegistrySkel — the call skeleton of container/support/singleton_component_registry.go that the
  model `Ioc.Registry` was written against: per method, the calls made through the receiver, in
  source order, with the `if` nesting.  `harness/cmd/facts` regenerates the same term from the Go
  source on every run (`Ioc.Facts.registryOps`); `C04_registry_skeleton` states that the two are equal,
  so an edit of the Go file that adds, drops or reorders one of these calls breaks that theorem.

  Which model function stands for which entry:
    AddSingletonFactory             ↦ Reg.addFactory      (l3 Store)
    RemoveSingleton                 ↦ Reg.remove          (l1, l2, l3 Delete; inCr Remove)
    AddSingleton                    ↦ Reg.addSingleton    (l1 Store; l2, l3 Delete)
    GetSingleton                    ↦ Reg.get             (l1 Load→return; l2 Load→return; if allowEarly: l3 Load,
                                                           run the factory, err→return, l2 Store, l3 Delete, return)
    GetSingletonOrCreateByFactory   ↦ Reg.beginCreate (l1 Load→return; inCr Put), the factory call = the body of
                                      `Act.getOrCreate`, Reg.endCreate (err: self.RemoveSingleton; ok: inCr Remove,
                                      self.AddSingleton)
    IsSingletonCurrentlyInCreation  ↦ Reg.isInCreation    (inCr Exists)
-/
import Ioc.FactTypes
namespace Ioc.RegistrySkel

def expectedRegistryOps : List (String × List Sk) := [
  ("AddSingletonFactory", [.call "singletonFactories.Store"]),
  ("RemoveSingleton", [.call "singletonObjects.Delete", .call "earlySingletonObjects.Delete",
                       .call "singletonFactories.Delete", .call "singletonCurrentlyInCreation.Remove"]),
  ("AddSingleton", [.call "singletonObjects.Store", .call "earlySingletonObjects.Delete", .call "singletonFactories.Delete"]),
  ("GetSingleton", [.call "singletonObjects.Load", .branch [.call "return"],
                    .call "earlySingletonObjects.Load", .branch [.call "return"],
                    .branch [.call "singletonFactories.Load",
                             .branch [.branch [.call "return"], .call "earlySingletonObjects.Store",
                                      .call "singletonFactories.Delete", .call "return"]],
                    .call "return"]),
  ("GetSingletonOrCreateByFactory", [.call "singletonObjects.Load", .branch [.call "return"],
                                     .call "singletonCurrentlyInCreation.Put", .call "param.factory.GetComponent",
                                     .branch [.call "self.RemoveSingleton", .call "return"],
                                     .call "singletonCurrentlyInCreation.Remove", .call "self.AddSingleton", .call "return"]),
  ("IsSingletonCurrentlyInCreation", [.call "singletonCurrentlyInCreation.Exists", .call "return"])
]

end Ioc.RegistrySkel
