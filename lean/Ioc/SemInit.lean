/-
  Ioc.SemInit — interpretation of the primitives called by the REGENERATED programs of
  container/factory/post_processor_registration_delegate.go: applyPostProcessBeforeInitialization,
  applyPostProcessAfterInitialization, invokeInitMethods, InitializeComponent — in terms of M4 (Ioc.Order: `applyBefore`,
  `applyAfter`, `initializeComponent`).  Processors are `.ref p 0`, component versions `.ref c 50`; `before p c` / `after p c`
  say what the callback of processor p returns for component c (error / nil / another component).
-/
import Ioc.GoSem
import Ioc.Order
import Ioc.Generated.Progs
namespace Ioc.Sem
open Ioc Ioc.Go Ioc.Order

def errN : Val := .str "error"
def encP (p : Nat) : Val := .ref p 0
def encC (c : Nat) : Val := .ref c 50

def encRes : Res Nat → Val
  | .err => .tuple [.nil, errN]
  | .nil => .tuple [.nil, .nil]
  | .val c => .tuple [encC c, .nil]

/-- what the component's own init methods are and do -/
structure InitM where
  hasAps : Nat → Bool      -- implements definition.InitializingComponent
  apsOk : Nat → Bool
  hasInit : Nat → Bool     -- implements definition.InitializeComponent
  initOk : Nat → Bool

inductive IEv
  | before (p : Nat)
  | aps (c : Nat)
  | init (c : Nat)
  | after (p : Nat)
deriving DecidableEq, Repr

def initFn (procs : List Nat) (before after : Nat → Nat → Res Nat) (im : InitM) :
    String → List Val → List IEv → Option (Val × List IEv)
  | "$self.componentPostProcessors", [], w => some (.list (procs.map encP), w)
  | ".PostProcessBeforeInitialization", [.ref p 0, .ref c 50, _], w => some (encRes (before p c), w ++ [.before p])
  | ".PostProcessAfterInitialization", [.ref p 0, .ref c 50, _], w => some (encRes (after p c), w ++ [.after p])
  | "errors.Wrapf", _, w => some (errN, w)
  | "reflectx.Id", [_], w => some (.str "id", w)
  | "assert2:definition.InitializingComponent", [.ref c 50], w => some (.tuple [.ref c 51, .bool (im.hasAps c)], w)
  | ".AfterPropertiesSet", [.ref c 51], w => some (if im.apsOk c then .nil else errN, w ++ [.aps c])
  | "assert2:definition.InitializeComponent", [.ref c 50], w => some (.tuple [.ref c 52, .bool (im.hasInit c)], w)
  | ".Init", [.ref c 52], w => some (if im.initOk c then .nil else errN, w ++ [.init c])
  | _, _, _ => none

def initBase (procs : List Nat) (before after : Nat → Nat → Res Nat) (im : InitM) : Prims (List IEv) :=
  { fn := initFn procs before after im }

/-- invokeInitMethods on the model: (events, failed) -/
def initMethods (im : InitM) (c : Nat) : List IEv × Bool :=
  if im.hasAps c && !im.apsOk c then ([.aps c], true) else
  let t := if im.hasAps c then [IEv.aps c] else []
  if im.hasInit c then (t ++ [.init c], !im.initOk c) else (t, false)

end Ioc.Sem
