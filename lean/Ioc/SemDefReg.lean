/-
  Ioc.SemDefReg — interpretation of the primitives called by the REGENERATED definition registry
  (container/support/component_definition_registry.go: RegisterMeta, GetMetas, GetMetaByName, GetMetaOrRegister).
  The registry's sync2.Map is the association list `entries` IN THE ORDER IN WHICH Range ENUMERATES IT (Go leaves that order
  open; it is whatever the list says).  Definitions are `.ref i 0`; `accept i` is what `container.And(opts...)(m)` answers for
  definition i (the option closures are regenerated on their own: Ioc.SemOptions).
-/
import Ioc.GoSem
import Ioc.Generated.Progs
namespace Ioc.Sem
open Ioc Ioc.Go

structure DRW where
  entries : List (String × Nat)       -- name ↦ definition, in Range order
  named : List (Nat × String) := []   -- SetName calls, in order
deriving Repr

/-- sync.Map.Store: an existing key keeps its place, a new key is met last by a later Range (any place would do) -/
def upsert (k : String) (v : Nat) : List (String × Nat) → List (String × Nat)
  | [] => [(k, v)]
  | (k', v') :: rest => if k' = k then (k, v) :: rest else (k', v') :: upsert k v rest

def lookupE (k : String) (l : List (String × Nat)) : Option Nat := (l.find? (fun e => e.1 == k)).map (·.2)

/-- Range over a literal that may assign to captured variables: every entry in order, `false` stops -/
def rangeLoopE (k : HandlerE DRW) : List (String × Nat) → Env → DRW → Option (Val × Env × DRW)
  | [], env, w => some (.tuple [], env, w)
  | (n, i) :: rest, env, w =>
    match k [.str n, .ref i 0] env w with
    | some (.bool true, env', w') => rangeLoopE k rest env' w'
    | some (.bool false, env', w') => some (.tuple [], env', w')
    | _ => none

def dregFn (nameOf : Nat → String) (accept : Nat → Bool) : String → List Val → DRW → Option (Val × DRW)
  | ".Name", [.ref i 0], w => some (.str (nameOf i), w)
  | "self.metaMaps.Store", [.str n, .ref i 0], w => some (.tuple [], { w with entries := upsert n i w.entries })
  | "container.And...()", [_, .ref i 0], w => some (.bool (accept i), w)
  | "append", [.list l, v], w => some (.list (l ++ [v]), w)
  | "self.metaMaps.Load", [.str n], w =>
      some (match lookupE n w.entries with
            | some i => .tuple [.ref i 0, .bool true]
            | none => .tuple [.nil, .bool false], w)
  | "component_definition.NewMeta", [.ref c 50], w => some (.ref c 0, w)
  | ".SetName", [.ref i 0, .str n], w => some (.tuple [], { w with named := w.named ++ [(i, n)] })
  | _, _, _ => none

def dregPrims (nameOf : Nat → String) (accept : Nat → Bool) : Prims DRW :=
  { fn := dregFn nameOf accept
    hfnE := fun f args k env w =>
      match f, args with
      | "self.metaMaps.Range", [] => rangeLoopE k w.entries env w
      | _, _ => none
    hfn := fun f args k w =>
      match f, args with
      | "self.metaMaps.LoadOrStoreFn", [.str n] =>
        (match lookupE n w.entries with
         | some i => some (.tuple [.ref i 0, .bool true], w)
         | none =>
           match k [] w with
           | some (.ref i 0, w') => some (.tuple [.ref i 0, .bool false], { w' with entries := upsert n i w'.entries })
           | _ => none)
      | _, _ => none }

end Ioc.Sem
