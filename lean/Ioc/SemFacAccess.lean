/-
  Ioc.SemFacAccess — interpretation of the primitives called by the REGENERATED factory.Default, the accessors of
  defaultFactory, and the ID functions Field.ID / Holder.ID / Property.ID / Property.info.
-/
import Ioc.GoSem
import Ioc.Generated.Progs
namespace Ioc.Sem
open Ioc Ioc.Go

/-- the members of a defaultFactory that the accessors read and write -/
structure FacObj where
  singletonRegistry : Val
  definitionRegistry : Val
  configure : Val
  registeredComponents : Val
  defPPs : Val
  beanPPCalls : List (Val × Val)          -- delegate.RegisterComponentPostProcessors(p, name)
deriving Repr

def facName : String :=
  "&defaultFactory{definitionRegistry,singletonComponentRegistry,postProcessorRegistrationDelegate,allowCircularReferences}"

/-- factory.Default's own primitives -/
def fdFn (f : String) (args : List Val) (w : FacObj) : Option (Val × FacObj) :=
  match f, args with
  | "support.DefaultDefinitionRegistry", [] => some (.str "new definition registry", w)
  | "support.DefaultSingletonComponentRegistry", [] => some (.str "new singleton component registry", w)
  | "NewPostProcessorRegistrationDelegate", [] => some (.str "new delegate", w)
  | _, _ => if f = facName then some (.tuple (.str "defaultFactory" :: args), w) else none

def fdPrims : Prims FacObj := { fn := fdFn }

def faFn : String → List Val → FacObj → Option (Val × FacObj)
  | "$self", [], w => some (.ref 0 200, w)
  | "self.postProcessorRegistrationDelegate.RegisterComponentPostProcessors", [p, n], w =>
      some (.tuple [], { w with beanPPCalls := w.beanPPCalls ++ [(p, n)] })
  | "$self.registeredComponents", [], w => some (w.registeredComponents, w)
  | "$self.definitionRegistryPostProcessors", [], w => some (w.defPPs, w)
  | "$self.configure", [], w => some (w.configure, w)
  | "$self.definitionRegistry", [], w => some (w.definitionRegistry, w)
  | ".set:singletonRegistry", [.ref 0 200, r], w => some (.tuple [], { w with singletonRegistry := r })
  | ".set:configure", [.ref 0 200, c], w => some (.tuple [], { w with configure := c })
  | _, _, _ => none

def faPrims : Prims FacObj := { fn := faFn }

/-! ### IDs -/

/-- `fmt.Sprintf` with the three formats of the ID functions -/
def idFn (holderID typeName metaID fieldName fieldID info pt tag tagStr : String) (isEmbed : Bool) :
    String → List Val → Unit → Option (Val × Unit)
  | "fmt.Sprintf", [.str "%s.Field(%s)", .str h, .str n], w => some (.str (h ++ ".Field(" ++ n ++ ")"), w)
  | "fmt.Sprintf", [.str "%s.Embed(%s)", .str h, .str n], w => some (.str (h ++ ".Embed(" ++ n ++ ")"), w)
  | "fmt.Sprintf", [.str "%s%s", .str a, .str b], w => some (.str (a ++ b), w)
  | "fmt.Sprintf", [.str ".Type(%s).Tag(%s:'%s')", .str a, .str b, .str c], w =>
      some (.str (".Type(" ++ a ++ ").Tag(" ++ b ++ ":'" ++ c ++ "')"), w)
  | "self.Holder.ID", [], w => some (.str holderID, w)
  | "$self.StructField.Name", [], w => some (.str fieldName, w)
  | "$self.IsEmbed", [], w => some (.bool isEmbed, w)
  | "self.Type.Name", [], w => some (.str typeName, w)
  | "self.Meta.ID", [], w => some (.str metaID, w)
  | "self.Field.ID", [], w => some (.str fieldID, w)
  | "self.info", [], w => some (.str info, w)
  | "$self.PropertyType", [], w => some (.str pt, w)
  | "$self.Tag", [], w => some (.str tag, w)
  | "$self.TagStr", [], w => some (.str tagStr, w)
  | _, _, _ => none

def idPrims (holderID typeName metaID fieldName fieldID info pt tag tagStr : String) (isEmbed : Bool) : Prims Unit :=
  { fn := idFn holderID typeName metaID fieldName fieldID info pt tag tagStr isEmbed }

end Ioc.Sem
