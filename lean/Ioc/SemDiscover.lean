/-
  Ioc.SemDiscover — interpretation of the primitives called by the REGENERATED candidate-discovery programs:
    container/processors/dependency_aware_post_processors.go          PostProcessProperties (wire tag: by type / by name), isActualKind
    container/processors/dependency_function_aware_post_processors.go PostProcessProperties (func tag)
  in terms of M3 (Ioc.Match: `candidatesWire`, `candidatesFunc`).  reflect.Type values of the declared field types are
  `.ref t 80` (pointer to component type t), `.ref i 81` (interface i), `.ref t 82` / `.ref i 83` (slices of those),
  `.ref 0 84` (anything else); the options of package container are opaque tokens whose meaning is the filter the registry's
  GetMetas applies (container/options.go — the registry and the option closures themselves are modelled, not regenerated).
  Property nodes are `.ref i 20`; the world is the `Injects` list of every property node (`none` = a nil Meta).
-/
import Ioc.GoSem
import Ioc.Match
import Ioc.Generated.Progs
namespace Ioc.Sem
open Ioc Ioc.Go Ioc.Match

def encKind : Kind → Val
  | .ptr t => .ref t 80
  | .iface i => .ref i 81
  | .slicePtr t => .ref t 82
  | .sliceIface i => .ref i 83
  | .other => .ref 0 84

/-- one property node as the discovery processors see it -/
structure DProp where
  tag : String                 -- prop.Tag ("wire", "func", …)
  tagVal : String              -- prop.TagVal
  kind : Kind                  -- prop.Type
  returns : Option (List Nat) := none   -- the `returns` argument of a func tag: indices of the alternatives

/-- what an index beyond the property list stands for: a node with an unrecognised tag (skipped by both processors) -/
def DProp.dflt : DProp := { tag := "", tagVal := "", kind := .other }

/-- the i-th property node -/
def propAt (props : List DProp) (i : Nat) : DProp := props.getD i .dflt

abbrev DW := List (List (Option Nat))

def encMetaD : Option Nat → Val
  | none => .nil
  | some i => .ref i 0

def encInj (l : List (Option Nat)) : Val := .list (l.map encMetaD)

def decMetaD : Val → Option Nat
  | .ref i 0 => some i
  | _ => none

def decInj (vs : List Val) : List (Option Nat) := vs.map decMetaD

/-- the meaning of a type option token as a filter on providers (container.Type / container.InterfaceType) -/
def typeMeaning : Val → Option (Prov → Bool)
  | .tuple [.str "type", .int t] => some (fun p => p.ty == t.toNat)
  | .tuple [.str "iface", .int i] => some (fun p => p.impl.testBit i.toNat)
  | _ => none

/-- container.Or over FuncNameAndResult tokens -/
def orMeaning (funcRes : String → Nat → Prov → Bool) : List Val → Option (Prov → Bool)
  | [] => some (fun _ => false)
  | .tuple [.str "funcRes", .str s, .int r] :: rest =>
    (orMeaning funcRes rest).map (fun h => fun p => funcRes s r.toNat p || h p)
  | _ :: _ => none

/-- the meaning of a func option token -/
def funcMeaning (funcRes : String → Nat → Prov → Bool) (funcName : String → Prov → Bool) : Val → Option (Prov → Bool)
  | .tuple [.str "funcName", .str s] => some (funcName s)
  | .tuple [.str "or", .list opts] => orMeaning funcRes opts
  | _ => none

def kindName : Nat → String
  | 80 => "ptr" | 81 => "iface" | 82 => "slice" | 83 => "slice" | _ => "other"

/-- `byName s` = what Registry.GetMetaByName(s) answers (`none` = nil); `funcRes s r p` = container.FuncNameAndResult(s, <alternative r>)(p);
    `funcName s p` = container.FuncName(s)(p); `isActual` = the helper isActualKind (itself regenerated) -/
def discFn (pop : List Prov) (props : List DProp) (byName : String → Option Nat) (funcRes : String → Nat → Prov → Bool)
    (funcName : String → Prov → Bool) (isActual : Val → Val → Option Val) : String → List Val → DW → Option (Val × DW)
  | "$definition.InjectTag", [], w => some (.str "wire", w)
  | "$definition.FuncTag", [], w => some (.str "func", w)
  | "$reflect.Pointer", [], w => some (.str "ptr", w)
  | "$reflect.Ptr", [], w => some (.str "ptr", w)
  | "$reflect.Interface", [], w => some (.str "iface", w)
  | "$reflect.Slice", [], w => some (.str "slice", w)
  | ".Tag", [.ref i 20], w => some (.str (propAt props i).tag, w)
  | ".TagVal", [.ref i 20], w => some (.str (propAt props i).tagVal, w)
  | ".Type", [.ref i 20], w => some (encKind (propAt props i).kind, w)
  | ".Kind", [.ref _ k], w => some (.str (kindName k), w)
  | ".Elem", [.ref t 82], w => some (.ref t 80, w)
  | ".Elem", [.ref i 83], w => some (.ref i 81, w)
  | "isActualKind", [t, k], w => (isActual t k).map (·, w)
  | "container.Type", [.ref t 80], w => some (.tuple [.str "type", .int t], w)
  | "container.InterfaceType", [.ref i 81], w => some (.tuple [.str "iface", .int i], w)
  | "container.FuncName", [.str s], w => some (.tuple [.str "funcName", .str s], w)
  | "container.FuncNameAndResult", [.str s, .int r], w => some (.tuple [.str "funcRes", .str s, .int r], w)
  | "container.Or", [.list opts], w => some (.tuple [.str "or", .list opts], w)
  | "container.Or", [.nil], w => some (.tuple [.str "or", .list []], w)
  | "self.Registry.GetMetas", [opt], w =>
      (typeMeaning opt).map (fun f => (.list ((pop.filter f).map (fun p => .ref p.id 0)), w))
  | "self.Registry.GetMetas", [opt, fopt], w =>
      match typeMeaning opt, funcMeaning funcRes funcName fopt with
      | some f, some g => some (.list ((pop.filter (fun p => f p && g p)).map (fun p => .ref p.id 0)), w)
      | _, _ => none
  | "self.Registry.GetMetaByName", [.str s], w => some (encMetaD (byName s), w)
  | ".Args", [.ref i 20], w => some (.ref i 22, w)
  | ".Find", [.ref i 22, .str "returns"], w =>
      some (match (propAt props i).returns with
            | none => .tuple [.nil, .bool false]
            | some rs => .tuple [.list (rs.map (fun (r : Nat) => Val.int r)), .bool true], w)
  | ".Injects", [.ref i 20], w => some (encInj (w.getD i []), w)
  | ".set:Injects", [.ref i 20, .list vs], w => some (.tuple [], w.set i (decInj vs))
  | "append", [.list a, v], w => some (.list (a ++ [v]), w)
  | "append", [.nil, v], w => some (.list [v], w)
  | "append...", [.list a, .list b], w => some (.list (a ++ b), w)
  | _, _, _ => none

/-! equation lemmas of `discFn`, one per primitive (unfolding the 40-way string match inside `simp` is too expensive) -/
section eqs
variable (pop : List Prov) (props : List DProp) (bn : String → Option Nat) (fr : String → Nat → Prov → Bool) (fnm : String → Prov → Bool) (isa : Val → Val → Option Val)
theorem discFn_injectTag (w : DW) : discFn pop props bn fr fnm isa "$definition.InjectTag" [] w = some (.str "wire", w) := rfl
theorem discFn_funcTag (w : DW) : discFn pop props bn fr fnm isa "$definition.FuncTag" [] w = some (.str "func", w) := rfl
theorem discFn_rPointer (w : DW) : discFn pop props bn fr fnm isa "$reflect.Pointer" [] w = some (.str "ptr", w) := rfl
theorem discFn_rPtr (w : DW) : discFn pop props bn fr fnm isa "$reflect.Ptr" [] w = some (.str "ptr", w) := rfl
theorem discFn_rInterface (w : DW) : discFn pop props bn fr fnm isa "$reflect.Interface" [] w = some (.str "iface", w) := rfl
theorem discFn_Tag (i : Nat) (w : DW) : discFn pop props bn fr fnm isa ".Tag" [.ref i 20] w = some (.str (propAt props i).tag, w) := rfl
theorem discFn_TagVal (i : Nat) (w : DW) : discFn pop props bn fr fnm isa ".TagVal" [.ref i 20] w = some (.str (propAt props i).tagVal, w) := rfl
theorem discFn_Type (i : Nat) (w : DW) : discFn pop props bn fr fnm isa ".Type" [.ref i 20] w = some (encKind (propAt props i).kind, w) := rfl
theorem discFn_Kind (a k : Nat) (w : DW) : discFn pop props bn fr fnm isa ".Kind" [.ref a k] w = some (.str (kindName k), w) := rfl
theorem discFn_isActual (t k : Val) (w : DW) : discFn pop props bn fr fnm isa "isActualKind" [t, k] w = (isa t k).map (·, w) := rfl
theorem discFn_cType (t : Nat) (w : DW) : discFn pop props bn fr fnm isa "container.Type" [.ref t 80] w = some (.tuple [.str "type", .int t], w) := rfl
theorem discFn_cIface (t : Nat) (w : DW) : discFn pop props bn fr fnm isa "container.InterfaceType" [.ref t 81] w = some (.tuple [.str "iface", .int t], w) := rfl
theorem discFn_cFuncName (s : String) (w : DW) : discFn pop props bn fr fnm isa "container.FuncName" [.str s] w =
    some (.tuple [.str "funcName", .str s], w) := rfl
theorem discFn_cFuncRes (s : String) (r : Int) (w : DW) : discFn pop props bn fr fnm isa "container.FuncNameAndResult" [.str s, .int r] w =
    some (.tuple [.str "funcRes", .str s, .int r], w) := rfl
theorem discFn_cOr (opts : List Val) (w : DW) : discFn pop props bn fr fnm isa "container.Or" [.list opts] w = some (.tuple [.str "or", .list opts], w) := rfl
theorem discFn_cOrNil (w : DW) : discFn pop props bn fr fnm isa "container.Or" [.nil] w = some (.tuple [.str "or", .list []], w) := rfl
theorem discFn_getMetas1 (opt : Val) (w : DW) : discFn pop props bn fr fnm isa "self.Registry.GetMetas" [opt] w =
    (typeMeaning opt).map (fun f => (.list ((pop.filter f).map (fun p => .ref p.id 0)), w)) := rfl
theorem discFn_getMetas2 (opt fopt : Val) (w : DW) : discFn pop props bn fr fnm isa "self.Registry.GetMetas" [opt, fopt] w =
    (match typeMeaning opt, funcMeaning fr fnm fopt with
     | some f, some g => some (.list ((pop.filter (fun p => f p && g p)).map (fun p => .ref p.id 0)), w)
     | _, _ => none) := rfl
theorem discFn_byName (s : String) (w : DW) : discFn pop props bn fr fnm isa "self.Registry.GetMetaByName" [.str s] w =
    some (encMetaD (bn s), w) := rfl
theorem discFn_Args (i : Nat) (w : DW) : discFn pop props bn fr fnm isa ".Args" [.ref i 20] w = some (.ref i 22, w) := rfl
theorem discFn_Find (i : Nat) (w : DW) : discFn pop props bn fr fnm isa ".Find" [.ref i 22, .str "returns"] w =
    some (match (propAt props i).returns with
          | none => .tuple [.nil, .bool false]
          | some rs => .tuple [.list (rs.map (fun (r : Nat) => Val.int r)), .bool true], w) := rfl
theorem discFn_Injects (i : Nat) (w : DW) : discFn pop props bn fr fnm isa ".Injects" [.ref i 20] w = some (encInj (w.getD i []), w) := rfl
theorem discFn_setInjects (i : Nat) (vs : List Val) (w : DW) : discFn pop props bn fr fnm isa ".set:Injects" [.ref i 20, .list vs] w =
    some (.tuple [], w.set i (decInj vs)) := rfl
theorem discFn_append (a : List Val) (v : Val) (w : DW) : discFn pop props bn fr fnm isa "append" [.list a, v] w = some (.list (a ++ [v]), w) := rfl
theorem discFn_appendNil (v : Val) (w : DW) : discFn pop props bn fr fnm isa "append" [.nil, v] w = some (.list [v], w) := rfl
theorem discFn_appendSpread (a b : List Val) (w : DW) : discFn pop props bn fr fnm isa "append..." [.list a, .list b] w = some (.list (a ++ b), w) := rfl
end eqs

end Ioc.Sem
