/-
  Ioc.SemBinder — interpretation of the primitives called by the REGENERATED programs of configure/binder/viper.go:
    ViperBinder.Get, cloneValue (one level; the recursive call is the parameter `rec`), ViperBinder.Set, ViperBinder.SetConfig
  Configuration values live in a heap: maps and lists are OBJECTS (a caller that edits what it was handed edits that object),
  scalars are values.  viper itself is a dependency: `AllSettings`, `Get`, `Set`, `MergeConfig` are parameters.
-/
import Ioc.GoSem
import Ioc.Generated.Progs
namespace Ioc.Sem
open Ioc Ioc.Go

/-- a heap object; `none` = the typed nil of that kind (a nil `map[string]any` inside an interface value) -/
inductive HObj
  | mapS (es : Option (List (Val × Val)))      -- map[string]any: entries (key, value)
  | mapA (es : Option (List (Val × Val)))      -- map[any]any
  | lst (es : Option (List Val))               -- []any
deriving Repr

abbrev Heap := List HObj

def pairsVal (es : List (Val × Val)) : Val := .tuple (.str "$map" :: es.map (fun e => .tuple [e.1, e.2]))

/-- `val.(map[string]any)` in a type switch: (v, ok) -/
def assertMS (h : Heap) : Val → Val
  | .ref i 90 =>
    match h[i]? with
    | some (.mapS (some es)) => .tuple [pairsVal es, .bool true]
    | some (.mapS none) => .tuple [.nil, .bool true]
    | _ => .tuple [.nil, .bool false]
  | _ => .tuple [.nil, .bool false]

def assertMA (h : Heap) : Val → Val
  | .ref i 90 =>
    match h[i]? with
    | some (.mapA (some es)) => .tuple [pairsVal es, .bool true]
    | some (.mapA none) => .tuple [.nil, .bool true]
    | _ => .tuple [.nil, .bool false]
  | _ => .tuple [.nil, .bool false]

def assertL (h : Heap) : Val → Val
  | .ref i 90 =>
    match h[i]? with
    | some (.lst (some es)) => .tuple [.list es, .bool true]
    | some (.lst none) => .tuple [.nil, .bool true]
    | _ => .tuple [.nil, .bool false]
  | _ => .tuple [.nil, .bool false]

/-- m[k] = v on the entries of a map object: replace or add -/
def entSet (k v : Val) (keq : Val → Val → Bool) : List (Val × Val) → List (Val × Val)
  | [] => [(k, v)]
  | (k', v') :: rest => if keq k' k then (k, v) :: rest else (k', v') :: entSet k v keq rest

def heapSetIdx (keq : Val → Val → Bool) (h : Heap) (j : Nat) (k v : Val) : Heap :=
  match h[j]? with
  | some (.mapS (some es)) => h.set j (.mapS (some (entSet k v keq es)))
  | some (.mapA (some es)) => h.set j (.mapA (some (entSet k v keq es)))
  | some (.lst (some es)) =>
    match k with
    | .int i => h.set j (.lst (some (es.set i.toNat v)))
    | _ => h
  | _ => h

/-- `rec` = the recursive call `cloneValue(e)`; `keq` = equality of map keys -/
def cvFn (keq : Val → Val → Bool) (rec : Val → Heap → Val × Heap) : String → List Val → Heap → Option (Val × Heap)
  | "assert2:map[string]any", [x], h => some (assertMS h x, h)
  | "assert2:map[any]any", [x], h => some (assertMA h x, h)
  | "assert2:[]any", [x], h => some (assertL h x, h)
  | "make:map[string]any", [.int _], h => some (.ref h.length 90, h ++ [.mapS (some [])])
  | "make:map[any]any", [.int _], h => some (.ref h.length 90, h ++ [.mapA (some [])])
  | "make:[]any", [.int n], h => some (.ref h.length 90, h ++ [.lst (some (List.replicate n.toNat .nil))])
  | "cloneValue", [e], h => some (rec e h)
  | ".setidx", [.ref j 90, k, v], h => some (.tuple [], heapSetIdx keq h j k v)
  | _, _, _ => none

def cvPrims (keq : Val → Val → Bool) (rec : Val → Heap → Val × Heap) : Prims Heap := { fn := cvFn keq rec }

/-- one level of the copy of a map: every entry's value through `rec`, stored under the same key in the new object j -/
def cloneEntries (keq : Val → Val → Bool) (rec : Val → Heap → Val × Heap) (j : Nat) : List (Val × Val) → Heap → Heap
  | [], h => h
  | (k, e) :: rest, h => cloneEntries keq rec j rest (heapSetIdx keq (rec e h).2 j k (rec e h).1)

def cloneItems (keq : Val → Val → Bool) (rec : Val → Heap → Val × Heap) (j : Nat) : Nat → List Val → Heap → Heap
  | _, [], h => h
  | i, e :: rest, h => cloneItems keq rec j (i + 1) rest (heapSetIdx keq (rec e h).2 j (.int i) (rec e h).1)

/-! ### Get / Set / SetConfig -/

structure VB where
  all : Val                          -- d.Viper.AllSettings()
  get : String → Val                 -- d.Viper.Get(path)
  clone : Val → Heap → Val × Heap    -- cloneValue (itself regenerated, level by level: `cloneValue_*`)

/-- the world of Set / SetConfig: the calls made on viper -/
inductive VCall
  | set (path : String) (v : Val)
  | merge (doc : Val)
deriving Repr

def bgFn (b : VB) : String → List Val → Heap → Option (Val × Heap)
  | "self.Viper.AllSettings", [], h => some (b.all, h)
  | "self.Viper.Get", [.str p], h => some (b.get p, h)
  | "cloneValue", [v], h => some (b.clone v h)
  | _, _, _ => none

def bgPrims (b : VB) : Prims Heap := { fn := bgFn b }

def bsFn (mergeErr : Val → Option String) : String → List Val → List VCall → Option (Val × List VCall)
  | "self.Viper.Set", [.str p, v], w => some (.tuple [], w ++ [.set p v])
  | "bytes.NewBuffer", [c], w => some (c, w)
  | "self.Viper.MergeConfig", [c], w => some (match mergeErr c with | none => .nil | some e => .str e, w ++ [.merge c])
  | "string", [c], w => some (c, w)
  | "errors.Wrapf", [.str e, .str "viper merge config: %s", _], w => some (.str ("viper merge config: " ++ e), w)
  | _, _, _ => none

def bsPrims (mergeErr : Val → Option String) : Prims (List VCall) := { fn := bsFn mergeErr }

end Ioc.Sem
