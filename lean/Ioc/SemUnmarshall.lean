/-
  Ioc.SemUnmarshall — interpretation of the primitives called by the REGENERATED programs
    component_definition/property.go   Property.Unmarshall (with its function literal), newDecodeConfig, IsRequired,
                                       SetConfiguration, Args, SetArg, AddArg
    util/reflectx/set_value.go         SetValue
  mapstructure is a dependency: what `NewDecoder` and `Decode` answer for a given configuration are parameters; the decoder
  CONFIGURATION the code builds (hooks, tag name, the fixed switches) is what the theorems are about.
-/
import Ioc.GoSem
import Ioc.Generated.Progs
import Ioc.SemArgs
namespace Ioc.Sem
open Ioc Ioc.Go

/-! ### reflectx.SetValue -/

/-- the field `value` stands for: what it holds (an object id), and the next fresh object -/
structure SVW (σ : Type) where
  cell : Option (Nat × Bool)     -- the object the field holds now, and whether it holds a POINTER to it (else: its contents)
  fresh : Nat
  inner : σ                      -- the setter's own world

/-- `isPtr`: the field's type is a pointer type; the setter is a total callback on (the fresh object, its world) -/
def svFn {σ : Type} (isPtr : Bool) (setter : Nat → σ → Option String × σ) : String → List Val → SVW σ → Option (Val × SVW σ)
  | ".Type", [.str "value"], w => some (.str (if isPtr then "PT" else "T"), w)
  | ".Kind", [.str "PT"], w => some (.str "ptr", w)
  | ".Kind", [.str "T"], w => some (.str "other", w)
  | "$reflect.Ptr", [], w => some (.str "ptr", w)
  | ".Elem", [.str "PT"], w => some (.str "T", w)
  | "reflect.New", [.str "T"], w => some (.ref w.fresh 80, { w with fresh := w.fresh + 1 })   -- a pointer to a fresh zero value
  | ".Interface", [.ref k 80], w => some (.ref k 81, w)
  | ".call", [.str "setter", .ref k 81], w =>
      some (match (setter k w.inner).1 with | none => .nil | some e => .str e, { w with inner := (setter k w.inner).2 })
  | ".Set", [.str "value", .ref k 80], w => some (.tuple [], { w with cell := some (k, true) })      -- value.Set(val)
  | ".Elem", [.ref k 80], w => some (.ref k 82, w)
  | ".Set", [.str "value", .ref k 82], w => some (.tuple [], { w with cell := some (k, false) })     -- value.Set(val.Elem())
  | _, _, _ => none

def svPrims {σ : Type} (isPtr : Bool) (setter : Nat → σ → Option String × σ) : Prims (SVW σ) := { fn := svFn isPtr setter }

def encOptErrS : Option String → Val
  | none => .nil
  | some e => .str e

/-! ### Property.Unmarshall -/

/-- the decoder configuration the code builds -/
structure DecCfg where
  hooks : List String          -- "duration", "time:<layout>"
  tagName : String
deriving DecidableEq, Repr

structure UMP where
  isConf : Bool                               -- n.PropertyType == PropertyTypeConfiguration
  timeLayout : Option (List String)           -- n.Args().Find("timeLayout")
  mapper : Option (List String)               -- n.Args().Find("mapper")
  newDecoderErr : DecCfg → Option String      -- mapstructure.NewDecoder(config)
  decodeErr : DecCfg → Option String          -- decoder.Decode(configValue)

structure UW where
  cfg : Option DecCfg          -- the configuration object under construction
  decodes : List DecCfg        -- the configurations with which Decode was called, in order
  set : Bool                   -- the field was written (SetValue reached value.Set)
deriving DecidableEq, Repr

def findVal : Option (List String) → Val
  | some l => .tuple [strsVal l, .bool true]
  | none => .tuple [.nil, .bool false]

def umFn (p : UMP) : String → List Val → UW → Option (Val × UW)
  | "$self.PropertyType", [], w => some (.str (if p.isConf then "Configuration" else "Component"), w)
  | "$PropertyTypeConfiguration", [], w => some (.str "Configuration", w)
  | "$self", [], w => some (.ref 0 75, w)
  | "$self.Value", [], w => some (.ref 0 73, w)
  | "errors.Errorf", [.str "property '%s' is not allowed to unmarshall configuration value", .ref 0 75], w =>
      some (.str "not allowed to unmarshall", w)
  | "mapstructure.StringToTimeDurationHookFunc", [], w => some (.str "duration", w)
  | "mapstructure.StringToTimeHookFunc", [.str l], w => some (.str ("time:" ++ l), w)
  | "self.Args", [], w => some (.ref 0 76, w)
  | "$unmarshallArgTimeLayout", [], w => some (.str "timeLayout", w)
  | "$unmarshallArgTagName", [], w => some (.str "mapper", w)
  | ".Find", [.ref 0 76, .str "timeLayout"], w => some (findVal p.timeLayout, w)
  | ".Find", [.ref 0 76, .str "mapper"], w => some (findVal p.mapper, w)
  | "append", [.list hs, .str h], w => some (.list (hs ++ [.str h]), w)
  | "newDecodeConfig", [.ref 0 74, .list hs], w => some (.ref 0 70, { w with cfg := some ⟨valStrs hs, "yaml"⟩ })
  | ".set:TagName", [.ref 0 70, .str t], w => (w.cfg).map (fun c => (.tuple [], { w with cfg := some { c with tagName := t } }))
  | "mapstructure.NewDecoder", [.ref 0 70], w =>
      (w.cfg).map (fun c => (match p.newDecoderErr c with
                             | none => .tuple [.ref 0 71, .nil]
                             | some e => .tuple [.nil, .str e], w))
  | ".Decode", [.ref 0 71, .ref 0 72], w =>
      (w.cfg).map (fun c => (encOptErrS (p.decodeErr c), { w with decodes := w.decodes ++ [c] }))
  | "errors.Wrapf", [.str e, .str "create mapstructure decoder error"], w => some (.str ("create mapstructure decoder error: " ++ e), w)
  | "errors.Wrapf", [.str e, .str "mapstructure decode %+v", .ref 0 72], w => some (.str ("mapstructure decode: " ++ e), w)
  | "errors.Wrap", [.str e, .str "unmarshall property configuration failed"], w =>
      some (.str ("unmarshall property configuration failed: " ++ e), w)
  | _, _, _ => none

/-- reflectx.SetValue as proved of its own regenerated body (`setValue_sem`): the setter runs once on a fresh value; the field
    is written exactly when it returns nil; its error is returned as it is -/
def umHfn (f : String) (args : List Val) (k : Handler UW) (w : UW) : Option (Val × UW) :=
  match f, args with
  | "reflectx.SetValue", [.ref 0 73] =>
    match k [.ref 0 74] w with
    | some (.nil, w') => some (.nil, { w' with set := true })
    | some (.str e, w') => some (.str e, w')
    | _ => none
  | _, _ => none

def umPrims (p : UMP) : Prims UW := { fn := umFn p, hfn := umHfn }

/-- the decoder configuration: the duration hook always, the time hook with the FIRST `timeLayout` value when that argument is
    present; tag name `yaml` unless a `mapper` argument names another (its first value) -/
def unmarshallCfg (p : UMP) : DecCfg :=
  { hooks := "duration" :: (match p.timeLayout with | some (l :: _) => ["time:" ++ l] | _ => []),
    tagName := match p.mapper with | some (t :: _) => t | _ => "yaml" }

/-- Unmarshall of a non-nil configuration value on a Configuration property whose `timeLayout` / `mapper` arguments, when
    present, have a value -/
def unmarshallS (p : UMP) (w : UW) : Option String × UW :=
  let c := unmarshallCfg p
  match p.newDecoderErr c with
  | some e => (some ("unmarshall property configuration failed: " ++ ("create mapstructure decoder error: " ++ e)), { w with cfg := some c })
  | none =>
    match p.decodeErr c with
    | some e => (some ("unmarshall property configuration failed: " ++ ("mapstructure decode: " ++ e)),
                  { w with cfg := some c, decodes := w.decodes ++ [c] })
    | none => (none, { cfg := some c, decodes := w.decodes ++ [c], set := true })

/-! ### newDecodeConfig and the small methods -/

/-- the name under which the translator renders the composite literal: the eleven field names in the order written -/
def ndcName : String :=
  "&mapstructure.DecoderConfig{DecodeHook,ErrorUnused,ErrorUnset,ZeroFields,WeaklyTypedInput,Squash,Metadata,Result,TagName,IgnoreUntaggedFields,MatchName}"

def ndcFn (f : String) (args : List Val) (w : Unit) : Option (Val × Unit) :=
  if f = "mapstructure.ComposeDecodeHookFunc" then
    match args with
    | [hs] => some (.tuple [.str "compose", hs], w)
    | _ => none
  else if f = ndcName then some (.tuple (.str "DecoderConfig" :: args), w)
  else none

def ndcPrims : Prims Unit := { fn := ndcFn }

/-- the world of the small methods: the args map (`SemArgs.AM`) and the Configurations map -/
structure PW where
  args : AM
  confs : List (String × Val)

def pmFn (has : AM → String → List String → Bool) (fmtKey : String → String) : String → List Val → PW → Option (Val × PW)
  | "$ArgRequired", [], w => some (.str "required", w)
  | "self.args.Has", [.str k, .str v], w => some (.bool (has w.args k [v]), w)
  | "$self.Configurations", [], w => some (.ref 0 77, w)
  | ".setidx", [.ref 0 77, .str path, v], w => some (.tuple [], { w with confs := (path, v) :: w.confs.filter (fun e => e.1 != path) })
  | "$self.args", [], w => some (.ref 0 78, w)
  | "self.args.Set", [.str k, .list vs], w => some (.tuple [], { w with args := if k = "" then w.args else amSet (fmtKey k) (valStrs vs) w.args })
  | "self.args.Add", [.str k, .list vs], w =>
      some (.tuple [], { w with args := if k = "" then w.args else amSet (fmtKey k) ((amGet (fmtKey k) w.args).getD [] ++ valStrs vs) w.args })
  | _, _, _ => none

def pmPrims (has : AM → String → List String → Bool) (fmtKey : String → String) : Prims PW := { fn := pmFn has fmtKey }

end Ioc.Sem
