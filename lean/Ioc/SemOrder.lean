/-
  Ioc.SemOrder — interpretation of the primitives called by the REGENERATED programs of
  util/framework_helper/order_component.go (`SortOrderedComponents`, `orderedComponentComparator`) in terms of the ordering
  model M4 (Ioc.Order): participants are `.ref i 0` (i = a participant id), `part i` says which of the interfaces
  definition.Ordered / definition.Priority it implements, `sort2.Slice` is an arbitrary function `sort` (its contract —
  permutation, ordered by key — is what C12's theorems assume of it, nothing more).
-/
import Ioc.GoSem
import Ioc.Order
import Ioc.Generated.Progs
namespace Ioc.Sem
open Ioc Ioc.Go Ioc.Order

def encR (i : Nat) : Val := .ref i 0
/-- a slice variable that was declared with `var x []T` and appended to: nil while empty -/
def encSlice (l : List Nat) : Val := if l.isEmpty then .nil else .list (l.map encR)

def decR : Val → Option Nat
  | .ref i 0 => some i
  | _ => none

def decList (vs : List Val) : Option (List Nat) := vs.mapM decR

def sortFn (sort : (Nat → Nat → Bool) → List Nat → List Nat) (part : Nat → Part) : String → List Val → Unit → Option (Val × Unit)
  | "assert2:definition.Ordered", [.ref i 0], _ => some (.tuple [.ref i 0, .bool (part i).order?.isSome], ())
  | "assert2:definition.Priority", [.ref i 0], _ => some (.tuple [.ref i 0, .bool ((part i).cls == .prio)], ())
  | "append", [.nil, v], _ => some (.list [v], ())
  | "append", [.list a, v], _ => some (.list (a ++ [v]), ())
  | "$orderedComponentComparator", [], _ => some (.str "orderedComponentComparator", ())
  | "sort2.Slice", [.nil, .str "orderedComponentComparator"], _ => some (.nil, ())
  | "sort2.Slice", [.list vs, .str "orderedComponentComparator"], _ =>
      (decList vs).map (fun l => (.list ((sort (less part) l).map encR), ()))
  | "append...", [.list a, .nil], _ => some (.list a, ())
  | "append...", [.list a, .list b], _ => some (.list (a ++ b), ())
  | _, _, _ => none

def sortPrims (sort : (Nat → Nat → Bool) → List Nat → List Nat) (part : Nat → Part) : Prims Unit := { fn := sortFn sort part }

/-- the comparator's primitives: the unchecked assertion `x.(definition.Ordered)` is stuck (a Go panic) for a participant
    without Order() -/
def cmpFn (part : Nat → Part) : String → List Val → Unit → Option (Val × Unit)
  | "assert1:definition.Ordered", [.ref i 0], _ => if (part i).order?.isSome then some (.ref i 0, ()) else none
  | ".Order", [.ref i 0], _ => (part i).order?.map (fun k => (.int k, ()))
  | _, _, _ => none

def cmpPrims (part : Nat → Part) : Prims Unit := { fn := cmpFn part }

end Ioc.Sem
