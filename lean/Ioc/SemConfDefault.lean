/-
  Ioc.SemConfDefault — interpretation of the primitives called by the REGENERATED constructors / setters of package configure
  (NewConfigure, Default, AddLoaders, SetLoaders, SetBinder).  The world is the configure object: its loaders and its binder.
-/
import Ioc.GoSem
import Ioc.Generated.Progs
namespace Ioc.Sem
open Ioc Ioc.Go

structure CfgObj where
  loaders : List Val
  binder : Val
deriving Repr

def listOrNil : List Val → Val
  | [] => .nil
  | l => .list l

def cdFn : String → List Val → CfgObj → Option (Val × CfgObj)
  | "&configure{}", [], _ => some (.ref 0 180, ⟨[], .nil⟩)                  -- a fresh configure: no loaders, no binder
  | "NewConfigure", [], _ => some (.ref 0 180, ⟨[], .nil⟩)                   -- (as proved of its own body)
  | "$os.Args", [], w => some (.str "os.Args", w)
  | "loader.NewArgsLoader", [.str "os.Args"], w => some (.tuple [.str "ArgsLoader", .str "os.Args"], w)
  | "binder.NewViperBinder", [.str t], w => some (.tuple [.str "ViperBinder", .str t], w)
  | ".SetLoaders", [.ref 0 180, l], w => some (.tuple [], { w with loaders := [l] })       -- one variadic argument
  | ".SetBinder", [.ref 0 180, b], w => some (.tuple [], { w with binder := b })
  | "$self", [], w => some (.ref 0 180, w)
  | "$self.loaders", [], w => some (listOrNil w.loaders, w)
  | "append...", [.nil, .list b], w => some (.list b, w)
  | "append...", [.list a, .list b], w => some (.list (a ++ b), w)
  | "append...", [.nil, .nil], w => some (.nil, w)
  | "append...", [.list a, .nil], w => some (.list a, w)
  | ".set:loaders", [.ref 0 180, .list l], w => some (.tuple [], { w with loaders := l })
  | ".set:loaders", [.ref 0 180, .nil], w => some (.tuple [], { w with loaders := [] })
  | ".set:Binder", [.ref 0 180, b], w => some (.tuple [], { w with binder := b })
  | _, _, _ => none

def cdPrims : Prims CfgObj := { fn := cdFn }

end Ioc.Sem
