/-
  Ioc.SemLoaders — interpretation of the primitives called by the REGENERATED configure/loader functions
  (ArgsLoader.LoadConfig, FileLoader.LoadConfig, RawLoader.LoadConfig).  String functions, strconv2.ParseAny, the
  go-kid/properties map, yaml.Marshal and os.ReadFile are dependencies: parameters.
-/
import Ioc.GoSem
import Ioc.Generated.Progs
namespace Ioc.Sem
open Ioc Ioc.Go

structure ALP where
  args : List String
  hasPrefix : String → Bool                    -- strings.HasPrefix(arg, "--app.config")
  trim : String → String                       -- strings.TrimPrefix(arg, "--app.config=")
  split : String → String × Option String      -- strings.SplitN(cfg, "=", 2): the key, and the rest when there is a "="
  parse : String → Except String Nat           -- strconv2.ParseAny(val): a typed value
  plen : List (String × Nat) → Nat             -- len(p) after these p.Set calls
  marshal : List (String × Nat) → Except String Nat   -- yaml.Marshal(p)

def splitVal (r : String × Option String) : Val :=
  match r.2 with
  | some v => .list [.str r.1, .str v]
  | none => .list [.str r.1]

def parseVal (r : Except String Nat) : Val :=
  match r with
  | .ok t => .tuple [.ref t 150, .nil]
  | .error e => .tuple [.nil, .str e]

def marshalVal (r : Except String Nat) : Val :=
  match r with
  | .ok b => .tuple [.ref b 151, .nil]
  | .error e => .tuple [.nil, .str e]

/-- the world: the `p.Set(key, value)` calls so far -/
def alFn (p : ALP) : String → List Val → List (String × Nat) → Option (Val × List (String × Nat))
  | "properties.New", [], w => some (.ref 0 152, w)
  | "$self", [], w => some (.list (p.args.map Val.str), w)
  | "strings.HasPrefix", [.str a, .str "--app.config"], w => some (.bool (p.hasPrefix a), w)
  | "strings.TrimPrefix", [.str a, .str "--app.config="], w => some (.str (p.trim a), w)
  | "strings.SplitN", [.str c, .str "=", .int 2], w => some (splitVal (p.split c), w)
  | "strconv2.ParseAny", [.str v], w => some (parseVal (p.parse v), w)
  | "errors.Wrapf", [.str e, .str "parse '%s' as any", .str _], w => some (.str ("parse as any: " ++ e), w)
  | ".Set", [.ref 0 152, .str k, .ref t 150], w => some (.tuple [], w ++ [(k, t)])
  | "len", [.ref 0 152], w => some (.int (p.plen w), w)
  | "yaml.Marshal", [.ref 0 152], w => some (marshalVal (p.marshal w), w)
  | "errors.Wrapf", [.str e, .str "marshal to YAML: %+v", .ref 0 152], w => some (.str ("marshal to YAML: " ++ e), w)
  | _, _, _ => none

def alPrims (p : ALP) : Prims (List (String × Nat)) := { fn := alFn p }

/-- one argument: skipped unless it has the prefix; else `key[=value]` is split at the FIRST "=", the value (empty when there
    is no "=") parsed, and `p.Set(key, typed value)`; a parse error ends the loop -/
def alStep (p : ALP) (a : String) (_ : Unit) (w : List (String × Nat)) : Unit × List (String × Nat) × Option Val :=
  if p.hasPrefix a then
    match p.parse ((p.split (p.trim a)).2.getD "") with
    | .ok t => ((), w ++ [((p.split (p.trim a)).1, t)], none)
    | .error e => ((), w, some (.tuple [.nil, .str ("parse as any: " ++ e)]))
  else ((), w, none)

/-! ### FileLoader / RawLoader -/

def flFn (path : String) (read : String → Except String Nat) : String → List Val → Unit → Option (Val × Unit)
  | "$self", [], w => some (.str path, w)
  | "string", [v], w => some (v, w)
  | "os.ReadFile", [.str f], w => some (match read f with | .ok b => .tuple [.ref b 151, .nil] | .error e => .tuple [.nil, .str e], w)
  | "errors.Wrapf", [.str e, .str "read file: %s", .str _], w => some (.str ("read file: " ++ e), w)
  | _, _, _ => none

def flPrims (path : String) (read : String → Except String Nat) : Prims Unit := { fn := flFn path read }

def rlFn (raw : Val) : String → List Val → Unit → Option (Val × Unit)
  | "$self", [], w => some (raw, w)
  | _, _, _ => none

def rlPrims (raw : Val) : Prims Unit := { fn := rlFn raw }

end Ioc.Sem
