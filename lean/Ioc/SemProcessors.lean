/-
  Ioc.SemProcessors — interpretation of the primitives called by the REGENERATED small methods of package processors:
  Order, PostProcessAfterInstantiation, PostProcessComponentFactory of the nine built-in processors, the five methods of the two
  default processors, and loggerAwarePostProcessors.PostProcessProperties.
-/
import Ioc.GoSem
import Ioc.Generated.Progs
namespace Ioc.Sem
open Ioc Ioc.Go

/-- a named constant of package processors evaluates to its NAME (its number is the regenerated fact `Facts.orderConsts`) -/
def ppFn : String → List Val → Option Val → Option (Val × Option Val)
  | "$PriorityOrderLoggerAware", [], w => some (.str "PriorityOrderLoggerAware", w)
  | "$PriorityOrderPropertyConfigQuoteAware", [], w => some (.str "PriorityOrderPropertyConfigQuoteAware", w)
  | "$PriorityOrderPropertyExpressionTagAware", [], w => some (.str "PriorityOrderPropertyExpressionTagAware", w)
  | "$PriorityOrderPopulateProperties", [], w => some (.str "PriorityOrderPopulateProperties", w)
  | "$OrderDependencyAware", [], w => some (.str "OrderDependencyAware", w)
  | "$OrderDependencyFurtherMatching", [], w => some (.str "OrderDependencyFurtherMatching", w)
  | "$OrderValidate", [], w => some (.str "OrderValidate", w)
  | "$self", [], w => some (.ref 0 170, w)
  | ".GetConfigure", [.ref 0 171], w => some (.str "factory.GetConfigure()", w)
  | ".GetDefinitionRegistry", [.ref 0 171], w => some (.str "factory.GetDefinitionRegistry()", w)
  | ".set:Configure", [.ref 0 170, v], _ => some (.tuple [], some (.tuple [.str "Configure", v]))
  | ".set:Registry", [.ref 0 170, v], _ => some (.tuple [], some (.tuple [.str "Registry", v]))
  | _, _, _ => none

def ppPrims : Prims (Option Val) := { fn := ppFn }

/-! ### loggerAwarePostProcessors.PostProcessProperties -/

structure LProp where
  isLoggerTag : Bool        -- property.Tag == definition.LoggerTag
  implements : Bool         -- reflectx.IsTypeImplement(property.Type, new(syslog.Logger))
  tagStr : String
  hasEmbed : Bool           -- property.Args().Has("embed")
  holderStr : String        -- property.Holder.String()
  metaStr : String          -- property.Holder.Meta.String()
deriving Inhabited

def lpropAt (ps : List LProp) (i : Nat) : LProp := ps.getD i default

/-- the world: `property.Value.Set(reflect.ValueOf(syslog.Pref(pref)))` calls: (property, prefix) -/
def lgFn (ps : List LProp) : String → List Val → List (Nat × String) → Option (Val × List (Nat × String))
  | ".Tag", [.ref i 20], w => some (.str (if (lpropAt ps i).isLoggerTag then "logger" else "other"), w)
  | "$definition.LoggerTag", [], w => some (.str "logger", w)
  | ".Type", [.ref i 20], w => some (.ref i 21, w)
  | "new:syslog.Logger", [], w => some (.ref 0 22, w)
  | "reflectx.IsTypeImplement", [.ref i 21, .ref 0 22], w => some (.bool (lpropAt ps i).implements, w)
  | ".TagStr", [.ref i 20], w => some (.str (lpropAt ps i).tagStr, w)
  | ".Args", [.ref i 20], w => some (.ref i 23, w)
  | ".Has", [.ref i 23, .str "embed"], w => some (.bool (lpropAt ps i).hasEmbed, w)
  | ".Holder", [.ref i 20], w => some (.ref i 24, w)
  | ".String", [.ref i 24], w => some (.str (lpropAt ps i).holderStr, w)
  | ".Meta", [.ref i 24], w => some (.ref i 25, w)
  | ".String", [.ref i 25], w => some (.str (lpropAt ps i).metaStr, w)
  | "syslog.Pref", [.str p], w => some (.tuple [.str "logger", .str p], w)
  | "reflect.ValueOf", [v], w => some (v, w)
  | ".Value", [.ref i 20], w => some (.ref i 26, w)
  | ".Set", [.ref i 26, .tuple [.str "logger", .str p]], w => some (.tuple [], w ++ [(i, p)])
  | _, _, _ => none

def lgPrims (ps : List LProp) : Prims (List (Nat × String)) := { fn := lgFn ps }

/-- the prefix a logger field gets: the tag text; when that is empty, the holder's own rendering for an `embed` argument, else
    the rendering of the component's definition -/
def loggerPref (p : LProp) : String :=
  if p.tagStr = "" then (if p.hasEmbed then p.holderStr else p.metaStr) else p.tagStr

def lgStep (ps : List LProp) (i : Nat) (_ : Unit) (w : List (Nat × String)) : Unit × List (Nat × String) × Option Val :=
  ((), if (lpropAt ps i).isLoggerTag && (lpropAt ps i).implements then w ++ [(i, loggerPref (lpropAt ps i))] else w, none)

end Ioc.Sem
