/-
  Ioc.Container — M2: the component factory as a deterministic small-step abstract machine with an
  explicit creation stack over the three-level singleton cache.
  Mirrors
    container/factory/factory.go:92-118   Refresh (eager creation in name order)
    container/factory/factory.go:140-162  doGetComponent (cache lookup, else create)
    container/factory/factory.go:164-250  createComponent / doCreateComponent (early exposure, populate, initCallbacks, version check)
    container/factory/factory.go:252-283  populateComponent (ResolveAfterInstantiation first, then one doGetComponent per candidate, then Inject)
    container/factory/factory.go:285-299  getEarlyBeanReference
    container/factory/post_processor_registration_delegate.go:37-64, 96-136  boot phase; InitializeComponent
    container/support/singleton_component_registry.go                         the cache operations (inlined; M1 = Ioc.Registry proves the protocol on its own)
    component_definition/property.go:57-110                                   Inject (self filter, assignability check, slice / single)
  Every nondeterministic choice of the real code is an INPUT (`Scen`): candidate lists come from M3 (Ioc.Match) in the
  enumeration order imposed on the run, user post-processors are arbitrary functions/flags.
  Objects are identities ⟨name, ver⟩: ver 0 = the registered instance, other versions = substitutes made by post-processors.
-/
import Ioc.Basic
namespace Ioc
namespace M2

structure Obj where
  name : Nat
  ver : Nat
deriving DecidableEq, Repr

def raw (n : Nat) : Obj := ⟨n, 0⟩

/-- Property.Injects after dependencyAware + furtherMatching, and what Inject needs to know -/
structure Point where
  cands : List Nat
  slice : Bool
  required : Bool
  incompat : List Nat
deriving Repr

inductive Stage | factory | refresh
deriving DecidableEq, Repr

inductive Ev
  | new (n : Nat) | conf (n : Nat) | before (n : Nat) | aps (n : Nat) | init (n : Nat) | after (n : Nat) | early (n : Nat)
deriving DecidableEq, Repr

structure Scen where
  names   : List Nat                 -- definition registry
  boot    : List Nat                 -- non-lazy user post-processors, in the order InvokeBeanFactoryPostProcessors creates them
  eager   : List Nat                 -- non-lazy definitions in the order Refresh creates them (sorted by name)
  points  : Nat → Option (List Point) -- M3.resolveAll in scan order; none = a required point has no candidate (error while configuring)
  wired   : Nat → Bool               -- are the instantiation-aware processors active when this component is created (false: finding D8)
  logged  : Nat → Bool               -- does the observing processor / the component itself write events
  cfgOk   : Nat → Bool               -- configuration binding and the PostProcessAfterInstantiation/Properties callbacks succeed
  fBefore : Nat → Bool               -- a before-initialization callback fails
  fAps    : Nat → Bool               -- AfterPropertiesSet fails
  fInit   : Nat → Bool               -- Init fails
  fAfter  : Nat → Bool               -- an after-initialization callback fails
  fEarly  : Nat → Bool               -- GetEarlyBeanReference fails
  earlyO  : Nat → Obj                -- result of the GetEarlyBeanReference chain on the raw instance
  afterO  : Nat → Obj                -- result of InitializeComponent on the raw instance

/-- the points the factory actually iterates: none when the dependency processors were not active -/
def pts (sc : Scen) (n : Nat) : List Point :=
  if sc.wired n then (sc.points n).getD [] else []

structure Frame where
  name : Nat
  p : Nat              -- index of the point being resolved
  d : Nat              -- index of the candidate being resolved
  acc : List Obj       -- components obtained so far for this point
deriving Repr

inductive Status
  | running | done | failed (who : Nat) (stage : Stage)
deriving DecidableEq, Repr

structure St where
  l1 : Nat → Option Obj     -- singletonObjects
  l2 : Nat → Option Obj     -- earlySingletonObjects
  l3 : Nat → Bool           -- singletonFactories
  stack : List Frame        -- creations in progress, innermost first (= singletonCurrentlyInCreation)
  fields : Nat → Nat → List Obj
  todoBoot : List Nat
  todo : List Nat
  stage : Stage
  log : List Ev             -- newest first
  status : Status

def upd {β : Type} (f : Nat → β) (k : Nat) (v : β) : Nat → β := fun x => if x = k then v else f x
def upd2 (f : Nat → Nat → List Obj) (h i : Nat) (v : List Obj) : Nat → Nat → List Obj :=
  fun a b => if a = h ∧ b = i then v else f a b

@[simp] theorem upd_same {β} (f : Nat → β) (k v) : upd f k v k = v := by simp [upd]
@[simp] theorem upd_other {β} (f : Nat → β) (k v x) (h : x ≠ k) : upd f k v x = f x := by simp [upd, h]

def init (sc : Scen) : St :=
  { l1 := fun _ => none, l2 := fun _ => none, l3 := fun _ => false, stack := [],
    fields := fun _ _ => [], todoBoot := sc.boot, todo := sc.eager, stage := .factory, log := [], status := .running }

def onStack (st : St) (n : Nat) : Bool := st.stack.any (·.name == n)

def addLog (sc : Scen) (st : St) (n : Nat) (e : Ev) : St :=
  if sc.logged n then { st with log := e :: st.log } else st

/-- a failure anywhere inside nested creations: every creation on the stack returns the error; after the repair of
    GetSingletonOrCreateByFactory each of them removes its cache entries (RemoveSingleton) -/
def failAt (st : St) (n : Nat) : St :=
  { st with
    l2 := fun x => if onStack st x then none else st.l2 x,
    l3 := fun x => if onStack st x then false else st.l3 x,
    stack := [], status := .failed n st.stage }

inductive Look
  | hit (o : Obj) (st : St)      -- GetSingleton returned a component
  | miss                         -- (nil, nil)
  | err (st : St)                -- the early-reference factory failed

/-- GetSingleton(name, allowEarlyReference = true): l1, else l2, else run the factory in l3 once and move its result to l2 -/
def lookup (sc : Scen) (st : St) (c : Nat) : Look :=
  match st.l1 c with
  | some o => .hit o st
  | none =>
    match st.l2 c with
    | some o => .hit o st
    | none =>
      if st.l3 c then
        let st1 := addLog sc st c (.early c)
        if sc.fEarly c then .err st1
        else
          let e := sc.earlyO c
          .hit e { st1 with l2 := upd st1.l2 c (some e), l3 := upd st1.l3 c false }
      else .miss

/-- GetSingletonOrCreateByFactory → createComponent → doCreateComponent up to and including ResolveAfterInstantiation -/
def enter (sc : Scen) (st : St) (c : Nat) : St :=
  if c ∈ sc.names then
    let st1 := { st with l3 := upd st.l3 c true, stack := ⟨c, 0, 0, []⟩ :: st.stack }
    if sc.wired c then
      let st2 := addLog sc st1 c (.new c)
      if !sc.cfgOk c || (sc.points c).isNone then failAt st2 c
      else addLog sc st2 c (.conf c)
    else st1
  else failAt st c

def finishedHolderHas (sc : Scen) (st : St) (e : Obj) : Bool :=
  sc.names.any fun h => !(onStack st h) &&
    (List.range (pts sc h).length).any fun i => (st.fields h i).contains e

/-- AddSingleton + return to the caller: the parent frame receives the published component -/
def publish (st : St) (n : Nat) (pub : Obj) (rest : List Frame) : St :=
  { st with
    l1 := upd st.l1 n (some pub), l2 := upd st.l2 n none, l3 := upd st.l3 n false,
    stack := match rest with
      | [] => []
      | g :: rest' => { g with d := g.d + 1, acc := g.acc ++ [pub] } :: rest' }

/-- InitializeComponent: the callbacks in order, each able to fail; returns the state with the events logged and whether all succeeded -/
def initCallbacks (sc : Scen) (st : St) (n : Nat) : St × Bool :=
  if sc.wired n then
    let s1 := addLog sc st n (.before n)
    if sc.fBefore n then (s1, false) else
    let s2 := addLog sc s1 n (.aps n)
    if sc.fAps n then (s2, false) else
    let s3 := addLog sc s2 n (.init n)
    if sc.fInit n then (s3, false) else
    let s4 := addLog sc s3 n (.after n)
    if sc.fAfter n then (s4, false) else (s4, true)
  else
    let s2 := addLog sc st n (.aps n)
    if sc.fAps n then (s2, false) else
    let s3 := addLog sc s2 n (.init n)
    if sc.fInit n then (s3, false) else (s3, true)

/-- what InitializeComponent returns: substitution only happens through the (wired) post-processors -/
def initResult (sc : Scen) (n : Nat) : Obj := if sc.wired n then sc.afterO n else raw n

def step (sc : Scen) (st : St) : St :=
  match st.status with
  | .running =>
    match st.stack with
    | [] =>
      match st.todoBoot with
      | n :: t =>
        let st := { st with todoBoot := t, stage := .factory }
        match lookup sc st n with
        | .hit _ st' => st'
        | .err st' => failAt st' n
        | .miss => enter sc st n
      | [] =>
        match st.todo with
        | [] => { st with status := .done }
        | n :: t =>
          let st := { st with todo := t, stage := .refresh }
          match lookup sc st n with
          | .hit _ st' => st'
          | .err st' => failAt st' n
          | .miss => enter sc st n
    | f :: rest =>
      let ps := pts sc f.name
      if hp : f.p < ps.length then
        let pt := ps[f.p]
        if hd : f.d < pt.cands.length then
          let c := pt.cands[f.d]
          match lookup sc st c with
          | .hit o st' => { st' with stack := { f with d := f.d + 1, acc := f.acc ++ [o] } :: rest }
          | .err st' => failAt st' c
          | .miss => enter sc st c
        else
          -- node.Inject(injects) — only called when the point has candidates at all
          if pt.cands.isEmpty then { st with stack := { f with p := f.p + 1, d := 0, acc := [] } :: rest }
          else
          let metas := f.acc.filter (fun o => o.name != f.name)
          if metas.isEmpty then
            if pt.required then failAt st f.name
            else { st with stack := { f with p := f.p + 1, d := 0, acc := [] } :: rest }
          else if metas.any (fun o => pt.incompat.contains o.name) then
            if pt.required then failAt st f.name
            else { st with stack := { f with p := f.p + 1, d := 0, acc := [] } :: rest }
          else
            let v := if pt.slice then metas else metas.take 1
            { st with fields := upd2 st.fields f.name f.p v,
                      stack := { f with p := f.p + 1, d := 0, acc := [] } :: rest }
      else
        let n := f.name
        let (st1, ok) := initCallbacks sc st n
        if !ok then failAt st1 n else
        let w := initResult sc n
        match st1.l2 n with
        | none => publish st1 n w rest
        | some e =>
          if w = raw n then publish st1 n e rest
          else if finishedHolderHas sc st1 e then failAt st1 n
          else publish st1 n w rest
  | _ => st

def run (sc : Scen) : Nat → St → St
  | 0, st => st
  | k + 1, st => run sc k (step sc st)

/-- work of one component: 2 steps of its own plus one per candidate and one per point -/
def work (sc : Scen) (n : Nat) : Nat :=
  2 + ((pts sc n).map (fun p => p.cands.length + 1)).sum

/-- an explicit bound on the number of steps of any start (C02_terminates) -/
def fuelBound (sc : Scen) : Nat :=
  1 + sc.boot.length + sc.eager.length + (sc.names.map (work sc)).sum

def final (sc : Scen) : St := run sc (fuelBound sc) (init sc)

/-- a lookup of component `n` through the public API AFTER a start (or after an earlier such lookup) has ended: the
    registries and the fields are as the last run left them (a failed run removed the cache entries of what was in creation
    and nothing else: `failAt`); creation resumes for `n` only.  `sc` may differ from the scenario of the earlier runs in what
    the callbacks answer (an `Init` that fails the first time only). -/
def lookupAfter (sc : Scen) (st : St) (n : Nat) : St :=
  match st.status with
  | .running => st
  | _ => run sc (fuelBound sc + 1) { st with status := .running, todo := [n], todoBoot := [], stage := .refresh }

end M2
end Ioc
