/-
  Ioc.SemRefresh — interpretation of the primitives called by the REGENERATED programs `defaultFactory.Refresh`
  (container/factory/factory.go:92-118) and `Meta.IsSelf` (component_definition/meta.go:76-83).
  Refresh: definitions are `.ref n 70` (n = the component's name, as a number: the order of names is `<` on numbers),
  `lazy n` = its instance implements definition.LazyInit, `getFails n` = doGetComponent(n) returns an error; `sort2.Slice` is
  an arbitrary function `sort` applied to the comparator THE PROGRAM passes (the function literal is run by the interpreter).
  IsSelf: the metas of one proxy chain are numbered from its end (meta k+1 proxies meta k, meta 0 proxies nothing).
-/
import Ioc.GoSem
import Ioc.Order
import Ioc.SemInit
import Ioc.Generated.Progs
namespace Ioc.Sem
open Ioc Ioc.Go Ioc.Order

def decInts : List Val → Option (List Nat)
  | [] => some []
  | .int i :: rest => (decInts rest).map (i.toNat :: ·)
  | _ => none

def refreshFn (metas : List Nat) (lazy getFails : Nat → Bool) : String → List Val → List Nat → Option (Val × List Nat)
  | "self.definitionRegistry.GetMetas", [], w => some (.list (metas.map (fun n => .ref n 70)), w)
  | ".Raw", [.ref n 70], w => some (.ref n 71, w)
  | "assert2:definition.LazyInit", [.ref n 71], w => some (.tuple [.ref n 72, .bool (lazy n)], w)
  | ".Name", [.ref n 70], w => some (.int n, w)
  | "append", [.nil, v], w => some (.list [v], w)
  | "append", [.list vs, v], w => some (.list (vs ++ [v]), w)
  | "self.doGetComponent", [.int n], w =>
      some (if getFails n.toNat then .tuple [.nil, errN] else .tuple [.ref n.toNat 73, .nil], w ++ [n.toNat])
  | _, _, _ => none

/-- `sort2.Slice(names, less)`: `sort` applied to the comparator the handler computes -/
def refreshHfn (sort : (Nat → Nat → Bool) → List Nat → List Nat) :
    String → List Val → Handler (List Nat) → List Nat → Option (Val × List Nat)
  | "sort2.Slice", [.nil], _, w => some (.nil, w)
  | "sort2.Slice", [.list vs], h, w =>
      (decInts vs).map (fun l =>
        (.list ((sort (fun a b => match h [.int a, .int b] w with
                                  | some (.bool r, _) => r
                                  | _ => false) l).map (fun (n : Nat) => Val.int n)), w))
  | _, _, _, _ => none

def refreshPrims (sort : (Nat → Nat → Bool) → List Nat → List Nat) (metas : List Nat) (lazy getFails : Nat → Bool) :
    Prims (List Nat) := { fn := refreshFn metas lazy getFails, hfn := refreshHfn sort }

/-! ### IsSelf -/

def encMeta (k : Nat) : Val := .ref k 60
def encMetaO : Option Nat → Val
  | none => .nil
  | some k => encMeta k

def isSelfFn (selfPtr : Nat) (addr : Nat → Nat) : String → List Val → Unit → Option (Val × Unit)
  | "self.Value.Pointer", [], w => some (.int selfPtr, w)
  | ".originAddress", [.ref k 60], w => some (.int (addr k), w)
  | ".ProxyMeta", [.ref 0 60], w => some (.nil, w)
  | ".ProxyMeta", [.ref (k + 1) 60], w => some (encMeta k, w)
  | _, _, _ => none

def isSelfPrims (selfPtr : Nat) (addr : Nat → Nat) (fuel : Nat) : Prims Unit := { fn := isSelfFn selfPtr addr, fuel := fuel }

/-- IsSelf on the model: some meta of the chain o, proxy(o), … has the holder's address as its origin -/
def isSelfModel (selfPtr : Nat) (addr : Nat → Nat) : Option Nat → Bool
  | none => false
  | some k => (List.range (k + 1)).any (fun j => addr j == selfPtr)

end Ioc.Sem
