/-
  Ioc.Tag — M8: the tag-argument grammar.
  Mirrors  github.com/go-kid/strings2  Index / SplitWithConfig  (the loops as written,
  including their behaviour on unbalanced brackets)  and
  component_definition/arg.go  TagArg.Parse / Set / formatArgType / Has,
  component_definition/property.go  NewProperty / IsRequired,
  container/processors/value_aware_post_processors.go:24-34  (prop shorthand).

  Every Go slice expression goes through `slice?`; a `none` is a Go panic.
-/
import Ioc.Basic
namespace Ioc
namespace Tag

variable {α : Type} [DecidableEq α]

/-- strings.Index for a one-element separator -/
def idxFrom (sep : α) : List α → Option Nat
  | [] => none
  | a :: l => if a = sep then some 0 else (idxFrom sep l).map (· + 1)

def optI : Option Nat → Int
  | none => -1
  | some k => (k : Int)

/-- the `for` loop of strings2.Index; `i` = position of the head of the remaining input,
    `inn` = the nesting counter `in`, `idx` = the remembered index -/
def loop (sep : α) (isL isR : α → Bool) : List α → Nat → Int → Int → Int
  | [], _, _, idx => idx
  | a :: rest, i, inn, idx =>
    if isL a then loop sep isL isR rest (i+1) (inn+1) idx
    else if isR a then
      if inn - 1 = 0 then
        match idxFrom sep rest with
        | none => -1
        | some k => loop sep isL isR rest (i+1) 0 (k + i + 1)
      else loop sep isL isR rest (i+1) (inn-1) idx
    else if inn = 0 ∧ idx ≤ i then
      if idx ≠ i then loop sep isL isR rest (i+1) inn (optI (idxFrom sep (a :: rest)) + i)
      else idx
    else loop sep isL isR rest (i+1) inn idx

/-- strings2.Index(s, sep, left, right) -/
def index (sep : α) (isL isR : α → Bool) (s : List α) : Int :=
  match idxFrom sep s with
  | none => -1
  | some k => loop sep isL isR s 0 0 k

/-- strings.Count for a one-element separator -/
def count (sep : α) (s : List α) : Nat := (s.filter (· = sep)).length

/-- the `for i < n` loop of SplitWithConfig (After=false, one-element separator);
    `none` = a slice expression out of range -/
def splitGo? (sep : α) (isL isR : α → Bool) : Nat → List α → Option (List (List α))
  | 0, s => some [s]
  | k+1, s =>
    let m := index sep isL isR s
    if m < 0 then some [s]
    else
      match slice? s 0 m, slice? s (m + 1) s.length with
      | some hd, some tl => (splitGo? sep isL isR k tl).map (hd :: ·)
      | _, _ => none

/-- strings2.Split(s, sep, DefaultSplitBlock): n = Count+1 (capped at len+1), then n-1 rounds -/
def split? (sep : α) (isL isR : α → Bool) (s : List α) : Option (List (List α)) :=
  splitGo? sep isL isR (min (count sep s) s.length) s

/-- the same function with unchecked `take`/`drop`; `split?_eq` shows they agree -/
def splitGo (sep : α) (isL isR : α → Bool) : Nat → List α → List (List α)
  | 0, s => [s]
  | k+1, s =>
    let m := index sep isL isR s
    if m < 0 then [s]
    else s.take m.toNat :: splitGo sep isL isR k (s.drop (m.toNat + 1))

def split (sep : α) (isL isR : α → Bool) (s : List α) : List (List α) :=
  splitGo sep isL isR (min (count sep s) s.length) s

/-! ### bytes -/

def isLB (b : UInt8) : Bool := b == 123 || b == 91 || b == 40      -- { [ (
def isRB (b : UInt8) : Bool := b == 125 || b == 93 || b == 41      -- } ] )
def cComma : UInt8 := 44
def cEq : UInt8 := 61
def cSp : UInt8 := 32

abbrev Args := List (Bytes × List Bytes)

/-- strings.ToUpper on the one-byte string `t[:1]`: ASCII lower → upper; a byte ≥ 0x80 is
    invalid UTF-8 on its own and strings.Map writes U+FFFD for it -/
def upperFirst (b : UInt8) : Bytes :=
  if 97 ≤ b ∧ b ≤ 122 then [b - 32]
  else if b ≥ 128 then [0xEF, 0xBF, 0xBD]
  else [b]

/-- formatArgType; `none` = the `t[:1]` panic on the empty string -/
def formatArgType? : Bytes → Option Bytes
  | [] => none
  | b :: rest => some (upperFirst b ++ rest)

/-- TagArg.Set: empty names are ignored, otherwise the (formatted) key is overwritten -/
def setArg (m : Args) (k : Bytes) (v : List Bytes) : Args :=
  match k with
  | [] => m
  | b :: rest => ainsert (upperFirst b ++ rest) v m

/-- one `exp` of TagArg.Parse; `none` = panic -/
def parseExp? (m : Args) (exp : Bytes) : Option Args :=
  match idxFrom cEq exp with
  | none => some (setArg m exp [[]])
  | some i =>
    match slice? exp 0 i, slice? exp (i + 1) exp.length with
    | some k, some v =>
      match split? cSp isLB isRB v with
      | some items => some (setArg m k items)
      | none => none
    | _, _ => none

def parseExps? : Args → List Bytes → Option Args
  | m, [] => some m
  | m, e :: es => match parseExp? m e with
    | some m' => parseExps? m' es
    | none => none

/-- TagArg.Parse on a fresh map: (value part, arguments); `none` = panic -/
def parse? (tag : Bytes) : Option (Bytes × Args) :=
  match split? cComma isLB isRB tag with
  | some (v :: exps) => (parseExps? [] exps).map (fun a => (v, a))
  | some [] => none          -- parts[0] on an empty slice
  | none => none

/-- TagArg.Find (for a non-empty, already formatted or unformatted name) -/
def find (a : Args) (k : Bytes) : Option (List Bytes) :=
  match formatArgType? k with
  | some k' => alookup k' a
  | none => none

/-- TagArg.Has(name, wants…): with no wants = presence; otherwise intersection -/
def has (a : Args) (k : Bytes) (wants : List Bytes) : Bool :=
  match find a k with
  | none => false
  | some items => if wants.isEmpty then true else items.any (fun x => wants.contains x)

def kRequired : Bytes := ofString "Required"
def kQualifier : Bytes := ofString "Qualifier"
def vFalse : Bytes := ofString "false"

/-- Property.IsRequired -/
def isRequired (a : Args) : Bool := !(has a kRequired [vFalse])

/-- the trailing loop of DefaultTagScanDefinitionRegistryPostProcessor.PostProcessDefinitionRegistry
    (container/processors/default_tag_scan_definition_registry_post_processor.go:38-42) for one property:
    `if d.Required && !property.Args().Has(ArgRequired) { property.SetArg(ArgRequired) }` — a scanner whose
    `Required` field is true stores a bare `Required` marker (NO items) unless the tag text already carries a required
    argument; a scanner that leaves `Required` at its zero value stores nothing at all -/
def scanDefault (req : Bool) (a : Args) : Args :=
  if req && !(has a kRequired []) then setArg a kRequired [] else a

/-- a tag scanner (built-in or user-defined, `Required` = `req`) applied to one tagged field: NewProperty, then the
    default loop; both creation branches (tag lookup :21-26, ExtractHandler :28-35) end in the same NewProperty.
    `none` = panic -/
def scan? (req : Bool) (tag : Bytes) : Option (Bytes × Args) :=
  (parse? tag).map (fun va => (va.1, scanDefault req va.2))

/-! ### histories: editing the arguments of one property, then creating another one

  NewProperty (component_definition/property.go:21-33) allocates a FRESH map for every call (`args := make(TagArg)`)
  and parses the tag text into it; `Args()` (:176) hands out that map, `SetArg` / `AddArg` (:180-186) and
  `Args().Set` / `Args().Add` (arg.go:40-54) all write into the map of THAT property only.  So the state a property is
  created in is the text alone — which is what the functions below say: the edits are applied to A, B is created from
  its own text. -/

/-- TagArg.Add (arg.go:48-54): empty names are ignored, otherwise the items are appended to what the (formatted) key
    holds (a missing key holds nothing) -/
def addArg (m : Args) (k : Bytes) (v : List Bytes) : Args :=
  match k with
  | [] => m
  | b :: rest => ainsert (upperFirst b ++ rest) ((alookup (upperFirst b ++ rest) m).getD [] ++ v) m

/-- one edit of a property's arguments: `Args().Set` / `SetArg` (add = false) or `Args().Add` / `AddArg` (add = true) -/
structure ArgOp where
  add : Bool
  name : Bytes
  items : List Bytes

def applyOp (a : Args) (op : ArgOp) : Args :=
  if op.add then addArg a op.name op.items else setArg a op.name op.items

def applyOps (a : Args) (ops : List ArgOp) : Args := ops.foldl applyOp a

/-- how a property comes into being: directly through NewProperty (`scanned = false`) or through a tag scanner whose
    `Required` field is `req` -/
def create? (scanned req : Bool) (tag : Bytes) : Option (Bytes × Args) :=
  if scanned then scan? req tag else parse? tag

/-- a history: property A is created from `t` and edited by `ops`; property B is created from `t2` (before or after the
    edits, in the same scan, a later scan or a later application of the process — B has its own map in every case).
    Result: (A after the edits, B).  `none` = panic -/
def hist? (scanned req : Bool) (t : Bytes) (ops : List ArgOp) (t2 : Bytes) :
    Option ((Bytes × Args) × (Bytes × Args)) :=
  match create? scanned req t, create? scanned req t2 with
  | some (va, aa), some b => some ((va, applyOps aa ops), b)
  | _, _ => none


/-- the ExtractHandler of the value processor: `prop:"k,args"` becomes `${k},args`; `none` = panic -/
def propShorthand? (tagVal : Bytes) : Option Bytes :=
  let i := index cComma isLB isRB tagVal
  if i = -1 then some (ofString "${" ++ tagVal ++ ofString "}")
  else
    match slice? tagVal 0 i, slice? tagVal i tagVal.length with
    | some k, some rest => some (ofString "${" ++ k ++ ofString "}" ++ rest)
    | _, _ => none

/-! ### rendering of a structured tag (the inverse direction, used by C19_roundtrip) -/

def joinB (sep : UInt8) : List Bytes → Bytes
  | [] => []
  | [x] => x
  | x :: rest => x ++ sep :: joinB sep rest

def renderArg (a : Bytes × List Bytes) : Bytes := a.1 ++ cEq :: joinB cSp a.2

def render (v : Bytes) (as : List (Bytes × List Bytes)) : Bytes :=
  joinB cComma (v :: as.map renderArg)

end Tag
end Ioc
