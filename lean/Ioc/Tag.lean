/-
  Ioc.Tag — M8: the tag-argument grammar.
  Mirrors  github.com/go-kid/strings2  Index / SplitWithConfig  (the loops as written,
  including their behaviour on unbalanced brackets)  and
  component_definition/arg.go  TagArg.Parse / Set / formatArgType / Has,
  component_definition/property.go  NewProperty / IsRequired,
  container/processors/value_aware_post_processors.go:24-34  (prop shorthand).

  Every Go slice expression goes through `slice?`; a `none` is a Go panic.
-/
import Ioc.Basic
namespace Ioc
namespace Tag

variable {α : Type} [DecidableEq α]

/-- strings.Index for a one-element separator -/
def idxFrom (sep : α) : List α → Option Nat
  | [] => none
  | a :: l => if a = sep then some 0 else (idxFrom sep l).map (· + 1)

def optI : Option Nat → Int
  | none => -1
  | some k => (k : Int)

/-- the `for` loop of strings2.Index; `i` = position of the head of the remaining input,
    `inn` = the nesting counter `in`, `idx` = the remembered index -/
def loop (sep : α) (isL isR : α → Bool) : List α → Nat → Int → Int → Int
  | [], _, _, idx => idx
  | a :: rest, i, inn, idx =>
    if isL a then loop sep isL isR rest (i+1) (inn+1) idx
    else if isR a then
      if inn - 1 = 0 then
        match idxFrom sep rest with
        | none => -1
        | some k => loop sep isL isR rest (i+1) 0 (k + i + 1)
      else loop sep isL isR rest (i+1) (inn-1) idx
    else if inn = 0 ∧ idx ≤ i then
      if idx ≠ i then loop sep isL isR rest (i+1) inn (optI (idxFrom sep (a :: rest)) + i)
      else idx
    else loop sep isL isR rest (i+1) inn idx

/-- strings2.Index(s, sep, left, right) -/
def index (sep : α) (isL isR : α → Bool) (s : List α) : Int :=
  match idxFrom sep s with
  | none => -1
  | some k => loop sep isL isR s 0 0 k

/-- strings.Count for a one-element separator -/
def count (sep : α) (s : List α) : Nat := (s.filter (· = sep)).length

/-- the `for i < n` loop of SplitWithConfig (After=false, one-element separator);
    `none` = a slice expression out of range -/
def splitGo? (sep : α) (isL isR : α → Bool) : Nat → List α → Option (List (List α))
  | 0, s => some [s]
  | k+1, s =>
    let m := index sep isL isR s
    if m < 0 then some [s]
    else
      match slice? s 0 m, slice? s (m + 1) s.length with
      | some hd, some tl => (splitGo? sep isL isR k tl).map (hd :: ·)
      | _, _ => none

/-- strings2.Split(s, sep, DefaultSplitBlock): n = Count+1 (capped at len+1), then n-1 rounds -/
def split? (sep : α) (isL isR : α → Bool) (s : List α) : Option (List (List α)) :=
  splitGo? sep isL isR (min (count sep s) s.length) s

/-- the same function with unchecked `take`/`drop`; `split?_eq` shows they agree -/
def splitGo (sep : α) (isL isR : α → Bool) : Nat → List α → List (List α)
  | 0, s => [s]
  | k+1, s =>
    let m := index sep isL isR s
    if m < 0 then [s]
    else s.take m.toNat :: splitGo sep isL isR k (s.drop (m.toNat + 1))

def split (sep : α) (isL isR : α → Bool) (s : List α) : List (List α) :=
  splitGo sep isL isR (min (count sep s) s.length) s

/-! ### bytes -/

def isLB (b : UInt8) : Bool := b == 123 || b == 91 || b == 40      -- { [ (
def isRB (b : UInt8) : Bool := b == 125 || b == 93 || b == 41      -- } ] )
def cComma : UInt8 := 44
def cEq : UInt8 := 61
def cSp : UInt8 := 32

abbrev Args := List (Bytes × List Bytes)

/-- strings.ToUpper on the one-byte string `t[:1]`: ASCII lower → upper; a byte ≥ 0x80 is
    invalid UTF-8 on its own and strings.Map writes U+FFFD for it -/
def upperFirst (b : UInt8) : Bytes :=
  if 97 ≤ b ∧ b ≤ 122 then [b - 32]
  else if b ≥ 128 then [0xEF, 0xBF, 0xBD]
  else [b]

/-- formatArgType; `none` = the `t[:1]` panic on the empty string -/
def formatArgType? : Bytes → Option Bytes
  | [] => none
  | b :: rest => some (upperFirst b ++ rest)

/-- TagArg.Set: empty names are ignored, otherwise the (formatted) key is overwritten -/
def setArg (m : Args) (k : Bytes) (v : List Bytes) : Args :=
  match k with
  | [] => m
  | b :: rest => ainsert (upperFirst b ++ rest) v m

/-- one `exp` of TagArg.Parse; `none` = panic -/
def parseExp? (m : Args) (exp : Bytes) : Option Args :=
  match idxFrom cEq exp with
  | none => some (setArg m exp [[]])
  | some i =>
    match slice? exp 0 i, slice? exp (i + 1) exp.length with
    | some k, some v =>
      match split? cSp isLB isRB v with
      | some items => some (setArg m k items)
      | none => none
    | _, _ => none

def parseExps? : Args → List Bytes → Option Args
  | m, [] => some m
  | m, e :: es => match parseExp? m e with
    | some m' => parseExps? m' es
    | none => none

/-- TagArg.Parse on a fresh map: (value part, arguments); `none` = panic -/
def parse? (tag : Bytes) : Option (Bytes × Args) :=
  match split? cComma isLB isRB tag with
  | some (v :: exps) => (parseExps? [] exps).map (fun a => (v, a))
  | some [] => none          -- parts[0] on an empty slice
  | none => none

/-- TagArg.Find (for a non-empty, already formatted or unformatted name) -/
def find (a : Args) (k : Bytes) : Option (List Bytes) :=
  match formatArgType? k with
  | some k' => alookup k' a
  | none => none

/-- TagArg.Has(name, wants…): with no wants = presence; otherwise intersection -/
def has (a : Args) (k : Bytes) (wants : List Bytes) : Bool :=
  match find a k with
  | none => false
  | some items => if wants.isEmpty then true else items.any (fun x => wants.contains x)

def kRequired : Bytes := ofString "Required"
def kQualifier : Bytes := ofString "Qualifier"
def vFalse : Bytes := ofString "false"

/-- Property.IsRequired -/
def isRequired (a : Args) : Bool := !(has a kRequired [vFalse])

/-- the trailing loop of DefaultTagScanDefinitionRegistryPostProcessor.PostProcessDefinitionRegistry
    (container/processors/default_tag_scan_definition_registry_post_processor.go:38-42) for one property:
    `if d.Required && !property.Args().Has(ArgRequired) { property.SetArg(ArgRequired) }` — a scanner whose
    `Required` field is true stores a bare `Required` marker (NO items) unless the tag text already carries a required
    argument; a scanner that leaves `Required` at its zero value stores nothing at all -/
def scanDefault (req : Bool) (a : Args) : Args :=
  if req && !(has a kRequired []) then setArg a kRequired [] else a

/-- a tag scanner (built-in or user-defined, `Required` = `req`) applied to one tagged field: NewProperty, then the
    default loop; both creation branches (tag lookup :21-26, ExtractHandler :28-35) end in the same NewProperty.
    `none` = panic -/
def scan? (req : Bool) (tag : Bytes) : Option (Bytes × Args) :=
  (parse? tag).map (fun va => (va.1, scanDefault req va.2))

/-! ### histories: editing the arguments of one property, then creating another one

  NewProperty (component_definition/property.go:21-33) allocates a FRESH map for every call (`args := make(TagArg)`)
  and parses the tag text into it; `Args()` (:176) hands out that map, `SetArg` / `AddArg` (:180-186) and
  `Args().Set` / `Args().Add` (arg.go:40-54) all write into the map of THAT property only.  So the state a property is
  created in is the text alone — which is what the functions below say: the edits are applied to A, B is created from
  its own text. -/

/-- TagArg.Add (arg.go:48-54): empty names are ignored, otherwise the items are appended to what the (formatted) key
    holds (a missing key holds nothing) -/
def addArg (m : Args) (k : Bytes) (v : List Bytes) : Args :=
  match k with
  | [] => m
  | b :: rest => ainsert (upperFirst b ++ rest) ((alookup (upperFirst b ++ rest) m).getD [] ++ v) m

/-- one edit of a property's arguments: `Args().Set` / `SetArg` (add = false) or `Args().Add` / `AddArg` (add = true) -/
structure ArgOp where
  add : Bool
  name : Bytes
  items : List Bytes

def applyOp (a : Args) (op : ArgOp) : Args :=
  if op.add then addArg a op.name op.items else setArg a op.name op.items

def applyOps (a : Args) (ops : List ArgOp) : Args := ops.foldl applyOp a

/-- how a property comes into being: directly through NewProperty (`scanned = false`) or through a tag scanner whose
    `Required` field is `req` -/
def create? (scanned req : Bool) (tag : Bytes) : Option (Bytes × Args) :=
  if scanned then scan? req tag else parse? tag

/-- a history: property A is created from `t` and edited by `ops`; property B is created from `t2` (before or after the
    edits, in the same scan, a later scan or a later application of the process — B has its own map in every case).
    Result: (A after the edits, B).  `none` = panic -/
def hist? (scanned req : Bool) (t : Bytes) (ops : List ArgOp) (t2 : Bytes) :
    Option ((Bytes × Args) × (Bytes × Args)) :=
  match create? scanned req t, create? scanned req t2 with
  | some (va, aa), some b => some ((va, applyOps aa ops), b)
  | _, _ => none


/-- the ExtractHandler of the value processor: `prop:"k,args"` becomes `${k},args`; `none` = panic -/
def propShorthand? (tagVal : Bytes) : Option Bytes :=
  let i := index cComma isLB isRB tagVal
  if i = -1 then some (ofString "${" ++ tagVal ++ ofString "}")
  else
    match slice? tagVal 0 i, slice? tagVal i tagVal.length with
    | some k, some rest => some (ofString "${" ++ k ++ ofString "}" ++ rest)
    | _, _ => none

/-! ### rendering of a structured tag (the inverse direction, used by C19_roundtrip) -/

def joinB (sep : UInt8) : List Bytes → Bytes
  | [] => []
  | [x] => x
  | x :: rest => x ++ sep :: joinB sep rest

def renderArg (a : Bytes × List Bytes) : Bytes := a.1 ++ cEq :: joinB cSp a.2

def render (v : Bytes) (as : List (Bytes × List Bytes)) : Bytes :=
  joinB cComma (v :: as.map renderArg)

/-! ### consumers of arguments (seventh round): lookups through the public API, Property.Unmarshall

  `Args().Find(name)` (arg.go:61-64) hands out the STORED item list of the formatted name — every item, empty ones
  included; `Has` (arg.go:66-75) is presence / intersection with that list (`find`, `has` above).

  Property.Unmarshall (component_definition/property.go:126-158) reads two arguments:
    :136-138  `if args, ok := n.Args().Find("timeLayout"); ok { hooks = append(hooks, StringToTimeHookFunc(args[0])) }`
    :141-143  `if args, ok := n.Args().Find("mapper"); ok { config.TagName = args[0] }`
  `args[0]` on an empty item list is a Go panic (`first?` = none).  The parser never stores an empty list (a bare name
  gets the one item ""), an edit through `SetArg(name)` can. -/

def kMapper : Bytes := ofString "mapper"
def kTimeLayout : Bytes := ofString "timeLayout"

/-- `args[0]`; `none` = index out of range -/
def first? : List Bytes → Option Bytes
  | [] => none
  | x :: _ => some x

/-- what Unmarshall hands to mapstructure: the layout of the time hook (if the argument exists) and the TagName
    (`yaml` from newDecodeConfig unless the `mapper` argument exists); `none` = panic -/
def decodeOpts? (a : Args) : Option (Option Bytes × Bytes) :=
  match find a kTimeLayout with
  | some items =>
    match first? items with
    | none => none
    | some l =>
      match find a kMapper with
      | some ms => (first? ms).map (fun m => (some l, m))
      | none => some (some l, ofString "yaml")
  | none =>
    match find a kMapper with
    | some ms => (first? ms).map (fun m => (none, m))
    | none => some (none, ofString "yaml")

/-! #### time.Parse for layouts over the chunks `2006 01 02 15 04 05` (Go 1.23 time/format.go: nextStdChunk :202-335,
  parse :1044-1427, skip :975-995, getnum :912-925).  Modelled, not verified.  A layout with any other digit, or one
  of the bytes J M P p Z _ (which may start another chunk), is outside the modelled language (`unmodelled`). -/

inductive Chunk where
  | lit (b : UInt8)
  | year | month | day | hour | minute | second
deriving Repr, DecidableEq

def isDig (b : UInt8) : Bool := 48 ≤ b && b ≤ 57
def dval (b : UInt8) : Nat := b.toNat - 48

/-- bytes that never start a chunk of nextStdChunk when no digit other than the six chunks occurs in the layout:
    everything except digits and J M P p Z _ (`-` needs `07`, `.` and `,` need a run of 0s or 9s ended by a non-digit) -/
def safeLit (b : UInt8) : Bool :=
  !(isDig b) && b != 74 && b != 77 && b != 80 && b != 112 && b != 90 && b != 95

def chunkAt (s : Bytes) : Option (Chunk × Nat) :=
  if (ofString "2006").isPrefixOf s then some (.year, 4)
  else if (ofString "01").isPrefixOf s then some (.month, 2)
  else if (ofString "02").isPrefixOf s then some (.day, 2)
  else if (ofString "15").isPrefixOf s then some (.hour, 2)
  else if (ofString "04").isPrefixOf s then some (.minute, 2)
  else if (ofString "05").isPrefixOf s then some (.second, 2)
  else none

/-- the chunks of a layout in the modelled language (fuel = length + 1); `none` = outside it -/
def layoutChunks : Nat → Bytes → Option (List Chunk)
  | 0, _ => none
  | _ + 1, [] => some []
  | f + 1, b :: rest =>
    if isDig b then
      match chunkAt (b :: rest) with
      | some (c, n) => (layoutChunks f ((b :: rest).drop n)).map (c :: ·)
      | none => none
    else if safeLit b then (layoutChunks f rest).map (.lit b :: ·)
    else none

/-- getnum(s, fixed): one or two digits (two when fixed) -/
def getnum (fixed : Bool) : Bytes → Option (Nat × Bytes)
  | [] => none
  | [a] => if isDig a && !fixed then some (dval a, []) else none
  | a :: b :: rest =>
    if isDig a then
      if isDig b then some (dval a * 10 + dval b, rest)
      else if fixed then none else some (dval a, b :: rest)
    else none

structure TState where
  year : Nat := 0
  month : Option Nat := none
  day : Option Nat := none
  hour : Nat := 0
  min : Nat := 0
  sec : Nat := 0
  nsec : Nat := 0
deriving Repr, DecidableEq

/-- parseNanoseconds on `.ddd…`: at most nine digits count, scaled to nanoseconds -/
def fracNanos (digits : Bytes) : Nat :=
  let ds := digits.take 9
  (ds.foldl (fun n d => n * 10 + dval d) 0) * 10 ^ (9 - ds.length)

/-- after a seconds chunk: a fractional second in the VALUE is taken even though the layout has none (:1162-1177;
    the next chunk of a layout of the modelled language is never a fractional-second chunk) -/
def takeFrac (v : Bytes) : Option (Nat × Bytes) :=
  match v with
  | c :: d :: rest =>
    if (c = 46 ∨ c = 44) ∧ isDig d then
      some (fracNanos ((d :: rest).takeWhile isDig), (d :: rest).dropWhile isDig)
    else none
  | _ => none

/-- the loop of `parse` over the chunks; `sp` = the previous layout byte was a blank of the same literal run (skip
    treats a run of blanks as one: the value may have any number of blanks there, also none at its end); `none` = error -/
def parseLoop : List Chunk → Bool → Bytes → TState → Option TState
  | [], _, v, st => if v.isEmpty then some st else none
  | .lit b :: cs, sp, v, st =>
    if b = 32 then
      if sp then parseLoop cs true v st
      else match v with
        | [] => parseLoop cs true [] st
        | x :: _ => if x = 32 then parseLoop cs true (v.dropWhile (· = 32)) st else none
    else match v with
      | x :: v' => if x = b then parseLoop cs false v' st else none
      | [] => none
  | .year :: cs, _, v, st =>
    match v with
    | a :: b :: c :: d :: v' =>
      if isDig a && isDig b && isDig c && isDig d then
        parseLoop cs false v' { st with year := ((dval a * 10 + dval b) * 10 + dval c) * 10 + dval d }
      else none
    | _ => none
  | .month :: cs, _, v, st =>
    match getnum true v with
    | some (m, v') => if m = 0 ∨ 12 < m then none else parseLoop cs false v' { st with month := some m }
    | none => none
  | .day :: cs, _, v, st =>
    match getnum true v with
    | some (d, v') => parseLoop cs false v' { st with day := some d }
    | none => none
  | .hour :: cs, _, v, st =>
    match getnum false v with
    | some (h, v') => if 24 ≤ h then none else parseLoop cs false v' { st with hour := h }
    | none => none
  | .minute :: cs, _, v, st =>
    match getnum true v with
    | some (m, v') => if 60 ≤ m then none else parseLoop cs false v' { st with min := m }
    | none => none
  | .second :: cs, _, v, st =>
    match getnum true v with
    | some (s, v') =>
      if 60 ≤ s then none
      else
        match takeFrac v' with
        | some (ns, v'') => parseLoop cs false v'' { st with sec := s, nsec := ns }
        | none => parseLoop cs false v' { st with sec := s }
    | none => none

def isLeap (y : Nat) : Bool := y % 4 == 0 && (y % 100 != 0 || y % 400 == 0)

def daysIn (m y : Nat) : Nat :=
  if m = 2 then (if isLeap y then 29 else 28)
  else if m = 4 ∨ m = 6 ∨ m = 9 ∨ m = 11 then 30 else 31

inductive TimeRes where
  | ok (year month day hour min sec nsec : Nat)
  | err
  | unmodelled
deriving Repr, DecidableEq

/-- time.Parse(layout, value) for a layout of the modelled language: the civil time (UTC) or an error -/
def timeParse (layout value : Bytes) : TimeRes :=
  match layoutChunks (layout.length + 1) layout with
  | none => .unmodelled
  | some cs =>
    match parseLoop cs false value {} with
    | none => .err
    | some st =>
      let m := st.month.getD 1
      let d := st.day.getD 1
      if d < 1 ∨ d > daysIn m st.year then .err
      else .ok st.year m d st.hour st.min st.sec st.nsec

inductive BindRes where
  | time (t : TimeRes)
  | tagName (n : Bytes)
  | err
deriving Repr, DecidableEq

/-- Unmarshall(text) into a `time.Time` field: without a layout mapstructure has a string for a struct (error), with
    one the hook parses the text with the layout AS THE ARGUMENT'S FIRST ITEM IS WRITTEN; `none` = panic -/
def bindTime? (a : Args) (value : Bytes) : Option BindRes :=
  match decodeOpts? a with
  | none => none
  | some (none, _) => some .err
  | some (some l, _) => some (.time (timeParse l value))

/-- Unmarshall(map) into a struct: the TagName mapstructure matches the keys with; `none` = panic -/
def bindTagName? (a : Args) : Option BindRes :=
  (decodeOpts? a).map (fun o => .tagName o.2)

end Tag
end Ioc
