/-
  Ioc.Conc — M9: the concurrent phases of the container and the concurrent map/set utilities.

  (1) reading a regenerated synchronisation skeleton (`Sk`, produced by harness/cmd/facts from the Go
      source) into the shape parameters of a transition system: `closeShape`, `scanShape`;
  (2) ONE interleaving transition system for the fork/join pattern both phases use
        main:    wg.Add(n) ; for each item: go worker(i) ; wg.Wait() ; continue (Close: return, scan: read errs)
        worker:  [defer wg.Done()] ; call ; if it failed: [Lock] access-begin access-end [Unlock] ; Done
      (`Step`, parameterised by `FanCfg` = which guards exist where). One constructor per atomic action,
      `Reach` = reflexive-transitive closure from `init`, so a theorem over `Reach` is a theorem over EVERY
      schedule; a slow call is any number of other threads' steps between its begin and its end.
        - app/app.go:156-174                                         App.Close
        - container/factory/post_processor_registration_delegate.go:66-95   applyDefinitionRegistryPostProcessors
  (3) sync2.Map / ConcurrentSets (util/sync2/map.go, util/list/concurrent_set.go): every method is the
      sequence of sync.Map primitives read from the regenerated facts, a concurrent history is an
      interleaving of primitive steps (`run`), the sequential specification is `Op.spec`, and `Explains`
      says that a list of completed calls is a legal sequential history.

  What this model cannot exhibit (covered only by the -race harness): the Go memory model (the model is
  sequentially consistent; "race" = two conflicting accesses in progress at the same time), the internals
  of sync.Map / sync.WaitGroup / sync.Mutex (assumed atomic and correct), scheduler fairness (a worker that
  is never scheduled, a closer that never returns or panics).
  Core Lean only.
-/
import Ioc.FactTypes
import Ioc.Generated.Facts

namespace Ioc.Conc

def upd {β : Type} (f : Nat → β) (k : Nat) (v : β) : Nat → β := fun x => if x = k then v else f x

/-! ## 1. reading a skeleton -/

def isCall (n : String) : Sk → Bool
  | .call m => m == n
  | _ => false

def isDefer (n : String) : Sk → Bool
  | .deferCall m => m == n
  | _ => false

/-- split a statement list at its first loop: (before, loop body, after) -/
def splitAtLoop : List Sk → Option (List Sk × List Sk × List Sk)
  | [] => none
  | .loop b :: r => some ([], b, r)
  | s :: r =>
    match splitAtLoop r with
    | some (a, b, c) => some (s :: a, b, c)
    | none => none

mutual
/-- every call (also deferred ones) of a skeleton, in source order, through all nesting -/
def skCalls : Sk → List String
  | .call n => [n]
  | .deferCall n => [n]
  | .write _ => []
  | .loop b => skCallsL b
  | .spawn b => skCallsL b
  | .branch b => skCallsL b
def skCallsL : List Sk → List String
  | [] => []
  | s :: r => skCalls s ++ skCallsL r
end

mutual
/-- does the skeleton assign to a captured variable at all? -/
def skWrites : Sk → Bool
  | .write _ => true
  | .loop b => skWritesL b
  | .spawn b => skWritesL b
  | .branch b => skWritesL b
  | _ => false
def skWritesL : List Sk → Bool
  | [] => false
  | s :: r => skWrites s || skWritesL r
end

mutual
/-- every assignment to the captured variable `v` lies between a `Lock` and the following `Unlock` -/
def skGuarded (v : String) (held : Bool) : Sk → Bool
  | .write x => x != v || held
  | .loop b => skGuardedL v held b
  | .spawn b => skGuardedL v held b
  | .branch b => skGuardedL v held b
  | _ => true
def skGuardedL (v : String) (held : Bool) : List Sk → Bool
  | [] => true
  | s :: r =>
    if isCall "Lock" s then skGuardedL v true r
    else if isCall "Unlock" s then skGuardedL v false r
    else skGuarded v held s && skGuardedL v held r
end

def countCalls (n : String) (l : List Sk) : Nat := ((skCallsL l).filter (· == n)).length

/-- the loop body: `go func(){ w }()` (true, w) or statements main executes itself (false, body) -/
def workerOf : List Sk → Bool × List Sk
  | [.spawn w] => (true, w)
  | b => (false, b)

def headIsDeferDone : List Sk → Bool
  | s :: _ => isDefer "Done" s
  | [] => false

/-- shape of App.Close (app/app.go:156-174) -/
structure CloseShape where
  addBeforeSpawn : Bool         -- `wg.Add(len(closers))` in main, before the loop
  spawnInLoop : Bool            -- the loop body is exactly one `go func(){…}()`; false = main calls the closers itself
  doneDeferredInWorker : Bool   -- the goroutine starts with `defer wg.Done()`
  waitAfterLoop : Bool          -- `wg.Wait()` directly after the loop
  callsOnce : Bool              -- the worker calls `Close` exactly once
  workerWritesShared : Bool     -- the goroutine assigns to a variable captured from Close (none expected)
deriving DecidableEq, Repr

/-- the statement list that contains the fan-out: the body of the leading `if len(..) != 0 {` when there is one -/
def fanBody (sk : List Sk) : List Sk :=
  match splitAtLoop sk with
  | some _ => sk
  | none =>
    match sk with
    | .branch b :: _ => b
    | _ => sk

def closeShape (sk : List Sk) : CloseShape :=
  match splitAtLoop (fanBody sk) with
  | none => ⟨false, false, false, false, false, false⟩
  | some (pre, lb, post) =>
    let w := workerOf lb
    { addBeforeSpawn := pre.any (isCall "Add(len)")
      spawnInLoop := w.1
      doneDeferredInWorker := w.1 && headIsDeferDone w.2
      waitAfterLoop := (match post with | s :: _ => isCall "Wait" s | [] => false)
      callsOnce := countCalls "Close" w.2 == 1
      workerWritesShared := skWritesL w.2 }

/-- shape of applyDefinitionRegistryPostProcessors (post_processor_registration_delegate.go:66-95) -/
structure ScanShape where
  addBeforeSpawn : Bool
  spawnInLoop : Bool
  doneDeferredInWorker : Bool
  waitBeforeRead : Bool         -- `wg.Wait()` directly after the inner loop, before `if errs != nil`
  errsGuarded : Bool            -- every `errs = append(errs, …)` is between Lock and Unlock
  scansOnce : Bool              -- the worker calls PostProcessDefinitionRegistry exactly once
deriving DecidableEq, Repr

def scanShape (sk : List Sk) : ScanShape :=
  let body := match sk with
    | .loop b :: _ => b          -- `for _, processor := range …` : one round per processor
    | l => l
  match splitAtLoop body with
  | none => ⟨false, false, false, false, false, false⟩
  | some (pre, lb, post) =>
    let w := workerOf lb
    { addBeforeSpawn := pre.any (isCall "Add(len)")
      spawnInLoop := w.1
      doneDeferredInWorker := w.1 && headIsDeferDone w.2
      waitBeforeRead := (match post with | s :: _ => isCall "Wait" s | [] => false)
      errsGuarded := skGuardedL "errs" false w.2
      scansOnce := countCalls "PostProcessDefinitionRegistry" w.2 == 1 }

def expectedCloseShape : CloseShape := ⟨true, true, true, true, true, false⟩
def expectedScanShape : ScanShape := ⟨true, true, true, true, true, true⟩

/-! ## 2. the fork/join transition system -/

/-- which guards exist where; every field comes from a shape computed from the regenerated skeleton -/
structure FanCfg where
  addFirst : Bool       -- Add(n) before the loop (false: each goroutine does Add(1) when it starts)
  spawn : Bool          -- a goroutine per item (false: main runs the items one after the other)
  doneDeferred : Bool   -- Done when the worker function returns (false: Done in the goroutine's prologue, before the call)
  wait : Bool           -- Wait() before main continues (false: main continues at any counter value)
  crit : Bool           -- a worker whose call failed accesses a variable shared by all workers and main
  guarded : Bool        -- that access is inside Lock/Unlock
deriving DecidableEq, Repr

def CloseShape.cfg (sh : CloseShape) : FanCfg :=
  ⟨sh.addBeforeSpawn, sh.spawnInLoop, sh.doneDeferredInWorker, sh.waitAfterLoop, sh.workerWritesShared, false⟩

def ScanShape.cfg (sh : ScanShape) : FanCfg :=
  ⟨sh.addBeforeSpawn, sh.spawnInLoop, sh.doneDeferredInWorker, sh.waitBeforeRead, true, sh.errsGuarded⟩

/-- program counter of worker i -/
inductive WPc
  | idle        -- not spawned
  | ready       -- `go` executed, goroutine not yet scheduled
  | started     -- prologue done (defer Done registered)
  | calling     -- inside m.Close() / processor.PostProcessDefinitionRegistry(…)
  | called      -- the call returned (with or without error)
  | locked      -- holds errsLock
  | inAcc       -- read-modify-write of the shared variable in progress (`errs = append(errs, …)`)
  | accDone     -- access complete
  | post        -- about to run the deferred Done
  | finished
deriving DecidableEq, Repr

structure St where
  mainPc : Nat            -- 0 before Add, 1 in the loop, 2 at Wait, 3 past Wait (Close: returned; scan: reads errs)
  spawned : Nat           -- loop index
  wg : Int                -- WaitGroup counter
  mu : Option Nat         -- mutex: none = free, some i = held (i: ghost owner)
  wpc : Nat → WPc
  calls : Nat → Nat       -- how often worker i's call was begun
  acc : Nat               -- completed accesses to the shared variable

def init : St := ⟨0, 0, 0, none, fun _ => .idle, fun _ => 0, 0⟩

/-- effect of a worker step on the WaitGroup counter, by target pc -/
def wgDelta (cfg : FanCfg) : WPc → Int
  | .started => (if cfg.addFirst then 0 else 1) - (if cfg.doneDeferred then 0 else 1)
  | .finished => if cfg.doneDeferred then -1 else 0
  | _ => 0

/-- One atomic step of worker i. It reads and writes its own pc and the mutex, nothing else:
    no step of a worker waits on a sibling, except `lock` on the mutex. -/
inductive WStep (cfg : FanCfg) (fail : Bool) (i : Nat) : WPc → Option Nat → WPc → Option Nat → Prop
  | start (mu) : WStep cfg fail i .ready mu .started mu
  | callBegin (mu) : WStep cfg fail i .started mu .calling mu
  | callEnd (mu) : WStep cfg fail i .calling mu .called mu
  | skip (mu) (h : fail = false ∨ cfg.crit = false) : WStep cfg fail i .called mu .post mu
  | lock (hf : fail = true) (hc : cfg.crit = true) (hg : cfg.guarded = true) : WStep cfg fail i .called none .locked (some i)
  | accBeginG (mu) : WStep cfg fail i .locked mu .inAcc mu
  | accBeginU (mu) (hf : fail = true) (hc : cfg.crit = true) (hg : cfg.guarded = false) : WStep cfg fail i .called mu .inAcc mu
  | accEnd (mu) : WStep cfg fail i .inAcc mu .accDone mu
  | unlock (mu) (hg : cfg.guarded = true) : WStep cfg fail i .accDone mu .post none
  | leave (mu) (hg : cfg.guarded = false) : WStep cfg fail i .accDone mu .post mu
  | done (mu) : WStep cfg fail i .post mu .finished mu

/-- one atomic step of some thread; `fails i` = worker i's call returns an error -/
inductive Step (cfg : FanCfg) (n : Nat) (fails : Nat → Bool) : St → St → Prop
  | add (s) (h : s.mainPc = 0) :
      Step cfg n fails s { s with mainPc := 1, wg := s.wg + (if cfg.addFirst then (n : Int) else 0) }
  | spawn (s) (h : s.mainPc = 1) (hk : s.spawned < n)
      (hseq : cfg.spawn = false → ∀ j, j < s.spawned → s.wpc j = .finished) :
      Step cfg n fails s { s with spawned := s.spawned + 1, wpc := upd s.wpc s.spawned .ready }
  | spawned (s) (h : s.mainPc = 1) (hk : s.spawned = n) : Step cfg n fails s { s with mainPc := 2 }
  | wait (s) (h : s.mainPc = 2) (hw : cfg.wait = true → s.wg = 0) : Step cfg n fails s { s with mainPc := 3 }
  | worker (s) (i) (q) (mu') (h : WStep cfg (fails i) i (s.wpc i) s.mu q mu') :
      Step cfg n fails s
        { s with wpc := upd s.wpc i q, mu := mu', wg := s.wg + wgDelta cfg q,
                 calls := upd s.calls i (s.calls i + (if q = .calling then 1 else 0)),
                 acc := s.acc + (if q = .accDone then 1 else 0) }

inductive Steps (cfg : FanCfg) (n : Nat) (fails : Nat → Bool) : St → St → Prop
  | refl (s) : Steps cfg n fails s s
  | tail (s t u) : Steps cfg n fails s t → Step cfg n fails t u → Steps cfg n fails s u

/-- reachable under some schedule -/
def Reach (cfg : FanCfg) (n : Nat) (fails : Nat → Bool) (s : St) : Prop := Steps cfg n fails init s

theorem Steps.trans {cfg n fails} {a b c : St} (h1 : Steps cfg n fails a b) (h2 : Steps cfg n fails b c) :
    Steps cfg n fails a c := by
  induction h2 with
  | refl => exact h1
  | tail t u _ hs ih => exact Steps.tail _ t u ih hs

def mainReturned (s : St) : Prop := s.mainPc = 3     -- Close
def mainReadsErrs (s : St) : Prop := s.mainPc = 3    -- scan: `if errs != nil` after Wait
def inErrs (s : St) (i : Nat) : Prop := s.wpc i = .inAcc

/-! ### executable scheduler (used by the driver; `fire_sound`: every run of it is a run of `Step`) -/

inductive Act | main | w (i : Nat)
deriving Repr

def wnext (cfg : FanCfg) (fail : Bool) (i : Nat) (p : WPc) (mu : Option Nat) : Option (WPc × Option Nat) :=
  match p with
  | .ready => some (.started, mu)
  | .started => some (.calling, mu)
  | .calling => some (.called, mu)
  | .called =>
    if fail && cfg.crit then
      (if cfg.guarded then (match mu with | none => some (.locked, some i) | some _ => none) else some (.inAcc, mu))
    else some (.post, mu)
  | .locked => some (.inAcc, mu)
  | .inAcc => some (.accDone, mu)
  | .accDone => if cfg.guarded then some (.post, none) else some (.post, mu)
  | .post => some (.finished, mu)
  | _ => none

def fire (cfg : FanCfg) (n : Nat) (fails : Nat → Bool) (s : St) : Act → Option St
  | .main =>
    if s.mainPc = 0 then some { s with mainPc := 1, wg := s.wg + (if cfg.addFirst then (n : Int) else 0) }
    else if s.mainPc = 1 then
      (if s.spawned < n then
        (if cfg.spawn = false → ∀ j, j < s.spawned → s.wpc j = .finished then
          some { s with spawned := s.spawned + 1, wpc := upd s.wpc s.spawned .ready } else none)
       else if s.spawned = n then some { s with mainPc := 2 } else none)
    else if s.mainPc = 2 then (if cfg.wait = true → s.wg = 0 then some { s with mainPc := 3 } else none)
    else none
  | .w i =>
    match wnext cfg (fails i) i (s.wpc i) s.mu with
    | none => none
    | some (q, mu') =>
      some { s with wpc := upd s.wpc i q, mu := mu', wg := s.wg + wgDelta cfg q,
                    calls := upd s.calls i (s.calls i + (if q = .calling then 1 else 0)),
                    acc := s.acc + (if q = .accDone then 1 else 0) }

/-- pseudo-random scheduler: from `seed`, repeatedly fire the first enabled action at/after a random offset among
    main, w 0 … w (n-1); stop as soon as main is past the Wait (the moment Close returns / errs is read). -/
def schedule (cfg : FanCfg) (n : Nat) (fails : Nat → Bool) : Nat → Nat → St → St
  | 0, _, s => s
  | fuel + 1, seed, s =>
    if s.mainPc = 3 then s else
    let seed' := (seed * 1103515245 + 12345) % 2147483648
    let acts := (List.range (n + 1)).map fun j =>
      let a := (j + seed' / 65536) % (n + 1)
      if a = n then Act.main else Act.w a
    match acts.findSome? (fire cfg n fails s) with
    | some s' => schedule cfg n fails fuel seed' s'
    | none => s

/-! ## 2b. scenario `closew`: closers that wait for each other

    The closers of this scenario are slow in a particular way: closer i (unless `fast i`) returns from its call only when
    every one of the n closers has been entered. That is behaviour of the CLOSERS (the environment), so it restricts which
    of the system's steps the environment lets happen (`fireW` disables `callEnd` of a waiting closer), never what App.Close
    does. A system that holds some closer back until another has returned gets stuck under this environment. -/

/-- every one of the n closers has been entered -/
def allEntered (n : Nat) (s : St) : Bool := (List.range n).all fun i => decide (1 ≤ s.calls i)

def fireW (cfg : FanCfg) (n : Nat) (fails fast : Nat → Bool) (s : St) : Act → Option St
  | .main => fire cfg n fails s .main
  | .w i =>
    if s.wpc i = .calling ∧ fast i = false ∧ allEntered n s = false then none
    else fire cfg n fails s (.w i)

/-- `schedule` under the environment of `closew` -/
def scheduleW (cfg : FanCfg) (n : Nat) (fails fast : Nat → Bool) : Nat → Nat → St → St
  | 0, _, s => s
  | fuel + 1, seed, s =>
    if s.mainPc = 3 then s else
    let seed' := (seed * 1103515245 + 12345) % 2147483648
    let acts := (List.range (n + 1)).map fun j =>
      let a := (j + seed' / 65536) % (n + 1)
      if a = n then Act.main else Act.w a
    match acts.findSome? (fireW cfg n fails fast s) with
    | some s' => scheduleW cfg n fails fast fuel seed' s'
    | none => s

/-! ## 3. sync2.Map and ConcurrentSets: primitives, methods, histories -/

abbrev MapSt := Nat → Option Nat     -- contents of the underlying sync.Map (keys, values: Nat)

def emptyMap : MapSt := fun _ => none

/-- a method call (sync2.Map: load … range; ConcurrentSets: put, exists_, remove — value struct{}{} = 0) -/
inductive Op
  | load (k : Nat)
  | store (k v : Nat)
  | loadOrStore (k v : Nat)
  | loadOrStoreFn (k v : Nat)          -- v = what the value function returns
  | delete (k : Nat)
  | range (ks : List Nat)              -- ks = the order in which this Range visits the key universe
  | put (k : Nat)
  | exists_ (k : Nat)
  | remove (k : Nat)
deriving DecidableEq, Repr

inductive Res
  | unit
  | got (v : Option Nat) (loaded : Bool)
  | seen (l : List (Nat × Nat))
deriving DecidableEq, Repr

def Op.key : Op → Nat
  | .load k | .store k _ | .loadOrStore k _ | .loadOrStoreFn k _ | .delete k | .put k | .exists_ k | .remove k => k
  | .range _ => 0

def Op.val : Op → Nat
  | .store _ v | .loadOrStore _ v | .loadOrStoreFn _ v => v
  | _ => 0

def snapshot (m : MapSt) (ks : List Nat) : List (Nat × Nat) :=
  ks.flatMap fun k => match m k with | some v => [(k, v)] | none => []

/-- the sequential specification: what the method does when nothing else runs -/
def Op.spec : Op → MapSt → MapSt × Res
  | .load k, m => (m, .got (m k) (m k).isSome)
  | .store k v, m => (upd m k (some v), .unit)
  | .loadOrStore k v, m =>
    match m k with
    | some w => (m, .got (some w) true)
    | none => (upd m k (some v), .got (some v) false)
  | .loadOrStoreFn k v, m =>
    match m k with
    | some w => (m, .got (some w) true)
    | none => (upd m k (some v), .got (some v) false)
  | .delete k, m => (upd m k none, .unit)
  | .range ks, m => (m, .seen (snapshot m ks))
  | .put k, m => (upd m k (some 0), .unit)
  | .exists_ k, m => (m, .got none (m k).isSome)
  | .remove k, m => (upd m k none, .unit)

/-- sync.Map primitives (each assumed atomic) and the call of the value function -/
inductive Instr
  | pLoad | pStore | pLoadOrStore | pDelete
  | pRange                   -- sync.Map.Range: one atomic visit per key, other threads may run between visits
  | callF
  | other (name : String)    -- anything the model has no meaning for
deriving DecidableEq, Repr

def instrOfName (n : String) : Instr :=
  if n == "m.Load" || n == "cm.Load" then .pLoad
  else if n == "m.Store" || n == "cm.Store" then .pStore
  else if n == "m.LoadOrStore" || n == "cm.LoadOrStore" then .pLoadOrStore
  else if n == "m.Delete" || n == "cm.Delete" then .pDelete
  else if n == "m.Range" || n == "cm.Range" then .pRange
  else if n == "param.f" then .callF
  else .other n

def selfTarget (n : String) : Option String :=
  if n == "self.Load" then some "Load" else if n == "self.Store" then some "Store"
  else if n == "self.LoadOrStore" then some "LoadOrStore" else if n == "self.Delete" then some "Delete"
  else if n == "self.Put" then some "Put" else if n == "self.Exists" then some "Exists"
  else if n == "self.Remove" then some "Remove" else none

def directProg (sk : List Sk) : List Instr :=
  ((skCallsL sk).filter (· != "return")).map instrOfName

/-- the primitive sequence of a method: its calls in source order; a call of an own method is inlined once -/
def progOfSk (table : List (String × List Sk)) (sk : List Sk) : List Instr :=
  ((skCallsL sk).filter (· != "return")).flatMap fun n =>
    match selfTarget n with
    | some t => (match table.lookup t with | some sk' => directProg sk' | none => [.other n])
    | none => [instrOfName n]

def methodProg (table : List (String × List Sk)) (name : String) : List Instr :=
  match table.lookup name with
  | some sk => progOfSk table sk
  | none => [.other name]

/-- the programs read from the REGENERATED facts -/
def factProgs : Op → List Instr
  | .load _ => methodProg Facts.sync2Methods "Load"
  | .store _ _ => methodProg Facts.sync2Methods "Store"
  | .loadOrStore _ _ => methodProg Facts.sync2Methods "LoadOrStore"
  | .loadOrStoreFn _ _ => methodProg Facts.sync2Methods "LoadOrStoreFn"
  | .delete _ => methodProg Facts.sync2Methods "Delete"
  | .range _ => methodProg Facts.sync2Methods "Range"
  | .put _ => methodProg Facts.concurrentSetMethods "Put"
  | .exists_ _ => methodProg Facts.concurrentSetMethods "Exists"
  | .remove _ => methodProg Facts.concurrentSetMethods "Remove"

def expectedProgs : Op → List Instr
  | .load _ => [.pLoad]
  | .store _ _ => [.pStore]
  | .loadOrStore _ _ => [.pLoadOrStore]
  | .loadOrStoreFn _ _ => [.pLoad, .callF, .pLoadOrStore]
  | .delete _ => [.pDelete]
  | .range _ => [.pRange]
  | .put _ => [.pStore]
  | .exists_ _ => [.pLoad]
  | .remove _ => [.pDelete]

/-- the pre-repair LoadOrStoreFn: Load, f, Store -/
def oldProgs : Op → List Instr
  | .loadOrStoreFn _ _ => [.pLoad, .callF, .pStore]
  | op => expectedProgs op

/-- a call in progress -/
structure CallSt where
  op : Op
  pc : Nat
  seen : List (Nat × Nat)     -- Range: pairs passed to the callback so far
  todo : List Nat             -- Range: keys not yet visited
  res : Option Res            -- some = returned
deriving DecidableEq, Repr

def invoke (op : Op) : CallSt :=
  ⟨op, 0, [], (match op with | .range ks => ks | _ => []), none⟩

def CallSt.ret (c : CallSt) (r : Res) : CallSt := { c with res := some r }
def CallSt.next (c : CallSt) : CallSt := { c with pc := c.pc + 1 }

/-- one primitive step of a call on the shared map -/
def exec1 (ins : Instr) (m : MapSt) (c : CallSt) : MapSt × CallSt :=
  match ins with
  | .pLoad =>
    match c.op with
    | .loadOrStoreFn k _ =>
      (match m k with
       | some w => (m, c.ret (.got (some w) true))     -- `if v, loaded := m.Load(key); loaded { return v, true }`
       | none => (m, c.next))
    | .exists_ k => (m, c.ret (.got none (m k).isSome))
    | op => (m, c.ret (.got (m op.key) (m op.key).isSome))
  | .pStore =>
    match c.op with
    | .loadOrStoreFn k v => (upd m k (some v), c.ret (.got (some v) false))   -- pre-repair: `m.Store(key, v); return v, false`
    | op => (upd m op.key (some op.val), c.next)
  | .pLoadOrStore =>
    (match m c.op.key with
     | some w => (m, c.ret (.got (some w) true))
     | none => (upd m c.op.key (some c.op.val), c.ret (.got (some c.op.val) false)))
  | .pDelete => (upd m c.op.key none, c.next)
  | .callF => (m, c.next)
  | .pRange =>
    (match c.todo with
     | [] => (m, c.ret (.seen c.seen))
     | k :: r =>
       let seen' := c.seen ++ (match m k with | some w => [(k, w)] | none => [])
       match r with
       | [] => (m, { c with seen := seen', todo := [], res := some (.seen seen') })
       | _ => (m, { c with seen := seen', todo := r }))
  | .other _ => (m, c.next)

/-- next step of a call; a method whose program is exhausted returns (without a value) -/
def stepCall (progs : Op → List Instr) (m : MapSt) (c : CallSt) : MapSt × CallSt :=
  match (progs c.op)[c.pc]? with
  | none => (m, c.ret .unit)
  | some ins =>
    let r := exec1 ins m c
    if r.2.res.isNone && decide ((progs c.op).length ≤ r.2.pc) then (r.1, r.2.ret .unit) else r

/-- threads with a queue of calls each; `hist` = completed calls, NEWEST FIRST, in the order of their last step -/
structure Sys where
  map : MapSt
  cur : Nat → Option CallSt
  queue : Nat → List Op
  hist : List (Nat × Op × Res)

def Sys.start (m : MapSt) (queue : Nat → List Op) : Sys := ⟨m, fun _ => none, queue, []⟩

/-- thread t takes one step: invoke its next call, or execute the next primitive of its pending call -/
def tstep (progs : Op → List Instr) (s : Sys) (t : Nat) : Sys :=
  match s.cur t with
  | none =>
    (match s.queue t with
     | [] => s
     | op :: r => { s with cur := upd s.cur t (some (invoke op)), queue := upd s.queue t r })
  | some c =>
    let r := stepCall progs s.map c
    match r.2.res with
    | some res => { s with map := r.1, cur := upd s.cur t none, hist := (t, c.op, res) :: s.hist }
    | none => { s with map := r.1, cur := upd s.cur t (some r.2) }

/-- a schedule is a list of thread ids -/
def run (progs : Op → List Instr) (s : Sys) (sched : List Nat) : Sys := sched.foldl (tstep progs) s

/-- the shared map at every point of a run -/
def mapsAlong (progs : Op → List Instr) (s : Sys) : List Nat → List MapSt
  | [] => [s.map]
  | t :: r => s.map :: mapsAlong progs (tstep progs s t) r

/-- `h` (newest first) is a legal SEQUENTIAL history from `m0` that ends in `m`: every result is the specification's -/
def Explains (m0 : MapSt) : List (Nat × Op × Res) → MapSt → Prop
  | [], m => m = m0
  | (_, op, r) :: older, m => ∃ m1, Explains m0 older m1 ∧ op.spec m1 = (m, r)

/-- a call that returned `loaded = false` -/
def isWin : Nat × Op × Res → Bool
  | (_, _, .got _ false) => true
  | _ => false

/-! ### a decidable linearizability check for recorded histories (harness cross-check, counterexamples) -/

/-- a completed call with its invocation and response times -/
structure Rec where
  op : Op
  res : Res
  inv : Nat
  ret : Nat
deriving DecidableEq, Repr

def eraseIdx' {α : Type} : List α → Nat → List α
  | [], _ => []
  | _ :: r, 0 => r
  | a :: r, i + 1 => a :: eraseIdx' r i

/-- depth-first search for a linearization: pick any pending call that no other pending call precedes in real time
    (`o.ret < c.inv`), whose recorded result is the specification's on the current map -/
def linSearch : Nat → MapSt → List Rec → Bool
  | 0, _, pending => pending.isEmpty
  | fuel + 1, m, pending =>
    pending.isEmpty ||
    (List.range pending.length).any fun i =>
      match pending[i]? with
      | none => false
      | some c =>
        pending.all (fun o => !(decide (o.ret < c.inv))) &&
        (let r := c.op.spec m
         r.2 == c.res && linSearch fuel r.1 (eraseIdx' pending i))

def linearizableB (m0 : MapSt) (h : List Rec) : Bool := linSearch h.length m0 h

/-! ### `Length()` of the set utilities in recorded histories, and quiescent reads after concurrent removals -/

/-- a call of a recorded history: one of the modelled methods, or `Length()` of ConcurrentSets / GenericConcurrentSets
    (util/list/concurrent_set.go:69-71, generic_concurrent_set.go:69-71: `len(r.ToArray())`, ToArray = one `cm.Range`
    collecting the keys) over the key universe `ks` of the history (distinct keys; every key the history uses is in it).
    Only its sequential specification is modelled. -/
inductive HOp
  | op (o : Op)
  | length (ks : List Nat)
deriving DecidableEq, Repr

/-- the sequential specification: `Length` = the number of keys present; the set is left as it is -/
def HOp.spec : HOp → MapSt → MapSt × Res
  | .op o, m => o.spec m
  | .length ks, m => (m, .got (some (snapshot m ks).length) false)

/-- a completed call (possibly a `Length`) with its invocation and response times -/
structure HRec where
  op : HOp
  res : Res
  inv : Nat
  ret : Nat
deriving DecidableEq, Repr

def Rec.lift (r : Rec) : HRec := ⟨.op r.op, r.res, r.inv, r.ret⟩

/-- `linSearch` over histories that may contain `Length` calls (same search, `HOp.spec`) -/
def linSearchH : Nat → MapSt → List HRec → Bool
  | 0, _, pending => pending.isEmpty
  | fuel + 1, m, pending =>
    pending.isEmpty ||
    (List.range pending.length).any fun i =>
      match pending[i]? with
      | none => false
      | some c =>
        pending.all (fun o => !(decide (o.ret < c.inv))) &&
        (let r := c.op.spec m
         r.2 == c.res && linSearchH fuel r.1 (eraseIdx' pending i))

def linearizableHB (m0 : MapSt) (h : List HRec) : Bool := linSearchH h.length m0 h

/-- what a SEQUENTIAL execution of the call queues leaves (thread 0's calls, then thread 1's, …) -/
def seqFinal (m0 : MapSt) (queues : List (List Op)) : MapSt :=
  queues.flatten.foldl (fun m op => (op.spec m).1) m0

/-- the keys of `ks` present in `m`, in the order of `ks` -/
def presentKeys (m : MapSt) (ks : List Nat) : List Nat := ks.filter fun k => (m k).isSome

/-- the quiescent observation after the queues have run: (Length(), len(ToArray()), the keys for which Exists answers true) -/
def quiescentObs (m0 : MapSt) (queues : List (List Op)) (ks : List Nat) : Nat × Nat × List Nat :=
  let m := seqFinal m0 queues
  ((snapshot m ks).length, (snapshot m ks).length, presentKeys m ks)

/-- the keys a list of set calls removes / puts -/
def removedKeys (ops : List Op) : List Nat := ops.filterMap fun | .remove k => some k | _ => none
def putKeys (ops : List Op) : List Nat := ops.filterMap fun | .put k => some k | _ => none


/-! ## 4. concurrent starts of different Apps: the option loop of App.Run (app/app.go:65-68, app/global_option.go)

      func (s *App) Run(ops ...SettingOption) error {
          for _, op := range append(ops, globalOptions...) { op(s) }

    `ops` is the callee's own variadic slice (one backing array per call, cap = len), `globalOptions` a package-level slice
    shared by every App of the process (filled by `app.Settings`, whose `append`s may leave cap > len). Slices are
    (array, len, cap) over a heap of backing arrays; `append(a, b...)` writes in place when the capacity of its FIRST
    argument suffices, otherwise it copies into a fresh array. One atomic step per `append` and one per loop iteration;
    any number of Apps run these steps interleaved. What is not modelled: the growth policy (a fresh array gets exactly
    the capacity needed; nothing below depends on it), torn writes inside one `append`. -/

/-- a setting option, as far as the runners are concerned: `comps j` = the SetComponents(…) option built by the caller that
    starts App j (it registers App j's runners and components with whichever App it is APPLIED to); `other` = any other -/
inductive SOpt
  | other
  | comps (owner : Nat)
deriving DecidableEq, Repr

structure Slice where
  arr : Nat
  len : Nat
  cap : Nat
deriving DecidableEq, Repr

abbrev Heap := Nat → Nat → SOpt      -- backing array → index → element

def readSlice (h : Heap) (s : Slice) : List SOpt := (List.range s.len).map (h s.arr)

def writeAt (h : Heap) (arr off : Nat) (l : List SOpt) : Heap :=
  fun a k => if a = arr ∧ off ≤ k ∧ k < off + l.length then l.getD (k - off) .other else h a k

/-- Go's `append(a, b...)`: (heap, next unused array, resulting slice) -/
def goAppend (h : Heap) (next : Nat) (a b : Slice) : Heap × Nat × Slice :=
  if a.len + b.len ≤ a.cap then
    (writeAt h a.arr a.len (readSlice h b), next, ⟨a.arr, a.len + b.len, a.cap⟩)
  else
    (writeAt (writeAt h next 0 (readSlice h a)) next a.len (readSlice h b), next + 1, ⟨next, a.len + b.len, a.len + b.len⟩)

structure StartSt where
  heap : Heap
  next : Nat                    -- next unused backing array
  sl : Nat → Option Slice       -- App i's `append(…)` result, once computed
  pos : Nat → Nat               -- App i's loop index
  applied : Nat → List SOpt     -- the options applied to App i so far, in order

/-- the process: `globalsFirst = false` is the code that exists (`append(ops, globalOptions...)`) -/
structure StartCfg where
  globalsFirst : Bool
  g : Slice                     -- globalOptions
  ops : Nat → Slice             -- App i's variadic slice
  napps : Nat

def startInit (h0 : Heap) (next0 : Nat) : StartSt := ⟨h0, next0, fun _ => none, fun _ => 0, fun _ => []⟩

/-- App i evaluates `append(…)` -/
def buildSt (c : StartCfg) (s : StartSt) (i : Nat) : StartSt :=
  let r := if c.globalsFirst then goAppend s.heap s.next c.g (c.ops i) else goAppend s.heap s.next (c.ops i) c.g
  { s with heap := r.1, next := r.2.1, sl := upd s.sl i (some r.2.2) }

/-- App i runs one iteration of its loop: reads the element and applies it to itself -/
def applySt (s : StartSt) (i : Nat) (sl : Slice) : StartSt :=
  { s with pos := upd s.pos i (s.pos i + 1), applied := upd s.applied i (s.applied i ++ [s.heap sl.arr (s.pos i)]) }

inductive StartStep (c : StartCfg) : StartSt → StartSt → Prop
  | build (s : StartSt) (i : Nat) (hi : i < c.napps) (h : s.sl i = none) : StartStep c s (buildSt c s i)
  | apply (s : StartSt) (i : Nat) (sl : Slice) (hi : i < c.napps) (h : s.sl i = some sl) (hp : s.pos i < sl.len) :
      StartStep c s (applySt s i sl)

inductive StartSteps (c : StartCfg) : StartSt → StartSt → Prop
  | refl (s) : StartSteps c s s
  | tail (s t u) : StartSteps c s t → StartStep c t u → StartSteps c s u

/-- App i has left its option loop -/
def startDone (s : StartSt) (i : Nat) : Prop := ∃ sl, s.sl i = some sl ∧ s.pos i = sl.len

/-! executable: the schedule a rendezvous inside a global option produces — every App evaluates its `append`, then (all
    of them lined up) every App runs its loop -/

def applyAll (s : StartSt) (i : Nat) : Nat → StartSt
  | 0 => s
  | fuel + 1 =>
    match s.sl i with
    | some sl => if s.pos i < sl.len then applyAll (applySt s i sl) i fuel else s
    | none => s

def startRendezvous (c : StartCfg) (s0 : StartSt) : StartSt :=
  let built := (List.range c.napps).foldl (fun s i => if s.sl i = none then buildSt c s i else s) s0
  (List.range c.napps).foldl (fun s i => applyAll s i ((s.sl i).map (·.len) |>.getD 0)) built

/-- the standard layout of a process: globalOptions in array 0 (`glen` options, none of them a SetComponents, capacity
    `gcap`), App i's variadic slice in array i+1: `[comps i, other, …]` with `nops` elements, cap = len -/
def stdHeap : Heap := fun a k => if a = 0 then .other else if k = 0 then .comps (a - 1) else .other

def stdCfg (globalsFirst : Bool) (glen gcap nops napps : Nat) : StartCfg :=
  ⟨globalsFirst, ⟨0, glen, gcap⟩, fun i => ⟨i + 1, nops, nops⟩, napps⟩

/-- how often the runners that were registered with App j's SetComponents option are invoked in one round of concurrent
    starts: once by every App that applied that option (Ioc.App: every registered runner is invoked once per start) -/
def runsOf (c : StartCfg) (s : StartSt) (j : Nat) : Nat :=
  ((List.range c.napps).filter fun i => (s.applied i).contains (.comps j)).length

/-- … and how many of those invocations happen in the start of an App other than j -/
def foreignOf (c : StartCfg) (s : StartSt) (j : Nat) : Nat :=
  ((List.range c.napps).filter fun i => i != j && (s.applied i).contains (.comps j)).length

/-! ## 5. fifth round: what the user's logger holds when Close returns; load-or-store of a definition

    (a) `closel`: a failing closer's goroutine reports the error (`if err := m.Close(); err != nil { … s.logger().Errorf(…) }`,
        app/app.go:163-166) between the return of its call (`called`) and the deferred `wg.Done()` (`post` → `finished`); in
        the fork/join system that block is the step `called → post` (App.Close has no shared variable: `crit = false`), so
        the report of worker i is complete exactly when its pc is `post` or `finished`.
    (b) `gmor` / `gscan`: DefinitionRegistry.GetMetaOrRegister (container/support/component_definition_registry.go:43-50)
        is ONE `metaMaps.LoadOrStoreFn(name, build)` on a sync2.Map; g callers of one name are g calls `loadOrStoreFn k v_t`
        of the map model of section 3 (v_t = the definition caller t would build). -/

/-- completed error reports of failing closers among the first n workers -/
def reported (n : Nat) (fails : Nat → Bool) (s : St) : Nat :=
  ((List.range n).filter fun i => fails i && (decide (s.wpc i = .post) || decide (s.wpc i = .finished))).length

/-- failing closers among the first n -/
def failing (n : Nat) (fails : Nat → Bool) : Nat := ((List.range n).filter fails).length

/-- g callers, caller t builds definition 10+t; the name is key 1 -/
def gmorQueues (g : Nat) : Nat → List Op := fun t => if t < g then [Op.loadOrStoreFn 1 (10 + t)] else []

/-- the schedule a barrier produces: everybody invokes, everybody passes the Load (a miss), everybody builds its own
    definition, then the LoadOrStores one after the other -/
def gmorSched (g : Nat) : List Nat := List.range g ++ List.range g ++ List.range g ++ List.range g

/-- the values handed out by completed calls -/
def gotVals (h : List (Nat × Op × Res)) : List Nat :=
  h.filterMap fun e => match e.2.2 with | .got (some v) _ => some v | _ => none

/-- (distinct definitions handed out, entries of the name in the registry, every caller holds the one the registry keeps) -/
def gmorObs (g : Nat) : Nat × Nat × Bool :=
  let s := run factProgs (Sys.start emptyMap (gmorQueues g)) (gmorSched g)
  let vals := gotVals s.hist
  (vals.eraseDups.length, (if (s.map 1).isSome then 1 else 0),
   vals.length == g && vals.all fun v => s.map 1 == some v)

/-! ## 6. sixth round: names that differ only in letter case; the closing phase under the built-in logger

    (a) `closec`: which registered components get a definition. The scan gives every registered component its definition
        through `DefinitionRegistry.GetMetaOrRegister(name, component)` — ONE `metaMaps.LoadOrStoreFn(name, build)`
        (container/support/component_definition_registry.go:43-50): the map is keyed by the component name ITSELF, like the
        singleton registry that accepted the component (singleton_registry.go:52-60 rejects an EQUAL name only). A component
        whose key is already taken is handed the definition that is there and never gets one of its own: it is not created
        through a definition, not offered to `App.CloserComponents`, not closed. `definedNames key names` = the registered
        names (in any processing order: the scans run in parallel) that get a definition of their own when the map is
        keyed by `key name`. The code's key is the name itself; names that differ only in letter case are different keys.
    (b) `closeb`: a failing closer's goroutine reports through `syslog.Pref("Application")` — one logger object shared by
        all goroutines of Close. The built-in logger (syslog/logger.go:118-142) builds the line in locals of the call and
        hands it to a `log.Logger`, whose output is serialised by its own mutex: the report is the step `called → post` of
        section 5, with no variable shared between the goroutines (`crit = false`), and it is complete exactly when the
        worker is past that step (`reported`). -/

/-- names that get a definition of their own; `seen` = the keys already taken (α: names, κ: keys of the registry's map) -/
def definedFrom {α κ : Type} [DecidableEq κ] (key : α → κ) : List κ → List α → List α
  | _, [] => []
  | seen, x :: xs => if key x ∈ seen then definedFrom key seen xs else x :: definedFrom key (key x :: seen) xs

def definedNames {α κ : Type} [DecidableEq κ] (key : α → κ) (names : List α) : List α :=
  definedFrom key [] names

/-- a key that forgets the letter case (what the code does NOT use); names as character lists -/
def foldCase (s : List Char) : List Char := s.map Char.toLower

def caseSpellings : List String := ["orders", "Orders", "ORDERS", "oRDERS"]

/-- the component names of a `closec` scenario: n ordinary closers and, for group j with c members, c spellings of one
    word (the harness's words differ per kind; what matters is: equal up to letter case, pairwise different) -/
def caseNames (n : Nat) (counts : List Nat) : List String :=
  (List.range n).map (fun i => "vc" ++ toString i) ++
  ((List.range counts.length).zip counts).flatMap fun jc => (caseSpellings.take jc.2).map fun w => toString jc.1 ++ "/" ++ w

/-! ## 7. seventh round: a history of Apps with their own loggers and ONE `syslog.Pref` prefix; Range against Delete

    (a) `plog`: `syslog.Pref(p)` (syslog/log.go:57-62) is ONE `prefCache.LoadOrStoreFn(p, func() Logger { return _logger.Pref(p) })`
        on a package-level sync2.Map — a cache that lives as long as the process. g callers of one prefix while the root
        logger is `root` are g calls `loadOrStoreFn 1 root` of the map model of section 3 (the prefix is key 1; a logger is
        identified by the root it was derived from — App i installs root i through app.SetLogger → syslog.SetLogger, which
        assigns `_logger` and nothing else). `Pref` looks at `_logger` only inside the value function, i.e. only when the
        prefix is not cached yet: the logger derived by the FIRST App that used the prefix is what every later App is handed,
        whatever root it installed (`plogObs`; proved for every number of callers and schedule: C20_pref_cached_logger_kept).
    (b) what refreshing the shared cache entry IN PLACE would do (`RPc`, `refreshStep`): an entry {root, logger}; a caller
        that finds `entry.root ≠ root` writes `entry.root := root`, then `entry.logger := derive root`, and returns
        `entry.logger`. Two callers of one phase are handed two different loggers on some schedule
        (C20_pref_refresh_in_place_counterexample).
    (c) `rdel`: Range (one atomic visit per key, section 3) against a thread that stores and deletes a third key. -/

/-- g callers of syslog.Pref(prefix) while the root logger is `root` -/
def prefQueues (g root : Nat) : Nat → List Op := fun t => if t < g then [Op.loadOrStoreFn 1 root] else []

def insertAsc (x : Nat) : List Nat → List Nat
  | [] => [x]
  | y :: r => if x < y then x :: y :: r else if x = y then y :: r else y :: insertAsc x r

/-- ascending, without duplicates -/
def sortDedup (l : List Nat) : List Nat := l.foldr insertAsc []

/-- one parallel phase (all callers past the Load before the first LoadOrStore, as after a barrier): the cache before →
    (the cache after, the roots of the loggers handed out) -/
def prefPhase (cache : MapSt) (g root : Nat) : MapSt × List Nat :=
  let s := run factProgs (Sys.start cache (prefQueues g root)) (gmorSched g)
  (s.map, sortDedup (gotVals s.hist))

def showTo (l : List Nat) : String := if l.isEmpty then "none" else "+".intercalate (l.map toString)

/-- `plog apps n nc first flags`: Apps 1..apps one after the other, App i under root logger i; from App `first` on the scan
    phase (flags bit 0: n + nc callers) and the closing phase (flags bit 1: nc callers) ask for the prefix logger.
    Result: per App, the loggers that received the lines of its scan / of its Close (`-` = nothing written). -/
def plogObs (apps n nc first flags : Nat) : List String × List String :=
  let scanLogs := flags % 2 == 1
  let closeLogs := flags / 2 % 2 == 1 && decide (0 < nc)
  let step := fun (acc : MapSt × List String × List String) (i : Nat) =>
    let on := decide (first ≤ i)
    let r1 := if on && scanLogs then (let r := prefPhase acc.1 (n + nc) i; (r.1, showTo r.2)) else (acc.1, "-")
    let r2 := if on && closeLogs then (let r := prefPhase r1.1 nc i; (r.1, showTo r.2)) else (r1.1, "-")
    (r2.1, acc.2.1 ++ [r1.2], acc.2.2 ++ [r2.2])
  let r := ((List.range apps).map (· + 1)).foldl step (emptyMap, [], [])
  r.2

/-- (b) in-place refresh of a shared cache entry: program counter of one caller -/
inductive RPc
  | start | stale | wroteRoot | done (logger : Nat)
deriving DecidableEq, Repr

structure PrefEntry where
  root : Nat
  logger : Nat
deriving DecidableEq, Repr

/-- one step of a caller that read the current root `root`:
    `if p.root != root { p.root = root; p.logger = root.Pref(pref) }; return p.logger` -/
def refreshStep (root : Nat) (e : PrefEntry) : RPc → PrefEntry × RPc
  | .start => if e.root != root then (e, .stale) else (e, .done e.logger)
  | .stale => ({ e with root := root }, .wroteRoot)
  | .wroteRoot => ({ e with logger := root }, .done root)
  | .done l => (e, .done l)

def refreshRun (root : Nat) : List Nat → PrefEntry × (Nat → RPc) → PrefEntry × (Nat → RPc)
  | [], s => s
  | t :: r, s => let x := refreshStep root s.1 (s.2 t); refreshRun root r (x.1, upd s.2 t x.2)

/-- (c) thread 0 stores and deletes key 3 `rounds` times (values 10, 11, …), threads 1..g enumerate twice each -/
def rdelQueues (g rounds : Nat) : Nat → List Op := fun t =>
  if t = 0 then (List.range rounds).flatMap fun r => [Op.store 3 (10 + r), Op.delete 3]
  else if t ≤ g then [Op.range [1, 2, 3], Op.range [3, 1, 2]] else []

/-- round robin over the g+1 threads, long enough for every queue to drain -/
def rdelSched (g rounds : Nat) : List Nat := (List.range (4 * rounds + 12)).flatMap fun _ => List.range (g + 1)

def rdelStored (rounds : Nat) (kv : Nat × Nat) : Bool :=
  ((kv.1 == 1 || kv.1 == 2) && kv.2 == 1) || (kv.1 == 3 && decide (10 ≤ kv.2) && decide (kv.2 < 10 + rounds))

/-- (Ranges that reported a pair nobody stored, Ranges that reported a key twice, Ranges that missed a permanent key) -/
def rdelObs (g rounds : Nat) : Nat × Nat × Nat :=
  let g := min g 4
  let rounds := min rounds 3
  let m0 : MapSt := fun k => if k = 1 ∨ k = 2 then some 1 else none
  let s := run factProgs (Sys.start m0 (rdelQueues g rounds)) (rdelSched g rounds)
  let seens := s.hist.filterMap fun e => match e.2.2 with | .seen l => some l | _ => none
  ((seens.filter fun l => !(l.all (rdelStored rounds))).length,
   (seens.filter fun l => (l.map (·.1)).eraseDups.length != l.length).length,
   (seens.filter fun l => !((l.map (·.1)).contains 1 && (l.map (·.1)).contains 2)).length + (2 * g - seens.length))

/-! ## 8. eighth round: which registered closers reach the App that is closed

    (a) `closep`: a start through the package-level entry points (run.go). `ioc.Register(cs…)` (run.go:18-20) appends ONE
        option `SetComponents(cs…)` to the package-level slice `registerHandlers`; `ioc.Run(ops…)` (run.go:22-31) makes a new
        App and runs `append(ops, registerHandlers...)`: the options of the call FIRST, what was registered through
        `ioc.Register` AFTER them. `App.Run` applies the options in that order (app/app.go:65-68). Of the App only the
        registry field matters here: `SetRegistry(r)` (app/options.go:20-24) replaces it — `r` is a fresh, empty
        `support.NewRegistry()` in the scenarios —, `SetComponents(cs…)` (26-32) registers into the registry the App holds AT
        THAT MOMENT. What is in the registry after the last option is what the start creates, what `App.CloserComponents`
        collects and what `Close` closes. Components are numbers; the registry is the list of components registered in it.
    (b) `closek`: every registered component gets its definition in the tag scanners
        (container/processors/default_tag_scan_definition_registry_post_processor.go:17-18): the FIRST statement of the scan
        of a component is `registry.GetMetaOrRegister(componentName, component)`, for every component, whatever its Go
        kind; a component without definition is never created, never collected as a closer, never closed. `scanDefined guard`
        = the components that get a definition when the scanner reaches that statement only for kinds satisfying `guard`;
        the code has no guard (`fun _ => true`). -/

inductive ROpt
  | setRegistry                        -- app.SetRegistry(support.NewRegistry())
  | setComponents (ids : List Nat)     -- app.SetComponents(cs…)
  deriving DecidableEq, Repr

/-- one option applied to the App's registry (app/options.go:20-32) -/
def applyOpt (reg : List Nat) : ROpt → List Nat
  | .setRegistry => []
  | .setComponents ids => reg ++ ids

/-- the option loop of App.Run (app/app.go:65-68) on a new App (empty default registry) -/
def applyOpts (ops : List ROpt) : List Nat := ops.foldl applyOpt []

/-- ioc.Register (run.go:18-20) -/
def iocRegister (handlers : List ROpt) (ids : List Nat) : List ROpt := handlers ++ [.setComponents ids]

/-- the option list ioc.Run hands to App.Run (run.go:27): `append(ops, registerHandlers...)` -/
def iocRunOptions (ops handlers : List ROpt) : List ROpt := ops ++ handlers

/-- the registry of the App `ioc.Run(ops…)` returns -/
def iocRunRegistry (ops handlers : List ROpt) : List Nat := applyOpts (iocRunOptions ops handlers)

def ROpt.isComponents : ROpt → Bool
  | .setComponents _ => true
  | .setRegistry => false

def ROpt.ids : ROpt → List Nat
  | .setComponents ids => ids
  | .setRegistry => []

/-- the Go kinds of the registered components of `closek` (pointer to struct; pointer to a named integer / slice / string /
    map; a named channel) -/
inductive CKind
  | struct | int | slice | chan | text | map
  deriving DecidableEq, Repr

/-- the components that get a definition when the tag scan reaches `GetMetaOrRegister` for the kinds satisfying `guard` -/
def scanDefined {α : Type} (guard : CKind → Bool) (comps : List (α × CKind)) : List α :=
  (comps.filter fun c => guard c.2).map (·.1)

/-- the guard of the code: none -/
def codeScanGuard : CKind → Bool := fun _ => true

/-- "tags live on struct fields only": the guard the code does NOT have -/
def structOnlyGuard : CKind → Bool := fun k => k == .struct

/-! ## 9. ninth round: who else takes part in the start of an App that is closed; the factory driven directly

    (a) `closeq`: user post-processors. `ResolveAfterInstantiation`
        (container/factory/post_processor_registration_delegate.go:213-231) walks over ALL component post-processors of the
        factory, in their sorted order; for a processor that is an InstantiationAwareComponentPostProcessor it asks
        `PostProcessAfterInstantiation` and applies that processor's `PostProcessProperties` iff the answer is true — then it
        GOES ON with the next processor, whatever the answer was. `App.CloserComponents` is filled from the candidates the
        built-in dependency processor (`dependencyAwarePostProcessors.PostProcessProperties`, id 0 here) finds while the App
        component is populated. `resolveAfter ps` = the processors whose `PostProcessProperties` is applied to a component.
    (b) `closeh`: other components with an injection point of the closer interface type. The dependency processor gives every
        injection point candidates of its OWN: `dm := Registry.GetMetas(option)` builds a new slice per call
        (component_definition_registry.go:27-35) and `prop.Injects = append(prop.Injects, dm...)`
        (dependency_aware_post_processors.go:55-56); `fas.Filter` (util/fas/operation.go:56-64) collects into
        `make([]T, 0, len(x))`, a new backing array. So what a holder keeps of its candidates (qualifier, the single-valued
        choice) never touches what the App is offered: the enumeration of ALL registered closers. `compactFrom` is the OTHER
        filter — `result := x[:0]`, writing into the array it reads — and `sharedCandidates` what the App would be offered
        from ONE candidate array per type that every holder before it compacts.
    (c) `fdirect`: `factory.Default()` (container/factory/factory.go:25-33) builds the definition registry and stores it in
        the field BEFORE the factory is handed out; `GetDefinitionRegistry()` (87-89) is one read of that field. The parallel
        scan evaluates the getter in every goroutine (post_processor_registration_delegate.go:76): g reads of a field that
        nobody writes — the calls `load k` of the map model of section 3 on a state in which `k` is present. Every goroutine
        then stores the definition of its component in the registry it was handed (`scanStores`). A getter that CREATES the
        registry when the field is nil is the check-then-act `[Load, f, Store]` (`oldProgs`) on that field. -/

/-- a component post-processor as the loop of ResolveAfterInstantiation sees it -/
structure IProc where
  id : Nat
  aware : Bool         -- it is an InstantiationAwareComponentPostProcessor
  populate : Bool      -- what its PostProcessAfterInstantiation answers
  deriving DecidableEq, Repr

/-- the processors whose PostProcessProperties is applied, in order: the loop of the code -/
def resolveAfter : List IProc → List Nat
  | [] => []
  | p :: rest => if p.aware && p.populate then p.id :: resolveAfter rest else resolveAfter rest

/-- the loop that ENDS at the first processor that answers false (the loop the code does NOT have) -/
def resolveAfterBreak : List IProc → List Nat
  | [] => []
  | p :: rest =>
    if !p.aware then resolveAfterBreak rest
    else if p.populate then p.id :: resolveAfterBreak rest
    else []

/-- the built-in dependency processor: Ordered 2, answers true -/
def depProc : IProc := ⟨0, true, true⟩

/-- the App is offered its closers iff the dependency processor's PostProcessProperties is applied to it -/
def collectsClosers (applied : List Nat) : Bool := applied.contains 0

/-- the in-place filter `result := x[:0]; for _, i := range x { if f(i) { result = append(result, i) } }` on the backing
    array `arr`: element i is READ from the array as it is when the loop gets there, the w-th accepted element is WRITTEN to
    slot w. Returns the array afterwards (fuel = len(x)). -/
def compactFrom (f : Nat → Bool) : Nat → List Nat → Nat → Nat → List Nat
  | 0, arr, _, _ => arr
  | fuel + 1, arr, w, i =>
    match arr[i]? with
    | none => arr
    | some x => if f x then compactFrom f fuel (arr.set w x) (w + 1) (i + 1) else compactFrom f fuel arr w (i + 1)

def filterInPlace (f : Nat → Bool) (arr : List Nat) : List Nat := compactFrom f arr.length arr 0 0

/-- what the App is offered when every injection point has candidates of its own (the code): the enumeration of the
    registered closers, whatever the holders populated before it kept of THEIR candidates -/
def ownCandidates (enum : List Nat) (_holders : List (Nat → Bool)) : List Nat := enum

/-- what the App would be offered from ONE candidate array per type, read with its original length, after every holder
    before it has filtered that array in place -/
def sharedCandidates (enum : List Nat) (holders : List (Nat → Bool)) : List Nat :=
  holders.foldl (fun arr f => filterInPlace f arr) enum

/-- the scanning goroutines of a start: goroutine a stores the definition of component `a.2` in the registry `a.1` it was
    handed; `regs r` = the names defined in registry r -/
def scanStores (regs : Nat → List Nat) (acts : List (Nat × Nat)) : Nat → List Nat :=
  acts.foldl (fun rs a => upd rs a.1 (a.2 :: rs a.1)) regs

/-- the registry field of the factory is key 1; `Default()` stored registry 7 there -/
def fieldAfterDefault : MapSt := fun k => if k = 1 then some 7 else none

def getterQueues (g : Nat) : Nat → List Op := fun t => if t < g then [Op.load 1] else []

/-- (registry handed to goroutine t, t) for the completed getter calls of a run -/
def handedOf (h : List (Nat × Op × Res)) : List (Nat × Nat) :=
  h.filterMap fun e => match e.2.2 with | .got (some r) _ => some (r, e.1) | _ => none

/-- `fdirect`: g goroutines evaluate the getter (all of them invoke, then all of them read), then store their definitions:
    (components without a definition in the registry the factory keeps, goroutines handed another registry than that one) -/
def fdirectObs (g : Nat) : Nat × Nat :=
  let s := run factProgs (Sys.start fieldAfterDefault (getterQueues g)) (List.range g ++ List.range g ++ List.range g)
  let handed := handedOf s.hist
  let kept := (s.map 1).getD 0
  let regs := scanStores (fun _ => []) handed
  (((List.range g).filter fun t => !(regs kept).contains t).length, (handed.filter fun a => a.1 != kept).length)

end Ioc.Conc
