/-
  Ioc.SemDelegate — interpretation of the primitives called by the REGENERATED programs of
  container/factory/post_processor_registration_delegate.go that walk `componentPostProcessors` outside the
  initialization path: ResolveAfterInstantiation (M4 `resolveAfterInstantiation` / `twoStepLoop`), GetEarlyBeanReference
  (M4 `getEarlyBeanReference` / `earlyRefLoop`) and InvokeBeanFactoryPostProcessors (M4 `invokeRegister` / `registerLoop`).
  Processors are `.ref p 0`, component versions `.ref c 50` (as in Ioc.SemInit).
-/
import Ioc.GoSem
import Ioc.Order
import Ioc.SemInit
import Ioc.Generated.Progs
namespace Ioc.Sem
open Ioc Ioc.Go Ioc.Order

/-! ### ResolveAfterInstantiation -/

/-- `errOk p`: the boolean a failing PostProcessAfterInstantiation returns next to its error (must not matter) -/
def raiFn (procs : List Nat) (isInst : Nat → Bool) (res : Nat → Step) (errOk : Nat → Bool) :
    String → List Val → List (Ev Nat) → Option (Val × List (Ev Nat))
  | "$self.componentPostProcessors", [], w => some (.list (procs.map encP), w)
  | "assert2:container.InstantiationAwareComponentPostProcessor", [.ref p 0], w => some (.tuple [.ref p 1, .bool (isInst p)], w)
  | ".Raw", [_], w => some (.str "raw", w)
  | ".GetAllProperties", [_], w => some (.list [], w)
  | ".PostProcessAfterInstantiation", [.ref p 1, _, _], w =>
      some (match res p with
            | .err => .tuple [.bool (errOk p), errN]
            | .skip => .tuple [.bool false, .nil]
            | .next _ => .tuple [.bool true, .nil], w ++ [.first p])
  | ".PostProcessProperties", [.ref p 1, _, _, _], w =>
      some (match res p with
            | .next true => .tuple [.nil, errN]
            | _ => .tuple [.list [], .nil], w ++ [.second p])
  | "errors.Wrapf", _, w => some (errN, w)
  | _, _, _ => none

def raiPrims (procs : List Nat) (isInst : Nat → Bool) (res : Nat → Step) (errOk : Nat → Bool) : Prims (List (Ev Nat)) :=
  { fn := raiFn procs isInst res errOk }

/-! ### GetEarlyBeanReference -/

def dgebFn (procs : List Nat) (hasInst : Bool) (isSmart : Nat → Bool) (get : Nat → Nat → Option Nat) :
    String → List Val → List Nat → Option (Val × List Nat)
  | "$self.componentPostProcessors", [], w => some (.list (procs.map encP), w)
  | "$self.hasInstantiationAwareComponentPostProcessor", [], w => some (.bool hasInst, w)
  | "assert2:container.SmartInstantiationAwareBeanPostProcessor", [.ref p 0], w => some (.tuple [.ref p 2, .bool (isSmart p)], w)
  | ".GetEarlyBeanReference", [.ref p 2, .ref c 50, _], w =>
      some (match get p c with
            | none => .tuple [.nil, errN]
            | some c' => .tuple [encC c', .nil], w ++ [p])
  | "errors.Wrapf", _, w => some (errN, w)
  | _, _, _ => none

def dgebPrims (procs : List Nat) (hasInst : Bool) (isSmart : Nat → Bool) (get : Nat → Nat → Option Nat) : Prims (List Nat) :=
  { fn := dgebFn procs hasInst isSmart get }

/-! ### InvokeBeanFactoryPostProcessors -/

structure RegW where
  fcalls : List Nat := []      -- PostProcessComponentFactory calls
  defReg : Bool := false       -- applyDefinitionRegistryPostProcessors ran
  raw : Val := .nil            -- self.rawComponentPostProcessors
  cpp : List Val := []         -- self.componentPostProcessors
  gets : List Nat := []        -- factory.GetComponentByName calls (by processor)

/-- `fpFails p`: PostProcessComponentFactory of p fails; `drFails`: applyDefinitionRegistryPostProcessors fails; `sorted`: what
    SortOrderedComponents returns for the raw list; `lazy p`: p is LazyInit; `getc p`: the instance GetComponentByName returns
    for p's name (`none` = error); `isCPP q`: that instance is a ComponentPostProcessor -/
def regFn (fpFails : Nat → Bool) (drFails : Bool) (sorted : List Nat) (lazy : Nat → Bool) (getc : Nat → Option Nat)
    (isCPP : Nat → Bool) : String → List Val → RegW → Option (Val × RegW)
  | ".PostProcessComponentFactory", [.ref p 0, _], w => some (if fpFails p then errN else .nil, { w with fcalls := w.fcalls ++ [p] })
  | "errors.Wrapf", _, w => some (errN, w)
  | "self.applyDefinitionRegistryPostProcessors", [_], w => some (if drFails then errN else .nil, { w with defReg := true })
  | "$self", [], w => some (.ref 0 9, w)
  | "$self.rawComponentPostProcessors", [], w => some (w.raw, w)
  | "$self.componentPostProcessors", [], w => some (.list w.cpp, w)
  | "framework_helper.SortOrderedComponents", [_], w => some (.list (sorted.map encP), w)
  | ".set:rawComponentPostProcessors", [.ref 0 9, v], w => some (.tuple [], { w with raw := v })
  | ".set:componentPostProcessors", [.ref 0 9, .list vs], w => some (.tuple [], { w with cpp := vs })
  | "assert2:definition.LazyInit", [.ref p 0], w => some (.tuple [.ref p 3, .bool (lazy p)], w)
  | "framework_helper.GetComponentName", [.ref p 0], w => some (.int p, w)
  | ".GetComponentByName", [_, .int p], w =>
      some (match getc p.toNat with
            | none => .tuple [.nil, errN]
            | some q => .tuple [.ref q 4, .nil], { w with gets := w.gets ++ [p.toNat] })
  | "assert2:container.ComponentPostProcessor", [.ref q 4], w => some (.tuple [.ref q 0, .bool (isCPP q)], w)
  | "append", [.list vs, v], w => some (.list (vs ++ [v]), w)
  | _, _, _ => none

def regPrims' (fpFails : Nat → Bool) (drFails : Bool) (sorted : List Nat) (lazy : Nat → Bool) (getc : Nat → Option Nat)
    (isCPP : Nat → Bool) : Prims RegW := { fn := regFn fpFails drFails sorted lazy getc isCPP }

/-- the `resolve` of `Order.registerLoop` that the code computes -/
def resolveOf (lazy : Nat → Bool) (getc : Nat → Option Nat) (isCPP : Nat → Bool) (p : Nat) : Option Nat :=
  if lazy p then some p else
    match getc p with
    | none => none
    | some q => some (if isCPP q then q else p)

end Ioc.Sem
