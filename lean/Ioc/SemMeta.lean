/-
  Ioc.SemMeta — interpretation of the primitives called by the REGENERATED small functions of the definition object and of
  the naming helper:
    util/framework_helper/component.go   GetComponentNameWithAlias, GetComponentName
    component_definition/meta.go         Name, SetName, IsAlias, dependOn, GetDependents, SetProperties, GetComponentProperties
  The receiver's state is the world `MW`; other definitions are `.ref d 0`, property nodes `.ref i 20`.
-/
import Ioc.GoSem
import Ioc.Generated.Progs
namespace Ioc.Sem
open Ioc Ioc.Go

structure MW where
  name : String                       -- the type-derived id
  alias : String := ""                -- the custom name ("" = none)
  dependent : List Nat := []          -- m.Dependent, in order
  depSet : List String := []          -- the IDs m.dependentSet holds
  comp : List Nat := []               -- m.propertyGroup[PropertyTypeComponent], in order
  conf : List Nat := []               -- m.propertyGroup[PropertyTypeConfiguration], in order
deriving Inhabited

def encStrs : List String → Val
  | [] => .nil
  | l => .list (l.map Val.str)

def encProps (l : List Nat) : Val := if l.isEmpty then .nil else .list (l.map (fun i => Val.ref i 20))

def decProps : List Val → List Nat
  | [] => []
  | .ref i 20 :: rest => i :: decProps rest
  | _ :: rest => decProps rest

theorem decProps_map (l : List Nat) : decProps (l.map (fun i => Val.ref i 20)) = l := by
  induction l with
  | nil => rfl
  | cons x rest ih => simp [decProps, ih]

def decDeps : List Val → List Nat
  | [] => []
  | .ref d 0 :: rest => d :: decDeps rest
  | _ :: rest => decDeps rest

theorem decDeps_map (l : List Nat) : decDeps (l.map (fun d => Val.ref d 0)) = l := by
  induction l with
  | nil => rfl
  | cons x rest ih => simp [decDeps, ih]

/-- `idOf d` / `nameOf d` = ID() / Name() of another definition; `isComp i` = property i has PropertyTypeComponent -/
def metaFn (idOf nameOf : Nat → String) (isComp : Nat → Bool) : String → List Val → MW → Option (Val × MW)
  | "$self.name", [], w => some (.str w.name, w)
  | "$self.alias", [], w => some (.str w.alias, w)
  | "$self", [], w => some (.ref 0 9, w)
  | "self.IsAlias", [], w => some (.bool (w.alias != ""), w)
  | ".set:alias", [.ref 0 9, .str n], w => some (.tuple [], { w with alias := n })
  | ".ID", [.ref d 0], w => some (.str (idOf d), w)
  | ".Name", [.ref d 0], w => some (.str (nameOf d), w)
  | "struct{}{}", [], w => some (.tuple [], w)
  | "self.dependentSet.LoadOrStore", [.str k, _], w =>
      some (.tuple [.tuple [], .bool (w.depSet.contains k)], if w.depSet.contains k then w else { w with depSet := w.depSet ++ [k] })
  | "$self.Dependent", [], w => some (if w.dependent.isEmpty then .nil else .list (w.dependent.map (fun d => Val.ref d 0)), w)
  | ".set:Dependent", [.ref 0 9, .list l], w =>
      some (.tuple [], { w with dependent := decDeps l })
  | "append", [.nil, v], w => some (.list [v], w)
  | "append", [.list l, v], w => some (.list (l ++ [v]), w)
  | "$self.propertyGroup", [], w => some (.ref 0 8, w)
  | ".PropertyType", [.ref i 20], w => some (.str (if isComp i then "Component" else "Configuration"), w)
  | ".getidx", [.ref 0 8, .str "Component"], w => some (encProps w.comp, w)
  | ".getidx", [.ref 0 8, .str "Configuration"], w => some (encProps w.conf, w)
  | ".setidx", [.ref 0 8, .str "Component", .list l], w => some (.tuple [], { w with comp := decProps l })
  | ".setidx", [.ref 0 8, .str "Configuration", .list l], w => some (.tuple [], { w with conf := decProps l })
  | "$PropertyTypeComponent", [], w => some (.str "Component", w)
  | "self.GetProperties", [.str "Component"], w => some (encProps w.comp, w)
  | "self.GetProperties", [.str "Configuration"], w => some (encProps w.conf, w)
  | _, _, _ => none

def metaPrims (idOf nameOf : Nat → String) (isComp : Nat → Bool) : Prims MW := { fn := metaFn idOf nameOf isComp }

/-! the naming helper -/

/-- `t` is the component itself (`.ref i 50`), a reflect.Value of it (`.ref i 10`) or its reflect.Type (`.ref i 11`: the helper
    then asks a FRESH zero instance, `.ref i 52`, for its name) -/
def nameFn (tyName : Nat → String) (naming namingZero : Nat → Option String) : String → List Val → Unit → Option (Val × Unit)
  | "assert2:reflect.Value", [.ref i 10], w => some (.tuple [.ref i 10, .bool true], w)
  | "assert2:reflect.Value", [.ref _ _], w => some (.tuple [.nil, .bool false], w)
  | "assert1:reflect.Value", [.ref i 10], w => some (.ref i 10, w)
  | "assert2:reflect.Type", [.ref i 11], w => some (.tuple [.ref i 11, .bool true], w)
  | "assert2:reflect.Type", [.ref _ _], w => some (.tuple [.nil, .bool false], w)
  | "assert1:reflect.Type", [.ref i 11], w => some (.ref i 11, w)
  | ".Interface", [.ref i 10], w => some (.ref i 50, w)
  | "reflect.New", [.ref i 11], w => some (.ref i 12, w)
  | ".Interface", [.ref i 12], w => some (.ref i 52, w)
  | "reflectx.Id", [.ref i _], w => some (.str (tyName i), w)
  | "assert2:definition.NamingComponent", [.ref i 50], w => some (.tuple [.ref i 50, .bool (naming i).isSome], w)
  | "assert2:definition.NamingComponent", [.ref i 52], w => some (.tuple [.ref i 52, .bool (namingZero i).isSome], w)
  | ".Naming", [.ref i 50], w => some (.str ((naming i).getD ""), w)
  | ".Naming", [.ref i 52], w => some (.str ((namingZero i).getD ""), w)
  | _, _, _ => none

def namePrims (tyName : Nat → String) (naming namingZero : Nat → Option String) : Prims Unit := { fn := nameFn tyName naming namingZero }

/-- GetComponentName over a primitive that answers GetComponentNameWithAlias -/
def name2Prims (n a : String) : Prims Unit :=
  { fn := fun f args w => match f, args with
      | "GetComponentNameWithAlias", [_] => some (.tuple [.str n, .str a], w)
      | _, _ => none }

end Ioc.Sem
