/-
  Ioc.FactTypes — the vocabulary of `Ioc/Generated/Facts.lean`, the file that the go/ast
  translator (harness/cmd/facts) regenerates from /repo's source on every run.
-/
namespace Ioc

/-- one built-in post-processor type: (type name, embeds PriorityComponent, embeds LazyInitComponent, value of Order()) -/
structure ProcFact where
  name : String
  priority : Bool
  lazy : Bool
  order : Int
deriving DecidableEq, Repr

/-- synchronisation skeleton of a function body: the calls that matter, with nesting -/
inductive Sk
  | call (name : String)            -- wg.Add, wg.Wait, mu.Lock, mu.Unlock, x.Close, …
  | deferCall (name : String)
  | write (var : String)            -- assignment to a variable captured from the enclosing function, inside a goroutine
  | loop (body : List Sk)
  | spawn (body : List Sk)          -- go func(){…}()
  | branch (body : List Sk)         -- if …{…}
deriving Repr

end Ioc
