/-
  Ioc.Match — M3: candidate discovery and narrowing for one injection point.
  Mirrors
    container/processors/dependency_aware_post_processors.go:39-66        (wire tag: by type / by name)
    container/processors/dependency_function_aware_post_processors.go:39-68 (func tag)
    container/options.go:34-83                                             (Type, InterfaceType, FuncName, FuncNameAndResult)
    container/processors/dependency_further_matching_processors.go:29-97   (the per-property loop, filterDependencies)
  The population is given in the registry's enumeration order (an INPUT: sync.Map Range order);
  reflection facts (exact type, implements, methods) are inputs computed by the harness with the same reflect calls.
-/
import Ioc.Tag
namespace Ioc
namespace Match
open Ioc.Tag

/-- a method of a provider as seen by the func tag: name, number of parameters, number of results, first result rendered -/
structure Meth where
  name : String
  numIn : Nat
  numOut : Nat
  result : Bytes
deriving Repr, DecidableEq

/-- one registered component as the matching code sees it -/
structure Prov where
  id : Nat                 -- row index (identity of the component)
  name : Bytes             -- Meta.Name()
  ty : Nat                 -- exact (pointer) type id
  impl : Nat               -- bit i set ⇔ the type implements interface i
  custom : Bool            -- Meta.IsAlias()
  primary : Bool           -- implements definition.WirePrimary
  qual : Option Bytes      -- Qualifier() when the type has the method
  meths : List Meth
  inj : Option (Nat × Nat) := none   -- (type id, implements bits) of the object that holders RECEIVE when a post-processor
                                      -- substitutes an object of a different Go type for this component; `none` = same type
deriving Repr

inductive Kind
  | ptr (ty : Nat) | iface (i : Nat) | slicePtr (ty : Nat) | sliceIface (i : Nat) | other
deriving Repr, DecidableEq

def Kind.isSlice : Kind → Bool
  | .slicePtr _ => true | .sliceIface _ => true | _ => false

/-- Property.Type.Kind() is neither Slice nor Array -/
def Kind.isSingle (k : Kind) : Bool := !k.isSlice

/-- isActualKind + container.Type / container.InterfaceType; `none` = the `continue` branch (neither pointer nor interface) -/
def typeOption (k : Kind) : Option (Prov → Bool) :=
  match k with
  | .ptr t => some (fun p => p.ty == t)
  | .slicePtr t => some (fun p => p.ty == t)
  | .iface i => some (fun p => p.impl.testBit i)
  | .sliceIface i => some (fun p => p.impl.testBit i)
  | .other => none

/-- reflect AssignableTo(elemType) for a component value -/
def assignable (k : Kind) (p : Prov) : Bool :=
  match typeOption k with
  | some f => f p
  | none => false

/-- the value check of Property.Inject (`m.Value.Type().AssignableTo(elemType)`, property.go:85-92): it looks at the object
    that was actually obtained from the factory — the substitute's type when a post-processor wrapped the component -/
def injAssignable (k : Kind) (p : Prov) : Bool :=
  match p.inj with
  | none => assignable k p
  | some (t, im) => assignable k { p with ty := t, impl := im }

def findMeth (p : Prov) (fn : Bytes) : Option Meth :=
  p.meths.find? (fun m => ofString m.name == fn)

/-- container.FuncName: the method exists and has no results -/
def funcName (fn : Bytes) (p : Prov) : Bool :=
  match findMeth p fn with
  | some m => m.numOut == 0
  | none => false

/-- container.FuncNameAndResult (after the repair: a method with parameters never matches).
    `results[0].Interface() == ParseAny(result)` is modelled for plain string results/arguments (text equality). -/
def funcNameAndResult (fn res : Bytes) (p : Prov) : Bool :=
  match findMeth p fn with
  | some m =>
    if m.numIn != 0 then false
    else if res == ofString "*" then true
    else if m.numOut < 1 then res == []
    else m.result == res
  | none => false

def kReturns : Bytes := ofString "Returns"

/-- candidates of a `wire` point (dependencyAwarePostProcessors): `none` entries are nil Metas of a by-name miss -/
def candidatesWire (pop : List Prov) (k : Kind) (tagVal : Bytes) : List (Option Nat) :=
  if tagVal.isEmpty then
    match typeOption k with
    | some f => (pop.filter f).map (fun p => some p.id)
    | none => []
  else
    match k with
    | .ptr _ => [(pop.find? (fun p => p.name == tagVal)).map (·.id)]
    | .iface _ => [(pop.find? (fun p => p.name == tagVal)).map (·.id)]
    | _ => []

/-- candidates of a `func` point (dependencyFunctionAwarePostProcessors) -/
def candidatesFunc (pop : List Prov) (k : Kind) (tagVal : Bytes) (args : Args) : List (Option Nat) :=
  match typeOption k with
  | none => []
  | some f =>
    let g : Prov → Bool :=
      match find args kReturns with
      | some rs => fun p => rs.any (fun r => funcNameAndResult tagVal r p)
      | none => funcName tagVal
    (pop.filter (fun p => f p && g p)).map (fun p => some p.id)

/-- the preference loop of filterDependencies :82-93 — first Primary wins, else the LAST component without a custom name, else the head -/
def chooseGo (byId : Nat → Option Prov) : List Nat → Nat → Nat
  | [], cand => cand
  | m :: rest, cand =>
    match byId m with
    | some p => if p.primary then m else if !p.custom then chooseGo byId rest m else chooseGo byId rest cand
    | none => chooseGo byId rest cand

def choose (byId : Nat → Option Prov) : List Nat → Option Nat
  | [] => none
  | m :: rest => some (chooseGo byId (m :: rest) m)

inductive Narrowed
  | ok (cands : List Nat)     -- prop.Injects := these
  | skip                      -- optional point without candidate: prop.Injects := nil, continue
  | fail                      -- required point without candidate: start-up error
deriving Repr, DecidableEq

/-- one iteration of the per-property loop of dependencyFurtherMatching…PostProcessProperties, including filterDependencies -/
def narrow (byId : Nat → Option Prov) (holder : Nat) (k : Kind) (args : Args) (cs : List (Option Nat)) : Narrowed :=
  let required := isRequired args
  let r1 := cs.filterMap id
  if r1.isEmpty then (if required then .fail else .skip)
  else
    let r2 := match find args kQualifier with
      | some _ => r1.filter (fun c => match byId c with
          | some p => (match p.qual with
              | some q => has args kQualifier [q]
              | none => false)
          | none => false)
      | none => r1
    if r2.isEmpty then (if required then .fail else .skip)
    else if r2.length > 1 && k.isSingle then
      let others := r2.filter (· != holder)
      let r3 := if others.isEmpty then r2 else others
      match choose byId r3 with
      | some c => .ok [c]
      | none => .ok r3
    else .ok r2

structure Slot where
  holder : Nat
  kind : Kind
  isFunc : Bool
  tag : Bytes              -- raw tag text
deriving Repr

/-- a resolved injection point as the factory sees it -/
structure RPoint where
  cands : List Nat
  slice : Bool
  required : Bool
  incompat : List Nat       -- candidates whose value is not assignable to the field's (element) type
deriving Repr

/-- everything for one slot: parse the tag (M8), find candidates, narrow. `none` = start-up error at configuration time;
    a parse panic cannot happen (C19_total) and is mapped to `none` as well. -/
def resolveOne (pop : List Prov) (s : Slot) : Option RPoint :=
  let byId : Nat → Option Prov := fun i => pop.find? (fun p => p.id == i)
  match parse? s.tag with
  | none => none
  | some (tagVal, args0) =>
    -- the scanner's `Required` default: property.SetArg(ArgRequired) when the argument is absent (empty item list)
    let args := if has args0 kRequired [] then args0 else setArg args0 kRequired []
    let cs := if s.isFunc then candidatesFunc pop s.kind tagVal args else candidatesWire pop s.kind tagVal
    match narrow byId s.holder s.kind args cs with
    | .fail => none
    | .skip => some { cands := [], slice := s.kind.isSlice, required := isRequired args, incompat := [] }
    | .ok l => some { cands := l, slice := s.kind.isSlice, required := isRequired args,
                      incompat := l.filter (fun c => match byId c with
                        | some p => !injAssignable s.kind p
                        | none => true) }

/-- the per-property LOOP over all component properties of one holder, with its exits (after the repair it has no early `return nil, nil`) -/
def resolveAll (pop : List Prov) : List Slot → Option (List RPoint)
  | [] => some []
  | s :: rest =>
    match resolveOne pop s with
    | none => none
    | some p => (resolveAll pop rest).map (p :: ·)

end Match
end Ioc
