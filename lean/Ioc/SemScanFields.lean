/-
  Ioc.SemScanFields — interpretation of the primitives called by the REGENERATED programs
    component_definition/meta.go            Meta.scanFields       (with its function literal; the recursive call is a primitive)
    util/reflectx/range_struct.go           ForEachFieldV2        (three-clause loop over the fields, a function VALUE as parameter)
  One LEVEL of a struct is a list of `LField` (what reflection answers about each declared field); `own i` is the scanned-field
  record the level contributes for field i, `sub i` what scanning the embedded struct of field i contributes (the recursive
  call).  The world is the list `m.Fields`.
-/
import Ioc.GoSem
import Ioc.Generated.Progs
namespace Ioc.Sem
open Ioc Ioc.Go

/-- what reflection answers about one declared field -/
structure LField where
  anon : Bool        -- field.Anonymous
  tagEmpty : Bool    -- field.Tag == ""
  isStruct : Bool    -- field.Type.Kind() == reflect.Struct (a struct BY VALUE: a pointer has kind Ptr)
  canSet : Bool      -- value.CanSet()
deriving DecidableEq, Repr

def LField.dflt : LField := ⟨false, false, false, false⟩
def lfieldAt (fs : List LField) (i : Nat) : LField := fs.getD i .dflt

/-- meta.go:163: the scanner descends into anonymous, untagged, by-value structs — whether or not the field itself is settable -/
def LField.descends (f : LField) : Bool := f.anon && f.tagEmpty && f.isStruct

/-- what field i contributes to `m.Fields` -/
def fieldScan {α : Type} (f : LField) (own : α) (sub : List α) : List α :=
  if f.descends then sub else if f.canSet then [own] else []

/-- Meta.scanFields on one level: the fields in declaration order -/
def levelScan {α : Type} (fs : List LField) (own : Nat → α) (sub : Nat → List α) : Nat → List Nat → List α
  | _, [] => []
  | k, i :: rest => fieldScan (lfieldAt fs i) (own i) (sub i) ++ levelScan fs own sub k rest

/-- ForEachFieldV2's loop over a function literal (what the primitive does with the literal it is given): every field index
    below n in order, the first error ends it -/
def feLoopK {σ : Type} (k : Handler σ) : List Nat → σ → Option (Val × σ)
  | [], w => some (.nil, w)
  | i :: rest, w =>
    match k [.ref i 60, .ref i 61] w with
    | some (.nil, w') => feLoopK k rest w'
    | some (.tuple [.nil], w') => feLoopK k rest w'
    | some (.str e, w') => some (.str e, w')
    | _ => none

/-- … and over a total callback: `none` = no error -/
def feLoop {σ : Type} (cb : Nat → σ → Option String × σ) (skip : Nat → Bool) : List Nat → σ → Option String × σ
  | [], w => (none, w)
  | i :: rest, w =>
    if skip i then feLoop cb skip rest w
    else match cb i w with
      | (none, w') => feLoop cb skip rest w'
      | (some e, w') => (some e, w')

def scanFn {α : Type} (fs : List LField) (own : Nat → α) (sub : Nat → List α) :
    String → List Val → List α → Option (Val × List α)
  | ".Type", [.str "holder"], w => some (.str "T", w)               -- holder.Type
  | ".Value", [.str "holder"], w => some (.str "V", w)              -- holder.Value
  | ".Type", [.ref i 60], w => some (.ref i 65, w)             -- field.Type
  | ".Anonymous", [.ref i 60], w => some (.bool (lfieldAt fs i).anon, w)
  | ".Tag", [.ref i 60], w => some (.str (if (lfieldAt fs i).tagEmpty then "" else "tagged"), w)
  | ".Kind", [.ref i 65], w => some (.str (if (lfieldAt fs i).isStruct then "struct" else "other"), w)
  | "$reflect.Struct", [], w => some (.str "struct", w)
  | "&Base{Type,Value}", [.ref i 65, .ref _ 61], w => some (.ref i 62, w)
  | "NewEmbedHolder", [.ref i 62, .str "holder"], w => some (.ref i 63, w)
  | "self.scanFields", [.ref i 63], w => some (.tuple [], w ++ sub i)
  | ".CanSet", [.ref i 61], w => some (.bool (lfieldAt fs i).canSet, w)
  | "$self", [], w => some (.ref 0 69, w)
  | "$self.Fields", [], w => some (.ref 0 66, w)
  | "&Field{Base,Holder,StructField}", [.ref i 62, .str "holder", .ref _ 60], w => some (.ref i 67, w)
  | "append", [.ref 0 66, .ref i 67], w => some (.ref i 68, w)
  | ".set:Fields", [.ref 0 69, .ref i 68], w => some (.tuple [], w ++ [own i])
  | _, _, _ => none

section eqs
variable {α : Type} (fs : List LField) (own : Nat → α) (sub : Nat → List α)
theorem scanFn_hType (w : List α) : scanFn fs own sub ".Type" [.str "holder"] w = some (.str "T", w) := rfl
theorem scanFn_hValue (w : List α) : scanFn fs own sub ".Value" [.str "holder"] w = some (.str "V", w) := rfl
theorem scanFn_fType (i : Nat) (w : List α) : scanFn fs own sub ".Type" [.ref i 60] w = some (.ref i 65, w) := rfl
theorem scanFn_Anonymous (i : Nat) (w : List α) : scanFn fs own sub ".Anonymous" [.ref i 60] w = some (.bool (lfieldAt fs i).anon, w) := rfl
theorem scanFn_Tag (i : Nat) (w : List α) : scanFn fs own sub ".Tag" [.ref i 60] w =
    some (.str (if (lfieldAt fs i).tagEmpty then "" else "tagged"), w) := rfl
theorem scanFn_Kind (i : Nat) (w : List α) : scanFn fs own sub ".Kind" [.ref i 65] w =
    some (.str (if (lfieldAt fs i).isStruct then "struct" else "other"), w) := rfl
theorem scanFn_rStruct (w : List α) : scanFn fs own sub "$reflect.Struct" [] w = some (.str "struct", w) := rfl
theorem scanFn_Base (i j : Nat) (w : List α) : scanFn fs own sub "&Base{Type,Value}" [.ref i 65, .ref j 61] w = some (.ref i 62, w) := rfl
theorem scanFn_Embed (i : Nat) (w : List α) : scanFn fs own sub "NewEmbedHolder" [.ref i 62, .str "holder"] w = some (.ref i 63, w) := rfl
theorem scanFn_rec (i : Nat) (w : List α) : scanFn fs own sub "self.scanFields" [.ref i 63] w = some (.tuple [], w ++ sub i) := rfl
theorem scanFn_CanSet (i : Nat) (w : List α) : scanFn fs own sub ".CanSet" [.ref i 61] w = some (.bool (lfieldAt fs i).canSet, w) := rfl
theorem scanFn_self (w : List α) : scanFn fs own sub "$self" [] w = some (.ref 0 69, w) := rfl
theorem scanFn_selfFields (w : List α) : scanFn fs own sub "$self.Fields" [] w = some (.ref 0 66, w) := rfl
theorem scanFn_Field (i j : Nat) (w : List α) :
    scanFn fs own sub "&Field{Base,Holder,StructField}" [.ref i 62, .str "holder", .ref j 60] w = some (.ref i 67, w) := rfl
theorem scanFn_append (i : Nat) (w : List α) : scanFn fs own sub "append" [.ref 0 66, .ref i 67] w = some (.ref i 68, w) := rfl
theorem scanFn_setFields (i : Nat) (w : List α) : scanFn fs own sub ".set:Fields" [.ref 0 69, .ref i 68] w = some (.tuple [], w ++ [own i]) := rfl
end eqs

/-- the level has `n` fields; ForEachFieldV2 is the loop over their indices -/
def scanPrims {α : Type} (fs : List LField) (own : Nat → α) (sub : Nat → List α) : Prims (List α) :=
  { fn := scanFn fs own sub
    hfn := fun f args k w =>
      match f, args with
      | "reflectx.ForEachFieldV2", [.str "T", .str "V", .bool false] => feLoopK k (List.range' 0 fs.length) w
      | _, _ => none }

/-! ### ForEachFieldV2 itself -/

/-- `t` is `"T"` (a struct type with n fields), `"PT"` (a pointer to it, its value `"PV"`) or `"OT"` (any other kind) -/
def feFn {σ : Type} (n : Nat) (pub : Nat → Bool) (cb : Nat → σ → Option String × σ) : String → List Val → σ → Option (Val × σ)
  | "$reflect.Ptr", [], w => some (.str "ptr", w)
  | "$reflect.Struct", [], w => some (.str "struct", w)
  | ".Kind", [.str "T"], w => some (.str "struct", w)
  | ".Kind", [.str "PT"], w => some (.str "ptr", w)
  | ".Kind", [.str "OT"], w => some (.str "other", w)
  | ".Elem", [.str "PT"], w => some (.str "T", w)
  | ".Elem", [.str "PV"], w => some (.str "V", w)             -- v.Elem() of the pointer value
  | ".NumField", [.str "T"], w => some (.int n, w)
  | ".Field", [.str "T", .int i], w => some (.ref i.toNat 60, w)
  | ".Field", [.str "V", .int i], w => some (.ref i.toNat 61, w)
  | "isPublicField", [.ref i 61], w => some (.bool (pub i), w)
  | ".call", [.ref 0 40, .ref i 60, .ref _ 61], w =>
      some (match (cb i w).1 with | none => .nil | some e => .str e, (cb i w).2)
  | _, _, _ => none

def fePrims {σ : Type} (n : Nat) (pub : Nat → Bool) (cb : Nat → σ → Option String × σ) (fuel : Nat) : Prims σ :=
  { fn := feFn n pub cb, fuel := fuel }

end Ioc.Sem
