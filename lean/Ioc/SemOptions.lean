/-
  Ioc.SemOptions — interpretation of the primitives called by the REGENERATED option constructors of package container
  (container/options.go: Or, And, Type, InterfaceType, FuncName, FuncNameAndResult).  A constructor `func F(a…) Option { return
  func(m *Meta) bool { … } }` is translated CURRIED (parameters a… then m): `F(a…)(m)` evaluates exactly the literal's body.
  The definition `m` is `.ref 0 0`; what reflection answers about it is given by `OMeta`.
-/
import Ioc.GoSem
import Ioc.Generated.Progs
namespace Ioc.Sem
open Ioc Ioc.Go

/-- one method of the component's type as reflection shows it -/
structure OMeth where
  name : String
  numIn : Nat
  numOut : Nat
  result : String        -- `results[0].Interface()` of a call without arguments, as text
deriving DecidableEq, Repr

/-- what the option closures ask of a definition -/
structure OMeta where
  ty : Nat                       -- m.Value.Type(), an id
  implements : Nat → Bool        -- m.Value.Type().Implements(<interface id>)
  meths : List OMeth

def OMeta.find (m : OMeta) (fn : String) : Option OMeth := m.meths.find? (fun x => x.name == fn)

/-- container.FuncName: the method exists and has no results -/
def optFuncName (m : OMeta) (fn : String) : Bool :=
  match m.find fn with
  | some x => x.numOut == 0
  | none => false

/-- container.FuncNameAndResult: the method exists, takes no parameters, and `*` / no result and `""` / its first result
    equals the wanted text -/
def optFuncNameAndResult (m : OMeta) (fn res : String) : Bool :=
  match m.find fn with
  | some x =>
    if x.numIn != 0 then false
    else if res == "*" then true
    else if x.numOut < 1 then res == ""
    else x.result == res
  | none => false

def encMethOpt : Option OMeth → Val
  | none => .tuple [.nil, .bool false]
  | some _ => .tuple [.ref 0 91, .bool true]

/-- `ans i` = what option i of an Or / And answers for the definition; `parseOk s` = strconv2.ParseAny(s) succeeds (a plain
    text parses to itself either way) -/
def optFn (m : OMeta) (fnName : String) (ans : Nat → Bool) (parseOk : String → Bool) : String → List Val → Unit → Option (Val × Unit)
  | ".call", [.ref i 95, .ref 0 0], w => some (.bool (ans i), w)
  | ".Value", [.ref 0 0], w => some (.ref 0 92, w)
  | ".Type", [.ref 0 92], w => some (.ref m.ty 93, w)                   -- m.Value.Type()
  | ".Implements", [.ref _ 93, .ref i 94], w => some (.bool (m.implements i), w)
  | ".Type", [.ref 0 0], w => some (.ref 0 96, w)                       -- m.Type
  | ".MethodByName", [.ref 0 96, .str fn], w => some (if fn == fnName then encMethOpt (m.find fn) else .tuple [.nil, .bool false], w)
  | ".Type", [.ref 0 91], w => some (.ref 0 97, w)                      -- mt.Type
  | ".NumOut", [.ref 0 97], w => some (.int ((m.find fnName).map (·.numOut) |>.getD 0), w)
  | ".MethodByName", [.ref 0 92, .str fn], w =>
      some (if fn == fnName && (m.find fn).isSome then .ref 0 98 else .ref 0 99, w)    -- a valid / an invalid reflect.Value
  | ".IsValid", [.ref 0 98], w => some (.bool true, w)
  | ".IsValid", [.ref 0 99], w => some (.bool false, w)
  | ".Type", [.ref 0 98], w => some (.ref 0 89, w)                      -- method.Type()
  | ".NumIn", [.ref 0 89], w => some (.int ((m.find fnName).map (·.numIn) |>.getD 0), w)
  | ".Call", [.ref 0 98, .nil], w =>
      some (.list (List.replicate ((m.find fnName).map (·.numOut) |>.getD 0) (.ref 0 88)), w)
  | ".Interface", [.ref 0 88], w => some (.str ((m.find fnName).map (·.result) |>.getD ""), w)
  | "strconv2.ParseAny", [.str s], w => some (if parseOk s then .tuple [.str s, .nil] else .tuple [.nil, .str "parse error"], w)
  | _, _, _ => none

def optPrims (m : OMeta) (fnName : String) (ans : Nat → Bool) (parseOk : String → Bool) : Prims Unit :=
  { fn := optFn m fnName ans parseOk }

end Ioc.Sem
