/-
  Ioc.Placeholder — M7: `${key}` / `${key:default}` placeholders.
  Mirrors
    util/el/el.go:43-61                        ReplaceAllContent (the loop as written, with the bound
                                               `maxReplaceRounds`, which arrives here as `Facts.replaceBound`)
    util/el/el.go:63-65                        the fixed pattern  \${[^{}]*}
    container/processors/config_quote_aware_post_processors.go:44-101
                                               the closure: SplitN(exp, ":", 2), Configure.Get, presence test,
                                               default via strconv2.ParseAny ∘ FormatAny
    configure/binder/viper.go:37-42            Get("") = AllSettings, otherwise viper.Get
    github.com/spf13/viper@v1.19.0 viper.go:703-800   searchIndexableWithPathPrefixes (maps by key, lists by Atoi index;
                                               a NEGATIVE index is a Go panic: `sourceSlice[index]`)
    github.com/go-kid/strconv2@v0.0.2 any.go   ParseAny / FormatAny  (a lone quote character as default is a Go panic:
                                               `val[1 : len(val)-1]` with len 1)

  Go panics are explicit outcomes (`panic`).  Classes of default text whose re-formatting is not modelled
  (slice / map literals, numbers with more than 15 significant digits) are the explicit outcome `unmodelled`;
  the harness keeps such cases out of the comparison and counts them.
-/
import Ioc.Basic
import Ioc.Tag
import Ioc.Generated.Facts
namespace Ioc
namespace Placeholder

/-! ### the scanner: leftmost match of  "${" [^{}]* "}"  -/

/-- after "${": the body up to the first brace; `}` closes the match, `{` kills it -/
def scanBody : Bytes → Option (Bytes × Bytes)
  | [] => none
  | c :: rest =>
    if c = 125 then some ([], rest)
    else if c = 123 then none
    else match scanBody rest with
      | some (b, a) => some (c :: b, a)
      | none => none

/-- a match starting exactly here: (content, after) -/
def tryHere : Bytes → Option (Bytes × Bytes)
  | a :: b :: body => if a = 36 ∧ b = 123 then scanBody body else none
  | _ => none

/-- regexp.FindString for the pattern `\${[^{}]*}` as (before, content, after); RE2 is leftmost-first, the body
    class excludes both braces, so a start position has at most one match: the one ending at the first brace if
    that brace is `}`.  `$ { }` are ASCII, so the byte scan and the rune scan agree. -/
def findFirst : Bytes → Option (Bytes × Bytes × Bytes)
  | [] => none
  | c :: rest =>
    match tryHere (c :: rest) with
    | some (content, after) => some ([], content, after)
    | none =>
      match findFirst rest with
      | some (pre, content, after) => some (c :: pre, content, after)
      | none => none

/-- the matched text `elr` of a match with this content -/
def matchText (content : Bytes) : Bytes := 36 :: 123 :: (content ++ [125])

def stripPrefix : Bytes → Bytes → Option Bytes
  | [], s => some s
  | _ :: _, [] => none
  | p :: ps, c :: cs => if p = c then stripPrefix ps cs else none

/-- strings.Replace(s, pat, r, 1) for a non-empty `pat`: the first occurrence of the TEXT -/
def replaceFirst (pat r : Bytes) : Bytes → Bytes
  | [] => []
  | c :: rest =>
    match stripPrefix pat (c :: rest) with
    | some after => r ++ after
    | none => c :: replaceFirst pat r rest

def braceFree (s : Bytes) : Bool := s.all (fun c => c != 123 && c != 125)

/-! ### configuration values as viper hands them out -/

inductive CVal where
  | null
  | str (s : Bytes)
  | num (text : Bytes)            -- an int or float64, kept as the text `%v` prints (generator: ints, short decimals)
  | bool (b : Bool)
  | list (xs : List CVal)
  | map (kvs : List (Bytes × CVal))
deriving Repr

abbrev Cfg := List (Bytes × CVal)

/-- encoding/json string escaping (escapeHTML on) for printable ASCII / valid UTF-8 without control characters -/
def jsonEscape : Bytes → Bytes
  | [] => []
  | c :: rest =>
    (if c = 34 then ofString "\\\""
     else if c = 92 then ofString "\\\\"
     else if c = 60 then ofString "\\u003c"
     else if c = 62 then ofString "\\u003e"
     else if c = 38 then ofString "\\u0026"
     else [c]) ++ jsonEscape rest

def jsonString (s : Bytes) : Bytes := 34 :: (jsonEscape s ++ [34])

def intercalateB (sep : Bytes) : List Bytes → Bytes
  | [] => []
  | [x] => x
  | x :: rest => x ++ sep ++ intercalateB sep rest

mutual
  /-- json.Marshal of what viper returns; map keys sorted -/
  def json : CVal → Bytes
    | .null => ofString "null"
    | .str s => jsonString s
    | .num t => t
    | .bool b => if b then ofString "true" else ofString "false"
    | .list xs => 91 :: (intercalateB [44] (jsonList xs) ++ [93])
    | .map kvs => 123 :: (intercalateB [44] ((isort (fun x y => bytesLt x.1 y.1) (jsonPairs kvs)).map (fun kv => kv.1 ++ [58] ++ kv.2)) ++ [125])
  def jsonList : List CVal → List Bytes
    | [] => []
    | x :: xs => json x :: jsonList xs
  /-- (quoted key, rendered value) -/
  def jsonPairs : List (Bytes × CVal) → List (Bytes × Bytes)
    | [] => []
    | (k, v) :: rest => (jsonString k, json v) :: jsonPairs rest
end

/-- strconv2.FormatAny (any.go:46-68) on a non-nil value -/
def format : CVal → Bytes
  | .null => ofString "<nil>"       -- not reachable from the processor (nil is answered with "" before)
  | .str s => s
  | .num t => t
  | .bool b => if b then ofString "true" else ofString "false"
  | v => json v

/-! ### viper.Get -/

def lowerByte (c : UInt8) : UInt8 := if 65 ≤ c ∧ c ≤ 90 then c + 32 else c
def lower (s : Bytes) : Bytes := s.map lowerByte

/-- strings.Split(s, ".") -/
def splitDots : Bytes → List Bytes
  | [] => [[]]
  | c :: rest =>
    match splitDots rest with
    | [] => [[c]]                                   -- unreachable
    | hd :: tl => if c = 46 then [] :: hd :: tl else (c :: hd) :: tl

def isDigit (c : UInt8) : Bool := 48 ≤ c && c ≤ 57

def digitsVal (ds : Bytes) : Nat := ds.foldl (fun n c => 10 * n + (c.toNat - 48)) 0

/-- strconv.Atoi: optional sign, at least one digit, only digits, int64 range -/
def atoi (s : Bytes) : Option Int :=
  let (neg, ds) := match s with
    | 45 :: r => (true, r)
    | 43 :: r => (false, r)
    | r => (false, r)
  if ds.isEmpty || !ds.all isDigit then none
  else
    let n : Int := digitsVal ds
    let v := if neg then -n else n
    if -9223372036854775808 ≤ v ∧ v ≤ 9223372036854775807 then some v else none

inductive GetRes where
  | panic
  | val (v : Option CVal)      -- none = Go nil
deriving Repr

def nilToNone : CVal → Option CVal
  | .null => none
  | v => some v

mutual
  /-- searchIndexableWithPathPrefixes for sources whose map keys contain no dot (then only the one-element prefix can hit) -/
  def search : CVal → List Bytes → GetRes
    | v, [] => .val (nilToNone v)
    | .map kvs, p :: rest => searchMap kvs p rest
    | .list xs, p :: rest =>
      match atoi p with
      | none => .val none
      | some i =>
        if (xs.length : Int) ≤ i then .val none
        else if i < 0 then .panic                         -- sourceSlice[index], viper.go:744
        else searchList xs i.toNat rest
    | _, _ :: _ => .val none
  def searchMap : List (Bytes × CVal) → Bytes → List Bytes → GetRes
    | [], _, _ => .val none
    | (k, v) :: more, p, rest =>
      if k = p then
        match rest with
        | [] => .val (nilToNone v)
        | _ :: _ =>
          match v with
          | .map _ => search v rest
          | .list _ => search v rest
          | _ => .val none
      else searchMap more p rest
  def searchList : List CVal → Nat → List Bytes → GetRes
    | [], _, _ => .val none
    | v :: _, 0, rest =>
      match rest with
      | [] => .val (nilToNone v)
      | _ :: _ =>
        match v with
        | .map _ => search v rest
        | .list _ => search v rest
        | _ => .val none
    | _ :: more, n + 1, rest => searchList more n rest
end

/-! viper.AllSettings: rebuilt from the leaf keys, so nil leaves and (recursively) empty maps vanish; lists are leaves -/
mutual
  def pruneVal : CVal → Option CVal
    | .null => none
    | .map kvs =>
      match pruneMap kvs with
      | [] => none
      | s => some (.map s)
    | .str s => some (.str s)
    | .num t => some (.num t)
    | .bool b => some (.bool b)
    | .list xs => some (.list xs)
  def pruneMap : List (Bytes × CVal) → List (Bytes × CVal)
    | [] => []
    | (k, v) :: rest =>
      match pruneVal v with
      | none => pruneMap rest
      | some v' => (k, v') :: pruneMap rest
end

/-- ViperBinder.Get -/
def get (cfg : Cfg) (key : Bytes) : GetRes :=
  if key.isEmpty then .val (some (.map (pruneMap cfg)))
  else search (.map cfg) (splitDots (lower key))

/-! ### the default: strconv2.ParseAny then FormatAny -/

inductive StepRes where
  | ok (r : Bytes)
  | err
  | panic
  | unmodelled          -- a default text of a class whose re-formatting is not modelled ("opaque" on the wire)
deriving Repr, DecidableEq

def natDigits : Nat → Nat → Bytes
  | 0, _ => []
  | fuel + 1, n => if n < 10 then [UInt8.ofNat (48 + n)] else natDigits fuel (n / 10) ++ [UInt8.ofNat (48 + n % 10)]

def natText (n : Nat) : Bytes := natDigits (n + 1) n

def dropTrailingZeros (ds : Bytes) : Bytes := (ds.reverse.dropWhile (· = 48)).reverse

/-- \d+(\.\d+)?$  as (integer digits, fraction digits) -/
def parseDigits (body : Bytes) : Option (Bytes × Bytes) :=
  let ip := body.takeWhile isDigit
  let rest := body.dropWhile isDigit
  if ip.isEmpty then none
  else match rest with
    | [] => some (ip, [])
    | 46 :: fp => if !fp.isEmpty && fp.all isDigit then some (ip, fp) else none
    | _ => none

/-- ^(-|\+)?\d+(\.\d+)?$  as (negative, integer digits, fraction digits) -/
def parseNumber (s : Bytes) : Option (Bool × Bytes × Bytes) :=
  match s with
  | 45 :: r => (parseDigits r).map fun p => (true, p.1, p.2)
  | 43 :: r => (parseDigits r).map fun p => (false, p.1, p.2)
  | r => (parseDigits r).map fun p => (false, p.1, p.2)

/-- `%v` of the float64 that strconv.ParseFloat returns, for at most 15 significant digits (every such decimal is the
    shortest round-trip text of its float64); `%v` is strconv 'g' with the shortest precision (strconv/ftoa.go:205-227,
    eprec = 6): exponent form iff exp < -4 or exp ≥ 6 -/
def fmtNumber (neg : Bool) (ip fp : Bytes) : StepRes :=
  let all := ip ++ fp
  let z := (all.takeWhile (· = 48)).length
  let sig := dropTrailingZeros (all.drop z)
  let sign : Bytes := if neg then [45] else []
  if all.length > 40 then .unmodelled
  else if sig.isEmpty then .ok (sign ++ [48])
  else if sig.length > 15 then .unmodelled
  else
    let dp : Int := (ip.length : Int) - (z : Int)           -- value = 0.sig × 10^dp
    let e : Int := dp - 1
    if e < -4 ∨ e ≥ 6 then
      let mant := match sig with
        | [d] => [d]
        | d :: more => d :: 46 :: more
        | [] => []
      let ea := natText e.natAbs
      let ea2 := if ea.length < 2 then 48 :: ea else ea
      .ok (sign ++ mant ++ [101, if e < 0 then 45 else 43] ++ ea2)
    else if dp ≤ 0 then .ok (sign ++ [48, 46] ++ List.replicate (-dp).toNat 48 ++ sig)
    else if dp.toNat ≥ sig.length then .ok (sign ++ sig ++ List.replicate (dp.toNat - sig.length) 48)
    else .ok (sign ++ sig.take dp.toNat ++ [46] ++ sig.drop dp.toNat)

def startsWith (p s : Bytes) : Bool := (stripPrefix p s).isSome
def lastIs (c : UInt8) (s : Bytes) : Bool := s.getLast? == some c

/-- strconv2.isMap, any.go / map.go:60-63 (the `{…}` form additionally needs json.Valid — not decided here: opaque) -/
def isMapLike (d : Bytes) : Bool :=
  (d.length > 4 && startsWith (ofString "map[") d && lastIs 93 d) ||
  (d.length > 1 && startsWith [123] d && lastIs 125 d)

def isSliceLike (d : Bytes) : Bool := d.length > 1 && startsWith [91] d && lastIs 93 d

def isQuoted (d : Bytes) : Bool :=
  (startsWith [39] d && lastIs 39 d) || (startsWith [34] d && lastIs 34 d)

/-- FormatAny (ParseAny d) for a non-empty default text `d` (processor lines 70-76, 84) -/
def normDefault (d : Bytes) : StepRes :=
  if lower d = ofString "true" then .ok (ofString "true")
  else if lower d = ofString "false" then .ok (ofString "false")
  else match parseNumber d with
    | some (neg, ip, fp) => fmtNumber neg ip fp
    | none =>
      if isMapLike d then .unmodelled
      else if isSliceLike d then .unmodelled
      else if isQuoted d then
        match slice? d 1 ((d.length : Int) - 1) with
        | some inner => .ok inner
        | none => .panic                                   -- val[1:len(val)-1] on a lone quote character
      else .ok d

/-! ### the closure handed to ReplaceAllContent -/

/-- strings.SplitN(exp, ":", 2) -/
def splitColon : Bytes → Bytes × Option Bytes
  | [] => ([], none)
  | c :: rest =>
    if c = 58 then ([], some rest)
    else let (k, d) := splitColon rest; (c :: k, d)

def isAbsent : Option CVal → Bool
  | none => true
  | some .null => true
  | some (.map []) => true
  | some (.list []) => true
  | _ => false

/-- FormatAny of `expVal`, or "" when it is nil (lines 80-88) -/
def formatOpt : Option CVal → Bytes
  | none => []
  | some .null => []
  | some x => format x

/-- lines 66-79: the default text, if there is a non-empty one, parsed and re-formatted; else nil, i.e. "" -/
def defaultAnswer : Option Bytes → StepRes
  | none => .ok []
  | some d => if d.isEmpty then .ok [] else normDefault d

/-- the callback, lines 47-92: absent (nil, empty map, empty list) → `expVal = nil`, then the default text if it is
    non-empty; a nil `expVal` is answered with "" -/
def repl (cfg : Cfg) (content : Bytes) : StepRes :=
  let (key, dflt) := splitColon content
  match get cfg key with
  | .panic => .panic
  | .val v =>
    if isAbsent v then defaultAnswer dflt
    else .ok (formatOpt v)

/-! ### ReplaceAllContent -/

inductive Res where
  | value (s : Bytes)
  | error
  | panic
  | unmodelled
  | outOfFuel
deriving Repr, DecidableEq

/-- `round >= maxReplaceRounds` (el.go:50); never true without a bound -/
def hitBound : Option Nat → Nat → Bool
  | some b, round => decide (round ≥ b)
  | none, _ => false

/-- el.go:43-61 for an arbitrary callback `f`; `bound = none` is the loop without the round check -/
def loopF (f : Bytes → StepRes) (bound : Option Nat) : Nat → Nat → Bytes → Res
  | 0, _, _ => .outOfFuel
  | fuel + 1, round, s =>
    match findFirst s with
    | none => .value s
    | some (_, content, _) =>
      if hitBound bound round then .error
      else
        match f content with
        | .err => .error
        | .panic => .panic
        | .unmodelled => .unmodelled
        | .ok r => loopF f bound fuel (round + 1) (replaceFirst (matchText content) r s)

def loop (cfg : Cfg) (bound : Option Nat) (fuel round : Nat) (s : Bytes) : Res :=
  loopF (repl cfg) bound fuel round s

def fuelFor : Option Nat → Nat
  | some b => b + 2
  | none => 3000

def replaceAll (cfg : Cfg) (s : Bytes) : Res :=
  loop cfg Facts.replaceBound (fuelFor Facts.replaceBound) 0 s

/-- PostProcessProperties for one property: untouched without a match (line 46), else ReplaceAllContent on TagStr -/
def process (cfg : Cfg) (tagStr : Bytes) : Res :=
  match findFirst tagStr with
  | none => .value tagStr
  | some _ => replaceAll cfg tagStr

/-! ### structured tags -/

/-- `${key}` and `${key:default}` with key and default themselves tags (any nesting depth), literals, concatenation -/
inductive Tag where
  | lit (s : Bytes)
  | ph (key : Tag)
  | phd (key : Tag) (dflt : Tag)
  | seq (a b : Tag)
deriving Repr

def render : Tag → Bytes
  | .lit s => s
  | .ph k => 36 :: 123 :: (render k ++ [125])
  | .phd k d => 36 :: 123 :: (render k ++ 58 :: (render d ++ [125]))
  | .seq a b => render a ++ render b

def phCount : Tag → Nat
  | .lit _ => 0
  | .ph k => phCount k + 1
  | .phd k d => phCount k + phCount d + 1
  | .seq a b => phCount a + phCount b

/-- substitution semantics, innermost first; `none` when a literal or a replacement contains a brace or the callback
    does not answer with a text -/
def evalF (f : Bytes → StepRes) : Tag → Option Bytes
  | .lit s => if braceFree s then some s else none
  | .ph k =>
    match evalF f k with
    | some kv =>
      match f kv with
      | .ok r => if braceFree r then some r else none
      | _ => none
    | none => none
  | .phd k d =>
    match evalF f k, evalF f d with
    | some kv, some dv =>
      match f (kv ++ 58 :: dv) with
      | .ok r => if braceFree r then some r else none
      | _ => none
    | _, _ => none
  | .seq a b =>
    match evalF f a, evalF f b with
    | some x, some y => some (x ++ y)
    | _, _ => none

def eval (cfg : Cfg) (t : Tag) : Option Bytes := evalF (repl cfg) t

/-! ### Configure.Set: the override layer

  configure/binder/viper.go:44-46            Set = viper.Set
  github.com/spf13/viper@v1.19.0 viper.go    Set (lower-cased path, toCaseInsensitiveValue, deepSearch), find (the override layer first —
                                             searchMap: maps only, no list index —, then, unless a set scalar shadows the path —
                                             isPathShadowedInDeepMap —, the merged documents), AllSettings (every leaf key of either
                                             layer, valued by Get)
  Nothing remembers an earlier lookup: `Layers.get` is a function of the two layers as they are now. -/

/-- what was handed to Set (composed), over the merged documents -/
structure Layers where
  over : Cfg
  conf : Cfg

mutual
  /-- util.go copyAndInsensitiviseMap: the keys of a map handed to Set, and of the maps inside it, in lower case (a later
      duplicate of a key replaces the earlier one) -/
  def lowerKeys : CVal → CVal
    | .map kvs => .map (lowerKeysM kvs)
    | .null => .null
    | .str s => .str s
    | .num t => .num t
    | .bool b => .bool b
    | .list xs => .list xs
  def lowerKeysM : List (Bytes × CVal) → List (Bytes × CVal)
    | [] => []
    | (k, v) :: rest => ainsert (lower k) (lowerKeys v) (lowerKeysM rest)
end

/-- viper.go deepSearch and the final store of Set: an intermediate key that holds no map gets a fresh one -/
def deepSet (m : Cfg) : List Bytes → CVal → Cfg
  | [], _ => m
  | [k], v => ainsert k v m
  | k :: k2 :: rest, v =>
    let sub := match alookup k m with
      | some (.map m') => m'
      | _ => []
    ainsert k (.map (deepSet sub (k2 :: rest) v)) m

/-- ViperBinder.Set -/
def Layers.set (l : Layers) (path : Bytes) (v : CVal) : Layers :=
  { l with over := deepSet l.over (splitDots (lower path)) (lowerKeys v) }

def Layers.setAll (l : Layers) : List (Bytes × CVal) → Layers
  | [] => l
  | (p, v) :: rest => (l.set p v).setAll rest

/-- viper.go searchMap on the override layer: `none` = Go nil (absent, a stored nil, or a scalar / list on the way) -/
def searchOver : Cfg → List Bytes → Option CVal
  | m, [] => some (.map m)
  | m, k :: rest =>
    match alookup k m with
    | none => none
    | some v =>
      match rest with
      | [] => nilToNone v
      | _ :: _ =>
        match v with
        | .map m' => searchOver m' rest
        | _ => none

/-- viper.go isPathShadowedInDeepMap -/
def shadowedFrom (m : Cfg) (path : List Bytes) : Nat → Nat → Bool
  | 0, _ => false
  | fuel + 1, i =>
    if i ≥ path.length then false
    else match searchOver m (path.take i) with
      | none => false
      | some (.map _) => shadowedFrom m path fuel (i + 1)
      | some _ => true

def shadowed (m : Cfg) (path : List Bytes) : Bool := shadowedFrom m path path.length 1

/-- ViperBinder.Get over the two layers, for a non-empty path -/
def Layers.getPath (l : Layers) (p : List Bytes) : GetRes :=
  match searchOver l.over p with
  | some v => .val (some v)
  | none => if p.length > 1 && shadowed l.over p then .val none else search (.map l.conf) p

mutual
  /-- viper.go flattenAndMergeMap for dot-free keys (a key = its list of segments): the leaf keys of a layer added to
      `seen`; a section whose own path is already a leaf key of an earlier layer is shadowed and skipped; an empty map
      contributes nothing, everything that is not a map (nil and lists included) is a leaf -/
  def flattenVal (seen : List (List Bytes)) (pre : List Bytes) : CVal → List (List Bytes)
    | .map kvs => if seen.contains pre then seen else flattenMap seen pre kvs
    | _ => if seen.contains pre then seen else seen ++ [pre]
  def flattenMap (seen : List (List Bytes)) (pre : List Bytes) : List (Bytes × CVal) → List (List Bytes)
    | [] => seen
    | (k, v) :: rest => flattenMap (flattenVal seen (pre ++ [k]) v) pre rest
end

/-- viper.go AllKeys: override layer first, then the documents -/
def Layers.allKeys (l : Layers) : List (List Bytes) :=
  flattenMap (flattenMap [] [] l.over) [] l.conf

/-- viper.go getSettings: the map rebuilt key by key from Get (a key whose Get is nil is left out; the value of a key is
    whatever Get answers, a whole map of the override layer included) -/
def Layers.settingsFrom (l : Layers) : List (List Bytes) → Cfg → Cfg
  | [], m => m
  | k :: rest, m =>
    match l.getPath k with
    | .val (some v) => l.settingsFrom rest (deepSet m k v)
    | _ => l.settingsFrom rest m

/-- ViperBinder.Get over the two layers; the empty path is AllSettings (with nothing set: `get`) -/
def Layers.get (l : Layers) (key : Bytes) : GetRes :=
  if key.isEmpty then
    if l.over.isEmpty then .val (some (.map (pruneMap l.conf)))
    else .val (some (.map (l.settingsFrom l.allKeys [])))
  else l.getPath (splitDots (lower key))

/-- the callback over the two layers (as `repl`) -/
def replL (l : Layers) (content : Bytes) : StepRes :=
  let (key, dflt) := splitColon content
  match l.get key with
  | .panic => .panic
  | .val v =>
    if isAbsent v then defaultAnswer dflt
    else .ok (formatOpt v)

/-- PostProcessProperties for one property under the configuration as it is now (as `process`) -/
def processL (l : Layers) (tagStr : Bytes) : Res :=
  match findFirst tagStr with
  | none => .value tagStr
  | some _ => loopF (replL l) Facts.replaceBound (fuelFor Facts.replaceBound) 0 tagStr

/-- a history: the tags resolved, paths set, the tags resolved again — each resolution on a fresh property -/
def resolveTwice (cfg : Cfg) (ops : List (Bytes × CVal)) (tags : List Bytes) : List Res × List Res :=
  let l0 : Layers := ⟨[], cfg⟩
  (tags.map (processL l0), tags.map (processL (l0.setAll ops)))

/-! ### sources merged after the start (ninth round): SetConfig / AddLoaders + Initialize on the DEFAULT configure

  configure/configure.go:21-26               Default(): the viper binder for yaml ITSELF is the binder (C16_code_configure_Default)
  configure/configure.go:41-74               Initialize / loadConfigure: every loader of the list, in order, `Binder.SetConfig(bytes)`
  configure/binder/viper.go:27-33            SetConfig = viper.MergeConfig
  github.com/spf13/viper@v1.19.0 viper.go    MergeConfig / MergeConfigMap (1696-1715: insensitiviseMap, mergeMaps INTO v.config),
                                             mergeMaps (1878-1953)
  The binder has no reset and remembers no lookup: the documents layer is what all merges so far made of it, a lookup
  (`Layers.get`) is a function of the two layers as they are NOW. -/

/-- the body of mergeMaps' loop for one source entry `(k, dflt)`: key absent → `tgt[sk] = sv`; present → the entry
    becomes `f (old value)` -/
def updKv (f : CVal → CVal) (k : Bytes) (dflt : CVal) : Cfg → Cfg
  | [] => [(k, dflt)]
  | (k', v') :: a => if k' = k then (k', f v') :: a else (k', v') :: updKv f k dflt a

mutual
  /-- viper mergeMaps for one key (viper.go:1879-1952), first argument = target (what the binder holds), second = source:
      target a map → recurse when the source value is a map too, otherwise `continue` (THE TARGET MAP IS KEPT); any other
      target value (nil included) → replaced by the source value -/
  def mergeVal : CVal → CVal → CVal
    | .map a, .map b => .map (mergeKvs a b)
    | .map a, _ => .map a
    | _, b => b
  termination_by structural _ s => s
  /-- the `for sk, sv := range src` loop of mergeMaps -/
  def mergeKvs : Cfg → Cfg → Cfg
    | a, [] => a
    | a, (k, v) :: rest => mergeKvs (updKv (fun t => mergeVal t v) k v a) rest
  termination_by structural _ s => s
end

/-- ViperBinder.SetConfig on the documents layer: MergeConfigMap = insensitiviseMap(doc), mergeMaps(doc, v.config) -/
def mergeDoc (conf doc : Cfg) : Cfg := mergeKvs conf (lowerKeysM doc)

/-- the configure: its binder (two layers) and its loader list (RawLoaders: the documents they return) -/
structure Conf where
  layers : Layers
  loaders : List Cfg

/-- Configure.Initialize: every loader in order (RawLoaders have no Order: SortOrderedComponents keeps their sequence), each
    document merged into what the binder already holds -/
def Conf.initialize (c : Conf) : Conf :=
  { c with layers := { c.layers with conf := c.loaders.foldl mergeDoc c.layers.conf } }

/-- Default(), SetLoaders(RawLoader base), Initialize() -/
def Conf.start (base : Cfg) : Conf := Conf.initialize ⟨⟨[], []⟩, [base]⟩

inductive Step where
  | setConfig (doc : Cfg)             -- Configure.SetConfig(bytes): straight to the binder
  | addLoader (doc : Cfg)             -- Configure.AddLoaders(RawLoader), Configure.Initialize()
  | set (path : Bytes) (v : CVal)     -- Configure.Set

def Conf.step (c : Conf) : Step → Conf
  | .setConfig d => { c with layers := { c.layers with conf := mergeDoc c.layers.conf d } }
  | .addLoader d => Conf.initialize { c with loaders := c.loaders ++ [d] }
  | .set p v => { c with layers := c.layers.set p v }

def Conf.steps (c : Conf) : List Step → Conf
  | [] => c
  | s :: rest => (c.step s).steps rest

/-- a history of sources: the tags resolved after the start, the steps, the tags resolved again — each resolution on a fresh
    property, under the layers as they are then -/
def resolveAround (base : Cfg) (steps : List Step) (tags : List Bytes) : List Res × List Res :=
  let c0 := Conf.start base
  (tags.map (processL c0.layers), tags.map (processL (c0.steps steps).layers))

/-- the document that says `p: v` and nothing else (`a: {b: {c: v}}` for the path a.b.c) -/
def pathDoc : List Bytes → CVal → Cfg
  | [], _ => []
  | [k], v => [(k, v)]
  | k :: k2 :: rest, v => [(k, .map (pathDoc (k2 :: rest) v))]

/-- the documents layer holds a MAP at the path (every key on the way leads into a map, the last one too) -/
def mapAt : Cfg → List Bytes → Bool
  | _, [] => true
  | m, k :: rest =>
    match alookup k m with
    | some (.map m') => mapAt m' rest
    | _ => false

def CVal.isMap : CVal → Bool
  | .map _ => true
  | _ => false

/-! ### from the tag TEXT (seventh round)

  NewProperty (component_definition/property.go:21-33) runs TagArg.Parse over the whole text of the tag: the text before
  the first top-level comma becomes TagStr / TagVal (`Ioc.Tag.parse?`), the rest the arguments.  The placeholder
  processor is handed THAT value part. -/

/-- NewProperty(text), then PostProcessProperties: (TagStr, the outcome); `none` = the parser panics -/
def processText (cfg : Cfg) (text : Bytes) : Option (Bytes × Res) :=
  (Ioc.Tag.parse? text).map fun va => (va.1, process cfg va.1)

end Placeholder
end Ioc
