/-
  Ioc.Registry — M1: the three-level singleton cache.
  Mirrors  container/support/singleton_component_registry.go  (one model function per Go method,
  each citing its lines and its entry in `Ioc.RegistrySkel.expectedRegistryOps`, the call skeleton
  that the facts translator regenerates from the Go source on every run) and the way
  container/factory/factory.go:140-162 (doGetComponent) and :190-198 (doCreateComponent) drive it.

    l1   = singletonObjects              (published instances)
    l2   = earlySingletonObjects         (early references already handed out)
    l3   = singletonFactories            (names with a registered early-reference factory; what the
                                          factory returns when it runs is supplied by the caller)
    inCr = singletonCurrentlyInCreation

  Names are numbers, objects are ⟨name, version⟩ (a version = one Go pointer).
  Histories "a factory can issue" are operation trees (`Act`), executed by `exec`/`execs`.
  Depends on Ioc.Basic only.
-/
import Ioc.Basic
namespace Ioc

abbrev Name := Nat

structure Obj where
  name : Name
  ver : Nat
deriving DecidableEq, Repr

inductive Err
  | fail
deriving DecidableEq, Repr

/-! ### Go map / set primitives (sync2.Map Store/Delete/Load, ConcurrentSets Put/Remove/Exists) -/

/-- map Delete -/
def adel (k : Name) (l : List (Name × Obj)) : List (Name × Obj) := l.filter (fun p => p.1 != k)
/-- map Store (insert or overwrite) -/
def aset (k : Name) (v : Obj) (l : List (Name × Obj)) : List (Name × Obj) := (k, v) :: adel k l
/-- set Remove / map Delete on a key-only map -/
def sdel (k : Name) (l : List Name) : List Name := l.filter (fun m => m != k)
/-- set Put / map Store on a key-only map -/
def sput (k : Name) (l : List Name) : List Name := k :: sdel k l

@[simp] theorem alookup_nil (m : Name) : alookup m ([] : List (Name × Obj)) = none := rfl

@[simp] theorem alookup_adel (m k : Name) (l : List (Name × Obj)) :
    alookup m (adel k l) = if m = k then none else alookup m l := by
  induction l with
  | nil => simp [adel, alookup]
  | cons p rest ih =>
    obtain ⟨k', v'⟩ := p
    by_cases hk : k' = k
    · have : adel k ((k', v') :: rest) = adel k rest := by simp [adel, hk]
      rw [this, ih]
      by_cases hm : m = k
      · simp [hm]
      · have : ¬ k' = m := fun h => hm (h ▸ hk)
        simp [hm, alookup, this]
    · have : adel k ((k', v') :: rest) = (k', v') :: adel k rest := by simp [adel, hk]
      rw [this]
      simp only [alookup, ih]
      by_cases hm : m = k
      · have : ¬ k' = m := fun h => hk (h.trans hm)
        simp [hm, hk]
      · simp [hm]

@[simp] theorem alookup_aset (m k : Name) (v : Obj) (l : List (Name × Obj)) :
    alookup m (aset k v l) = if m = k then some v else alookup m l := by
  simp only [aset, alookup, alookup_adel]
  by_cases hm : m = k
  · simp [hm]
  · have : ¬ k = m := fun h => hm h.symm
    simp [hm, this]

@[simp] theorem mem_sdel (m k : Name) (l : List Name) : m ∈ sdel k l ↔ m ∈ l ∧ m ≠ k := by
  simp [sdel]

@[simp] theorem mem_sput (m k : Name) (l : List Name) : m ∈ sput k l ↔ m = k ∨ m ∈ l := by
  simp only [sput, List.mem_cons, mem_sdel]
  by_cases h : m = k <;> simp [h]

theorem nodup_sdel (k : Name) (l : List Name) (h : l.Nodup) : (sdel k l).Nodup :=
  List.Pairwise.filter _ h

theorem nodup_sput (k : Name) (l : List Name) (h : l.Nodup) : (sput k l).Nodup := by
  simp only [sput, List.nodup_cons]
  exact ⟨by simp, nodup_sdel k l h⟩

/-- the keys of an association list -/
def akeys (l : List (Name × Obj)) : List Name := l.map (·.1)

theorem akeys_adel (k : Name) (l : List (Name × Obj)) : akeys (adel k l) = sdel k (akeys l) := by
  induction l with
  | nil => rfl
  | cons p rest ih =>
    simp only [akeys, adel, sdel] at ih ⊢
    by_cases hk : p.1 = k <;> simp [hk, ih]

theorem nodup_akeys_adel (k : Name) (l : List (Name × Obj)) (h : (akeys l).Nodup) : (akeys (adel k l)).Nodup := by
  rw [akeys_adel]; exact nodup_sdel k _ h

theorem nodup_akeys_aset (k : Name) (v : Obj) (l : List (Name × Obj)) (h : (akeys l).Nodup) :
    (akeys (aset k v l)).Nodup := by
  have : akeys (aset k v l) = sput k (akeys l) := by
    simp only [aset, sput, ← akeys_adel]; rfl
  rw [this]; exact nodup_sput k _ h

/-! ### the registry -/

structure Reg where
  l1 : List (Name × Obj) := []
  l2 : List (Name × Obj) := []
  l3 : List Name := []
  inCr : List Name := []
deriving DecidableEq, Repr

namespace Reg

/-- DefaultSingletonComponentRegistry() :18-25 -/
def empty : Reg := {}

/-- singletonObjects.Load -/
def l1? (r : Reg) (n : Name) : Option Obj := alookup n r.l1
/-- earlySingletonObjects.Load -/
def l2? (r : Reg) (n : Name) : Option Obj := alookup n r.l2

/-- IsSingletonCurrentlyInCreation :94-96   [skeleton: singletonCurrentlyInCreation.Exists] -/
def isInCreation (r : Reg) (n : Name) : Bool := decide (n ∈ r.inCr)

/-- AddSingletonFactory :27-30   [skeleton: singletonFactories.Store] -/
def addFactory (r : Reg) (n : Name) : Reg := { r with l3 := sput n r.l3 }

/-- RemoveSingleton :32-38   [skeleton: singletonObjects.Delete, earlySingletonObjects.Delete,
    singletonFactories.Delete, singletonCurrentlyInCreation.Remove] -/
def remove (r : Reg) (n : Name) : Reg :=
  { l1 := adel n r.l1, l2 := adel n r.l2, l3 := sdel n r.l3, inCr := sdel n r.inCr }

/-- AddSingleton :40-46   [skeleton: singletonObjects.Store, earlySingletonObjects.Delete, singletonFactories.Delete] -/
def addSingleton (r : Reg) (n : Name) (o : Obj) : Reg :=
  { r with l1 := aset n o r.l1, l2 := adel n r.l2, l3 := sdel n r.l3 }

/-- GetSingleton :48-74.  `early` is what the registered early-reference factory returns if this call runs it.
    [skeleton: singletonObjects.Load → return; earlySingletonObjects.Load → return;
     if allowEarly { singletonFactories.Load; if ok { (err → return); earlySingletonObjects.Store;
     singletonFactories.Delete; return } }; return] -/
def get (r : Reg) (n : Name) (allowEarly : Bool) (early : Except Err Obj) : Except Err (Option Obj) × Reg :=
  match r.l1? n with
  | some o => (.ok (some o), r)                                      -- :50-53
  | none =>
    match r.l2? n with
    | some o => (.ok (some o), r)                                    -- :55-58
    | none =>
      if allowEarly then                                             -- :59
        if n ∈ r.l3 then                                             -- :61
          match early with                                           -- :63 factory.GetComponent()
          | .error e => (.error e, r)                                -- :64-66 (nothing stored, factory kept)
          | .ok o => (.ok (some o), { r with l2 := aset n o r.l2, l3 := sdel n r.l3 })   -- :67-70 L3 → L2
        else (.ok none, r)
      else (.ok none, r)                                             -- :73

/-- does `get r n allowEarly _` run the early-reference factory of `n`? (:61-63 reached) -/
def runsEarly (r : Reg) (n : Name) (allowEarly : Bool) : Bool :=
  (r.l1? n).isNone && (r.l2? n).isNone && allowEarly && decide (n ∈ r.l3)

/-- GetSingletonOrCreateByFactory, before the factory runs :77-81
    [skeleton: singletonObjects.Load → return; singletonCurrentlyInCreation.Put] -/
def beginCreate (r : Reg) (n : Name) : Option Obj × Reg :=
  match r.l1? n with
  | some o => (some o, r)                                            -- :77-79
  | none => (none, { r with inCr := sput n r.inCr })                 -- :81

/-- GetSingletonOrCreateByFactory, after the factory returned :84-91
    [skeleton: if err { self.RemoveSingleton; return }; singletonCurrentlyInCreation.Remove; self.AddSingleton] -/
def endCreate (r : Reg) (n : Name) (res : Except Err Obj) : Reg :=
  match res with
  | .error _ => r.remove n                                           -- :84-87 (the repaired failure path)
  | .ok o => ({ r with inCr := sdel n r.inCr }).addSingleton n o     -- :89-90

/-- the failure path as it was before the repair (`return nil, err` without RemoveSingleton);
    used only by `C04_clean_failure_needs_remove` -/
def endCreateNoCleanup (r : Reg) (n : Name) (res : Except Err Obj) : Reg :=
  match res with
  | .error _ => r
  | .ok o => ({ r with inCr := sdel n r.inCr }).addSingleton n o

/-- the registry when the body of a creation starts: GetSingletonOrCreateByFactory marked the name (:81),
    then the factory closure registers the early-reference factory iff the name is in creation
    (factory.go:192-198) -/
def startCreate (r : Reg) (n : Name) : Reg :=
  let r1 := (r.beginCreate n).2
  if r1.isInCreation n then r1.addFactory n else r1

/-! #### views of the primitive operations (simp set) -/

@[simp] theorem l1?_empty (m : Name) : empty.l1? m = none := rfl
@[simp] theorem l2?_empty (m : Name) : empty.l2? m = none := rfl
@[simp] theorem l3_empty : empty.l3 = [] := rfl
@[simp] theorem inCr_empty : empty.inCr = [] := rfl

@[simp] theorem isInCreation_eq (r : Reg) (n : Name) : r.isInCreation n = decide (n ∈ r.inCr) := rfl

@[simp] theorem l1?_addFactory (r : Reg) (n m : Name) : (r.addFactory n).l1? m = r.l1? m := rfl
@[simp] theorem l2?_addFactory (r : Reg) (n m : Name) : (r.addFactory n).l2? m = r.l2? m := rfl
@[simp] theorem mem_l3_addFactory (r : Reg) (n m : Name) : m ∈ (r.addFactory n).l3 ↔ m = n ∨ m ∈ r.l3 := by
  simp [addFactory]
@[simp] theorem inCr_addFactory (r : Reg) (n : Name) : (r.addFactory n).inCr = r.inCr := rfl

@[simp] theorem l1?_remove (r : Reg) (n m : Name) : (r.remove n).l1? m = if m = n then none else r.l1? m := by
  simp [remove, l1?]
@[simp] theorem l2?_remove (r : Reg) (n m : Name) : (r.remove n).l2? m = if m = n then none else r.l2? m := by
  simp [remove, l2?]
@[simp] theorem mem_l3_remove (r : Reg) (n m : Name) : m ∈ (r.remove n).l3 ↔ m ∈ r.l3 ∧ m ≠ n := by
  simp [remove]
@[simp] theorem mem_inCr_remove (r : Reg) (n m : Name) : m ∈ (r.remove n).inCr ↔ m ∈ r.inCr ∧ m ≠ n := by
  simp [remove]

@[simp] theorem l1?_addSingleton (r : Reg) (n m : Name) (o : Obj) :
    (r.addSingleton n o).l1? m = if m = n then some o else r.l1? m := by
  simp [addSingleton, l1?]
@[simp] theorem l2?_addSingleton (r : Reg) (n m : Name) (o : Obj) :
    (r.addSingleton n o).l2? m = if m = n then none else r.l2? m := by
  simp [addSingleton, l2?]
@[simp] theorem mem_l3_addSingleton (r : Reg) (n m : Name) (o : Obj) :
    m ∈ (r.addSingleton n o).l3 ↔ m ∈ r.l3 ∧ m ≠ n := by
  simp [addSingleton]
@[simp] theorem inCr_addSingleton (r : Reg) (n : Name) (o : Obj) : (r.addSingleton n o).inCr = r.inCr := rfl

/-- `get` by cases: what is returned and what the registry becomes -/
theorem get_l1 (r : Reg) (n : Name) (b : Bool) (e : Except Err Obj) (o : Obj) (h : r.l1? n = some o) :
    r.get n b e = (.ok (some o), r) := by simp [get, h]

theorem get_l2 (r : Reg) (n : Name) (b : Bool) (e : Except Err Obj) (o : Obj) (h1 : r.l1? n = none)
    (h2 : r.l2? n = some o) : r.get n b e = (.ok (some o), r) := by simp [get, h1, h2]

theorem get_early_ok (r : Reg) (n : Name) (o : Obj) (h1 : r.l1? n = none) (h2 : r.l2? n = none) (h3 : n ∈ r.l3) :
    r.get n true (.ok o) = (.ok (some o), { r with l2 := aset n o r.l2, l3 := sdel n r.l3 }) := by
  simp [get, h1, h2, h3]

theorem get_early_err (r : Reg) (n : Name) (x : Err) (h1 : r.l1? n = none) (h2 : r.l2? n = none) (h3 : n ∈ r.l3) :
    r.get n true (.error x) = (.error x, r) := by
  simp [get, h1, h2, h3]

theorem get_no_factory (r : Reg) (n : Name) (b : Bool) (e : Except Err Obj) (h1 : r.l1? n = none) (h2 : r.l2? n = none)
    (h3 : n ∉ r.l3) : r.get n b e = (.ok none, r) := by
  simp [get, h1, h2, h3]

theorem get_not_allowed (r : Reg) (n : Name) (e : Except Err Obj) (h1 : r.l1? n = none) (h2 : r.l2? n = none) :
    r.get n false e = (.ok none, r) := by
  simp [get, h1, h2]

/-- a lookup that finds nothing leaves the registry alone, and says why -/
theorem get_miss (r : Reg) (n : Name) (b : Bool) (e : Except Err Obj) (h : (r.get n b e).1 = .ok none) :
    (r.get n b e).2 = r ∧ r.l1? n = none ∧ r.l2? n = none ∧ (b = true → n ∉ r.l3) := by
  unfold get at h ⊢
  cases h1 : r.l1? n with
  | some o => simp [h1] at h
  | none =>
    cases h2 : r.l2? n with
    | some o => simp [h1, h2] at h
    | none =>
      cases b with
      | false => simp
      | true =>
        by_cases h3 : n ∈ r.l3
        · cases e with
          | error x => simp [h1, h2, h3] at h
          | ok o => simp [h1, h2, h3] at h
        · simp [h3]

/-- `get` never touches l1 and inCr -/
@[simp] theorem get_l1_eq (r : Reg) (n : Name) (b : Bool) (e : Except Err Obj) : (r.get n b e).2.l1 = r.l1 := by
  unfold get; repeat' split
  all_goals rfl
@[simp] theorem get_inCr_eq (r : Reg) (n : Name) (b : Bool) (e : Except Err Obj) : (r.get n b e).2.inCr = r.inCr := by
  unfold get; repeat' split
  all_goals rfl
@[simp] theorem get_l1? (r : Reg) (n m : Name) (b : Bool) (e : Except Err Obj) : (r.get n b e).2.l1? m = r.l1? m := by
  simp [l1?]

/-- `get n` changes the other levels at `n` only -/
theorem get_l2?_other (r : Reg) (n m : Name) (b : Bool) (e : Except Err Obj) (hm : m ≠ n) :
    (r.get n b e).2.l2? m = r.l2? m := by
  unfold get; repeat' split
  all_goals simp [l2?, hm]
theorem get_l3_other (r : Reg) (n m : Name) (b : Bool) (e : Except Err Obj) (hm : m ≠ n) :
    m ∈ (r.get n b e).2.l3 ↔ m ∈ r.l3 := by
  unfold get; repeat' split
  all_goals simp [hm]

@[simp] theorem beginCreate_l1? (r : Reg) (n m : Name) : (r.beginCreate n).2.l1? m = r.l1? m := by
  unfold beginCreate; split <;> rfl
@[simp] theorem beginCreate_l2? (r : Reg) (n m : Name) : (r.beginCreate n).2.l2? m = r.l2? m := by
  unfold beginCreate; split <;> rfl
@[simp] theorem beginCreate_l3 (r : Reg) (n : Name) : (r.beginCreate n).2.l3 = r.l3 := by
  unfold beginCreate; split <;> rfl
theorem beginCreate_miss (r : Reg) (n : Name) (h : r.l1? n = none) :
    r.beginCreate n = (none, { r with inCr := sput n r.inCr }) := by simp [beginCreate, h]
theorem beginCreate_hit (r : Reg) (n : Name) (o : Obj) (h : r.l1? n = some o) :
    r.beginCreate n = (some o, r) := by simp [beginCreate, h]

/-- after a lookup that found nothing, creation really starts, and the early-reference factory is registered -/
theorem startCreate_eq (r : Reg) (n : Name) (h : r.l1? n = none) :
    r.startCreate n = { r with inCr := sput n r.inCr, l3 := sput n r.l3 } := by
  simp [startCreate, beginCreate_miss r n h, addFactory]

@[simp] theorem l1?_startCreate (r : Reg) (n m : Name) : (r.startCreate n).l1? m = r.l1? m := by
  unfold startCreate; dsimp only; split <;> simp
@[simp] theorem l2?_startCreate (r : Reg) (n m : Name) : (r.startCreate n).l2? m = r.l2? m := by
  unfold startCreate; dsimp only; split <;> simp

@[simp] theorem l1?_endCreate_ok (r : Reg) (n m : Name) (o : Obj) :
    (r.endCreate n (.ok o)).l1? m = if m = n then some o else r.l1? m := by
  simp [endCreate, l1?, addSingleton]
@[simp] theorem l2?_endCreate_ok (r : Reg) (n m : Name) (o : Obj) :
    (r.endCreate n (.ok o)).l2? m = if m = n then none else r.l2? m := by
  simp [endCreate, l2?, addSingleton]
@[simp] theorem mem_l3_endCreate_ok (r : Reg) (n m : Name) (o : Obj) :
    m ∈ (r.endCreate n (.ok o)).l3 ↔ m ∈ r.l3 ∧ m ≠ n := by
  simp [endCreate, addSingleton]
@[simp] theorem mem_inCr_endCreate_ok (r : Reg) (n m : Name) (o : Obj) :
    m ∈ (r.endCreate n (.ok o)).inCr ↔ m ∈ r.inCr ∧ m ≠ n := by
  simp [endCreate, addSingleton]
@[simp] theorem endCreate_err (r : Reg) (n : Name) (x : Err) : r.endCreate n (.error x) = r.remove n := rfl

/-- `endCreate n` changes every level at `n` only -/
theorem endCreate_other (r : Reg) (n m : Name) (res : Except Err Obj) (hm : m ≠ n) :
    (r.endCreate n res).l1? m = r.l1? m ∧ (r.endCreate n res).l2? m = r.l2? m ∧
    (m ∈ (r.endCreate n res).l3 ↔ m ∈ r.l3) ∧ (m ∈ (r.endCreate n res).inCr ↔ m ∈ r.inCr) := by
  cases res with
  | error x => simp [hm]
  | ok o => simp [hm]

end Reg

/-! ### operation trees -/

/-- what one call returned: an object, nil, or an error -/
inductive Ret
  | obj (o : Obj)
  | none
  | err
deriving DecidableEq, Repr

def Ret.ofGet : Except Err (Option Obj) → Ret
  | .ok (some o) => .obj o
  | .ok Option.none => .none
  | .error _ => .err

/-- the observable trace: a creation body is entered, or a call returned
    (`inCr` = IsSingletonCurrentlyInCreation of the touched name right after the call,
     `ran` = the call ran the early-reference factory of that name) -/
inductive Ev
  | begin (n : Name)
  | ret (n : Name) (r : Ret) (inCr : Bool) (ran : Bool)
deriving DecidableEq, Repr

def Ev.name : Ev → Name
  | .begin n => n
  | .ret n _ _ _ => n

/-- what a factory can issue: a plain lookup (GetSingleton), or doGetComponent = lookup with early
    references allowed and, when that finds nothing, GetSingletonOrCreateByFactory whose factory closure
    registers the early-reference factory, runs `body`, and returns `res`.
    `early` = what the early-reference factory of `n` returns if this call runs it. -/
inductive Act
  | lookup (n : Name) (allowEarly : Bool) (early : Except Err Obj)
  | getOrCreate (n : Name) (early : Except Err Obj) (body : List Act) (res : Except Err Obj)
deriving Repr

def Ret.ofRes : Except Err Obj → Ret
  | .ok o => .obj o
  | .error _ => .err

/-- the event of a GetSingleton call -/
def lookupEv (r : Reg) (n : Name) (b : Bool) (e : Except Err Obj) : Ev :=
  .ret n (Ret.ofGet (r.get n b e).1) ((r.get n b e).2.isInCreation n) (r.runsEarly n b)

mutual
/-- one operation: the new registry and the trace -/
def exec (r : Reg) : Act → Reg × List Ev
  | .lookup n b e => ((r.get n b e).2, [lookupEv r n b e])           -- GetSingleton(n, b)
  | .getOrCreate n early body res =>                                  -- factory.go:140-162
    match (r.get n true early).1 with                                 -- :141 GetSingleton(n, true)
    | .ok none =>
      let r0 := (r.get n true early).2
      match (r0.beginCreate n).1 with                                 -- :154 → registry :77
      | some o => (r0, [.ret n (.obj o) (r0.isInCreation n) false])   -- :78 (dead after a nil lookup: `exec_create`)
      | none =>
        let rb := execs (r0.startCreate n) body                       -- :81-83, factory.go:192-198, then the body
        let r4 := rb.1.endCreate n res                                -- :84-91
        (r4, .begin n :: rb.2 ++ [.ret n (Ret.ofRes res) (r4.isInCreation n) false])
    | _ => ((r.get n true early).2, [lookupEv r n true early])        -- :142-153 error or shared instance
/-- a sequence of operations -/
def execs (r : Reg) : List Act → Reg × List Ev
  | [] => (r, [])
  | a :: as =>
    let x := exec r a
    let y := execs x.1 as
    (y.1, x.2 ++ y.2)
end

@[simp] theorem execs_nil (r : Reg) : execs r [] = (r, []) := by simp [execs]
theorem execs_cons (r : Reg) (a : Act) (as : List Act) :
    execs r (a :: as) = ((execs (exec r a).1 as).1, (exec r a).2 ++ (execs (exec r a).1 as).2) := by simp [execs]

theorem exec_lookup (r : Reg) (n : Name) (b : Bool) (e : Except Err Obj) :
    exec r (.lookup n b e) = ((r.get n b e).2, [lookupEv r n b e]) := by simp [exec]

/-- doGetComponent when the first lookup answers (object or error): it is that lookup -/
theorem exec_answered (r : Reg) (n : Name) (early : Except Err Obj) (body : List Act) (res : Except Err Obj)
    (h : (r.get n true early).1 ≠ .ok none) :
    exec r (.getOrCreate n early body res) = ((r.get n true early).2, [lookupEv r n true early]) := by
  simp only [exec]

/-- doGetComponent when the first lookup finds nothing: the creation runs -/
theorem exec_create (r : Reg) (n : Name) (early : Except Err Obj) (body : List Act) (res : Except Err Obj)
    (h : (r.get n true early).1 = .ok none) :
    exec r (.getOrCreate n early body res) =
      (((execs (r.startCreate n) body).1).endCreate n res,
       .begin n :: (execs (r.startCreate n) body).2 ++
         [.ret n (Ret.ofRes res) ((((execs (r.startCreate n) body).1).endCreate n res).isInCreation n) false]) := by
  obtain ⟨hr, h1, _, _⟩ := Reg.get_miss r n true early h
  simp only [exec, h, hr, Reg.beginCreate_miss r n h1]

end Ioc
