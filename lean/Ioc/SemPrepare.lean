/-
  Ioc.SemPrepare — interpretation of the primitives called by the REGENERATED programs
    container/factory/factory.go                                defaultFactory.PrepareComponents, GetComponents, genProxyComponent
    container/factory/post_processor_registration_delegate.go   RegisterComponentPostProcessors
    component_definition/meta.go                                NewMeta, CreateProxy
  Components are `.ref i 0`; which interfaces a singleton implements, what the registries answer and what user callbacks
  return are parameters.
-/
import Ioc.GoSem
import Ioc.Generated.Progs
namespace Ioc.Sem
open Ioc Ioc.Go

def refsVal (l : List Nat) : Val := .list (l.map (fun i => Val.ref i 0))

/-- a nil slice until something is appended -/
def refsNil : List Nat → Val
  | [] => .nil
  | l => refsVal l

def decRefs : List Val → List Nat
  | [] => []
  | .ref i _ :: rest => i :: decRefs rest
  | _ :: rest => decRefs rest

theorem decRefs_map (l : List Nat) : decRefs (l.map (fun i => Val.ref i 0)) = l := by
  induction l with
  | nil => rfl
  | cons x rest ih => simp [decRefs, ih]

/-! ### PrepareComponents -/

structure PCP where
  names : List String                       -- singletonRegistry.GetSingletonNames(), in the order it enumerates them
  single : String → Except String Nat       -- singletonRegistry.GetSingleton(name)
  isCPP : Nat → Bool                        -- implements container.ComponentPostProcessor
  isDRPP : Nat → Bool                       -- … DefinitionRegistryPostProcessor
  isCFPP : Nat → Bool                       -- … ComponentFactoryPostProcessor
  invokeErr : List Nat → Option String      -- delegate.InvokeBeanFactoryPostProcessors(f, these)

structure PCW where
  regComps : List (String × Nat)            -- f.registeredComponents
  beanPPs : List (Nat × String)             -- calls of registerBeanPostProcessors(p, name)
  defPPs : List Nat                         -- f.definitionRegistryPostProcessors
  invoked : Option (List Nat)               -- the factory post-processors handed to InvokeBeanFactoryPostProcessors
deriving DecidableEq, Repr

def rcSet (n : String) (i : Nat) : List (String × Nat) → List (String × Nat)
  | [] => [(n, i)]
  | (n', i') :: rest => if n' = n then (n, i) :: rest else (n', i') :: rcSet n i rest

def singleVal (p : PCP) (n : String) : Val :=
  match p.single n with
  | .ok i => .tuple [.ref i 0, .nil]
  | .error e => .tuple [.nil, .str e]

def assertVal (b : Bool) (i : Nat) : Val := if b then .tuple [.ref i 0, .bool true] else .tuple [.nil, .bool false]

def pcFn (p : PCP) : String → List Val → PCW → Option (Val × PCW)
  | "self.singletonRegistry.GetSingletonNames", [], w => some (.list (p.names.map Val.str), w)
  | "$self", [], w => some (.ref 0 120, w)
  | "make:map[string]any", [.int _], w => some (.ref 0 121, w)
  | ".set:registeredComponents", [.ref 0 120, .ref 0 121], w => some (.tuple [], { w with regComps := [] })   -- a FRESH map
  | "self.singletonRegistry.GetSingleton", [.str n], w => some (singleVal p n, w)
  | "assert2:container.ComponentPostProcessor", [.ref i 0], w => some (assertVal (p.isCPP i) i, w)
  | "assert2:container.DefinitionRegistryPostProcessor", [.ref i 0], w => some (assertVal (p.isDRPP i) i, w)
  | "assert2:container.ComponentFactoryPostProcessor", [.ref i 0], w => some (assertVal (p.isCFPP i) i, w)
  | "self.registerBeanPostProcessors", [.ref i 0, .str n], w => some (.tuple [], { w with beanPPs := w.beanPPs ++ [(i, n)] })
  | "$self.definitionRegistryPostProcessors", [], w => some (refsVal w.defPPs, w)
  | "append", [.list l, .ref i 0], w => some (.list (l ++ [.ref i 0]), w)
  | "append", [.nil, .ref i 0], w => some (.list [.ref i 0], w)
  | ".set:definitionRegistryPostProcessors", [.ref 0 120, .list l], w => some (.tuple [], { w with defPPs := decRefs l })
  | "$self.registeredComponents", [], w => some (.ref 0 121, w)
  | ".setidx", [.ref 0 121, .str n, .ref i 0], w => some (.tuple [], { w with regComps := rcSet n i w.regComps })
  | "self.postProcessorRegistrationDelegate.InvokeBeanFactoryPostProcessors", [.ref 0 120, .nil], w =>
      some (match p.invokeErr [] with | none => .nil | some e => .str e, { w with invoked := some [] })
  | "self.postProcessorRegistrationDelegate.InvokeBeanFactoryPostProcessors", [.ref 0 120, .list l], w =>
      some (match p.invokeErr (decRefs l) with | none => .nil | some e => .str e, { w with invoked := some (decRefs l) })
  | _, _, _ => none

def pcPrims (p : PCP) : Prims PCW := { fn := pcFn p }

/-- one singleton name: (the factory post-processors so far, the world) ↦ the same after it, or the error that ends the loop -/
def pcStep (p : PCP) (n : String) (fpp : List Nat) (w : PCW) : List Nat × PCW × Option Val :=
  match p.single n with
  | .error e => (fpp, w, some (.str e))
  | .ok i =>
    (if p.isCFPP i then fpp ++ [i] else fpp,
     { w with beanPPs := if p.isCPP i then w.beanPPs ++ [(i, n)] else w.beanPPs,
              defPPs := if p.isDRPP i then w.defPPs ++ [i] else w.defPPs,
              regComps := rcSet n i w.regComps },
     none)

/-! ### GetComponents -/

structure GCP where
  metas : List Nat                          -- definitionRegistry.GetMetas(opts...), in the order it returns them
  nameOf : Nat → String                     -- meta.Name()
  get : String → Except String Nat          -- f.GetComponentByName(name)

def gcFn (p : GCP) : String → List Val → List String → Option (Val × List String)
  | "self.definitionRegistry.GetMetas", [_], w => some (.list (p.metas.map (fun i => Val.ref i 1)), w)
  | ".Name", [.ref i 1], w => some (.str (p.nameOf i), w)
  | "self.GetComponentByName", [.str n], w =>
      some (match p.get n with
            | .ok c => .tuple [.ref c 0, .nil]
            | .error e => .tuple [.nil, .str e], w ++ [n])
  | "append", [.list l, .ref i 0], w => some (.list (l ++ [.ref i 0]), w)
  | "append", [.nil, .ref i 0], w => some (.list [.ref i 0], w)
  | _, _, _ => none

def gcPrims (p : GCP) : Prims (List String) := { fn := gcFn p }

def gcStep (p : GCP) (m : Nat) (acc : List Nat) (w : List String) : List Nat × List String × Option Val :=
  match p.get (p.nameOf m) with
  | .ok c => (acc ++ [c], w ++ [p.nameOf m], none)
  | .error e => (acc, w ++ [p.nameOf m], some (.tuple [.nil, .str e]))

/-! ### RegisterComponentPostProcessors -/

structure RCW where
  hasInst : Bool
  hasDestr : Bool
  raw : List Nat
deriving DecidableEq, Repr

def rcFn (isInst isDestr : Nat → Bool) : String → List Val → RCW → Option (Val × RCW)
  | "assert2:container.InstantiationAwareComponentPostProcessor", [.ref i 0], w => some (assertVal (isInst i) i, w)
  | "assert2:container.DestructionAwareComponentPostProcessor", [.ref i 0], w => some (assertVal (isDestr i) i, w)
  | "$self", [], w => some (.ref 0 120, w)
  | ".set:hasInstantiationAwareComponentPostProcessor", [.ref 0 120, .bool true], w => some (.tuple [], { w with hasInst := true })
  | ".set:hasDestructionAwareComponentPostProcessor", [.ref 0 120, .bool true], w => some (.tuple [], { w with hasDestr := true })
  | "$self.rawComponentPostProcessors", [], w => some (refsVal w.raw, w)
  | "append", [.list l, .ref i 0], w => some (.list (l ++ [.ref i 0]), w)
  | ".set:rawComponentPostProcessors", [.ref 0 120, .list l], w => some (.tuple [], { w with raw := decRefs l })
  | _, _, _ => none

def rcPrims (isInst isDestr : Nat → Bool) : Prims RCW := { fn := rcFn isInst isDestr }

/-! ### NewMeta / CreateProxy / genProxyComponent -/

/-- a definition under construction -/
structure MetaObj where
  raw : Nat                      -- Raw: the component it was built for
  name : String
  alias : String
  proxyOf : Option Nat           -- ProxyMeta: the definition this one stands in front of
  scanned : Bool                 -- scanFields ran on it
deriving DecidableEq, Repr

structure NMW where
  metas : List MetaObj
  intercepted : List Nat         -- interceptor calls, in order

def nmFn (naming : Nat → String × String) (icept : Nat → Option String) : String → List Val → NMW → Option (Val × NMW)
  | "NewBase", [.ref c 0], w => some (.ref c 130, w)
  | "framework_helper.GetComponentNameWithAlias", [.ref c 0], w => some (.tuple [.str (naming c).1, .str (naming c).2], w)
  | "sync2.New", [], w => some (.ref 0 131, w)
  | "make:map[PropertyType][]*Property", [], w => some (.ref 0 132, w)
  | "&Meta{Base,name,alias,Raw,dependentSet,propertyGroup}", [.ref c 130, .str n, .str a, .ref c' 0, .ref 0 131, .ref 0 132], w =>
      if c = c' then some (.ref w.metas.length 1, { w with metas := w.metas ++ [⟨c, n, a, none, false⟩] }) else none
  | "NewHolder", [.ref m 1], w => some (.ref m 133, w)
  | ".scanFields", [.ref m 1, .ref m' 133], w =>
      if m = m' then (w.metas[m]?).map (fun o => (.tuple [], { w with metas := w.metas.set m { o with scanned := true } })) else none
  | _, _, _ => none

def nmPrims (naming : Nat → String × String) (icept : Nat → Option String) : Prims NMW := { fn := nmFn naming icept }

/-- CreateProxy's own primitives: NewMeta as proved of its regenerated body -/
def cpFn (naming : Nat → String × String) (icept : Nat → Option String) : String → List Val → NMW → Option (Val × NMW)
  | "NewMeta", [.ref c 0], w =>
      some (.ref w.metas.length 1, { w with metas := w.metas ++ [⟨c, (naming c).1, (naming c).2, none, true⟩] })
  | ".SetName", [.ref m 1, .str n], w => (w.metas[m]?).map (fun o => (.tuple [], { w with metas := w.metas.set m { o with name := n } }))
  | ".set:ProxyMeta", [.ref m 1, .ref o 1], w =>
      (w.metas[m]?).map (fun mo => (.tuple [], { w with metas := w.metas.set m { mo with proxyOf := some o } }))
  | ".call", [.ref k 140, .str _, .ref _ 1], w =>
      some (match icept k with | none => .nil | some e => .str e, { w with intercepted := w.intercepted ++ [k] })
  | "component_definition.CreateProxy", [.ref o 1, .str n, .ref c 0], w =>
      some (.tuple [.ref w.metas.length 1, .nil], { w with metas := w.metas ++ [⟨c, n, (naming c).2, some o, true⟩] })
  | _, _, _ => none

def cpPrims (naming : Nat → String × String) (icept : Nat → Option String) : Prims NMW := { fn := cpFn naming icept }

end Ioc.Sem
