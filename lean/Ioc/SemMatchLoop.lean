/-
  Ioc.SemMatchLoop — interpretation of the primitives called by the REGENERATED program of
  dependencyFurtherMatchingPostProcessors.PostProcessProperties (the per-property loop around filterDependencies) and the
  function it computes (`fmLoop`).  Properties are `.ref i 20` (i = position); `filterDependencies(prop, prop.Injects)` answers
  with `Sem.filterDeps` of that property's context (that this IS the regenerated filterDependencies: C08_code_filterDependencies).
  The world is the list of `prop.Injects = …` stores, in order.
-/
import Ioc.SemMatch
namespace Ioc.Sem
open Ioc Ioc.Go Ioc.Match Ioc.Tag

structure PropInfo where
  isComponent : Bool
  ctx : FDCtx
  injects : List (Option Nat)

def propAt (ps : List PropInfo) (i : Nat) : Option PropInfo := ps[i]?

def decIds (vs : List Val) : Option (List Nat) :=
  vs.mapM (fun v => match v with | .ref m 0 => some m | _ => none)

def fmFn (ps : List PropInfo) : String → List Val → List (Nat × List Nat) → Option (Val × List (Nat × List Nat))
  | ".PropertyType", [.ref i 20], w => (propAt ps i).map (fun p => (.int (if p.isComponent then 0 else 1), w))
  | "$component_definition.PropertyTypeComponent", [], w => some (.int 0, w)
  | ".Injects", [.ref i 20], w => (propAt ps i).map (fun p => (.list (p.injects.map encOptId), w))
  | "filterDependencies", [.ref i 20, .list _], w => (propAt ps i).map (fun p => (encFD (filterDeps p.ctx p.injects), w))
  | ".IsRequired", [.ref i 20], w => (propAt ps i).map (fun p => (.bool (isRequired p.ctx.args), w))
  | ".String", [.ref _ 20], w => some (.str "prop", w)
  | "errors.WithMessagef", _, w => some (errV, w)
  | ".set:Injects", [.ref i 20, .nil], w => some (.tuple [], w ++ [(i, [])])
  | ".set:Injects", [.ref i 20, .list vs], w => (decIds vs).map (fun l => (.tuple [], w ++ [(i, l)]))
  | _, _, _ => none

def fmPrims (ps : List PropInfo) : Prims (List (Nat × List Nat)) := { fn := fmFn ps }

/-- one property: `none` = the loop returns an error; `some log'` = the stores so far -/
def fmStep (p : PropInfo) (i : Nat) (log : List (Nat × List Nat)) : Option (List (Nat × List Nat)) :=
  if !p.isComponent then some log else
  match filterDeps p.ctx p.injects with
  | some l => some (log ++ [(i, l)])
  | none => if isRequired p.ctx.args then none else some (log ++ [(i, [])])

/-- the loop over the properties k, k+1, … -/
def fmLoop : List PropInfo → Nat → List (Nat × List Nat) → List (Nat × List Nat) × Bool
  | [], _, log => (log, false)
  | p :: rest, k, log =>
    match fmStep p k log with
    | none => (log, true)
    | some log' => fmLoop rest (k + 1) log'

end Ioc.Sem
