/-
  Ioc.SemInject — interpretation of the primitives called by the REGENERATED program of
  component_definition/property.go `Property.Inject` (Ioc.Progs.prop_Inject) and the function it computes (`injectModel`).

  The metas handed to Inject are `.ref i 0` (i = an id); `isSelf i` is `n.Holder.Meta.IsSelf(m)`, `assignable i` is
  `m.Value.Type().AssignableTo(elemType)`.  The world records what reflection wrote into the field (`Value.Set`,
  `Value.Index(i).Set`), the `dependOn` calls and `n.Injects`.
-/
import Ioc.GoSem
import Ioc.Generated.Progs
namespace Ioc.Sem
open Ioc Ioc.Go

structure InjCtx where
  isComponent : Bool
  required : Bool
  slice : Bool
  isSelf : Nat → Bool
  assignable : Nat → Bool

structure InjW where
  single : Option Nat := none           -- n.Value.Set(m.Value)
  made : Option Nat := none             -- n.Value.Set(reflect.MakeSlice(_, k, k))
  elems : List (Nat × Nat) := []        -- n.Value.Index(i).Set(m.Value), in call order
  deps : List Nat := []                 -- m.dependOn(holder), in call order
  injects : Option (List Nat) := none   -- n.Injects = metas
deriving Repr, DecidableEq

def errI : Val := .str "error"
def encM (i : Nat) : Val := .ref i 0

def decM : Val → Option Nat
  | .ref i 0 => some i
  | _ => none

def injFn (c : InjCtx) : String → List Val → InjW → Option (Val × InjW)
  | "$self.PropertyType", [], w => some (.int (if c.isComponent then 0 else 1), w)
  | "$PropertyTypeComponent", [], w => some (.int 0, w)
  | "self.IsRequired", [], w => some (.bool c.required, w)
  | "self.Holder.Meta.IsSelf", [.ref i 0], w => some (.bool (c.isSelf i), w)
  | "$self.Type", [], w => some (.ref 0 5, w)
  | "self.Type.Kind", [], w => some (.int (if c.slice then 23 else 22), w)
  | "$reflect.Slice", [], w => some (.int 23, w)
  | "$reflect.Array", [], w => some (.int 17, w)
  | "self.Type.Elem", [], w => some (.ref 0 6, w)
  | ".Value", [.ref i 0], w => some (.ref i 4, w)
  | ".Type", [.ref i 4], w => some (.ref i 7, w)
  | ".AssignableTo", [.ref i 7, _], w => some (.bool (c.assignable i), w)
  | ".Name", [.ref _ 0], w => some (.str "name", w)
  | "self.Holder.Stack", [], w => some (.str "stack", w)
  | "$self", [], w => some (.ref 0 9, w)
  | "$self.Holder.Meta", [], w => some (.ref 0 10, w)
  | "errors.Errorf", _, w => some (errI, w)
  | "reflect.MakeSlice", [.ref 0 5, .int k, .int _], w => some (.ref k.toNat 8, w)
  | "self.Value.Set", [.ref k 8], w => some (.tuple [], { w with made := some k })
  | "self.Value.Set", [.ref i 4], w => some (.tuple [], { w with single := some i })
  | "self.Value.Index", [.int i], w => some (.ref i.toNat 11, w)
  | ".Set", [.ref i 11, .ref m 4], w => some (.tuple [], { w with elems := w.elems ++ [(i, m)] })
  | ".dependOn", [.ref m 0, .ref 0 10], w => some (.tuple [], { w with deps := w.deps ++ [m] })
  | ".set:Injects", [.ref 0 9, .list vs], w => (vs.mapM decM).map (fun l => (.tuple [], { w with injects := some l }))
  | _, _, _ => none

/-- `filter(metas, func(m) bool {…})` of the package: keep what the function literal accepts -/
def injHfn : String → List Val → Handler InjW → InjW → Option (Val × InjW)
  | "filter", [.list vs], h, w =>
      (filterM (fun v w' => match h [v] w' with
                            | some (.bool b, w'') => some (b, w'')
                            | _ => none) vs w).map (fun (r, w') => (.list r, w'))
  | _, _, _, _ => none

def injPrims (c : InjCtx) : Prims InjW := { fn := injFn c, hfn := injHfn }

/-- Inject after the self filter: `ms` are the metas that are left -/
def injectTail (c : InjCtx) (ms : List Nat) : Bool × InjW :=
  if ms.isEmpty then (c.required, {}) else
  if ms.any (fun m => !(c.assignable m)) then (c.required, {}) else
  if c.slice then
    (false, { made := some ms.length, elems := (List.range ms.length).zip ms, deps := ms, injects := some ms })
  else
    match ms with
    | m :: _ => (false, { single := some m, deps := [m], injects := some ms })
    | [] => (c.required, {})

/-- Property.Inject as a function: the error flag and what was written -/
def injectModel (c : InjCtx) (metas : List Nat) : Bool × InjW :=
  if !c.isComponent then (true, {}) else
  if metas.isEmpty then (c.required, {}) else
  injectTail c (metas.filter (fun m => !(c.isSelf m)))

end Ioc.Sem
