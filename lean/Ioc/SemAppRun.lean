/-
  Ioc.SemAppRun — interpretation of the primitives called by the REGENERATED programs
    app/app.go                               App.initiate, App.Run
    container/support/singleton_registry.go  registry.RegisterSingleton
  `logger().Fatalf` / `logger().Panicf` are NOT dropped as logging by the translator: whether Fatalf returns is the
  parameter `fatalReturns` (it does when the log level is above Fatal; at the default level the library's
  `syslog.Fatal` calls itself without end — DESIGN.md section 10), Panicf does not return (`none`).
-/
import Ioc.GoSem
import Ioc.Generated.Progs
namespace Ioc.Sem
open Ioc Ioc.Go

/-- what a start does to its collaborators, in order -/
inductive ACall
  | setRegistry | setConfigure
  | register (what : String)          -- registry.RegisterSingleton(<the App itself | the processor built by New…>)
  | option (i : Nat)                  -- the i-th option applied to the App
  | initiate | run
deriving DecidableEq, Repr

structure AIP where
  hasConf : Bool
  hasReg : Bool
  hasFac : Bool

def aiFn (p : AIP) : String → List Val → List ACall → Option (Val × List ACall)
  | "$self.Configure", [], w => some (if p.hasConf then .ref 0 100 else .nil, w)
  | "$self.registry", [], w => some (if p.hasReg then .ref 0 101 else .nil, w)
  | "$self.Factory", [], w => some (if p.hasFac then .ref 0 102 else .nil, w)
  | "$self", [], w => some (.str "App", w)
  | "errors.New", [.str m], w => some (.str m, w)
  | "self.Factory.SetRegistry", [.ref 0 101], w => some (.tuple [], w ++ [.setRegistry])
  | "self.Factory.SetConfigure", [.ref 0 100], w => some (.tuple [], w ++ [.setConfigure])
  | "processors.NewLoggerAwarePostProcessor", [], w => some (.str "logger", w)
  | "processors.NewConfigQuoteAwarePostProcessors", [], w => some (.str "configQuote", w)
  | "processors.NewExpressionTagAwarePostProcessors", [], w => some (.str "expressionTag", w)
  | "processors.NewPropertiesAwarePostProcessors", [], w => some (.str "properties", w)
  | "processors.NewValueAwarePostProcessors", [], w => some (.str "value", w)
  | "processors.NewValidateAwarePostProcessors", [], w => some (.str "validate", w)
  | "processors.NewDependencyAwarePostProcessors", [], w => some (.str "dependency", w)
  | "processors.NewDependencyFurtherMatchingProcessors", [], w => some (.str "furtherMatching", w)
  | "processors.NewDependencyFunctionAwarePostProcessors", [], w => some (.str "dependencyFunction", w)
  | "self.registry.RegisterSingleton", [.str c], w => some (.tuple [], w ++ [.register c])
  | _, _, _ => none

def aiPrims (p : AIP) : Prims (List ACall) := { fn := aiFn p }

/-- the ten components every start registers, in this order -/
def builtinOrder : List String :=
  ["App", "logger", "configQuote", "expressionTag", "properties", "value", "validate", "dependency", "furtherMatching",
   "dependencyFunction"]

structure ARP where
  globals : List Nat                 -- the package-level `globalOptions`
  initErr : Option String            -- what s.initiate() returns
  runErr : Option String             -- what s.run() returns
  fatalReturns : Bool                -- logger().Fatalf returns (log level above Fatal)

def optVals (l : List Nat) : Val := .list (l.map (fun i => Val.ref i 110))

def arFn (p : ARP) : String → List Val → List ACall → Option (Val × List ACall)
  | "$globalOptions", [], w => some (optVals p.globals, w)
  | "append...", [.list a, .list b], w => some (.list (a ++ b), w)
  | "$self", [], w => some (.str "App", w)
  | ".call", [.ref i 110, .str "App"], w => some (.tuple [], w ++ [.option i])
  | "self.initiate", [], w => some (match p.initErr with | none => .nil | some e => .str e, w ++ [.initiate])
  | "self.logger", [], w => some (.ref 0 111, w)
  | ".Fatalf", [.ref 0 111, .str "%+v", .str _], w => if p.fatalReturns then some (.tuple [], w) else none
  | "self.run", [], w => some (match p.runErr with | none => .nil | some e => .str e, w ++ [.run])
  | _, _, _ => none

def arPrims (p : ARP) : Prims (List ACall) := { fn := arFn p }

/-! ### registry.RegisterSingleton -/

abbrev CMap := List (String × Nat)

def cmLoad (m : CMap) (n : String) : Option Nat := (m.find? (fun e => e.1 == n)).map (·.2)

def cmStore (n : String) (i : Nat) : CMap → CMap
  | [] => [(n, i)]
  | (n', i') :: rest => if n' = n then (n, i) :: rest else (n', i') :: cmStore n i rest

def rsFn (nameOf : Nat → String) : String → List Val → CMap → Option (Val × CMap)
  | "framework_helper.GetComponentName", [.ref i 0], w => some (.str (nameOf i), w)
  | "self.componentsMap.Load", [.str n], w =>
      some (match cmLoad w n with
            | some j => .tuple [.ref j 0, .bool true]
            | none => .tuple [.nil, .bool false], w)
  | "self.logger", [], w => some (.ref 0 111, w)
  | ".Panicf", [.ref 0 111, .str "register duplicated component %s", .str _], _ => none       -- a panic
  | "self.componentsMap.Store", [.str n, .ref i 0], w => some (.tuple [], cmStore n i w)
  | _, _, _ => none

def rsPrims (nameOf : Nat → String) : Prims CMap := { fn := rsFn nameOf }

end Ioc.Sem
