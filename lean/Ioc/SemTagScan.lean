/-
  Ioc.SemTagScan — interpretation of the primitives called by the REGENERATED programs
    container/processors/default_tag_scan_definition_registry_post_processor.go   PostProcessDefinitionRegistry
    component_definition/property.go                                              NewProperty
  A scanned field is its position `i` in `meta.Fields`; what reflection and the (user-supplied) ExtractHandler answer about it
  are parameters (`TSD`).  A Property is a pointer: `Property.SetArg` changes the object every holder of the pointer sees, so
  the properties live in the WORLD, keyed by the field they were built for (one `NewProperty` per field and call).
-/
import Ioc.GoSem
import Ioc.Generated.Progs
import Ioc.Scan
namespace Ioc.Sem
open Ioc Ioc.Go

/-- the processor `d` and what it is told about the fields -/
structure TSD where
  nodeType : String                        -- d.NodeType
  tag : String                             -- d.Tag
  hasExt : Bool                            -- d.ExtractHandler != nil
  required : Bool                          -- d.Required
  lookup : Nat → Option String             -- field.StructField.Tag.Lookup(d.Tag)
  ext : Nat → Option (String × String)     -- d.ExtractHandler(meta, field): (tag, tagVal) when ok
  hasReq : String → Bool                   -- NewProperty(…, tagVal).Args().Has(ArgRequired)

/-- a property object -/
structure TSProp where
  field : Nat
  nodeType : String
  tag : String
  tagVal : String        -- the raw text handed to NewProperty
  reqSet : Bool          -- SetArg(ArgRequired) was called on it
deriving DecidableEq, Repr

structure TW where
  prop : Nat → Option TSProp       -- the property object built for field i
  metaProps : List TSProp          -- what meta.SetProperties was handed, in order (as the objects are at that moment)

/-- lines 21-35 for one field: the `d.Tag` lookup wins; else the ExtractHandler, whose empty tag means `d.Tag` -/
def recogS (d : TSD) (i : Nat) : Option (String × String) :=
  match (if d.tag ≠ "" then d.lookup i else none) with
  | some tv => some (d.tag, tv)
  | none =>
    if d.hasExt then
      match d.ext i with
      | some (t, tv) => some (if t = "" then d.tag else t, tv)
      | none => none
    else none

def TSProp.has (d : TSD) (p : TSProp) : Bool := d.hasReq p.tagVal || p.reqSet

/-- lines 38-42 on one property -/
def TSProp.applyReq (d : TSD) (p : TSProp) : TSProp := if d.required && !(p.has d) then { p with reqSet := true } else p

def propVals : List Nat → Val
  | [] => .nil
  | l => .list (l.map (fun i => Val.ref i 30))

def decIdx : List Val → List Nat
  | [] => []
  | .ref i _ :: rest => i :: decIdx rest
  | _ :: rest => decIdx rest

theorem decIdx_map (l : List Nat) : decIdx (l.map (fun i => Val.ref i 30)) = l := by
  induction l with
  | nil => rfl
  | cons x rest ih => simp [decIdx, ih]

def setProp (w : TW) (i : Nat) (p : TSProp) : TW := { w with prop := fun k => if k = i then some p else w.prop k }

def lookupVal (d : TSD) (i : Nat) : Val :=
  match d.lookup i with
  | some v => .tuple [.str v, .bool true]
  | none => .tuple [.str "", .bool false]

def extVal (d : TSD) (i : Nat) : Val :=
  match d.ext i with
  | some (t, tv) => .tuple [.str t, .str tv, .bool true]
  | none => .tuple [.str "", .str "", .bool false]

def tsFn (d : TSD) (fs : List Nat) : String → List Val → TW → Option (Val × TW)
  | ".GetMetaOrRegister", [.ref 0 2, .str _, .ref 0 3], w => some (.ref 0 1, w)
  | ".Fields", [.ref 0 1], w => some (.list (fs.map (fun i => Val.ref i 60)), w)
  | "$self.Tag", [], w => some (.str d.tag, w)
  | "$self.NodeType", [], w => some (.str d.nodeType, w)
  | "$self.Required", [], w => some (.bool d.required, w)
  | "$self.ExtractHandler", [], w => some (if d.hasExt then .ref 0 5 else .nil, w)
  | "$component_definition.ArgRequired", [], w => some (.ref 0 7, w)
  | ".StructField", [.ref i 60], w => some (.ref i 61, w)
  | ".Tag", [.ref i 61], w => some (.ref i 62, w)
  | ".Lookup", [.ref i 62, .str k], w =>
      if k = d.tag then
        some (lookupVal d i, w)
      else none
  | "self.ExtractHandler", [.ref 0 1, .ref i 60], w =>
      if d.hasExt then
        some (extVal d i, w)
      else none                                                   -- a call through a nil function value panics
  | "component_definition.NewProperty", [.ref i 60, .str nt, .str t, .str tv], w =>
      some (.ref i 30, setProp w i ⟨i, nt, t, tv, false⟩)
  | "append", [.nil, .ref i 30], w => some (.list [.ref i 30], w)
  | "append", [.list l, .ref i 30], w => some (.list (l ++ [.ref i 30]), w)
  | ".Args", [.ref i 30], w => some (.ref i 31, w)
  | ".Has", [.ref i 31, .ref 0 7], w => (w.prop i).map (fun p => (.bool (p.has d), w))
  | ".SetArg", [.ref i 30, .ref 0 7], w => (w.prop i).map (fun p => (.tuple [], setProp w i { p with reqSet := true }))
  | ".SetProperties", [.ref 0 1, .nil], w => some (.tuple [], w)
  | ".SetProperties", [.ref 0 1, .list l], w => some (.tuple [], { w with metaProps := w.metaProps ++ (decIdx l).filterMap w.prop })
  | _, _, _ => none

def tsPrims (d : TSD) (fs : List Nat) : Prims TW := { fn := tsFn d fs }

/-- what one call hands to the meta: a property for every recognised field, in field order, marked required by default -/
def tagScanSpec (d : TSD) (fs : List Nat) : List TSProp :=
  fs.filterMap fun i => (recogS d i).map fun r => TSProp.applyReq d ⟨i, d.nodeType, r.1, r.2, false⟩

/-! ### NewProperty -/

/-- the objects NewProperty allocates -/
inductive NObj
  | args (parsed : Option String)          -- a TagArg map; `some tv` once `Parse(tv)` has filled it
  | conf                                   -- the empty Configurations map
  | prop (field pt : Val) (tag tagStr tagVal : String) (conf args : Nat)
deriving Repr

/-- `pv tv` = what TagArg.Parse returns: the value part of the tag text (itself regenerated: `C19_code_Parse`) -/
def npFn (pv : String → String) : String → List Val → List NObj → Option (Val × List NObj)
  | "make:TagArg", [], w => some (.ref w.length 40, w ++ [.args none])
  | "make:map[string]any", [], w => some (.ref w.length 41, w ++ [.conf])
  | ".Parse", [.ref a 40, .str tv], w =>
      if a + 1 = w.length then some (.str (pv tv), w.take a ++ [.args (some tv)]) else none
  | "&Property{Field,PropertyType,Tag,TagStr,TagVal,Configurations,args}",
      [f, pt, .str t, .str s1, .str s2, .ref c 41, .ref a 40], w => some (.ref w.length 42, w ++ [.prop f pt t s1 s2 c a])
  | _, _, _ => none

def npPrims (pv : String → String) : Prims (List NObj) := { fn := npFn pv }

/-! ### the tag-scan model (`Ioc.Scan`) read as an instance of the interpretation

`e` writes a byte string as a Go string value of the embedding, `dec` reads it back. -/

open Ioc.Scan in
def tsdOf (e : Bytes → String) (dec : String → Bytes) (d : TagProc) (fields : List ScannedField) : TSD where
  nodeType := e d.nodeType
  tag := e d.tag
  hasExt := d.extract.isSome
  required := d.required
  lookup := fun i => (fields[i]?).bind fun f => (lookupTag d.tag f.info.tags).map e
  ext := fun i =>
    match d.extract, fields[i]? with
    | some h, some f =>
      match h f with
      | .yes t tv => some (e t, e tv)
      | _ => none
    | _, _ => none
  hasReq := fun tv => Tag.has (parseD (dec tv)).2 Tag.kRequired []

open Ioc.Scan in
/-- the model's Property for a property object of the interpretation -/
def propOf (dec : String → Bytes) (fields : List ScannedField) (p : TSProp) : Option Property :=
  (fields[p.field]?).map fun f =>
    ⟨f, dec p.nodeType, dec p.tag, (parseD (dec p.tagVal)).1,
      if p.reqSet then Tag.setArg (parseD (dec p.tagVal)).2 Tag.kRequired [] else (parseD (dec p.tagVal)).2⟩

/-! ### the two built-in ExtractHandlers (function literals in NewValueAwarePostProcessors / NewPropertiesAwarePostProcessors) -/

/-- what the value handler is told: the field's `prop` tag, `strings2.IndexSkipBlocks(s, ",")`, and Go's slice expressions
    `s[:i]` / `s[i:]` (`none` = the run-time panic of an out-of-range slice) -/
structure VXOps where
  lookup : Option String
  idx : String → Int
  sliceTo : String → Int → Option String
  sliceFrom : String → Int → Option String

/-- `fmt.Sprintf("${%s}%s", a, b)` -/
def fmtProp (a b : String) : String := "${" ++ a ++ "}" ++ b

def optStr : Option String → Option (Val × Unit)
  | some s => some (.str s, ())
  | none => none

def vxFn (o : VXOps) : String → List Val → Unit → Option (Val × Unit)
  | ".StructField", [.ref 0 60], w => some (.ref 0 61, w)
  | ".Tag", [.ref 0 61], w => some (.ref 0 62, w)
  | "$definition.PropTag", [], w => some (.ref 0 8, w)
  | ".Lookup", [.ref 0 62, .ref 0 8], w =>
      some (match o.lookup with
            | some v => .tuple [.str v, .bool true]
            | none => .tuple [.str "", .bool false], w)
  | "strings2.IndexSkipBlocks", [.str s, .str ","], w => some (.int (o.idx s), w)
  | "slice", [.str s, .nil, .int i], _ => optStr (o.sliceTo s i)
  | "slice", [.str s, .int i, .nil], _ => optStr (o.sliceFrom s i)
  | "fmt.Sprintf", [.str "${%s}%s", .str a, .str b], w => some (.str (fmtProp a b), w)
  | _, _, _ => none

def vxPrims (o : VXOps) : Prims Unit := { fn := vxFn o }

/-- value_aware_post_processors.go:24-34; `none` = panic -/
def valueExtractS (o : VXOps) : Option (String × String × Bool) :=
  match o.lookup with
  | none => some ("", "", false)
  | some tv =>
    if o.idx tv = -1 then some ("", fmtProp tv "", true)
    else
      match o.sliceTo tv (o.idx tv), o.sliceFrom tv (o.idx tv) with
      | some k, some rest => some ("", fmtProp k rest, true)
      | _, _ => none

def encExtract : String × String × Bool → Val
  | (t, tv, ok) => .tuple [.str t, .str tv, .bool ok]

/-- `marker` = the field's value implements ConfigurationProperties, and what its `Prefix()` returns -/
def mxFn (marker : Option String) : String → List Val → Unit → Option (Val × Unit)
  | ".Value", [.ref 0 60], w => some (.ref 0 63, w)
  | ".Interface", [.ref 0 63], w => some (.ref 0 64, w)
  | "assert2:definition.ConfigurationProperties", [.ref 0 64], w =>
      some (if marker.isSome then .tuple [.ref 0 65, .bool true] else .tuple [.nil, .bool false], w)
  | ".Prefix", [.ref 0 65], w => marker.map (fun p => (.str p, w))
  | _, _, _ => none

def mxPrims (marker : Option String) : Prims Unit := { fn := mxFn marker }

end Ioc.Sem
