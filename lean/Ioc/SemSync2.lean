/-
  Ioc.SemSync2 — interpretation of the primitives called by the REGENERATED programs of util/sync2/map.go
  (`Map.Load`, `Map.LoadOrStoreFn`) for ONE caller at a time: the underlying sync.Map is an association list, its Load and
  LoadOrStore are the (atomic) primitives; the world also counts how often the constructor `f` ran.
  (What concurrent callers can observe is C20's interleaving model; this is the sequential meaning of the methods.)
-/
import Ioc.GoSem
import Ioc.Basic
import Ioc.Generated.Progs
namespace Ioc.Sem
open Ioc Ioc.Go

structure MapW where
  m : List (Nat × Nat) := []
  fCalls : Nat := 0
deriving Repr, DecidableEq

def mapFn (fv : Nat) : String → List Val → MapW → Option (Val × MapW)
  | "self.m.Load", [.int k], w =>
      some (match alookup k.toNat w.m with
            | some v => .tuple [.int v, .bool true]
            | none => .tuple [.nil, .bool false], w)
  | "self.m.LoadOrStore", [.int k, .int v], w =>
      some (match alookup k.toNat w.m with
            | some old => (.tuple [.int old, .bool true], w)
            | none => (.tuple [.int v, .bool false], { w with m := ainsert k.toNat v.toNat w.m }))
  | "assert1:V", [.int v], w => some (.int v, w)
  | ".call", [.ref 0 30], w => some (.int fv, { w with fCalls := w.fCalls + 1 })
  | _, _, _ => none

def mapBase (fv : Nat) : Prims MapW := { fn := mapFn fv }

/-- a call of the sibling method Load = a run of its regenerated program -/
def callMapLoad (fv : Nat) (args : List Val) (w : MapW) : Option (Val × MapW) :=
  run (mapBase fv) Progs.sync2_Load args w

def mapPrims (fv : Nat) : Prims MapW :=
  { fn := fun f args w =>
      match f with
      | "self.Load" => callMapLoad fv args w
      | _ => mapFn fv f args w }

end Ioc.Sem
