/-
  Ioc.Basic — shared vocabulary of the model: byte strings, hex I/O, checked
  slicing (a Go slice expression that would panic is `none`), association lists.
  Core Lean only (no Mathlib) so that the driver links as a `lean_exe`.
-/
namespace Ioc

abbrev Bytes := List UInt8

/-! ### hex encoding used by the line protocol -/

def hexDigit (n : Nat) : Char :=
  if n < 10 then Char.ofNat (48 + n) else Char.ofNat (87 + n)

def hexOfByte (b : UInt8) : List Char :=
  [hexDigit (b.toNat / 16), hexDigit (b.toNat % 16)]

/-- hex of a byte string; the empty string is written `-` so that tokens never vanish -/
def toHex (s : Bytes) : String :=
  if s.isEmpty then "-" else String.ofList (s.flatMap hexOfByte)

def hexVal (c : Char) : Option Nat :=
  if '0' ≤ c ∧ c ≤ '9' then some (c.toNat - 48)
  else if 'a' ≤ c ∧ c ≤ 'f' then some (c.toNat - 87)
  else none

def fromHexAux : List Char → Option Bytes
  | [] => some []
  | [_] => none
  | a :: b :: rest =>
    match hexVal a, hexVal b, fromHexAux rest with
    | some x, some y, some r => some (UInt8.ofNat (16 * x + y) :: r)
    | _, _, _ => none

def fromHex (s : String) : Option Bytes :=
  if s = "-" then some [] else fromHexAux s.toList

/-- ASCII string literal as bytes (kernel-reducible, so `decide` works on examples) -/
def ofString (s : String) : Bytes := s.toList.map (fun c => UInt8.ofNat c.toNat)

/-! ### checked slicing: `s[lo:hi]` of Go, `none` where Go panics -/

def slice? {α : Type} (s : List α) (lo hi : Int) : Option (List α) :=
  if 0 ≤ lo ∧ lo ≤ hi ∧ hi ≤ s.length then some ((s.drop lo.toNat).take (hi.toNat - lo.toNat)) else none

/-! ### association lists (Go maps whose iteration order must not matter) -/

def alookup {κ ν : Type} [DecidableEq κ] (k : κ) : List (κ × ν) → Option ν
  | [] => none
  | (k', v) :: rest => if k' = k then some v else alookup k rest

/-- insert-or-replace, keeping the first position of the key (a Go map store) -/
def ainsert {κ ν : Type} [DecidableEq κ] (k : κ) (v : ν) : List (κ × ν) → List (κ × ν)
  | [] => [(k, v)]
  | (k', v') :: rest => if k' = k then (k, v) :: rest else (k', v') :: ainsert k v rest

theorem alookup_ainsert_same {κ ν : Type} [DecidableEq κ] (k : κ) (v : ν) (m : List (κ × ν)) :
    alookup k (ainsert k v m) = some v := by
  induction m with
  | nil => simp [ainsert, alookup]
  | cons p rest ih =>
    obtain ⟨k', v'⟩ := p
    simp only [ainsert]
    split
    · simp [alookup]
    · rename_i h; simp [alookup, h, ih]

theorem alookup_ainsert_other {κ ν : Type} [DecidableEq κ] (k k2 : κ) (v : ν) (m : List (κ × ν)) (h : k2 ≠ k) :
    alookup k2 (ainsert k v m) = alookup k2 m := by
  induction m with
  | nil => simp [ainsert, alookup, Ne.symm h]
  | cons p rest ih =>
    obtain ⟨k', v'⟩ := p
    simp only [ainsert]
    split
    · rename_i hk; subst hk; simp [alookup, Ne.symm h]
    · simp only [alookup]; split <;> simp [ih]

/-- lexicographic order on byte strings (Go's `<` on strings) -/
def bytesLt : Bytes → Bytes → Bool
  | [], [] => false
  | [], _ :: _ => true
  | _ :: _, [] => false
  | a :: as, b :: bs => if a < b then true else if b < a then false else bytesLt as bs

def insertSorted {α : Type} (lt : α → α → Bool) (x : α) : List α → List α
  | [] => [x]
  | y :: ys => if lt x y then x :: y :: ys else y :: insertSorted lt x ys

/-- insertion sort; stable. Used only to canonicalise output and as the concrete `sort` of the driver. -/
def isort {α : Type} (lt : α → α → Bool) (l : List α) : List α :=
  l.foldr (insertSorted lt) []

/-- stable variant: an element is inserted in front of the first later element that is not smaller,
    so equal keys keep their original order (Go's insertion sort, used by sort.Slice below 12 elements) -/
def insertStable {α : Type} (lt : α → α → Bool) (x : α) : List α → List α
  | [] => [x]
  | y :: ys => if lt y x then y :: insertStable lt x ys else x :: y :: ys

def isortStable {α : Type} (lt : α → α → Bool) (l : List α) : List α :=
  l.foldr (insertStable lt) []

def joinWith (sep : String) : List String → String
  | [] => ""
  | [x] => x
  | x :: rest => x ++ sep ++ joinWith sep rest

end Ioc
