/-
  Ioc.SemPopulate — interpretation of the primitives called by the REGENERATED program of factory.go `populateComponent`
  and the function it computes (`populateModel`): ResolveAfterInstantiation first; then, property by property in the order
  of GetComponentProperties (each node's `Injects` reset to nil beforehand), every candidate in the order of `Injects` through doGetComponent — stopping at the first
  error — and only then `Inject` with the components obtained, in that order.
  Tokens: property nodes `.ref i 20`, their dependency metas `.ref d 21`, obtained components `.ref d 0`.
-/
import Ioc.GoSem
import Ioc.Generated.Progs
namespace Ioc.Sem
open Ioc Ioc.Go

inductive PEv
  | reset (node : Nat)            -- node.Injects = nil
  | resolve
  | get (d : Nat)
  | inject (node : Nat) (comps : List Nat)
deriving DecidableEq, Repr

structure PC where
  n : Nat
  resolveOk : Bool
  props : List (List Nat)         -- GetComponentProperties(): for the i-th property node, the candidates THIS attempt's processors discover, in order
  stale : Nat → List Nat := fun _ => []   -- what node.Injects still holds from an earlier (failed) attempt of the same creation
  getOk : Nat → Bool              -- doGetComponent(name) succeeds
  injectOk : Nat → Bool           -- node.Inject(…) succeeds

def errP : Val := .str "error"

def depsOf (d : PC) (i : Nat) : List Nat := d.props.getD i []

def decComps (vs : List Val) : Option (List Nat) :=
  vs.mapM (fun v => match v with | .ref m 0 => some m | _ => none)

/-- node.Injects as the processors leave it: they APPEND what they discover to what is there — the leftovers of an earlier
    attempt unless the node was reset in this one (the state is read off the history) -/
def injectsNow (d : PC) (i : Nat) (t : List PEv) : List Nat :=
  if t.contains (.reset i) then depsOf d i else d.stale i ++ depsOf d i

def pcFn (d : PC) : String → List Val → List PEv → Option (Val × List PEv)
  | ".set:Injects", [.ref i 20, .nil], t => some (.tuple [], t ++ [.reset i])
  | "self.postProcessorRegistrationDelegate.ResolveAfterInstantiation", [.ref _ 0, .int _], t =>
      some (if d.resolveOk then .nil else errP, t ++ [.resolve])
  | ".GetComponentProperties", [.ref _ 0], t => some (.list ((List.range' 0 d.props.length).map (fun i => .ref i 20)), t)
  | ".Injects", [.ref i 20], t => some (.list ((injectsNow d i t).map (fun x => .ref x 21)), t)
  | ".Name", [.ref x 21], t => some (.int x, t)
  | "self.doGetComponent", [.int x], t =>
      some (if d.getOk x.toNat then .tuple [.ref x.toNat 0, .nil] else .tuple [.nil, errP], t ++ [.get x.toNat])
  | "append", [.nil, v], t => some (.list [v], t)
  | "append", [.list a, v], t => some (.list (a ++ [v]), t)
  | ".Inject", [.ref i 20, .list vs], t =>
      (decComps vs).map (fun l => (if d.injectOk i then .nil else errP, t ++ [.inject i l]))
  | ".Inject", [.ref i 20, .nil], t => some (if d.injectOk i then .nil else errP, t ++ [.inject i []])
  | _, _, _ => none

def pcPrims (d : PC) : Prims (List PEv) := { fn := pcFn d }

/-- the candidates of one point, in order, up to and including the first that fails -/
def getLoop (d : PC) : List Nat → List PEv × Bool
  | [] => ([], true)
  | x :: rest =>
    if d.getOk x then
      let r := getLoop d rest
      (.get x :: r.1, r.2)
    else ([.get x], false)

def nodeStep (d : PC) (node : Nat) (deps : List Nat) : List PEv × Bool :=
  if deps.isEmpty then ([], true) else
  let r := getLoop d deps
  if !r.2 then (r.1, false) else (r.1 ++ [.inject node deps], d.injectOk node)

def nodesLoop (d : PC) : Nat → List (List Nat) → List PEv × Bool
  | _, [] => ([], true)
  | k, deps :: rest =>
    let r := nodeStep d k deps
    if !r.2 then (r.1, false) else
      let r2 := nodesLoop d (k + 1) rest
      (r.1 ++ r2.1, r2.2)

/-- every property node is reset first -/
def resets (d : PC) : List PEv := (List.range' 0 d.props.length).map PEv.reset

/-- populateComponent: (calls made in order, succeeded) — whatever an earlier attempt left in the nodes (`d.stale`) plays
    no part: only the candidates discovered in this attempt are obtained and injected -/
def populateModel (d : PC) : List PEv × Bool :=
  if !d.resolveOk then (resets d ++ [.resolve], false) else
  let r := nodesLoop d 0 d.props
  (resets d ++ .resolve :: r.1, r.2)

end Ioc.Sem
