/-
  Ioc.SemPopulate — interpretation of the primitives called by the REGENERATED program of factory.go `populateComponent`
  and the function it computes (`populateModel`): ResolveAfterInstantiation first; then, property by property in the order
  of GetComponentProperties, every candidate in the order of `Injects` through doGetComponent — stopping at the first
  error — and only then `Inject` with the components obtained, in that order.
  Tokens: property nodes `.ref i 20`, their dependency metas `.ref d 21`, obtained components `.ref d 0`.
-/
import Ioc.GoSem
import Ioc.Generated.Progs
namespace Ioc.Sem
open Ioc Ioc.Go

inductive PEv
  | resolve
  | get (d : Nat)
  | inject (node : Nat) (comps : List Nat)
deriving DecidableEq, Repr

structure PC where
  n : Nat
  resolveOk : Bool
  props : List (List Nat)         -- GetComponentProperties(): for the i-th property node, the names of node.Injects in order
  getOk : Nat → Bool              -- doGetComponent(name) succeeds
  injectOk : Nat → Bool           -- node.Inject(…) succeeds

def errP : Val := .str "error"

def depsOf (d : PC) (i : Nat) : List Nat := d.props.getD i []

def decComps (vs : List Val) : Option (List Nat) :=
  vs.mapM (fun v => match v with | .ref m 0 => some m | _ => none)

def pcFn (d : PC) : String → List Val → List PEv → Option (Val × List PEv)
  | "self.postProcessorRegistrationDelegate.ResolveAfterInstantiation", [.ref _ 0, .int _], t =>
      some (if d.resolveOk then .nil else errP, t ++ [.resolve])
  | ".GetComponentProperties", [.ref _ 0], t => some (.list ((List.range' 0 d.props.length).map (fun i => .ref i 20)), t)
  | ".Injects", [.ref i 20], t => some (.list ((depsOf d i).map (fun x => .ref x 21)), t)
  | ".Name", [.ref x 21], t => some (.int x, t)
  | "self.doGetComponent", [.int x], t =>
      some (if d.getOk x.toNat then .tuple [.ref x.toNat 0, .nil] else .tuple [.nil, errP], t ++ [.get x.toNat])
  | "append", [.nil, v], t => some (.list [v], t)
  | "append", [.list a, v], t => some (.list (a ++ [v]), t)
  | ".Inject", [.ref i 20, .list vs], t =>
      (decComps vs).map (fun l => (if d.injectOk i then .nil else errP, t ++ [.inject i l]))
  | ".Inject", [.ref i 20, .nil], t => some (if d.injectOk i then .nil else errP, t ++ [.inject i []])
  | _, _, _ => none

def pcPrims (d : PC) : Prims (List PEv) := { fn := pcFn d }

/-- the candidates of one point, in order, up to and including the first that fails -/
def getLoop (d : PC) : List Nat → List PEv × Bool
  | [] => ([], true)
  | x :: rest =>
    if d.getOk x then
      let r := getLoop d rest
      (.get x :: r.1, r.2)
    else ([.get x], false)

def nodeStep (d : PC) (node : Nat) (deps : List Nat) : List PEv × Bool :=
  if deps.isEmpty then ([], true) else
  let r := getLoop d deps
  if !r.2 then (r.1, false) else (r.1 ++ [.inject node deps], d.injectOk node)

def nodesLoop (d : PC) : Nat → List (List Nat) → List PEv × Bool
  | _, [] => ([], true)
  | k, deps :: rest =>
    let r := nodeStep d k deps
    if !r.2 then (r.1, false) else
      let r2 := nodesLoop d (k + 1) rest
      (r.1 ++ r2.1, r2.2)

/-- populateComponent: (calls made in order, succeeded) -/
def populateModel (d : PC) : List PEv × Bool :=
  if !d.resolveOk then ([.resolve], false) else
  let r := nodesLoop d 0 d.props
  (.resolve :: r.1, r.2)

end Ioc.Sem
