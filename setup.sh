#!/bin/sh
# Builds the whole framework offline from files on disk: Go harness + facts translator (against /repo),
# regenerated Facts.lean, all Lean model/proof modules and the compiled driver.
set -e
cd "$(dirname "$0")"
export GOFLAGS=-mod=mod GOPROXY=off GOSUMDB=off GOTOOLCHAIN=local
mkdir -p .build evidence replays
cp /repo/go.sum harness/go.sum
(cd harness && go build -tags verif -o ../.build/harness ./cmd/harness && go build -o ../.build/facts ./cmd/facts)
mkdir -p lean/Ioc/Generated
./.build/facts /repo > lean/Ioc/Generated/Facts.lean.new && mv lean/Ioc/Generated/Facts.lean.new lean/Ioc/Generated/Facts.lean
./.build/facts -progs /repo > lean/Ioc/Generated/Progs.lean.new && mv lean/Ioc/Generated/Progs.lean.new lean/Ioc/Generated/Progs.lean
(cd lean && lake build)
echo "setup done"
