#!/usr/bin/env python3
"""Regenerates the round tables of DESIGN.md section 11 (between <!-- TABLE xx --> markers) from seeded/*/meta.json."""
import os, re, subprocess
V = os.path.dirname(os.path.dirname(os.path.abspath(__file__)))
p = os.path.join(V, "DESIGN.md")
s = open(p).read()
for letters in ("EF", "GH", "IJ", "KL", "MN", "OP", "QR", "ST"):
    t = subprocess.run(["python3", os.path.join(V, "lib", "seed_table.py"), letters], stdout=subprocess.PIPE, text=True).stdout
    s = re.sub(rf"<!-- TABLE {letters} -->.*?<!-- /TABLE {letters} -->", f"<!-- TABLE {letters} -->\n{t}<!-- /TABLE {letters} -->", s, flags=re.S)
open(p, "w").write(s)
print("tables updated")
