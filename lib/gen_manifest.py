#!/usr/bin/env python3
"""Regenerates MANIFEST.json from lib/props.py (single source for commands and level texts)."""
import json, os, sys
sys.path.insert(0, os.path.dirname(os.path.abspath(__file__)))
from props import PROPS

VERIF = os.path.dirname(os.path.dirname(os.path.abspath(__file__)))
ALL = [json.loads(l)["id"] for l in open(os.path.join(VERIF, "properties.jsonl")) if l.strip()]

NOTE_COMMON = ("Trusted base: Lean 4.33.0 kernel (axioms per theorem are printed into the evidence; only propext, "
               "Classical.choice, Quot.sound are accepted; no sorry/admit/native_decide/bv_decide/own axioms); the hand-written "
               "model lean/Ioc tied to /repo's working tree on every run by (a) the differential correspondence harness "
               "(real code built with -tags verif vs the compiled Lean driver on the same seeded scenarios) and (b) the go/ast "
               "facts translator regenerating lean/Ioc/Generated/Facts.lean and (c) the program translator regenerating the syntax "
               "trees of 169 functions (lean/Ioc/Generated/Progs.lean, MiniGo: lean/Ioc/GoSem.lean) about which the Cxx_code_* theorems "
               "are stated; the harness generators, canonicalisation and oracles; the MiniGo interpreter and the interpretation of "
               "the primitives in lean/Ioc/Sem*.lean. ")

m = {
    "version": 1,
    "setup_cmd": "./setup.sh",
    "hooks": {
        "guard": "verif",
        "enable": "go build -tags verif (the harness module /verif/harness replaces github.com/go-kid/ioc by /repo)",
        "baseline_off_cmd": "cd /repo && GOFLAGS=-mod=mod GOPROXY=off GOSUMDB=off go test -vet=off -count=1 ./...",
        "source_commits": ["11623ca"],
        "add_only": True,
    },
    "engines": [
        {"name": "lean-model-and-proofs", "path": "lean", "serves_properties": sorted(PROPS.keys()),
         "kind_free_text": "Lean 4 executable model (lean/Ioc), property theorems (lean/IocProofs/Cxx.lean), compiled line-protocol driver (iocdriver)"},
        {"name": "correspondence-harness", "path": "harness", "serves_properties": sorted(PROPS.keys()),
         "kind_free_text": "Go harness running the real container in-process on seeded scenarios; direct oracles; go/ast facts translator (cmd/facts)"},
    ],
    "checks": [],
    "not_applicable": [],
    "notes": "Every check is ./check <id>; VERIF_SEED and VERIF_TIER are honoured. See DESIGN.md.",
}
def module_exists(pid):
    return os.path.exists(os.path.join(VERIF, "lean", *PROPS[pid]["module"].split(".")) + ".lean")

for pid in ALL:
    if pid in PROPS and module_exists(pid):
        c = PROPS[pid]
        m["checks"].append({
            "property_id": pid,
            "quick_cmd": f"./check {pid} --tier quick",
            "thorough_cmd": f"./check {pid} --tier thorough",
            "evidence_file": f"evidence/{pid}.json",
            "replay_cmd_template": f"./check {pid} --replay {{path}}",
            "engine": "lean-model-and-proofs",
            "level_claimed": {"category": "proof", "text": c["level_text"], "design_ref": c.get("design_ref", "DESIGN.md section 6, " + pid)},
            "level_note": NOTE_COMMON + c.get("level_note", ""),
            "technique": c.get("technique", "Lean 4 theorems about an executable model, tied to the code by a differential correspondence check and regenerated facts"),
        })
    else:
        m["not_applicable"].append({"property_id": pid, "reason": "no check registered yet in this round of the build (model and theorems under construction); nothing is claimed"})
json.dump(m, open(os.path.join(VERIF, "MANIFEST.json"), "w"), indent=1)
print("MANIFEST.json:", len(m["checks"]), "checks,", len(m["not_applicable"]), "not claimed")
