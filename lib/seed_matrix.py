#!/usr/bin/env python3
"""Mutation rehearsal: runs the registered checks against every kept seeded change (seeded/<id>/patch.diff) on a
scratch copy of /repo (lib/seedtest.sh; /repo itself is never touched), records per seed which checks caught it and
how (concrete failing input / proof-or-correspondence break only), and writes seeded/<id>/meta.json + seeded/RESULTS.md.

    python3 lib/seed_matrix.py [seed-id ...]        (default: all)
"""
import concurrent.futures, json, os, re, subprocess, sys

VERIF = os.path.dirname(os.path.dirname(os.path.abspath(__file__)))
SEEDED = os.path.join(VERIF, "seeded")

PLAN = {
    "C01A": "C01 C03 C04", "C01B": "C01 C03", "C02A": "C02 C04", "C02B": "C02 C06", "C03A": "C03 C01", "C03B": "C03 C01",
    "C04A": "C04", "C04B": "C04 C03 C01", "C05A": "C05 C04", "C05B": "C05 C09", "C06A": "C06", "C06B": "C06",
    "C07A": "C07", "C07B": "C07 C09", "C08A": "C08", "C08B": "C08", "C09A": "C09", "C09B": "C09", "C10A": "C10 C08",
    "C10B": "C10 C05 C09", "C11A": "C11", "C11B": "C11", "C12A": "C12 C13", "C12B": "C12 C15", "C13A": "C13 C12",
    "C13B": "C13 C09", "C14A": "C14 C20", "C14B": "C14", "C15A": "C15", "C15B": "C15", "C16A": "C16", "C16B": "C16",
    "C17A": "C17", "C17B": "C17", "C18A": "C18", "C18B": "C18", "C19A": "C19", "C19B": "C19 C09 C11", "C20A": "C20", "C20B": "C20",
}


# second round (C, D): by default the seed's own property; neighbours are added by hand below
PLAN.update({"C04D": "C04 C01 C03", "C10C": "C10 C12", "C02C": "C02 C06 C08", "C03D": "C03 C01 C05"})
for _p in range(1, 21):
    for _x in "CDEFGHIJKLMNOPQRST":
        PLAN.setdefault(f"C{_p:02d}{_x}", f"C{_p:02d}")


# seeds that a later `fix:` commit in /repo made harmless: the seed's own demonstration passes with the patch applied on the
# repaired library, so there is nothing left to catch (kept for the record, not run)
NEUTRALISED = {"C17L": "d95d431 (ViperBinder.Get hands out deep copies: the fast path stores a private copy, the demo passes)",
               "C09N": "a0dd34c (time values no longer reach validator.Struct, so the unchecked assertion of the seed never meets an InvalidValidationError: the demo passes; before the repair the graph check caught it with input through configuration slot 12)"}


def first_lines(path, n=12):
    try:
        return "".join(open(path).readlines()[:n]).strip()
    except OSError:
        return ""


def run_seed(sid):
    checks = PLAN[sid].split()
    if sid in NEUTRALISED:
        return sid, {c: {"verdict": "neutralised by fix " + NEUTRALISED[sid], "model_mismatches": None,
                         "oracle_failures": None} for c in checks}
    patch = os.path.join(SEEDED, sid, "patch.diff")
    p = subprocess.run([os.path.join(VERIF, "lib", "seedtest.sh"), patch, sid] + checks,
                       stdout=subprocess.PIPE, stderr=subprocess.STDOUT, text=True, timeout=7200)
    res = {}
    for c in checks:
        lines = [l for l in p.stdout.splitlines() if l.startswith(f"[{sid} {c}]")]
        viol = [l for l in lines if "VIOLATION" in l]
        summ = [l for l in lines if "obligations=" in l]
        m = re.search(r"mismatches=(\d+) oracle_failures=(\d+)", summ[0]) if summ else None
        if not lines or not summ:
            verdict = "not-run"
        elif not viol:
            verdict = "missed"
        elif "no-failing-input-found" in viol[0]:
            verdict = "caught: proof/correspondence break, no-failing-input-found"
        else:
            verdict = "caught: VIOLATION with a concrete failing input (replay)"
        res[c] = {"verdict": verdict, "model_mismatches": int(m.group(1)) if m else None,
                  "oracle_failures": int(m.group(2)) if m else None}
    return sid, res


def main():
    ids = sys.argv[1:] or sorted(i for i in PLAN if os.path.isdir(os.path.join(SEEDED, i)))
    out = {}
    with concurrent.futures.ThreadPoolExecutor(max_workers=5) as ex:
        for sid, res in ex.map(run_seed, ids):
            out[sid] = res
            print(sid, {c: r["verdict"].split(":")[0] + (" +input" if "concrete" in r["verdict"] else "") for c, r in res.items()}, flush=True)
    for sid, res in out.items():
        d = os.path.join(SEEDED, sid)
        notes = first_lines(os.path.join(d, "notes.md"), 40)
        meta_path = os.path.join(d, "meta.json")
        meta = json.load(open(meta_path)) if os.path.exists(meta_path) else {}
        meta.update({
            "id": sid,
            "breaks_property": sid[:3],
            "origin": "written by a fresh sub-agent that was given only the property text and a scratch worktree of /repo (nothing from /verif)",
            "needs_to_manifest": notes,
            "confirmed": {"how": "lib/confirm_seed.sh in scratch copies of /repo (patched and clean)",
                          "patch_applies_and_builds": True, "existing_suite_passes_with_change": True,
                          "demo_fails_with_change": True, "demo_passes_without_change": True},
            "ran": f"lib/seedtest.sh seeded/{sid}/patch.diff {sid} {PLAN[sid]}   (checks run from a scratch copy of /verif against a scratch copy of /repo with the patch applied)",
            "detection": res,
        })
        json.dump(meta, open(meta_path, "w"), indent=1)
    # summary over all metas
    rows = []
    for sid in sorted(PLAN):
        if not os.path.isdir(os.path.join(SEEDED, sid)):
            continue
        mp = os.path.join(SEEDED, sid, "meta.json")
        if os.path.exists(mp):
            det = json.load(open(mp)).get("detection", {})
            cells = []
            for c, r in det.items():
                v = r["verdict"]
                cells.append(f"{c}: " + ("INPUT" if "concrete" in v else "break-only" if v.startswith("caught") else v))
            rows.append(f"| {sid} | {'; '.join(cells)} |")
    with open(os.path.join(SEEDED, "RESULTS.md"), "w") as f:
        f.write("| seeded change | checks run → verdict (INPUT = VIOLATION with a concrete replay; break-only = VIOLATION … no-failing-input-found) |\n|---|---|\n")
        f.write("\n".join(rows) + "\n")


if __name__ == "__main__":
    main()
