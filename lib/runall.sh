#!/bin/sh
# runs every registered check (quick by default) and prints one summary line each
cd "$(dirname "$0")/.."
TIER=${1:-quick}
for p in $(python3 -c "import json;print(' '.join(c['property_id'] for c in json.load(open('MANIFEST.json'))['checks']))"); do
  out=$(./check $p --tier $TIER 2>&1); rc=$?
  echo "$p rc=$rc $(echo "$out" | grep -E 'obligations=' | sed 's/.*\] //' | cut -c1-140) $(echo "$out" | grep -cE '^KNOWN-FINDING') known-lines $(echo "$out" | grep -E '^VIOLATION|BROKEN' | cut -c1-160)"
done
