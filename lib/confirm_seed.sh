#!/bin/sh
# lib/confirm_seed.sh <Cxx> <A|B>   — independent confirmation of a seeded change in a scratch copy of /repo:
#   (1) the patch applies and the library builds, (2) the existing test suite passes with it,
#   (3) the demonstration fails with the change, (4) and passes on the unchanged tree.
# prints one line:  Cxx X build=ok suite=ok demo_with=FAIL demo_without=PASS
set -u
P=$1; X=$2
case "$X" in C|D) SRC=/tmp/seed/${P}_out2/$X;; E|F) SRC=/tmp/seed/${P}_out3/$X;; G|H) SRC=/tmp/seed/${P}_out4/$X;; I|J) SRC=/tmp/seed/${P}_out5/$X;; K|L) SRC=/tmp/seed/${P}_out6/$X;; M|N) SRC=/tmp/seed/${P}_out7/$X;; O|P) SRC=/tmp/seed/${P}_out8/$X;; Q|R) SRC=/tmp/seed/${P}_out9/$X;; S|T) SRC=/tmp/seed/${P}_out10/$X;; *) SRC=/tmp/seed/${P}_out/$X;; esac
W=/tmp/conf/$P$X
export GOFLAGS=-mod=mod GOPROXY=off GOSUMDB=off GOTOOLCHAIN=local
rm -rf "$W"; mkdir -p "$W"
cp -r /repo "$W/mut"; cp -r /repo "$W/clean"
( cd "$W/mut" && git checkout -q -- . && git apply "$SRC/patch.diff" ) || { echo "$P $X patch=DOES-NOT-APPLY"; rm -rf "$W"; exit 1; }
b=ok; ( cd "$W/mut" && go build ./... ) >/dev/null 2>&1 || b=FAIL
s=ok; ( cd "$W/mut" && go test -vet=off -count=1 ./... ) >"$W/suite.log" 2>&1 || s=FAIL
DEMO=$SRC/demo
[ -d "$DEMO" ] || DEMO=$SRC
rundemo() { # $1 = repo copy
  rm -rf "$W/demo"; cp -rL "$DEMO" "$W/demo"
  ( cd "$W/demo" && sed -i "s#=> /tmp/seed/$P\$#=> $1#; s#=> /tmp/seed/$P\([^_A-Za-z0-9]\)#=> $1\1#" go.mod && cp "$1/go.sum" go.sum 2>/dev/null; 
    if ls *_test.go >/dev/null 2>&1; then timeout 300 go test -count=1 ./... ; else timeout 300 go run . ; fi ) >"$W/demo.$2.log" 2>&1
  echo $?
}
rw=$(rundemo "$W/mut" with); rc=$(rundemo "$W/clean" without)
dw=PASS; [ "$rw" != "0" ] && dw=FAIL
dc=PASS; [ "$rc" != "0" ] && dc=FAIL
echo "$P $X build=$b suite=$s demo_with=$dw demo_without=$dc"
mkdir -p /tmp/conf/logs; cp "$W/demo.with.log" "/tmp/conf/logs/$P$X.with.log" 2>/dev/null; cp "$W/demo.without.log" "/tmp/conf/logs/$P$X.without.log" 2>/dev/null
rm -rf "$W"
