#!/usr/bin/env python3
"""Renders the DESIGN.md tables of the later mutation rounds from seeded/<id>/meta.json (detection, written by
lib/seed_matrix.py) and seeded/DESCRIPTIONS.json:   python3 lib/seed_table.py EF | GH | IJ"""
import json, os, sys
V = os.path.dirname(os.path.dirname(os.path.abspath(__file__)))
desc = json.load(open(os.path.join(V, "seeded", "DESCRIPTIONS.json")))
letters = sys.argv[1] if len(sys.argv) > 1 else "GH"
print("| id | the change (site) — what it needs | caught by |")
print("|----|-----------------------------------|-----------|")
for p in range(1, 21):
    for x in letters:
        sid = f"C{p:02d}{x}"
        mp = os.path.join(V, "seeded", sid, "meta.json")
        if not os.path.exists(mp):
            continue
        det = json.load(open(mp)).get("detection", {})
        parts = []
        for c, r in det.items():
            v = r["verdict"]
            if "concrete" in v:
                parts.append(f"{c} INPUT")
            elif v.startswith("caught"):
                parts.append(f"{c} break only")
            elif v.startswith("neutralised"):
                parts.append(f"{c}: {v}")
            elif v == "missed":
                parts.append(f"**{c} misses it**")
        print(f"| {sid} | {desc.get(sid, '')} | {', '.join(parts)} |")
