#!/bin/sh
# lib/import_seed.sh <Cxx> <C|D|E|F>  — after lib/confirm_seed.sh succeeded: copy a round-2/3 seed into /verif/seeded/<id>/
P=$1; X=$2; case "$X" in E|F) SRC=/tmp/seed/${P}_out3/$X;; G|H) SRC=/tmp/seed/${P}_out4/$X;; I|J) SRC=/tmp/seed/${P}_out5/$X;; K|L) SRC=/tmp/seed/${P}_out6/$X;; M|N) SRC=/tmp/seed/${P}_out7/$X;; O|P) SRC=/tmp/seed/${P}_out8/$X;; Q|R) SRC=/tmp/seed/${P}_out9/$X;; S|T) SRC=/tmp/seed/${P}_out10/$X;; *) SRC=/tmp/seed/${P}_out2/$X;; esac; DST=/verif/seeded/$P$X
rm -rf "$DST"; mkdir -p "$DST/demo"
cp "$SRC/patch.diff" "$DST/patch.diff"; cp "$SRC/notes.md" "$DST/notes.md" 2>/dev/null
D=$SRC/demo; [ -d "$D" ] || D=$SRC
( cd "$D" && find . -type f \( -name '*.go' -o -name go.mod \) | while read f; do mkdir -p "$DST/demo/$(dirname "$f")"; cp -L "$f" "$DST/demo/$f"; done )
echo "imported $P$X"
