"""Orchestration shared by every check: build, regenerate facts, lake build, axiom audit,
correspondence (real code vs Lean model), direct oracles, known-finding filter, evidence.

The deciding method of every check is a set of Lean 4 theorems about the model in
lean/Ioc; this file only ties the model to /repo's current working tree and reports."""
import json, os, re, subprocess, sys, time, hashlib, shutil, collections

VERIF = os.path.dirname(os.path.dirname(os.path.abspath(__file__)))
REPO = os.environ.get("VERIF_REPO", "/repo")
BUILD = os.path.join(VERIF, ".build")
LEAN = os.path.join(VERIF, "lean")
GOENV = dict(os.environ, GOFLAGS="-mod=mod", GOPROXY="off", GOSUMDB="off", GOTOOLCHAIN="local",
             CGO_ENABLED=os.environ.get("CGO_ENABLED", "1"))
ALLOWED_AXIOMS = {"propext", "Classical.choice", "Quot.sound"}
FORBIDDEN = re.compile(r"\b(sorry|admit|native_decide|bv_decide|implemented_by|unsafe)\b|^\s*axiom\s|maxHeartbeats\s+0")


class Broken(Exception):
    """infrastructure failure (not a verdict about the property)"""


def sh(cmd, cwd=None, env=None, timeout=None, inp=None):
    p = subprocess.run(cmd, cwd=cwd, env=env, stdout=subprocess.PIPE, stderr=subprocess.STDOUT,
                       timeout=timeout, input=inp, text=True if inp is None or isinstance(inp, str) else False)
    return p.returncode, p.stdout


def log(*a):
    print("[check]", *a, flush=True)


# ---------------------------------------------------------------- build steps

def build_harness(race=False):
    """go build the harness against /repo's working tree with the verif hooks on."""
    os.makedirs(BUILD, exist_ok=True)
    hdir = os.path.join(VERIF, "harness")
    shutil.copyfile(os.path.join(REPO, "go.sum"), os.path.join(hdir, "go.sum"))
    if REPO != "/repo":
        # mutation rehearsal on a scratch copy of the repository (VERIF_REPO): point the harness module at it
        sh(["go", "mod", "edit", "-replace", "github.com/go-kid/ioc=" + REPO], cwd=hdir, env=GOENV)
    out = os.path.join(BUILD, "harness-race" if race else "harness")
    cmd = ["go", "build", "-tags", "verif"] + (["-race"] if race else []) + ["-o", out, "./cmd/harness"]
    rc, o = sh(cmd, cwd=hdir, env=GOENV, timeout=1200)
    if rc != 0:
        raise Broken("harness does not build against /repo:\n" + o[-4000:])
    return out


def build_facts():
    """run the go/ast translator on /repo and (re)write lean/Ioc/Generated/Facts.lean."""
    hdir = os.path.join(VERIF, "harness")
    out = os.path.join(BUILD, "facts")
    rc, o = sh(["go", "build", "-o", out, "./cmd/facts"], cwd=hdir, env=GOENV, timeout=600)
    if rc != 0:
        raise Broken("facts translator does not build:\n" + o[-4000:])
    rc, text = sh([out, REPO], timeout=120)
    if rc != 0:
        raise Broken("facts translator failed:\n" + text[-4000:])
    path = os.path.join(LEAN, "Ioc", "Generated", "Facts.lean")
    old = open(path).read() if os.path.exists(path) else None
    if old != text:
        with open(path, "w") as f:
            f.write(text)
    # the regenerated MiniGo programs (syntax trees of selected functions, see lean/Ioc/GoSem.lean)
    rc, ptext = sh([out, "-progs", REPO], timeout=120)
    if rc != 0:
        raise Broken("program translator failed:\n" + ptext[-4000:])
    ppath = os.path.join(LEAN, "Ioc", "Generated", "Progs.lean")
    pold = open(ppath).read() if os.path.exists(ppath) else None
    if pold != ptext:
        with open(ppath, "w") as f:
            f.write(ptext)
    return path, hashlib.sha256((text + ptext).encode()).hexdigest()[:16]


def lake_build(targets):
    rc, o = sh(["lake", "build"] + targets, cwd=LEAN, timeout=3600)
    return rc == 0, o


def broken_decls(lake_out):
    """names/locations of what failed in a lake build log"""
    out = []
    for m in re.finditer(r"error: ([^\n]*?\.lean):(\d+):(\d+): ([^\n]*)", lake_out):
        out.append(f"{m.group(1)}:{m.group(2)}: {m.group(4)[:160]}")
    return out[:20]


def theorem_names(module):
    """property theorems and examples of a statement file IocProofs/<X>.lean"""
    path = os.path.join(LEAN, *module.split(".")) + ".lean"
    src = open(path).read()
    ns = []
    names = []
    nex = 0
    for line in strip_comments(src).splitlines():
        m = re.match(r"\s*namespace\s+(\S+)", line)
        if m:
            ns.append(m.group(1))
        m = re.match(r"\s*end\s+(\S+)", line)
        if m and ns and ns[-1] == m.group(1):
            ns.pop()
        m = re.match(r"\s*(?:private\s+|protected\s+)?theorem\s+(\S+)", line)
        if m:
            names.append(".".join(ns + [m.group(1)]))
        if re.match(r"\s*example\b", line):
            nex += 1
    return names, nex, src


def strip_comments(src):
    src = re.sub(r"/-.*?-/", "", src, flags=re.S)
    src = re.sub(r"--[^\n]*", "", src)
    return src


def forbidden_tokens(paths):
    bad = []
    for p in paths:
        src = strip_comments(open(p).read())
        for i, line in enumerate(src.splitlines()):
            if FORBIDDEN.search(line):
                bad.append(f"{p}:{i+1}: {line.strip()[:120]}")
    return bad


def lean_sources():
    res = []
    for root, _, files in os.walk(LEAN):
        if ".lake" in root:
            continue
        for f in files:
            if f.endswith(".lean"):
                res.append(os.path.join(root, f))
    return res


def audit_axioms(module, names):
    """#print axioms for every property theorem; returns {name: [axioms]} and problems"""
    os.makedirs(BUILD, exist_ok=True)
    tmp = os.path.join(BUILD, f"Audit_{module.replace('.', '_')}.lean")
    with open(tmp, "w") as f:
        f.write(f"import {module}\n")
        for n in names:
            f.write(f"#print axioms {n}\n")
    rc, o = sh(["lake", "env", "lean", tmp], cwd=LEAN, timeout=1800)
    axioms = {}
    flat = o.replace("\n  ", " ").replace("\n ", " ")
    for m in re.finditer(r"'([^']+)' depends on axioms: \[([^\]]*)\]", flat):
        axioms[m.group(1)] = [a.strip() for a in m.group(2).split(",") if a.strip()]
    for m in re.finditer(r"'([^']+)' does not depend on any axioms", flat):
        axioms[m.group(1)] = []
    problems = []
    if rc != 0:
        problems.append("audit file does not compile: " + o[-1500:])
    for n in names:
        if n not in axioms:
            problems.append(f"no axiom report for {n}")
        else:
            extra = [a for a in axioms[n] if a not in ALLOWED_AXIOMS]
            if extra:
                problems.append(f"{n} depends on non-standard axioms {extra}")
    return axioms, problems


def leanchecker(module):
    rc, o = sh(["lake", "env", "leanchecker", module], cwd=LEAN, timeout=3600)
    return rc == 0, o[-2000:]


# ---------------------------------------------------------------- correspondence

def run_harness(binary, sub, seed, n, tier, outpath, replay=None, timeout=3600, extra=None):
    cmd = [binary, sub, "-seed", str(seed), "-n", str(n), "-tier", tier, "-out", outpath]
    if replay:
        cmd += ["-replay", replay]
    if extra:
        cmd += extra
    rc, o = sh(cmd, env=GOENV, timeout=timeout, cwd=BUILD)
    if rc != 0 and not replay:
        # the real code killed the harness process (e.g. unbounded recursion -> fatal stack overflow): isolate the case
        log(f"harness {sub} died with exit code {rc}; isolating the crashing case")
        return isolate_crash(cmd, sub, seed, n, outpath, o)
    if rc != 0:
        with open(outpath, "w") as f:
            f.write(f"#crash replay\tst=crash\tFAIL c02-crash the real code killed the process: {crash_reason(o)}\tcrash\n")
    return o


def crash_reason(out):
    for line in out.splitlines():
        if line.startswith("fatal error") or line.startswith("panic:") or "stack overflow" in line:
            return line.strip()[:200]
    return out.strip().splitlines()[-1][:200] if out.strip() else "no output"


def isolate_crash(cmd, sub, seed, n, outpath, first_out):
    """re-run the generated cases in windows, each in its own process; a window that dies is split until the
    single crashing case is found, which is reported as an oracle failure (signature c02-crash)."""
    lines = []
    found = []          # crashing cases isolated so far; one replay is enough, so stop early
    t_start = time.time()

    def run_window(lo, hi, corpus):
        tmp = outpath + f".{lo}-{hi}"
        c = cmd[:cmd.index("-out") + 1] + [tmp] + ["-lo", str(lo), "-hi", str(hi)] + ([] if corpus else ["-nocorpus"])
        rc, o = sh(c, env=GOENV, timeout=3600, cwd=BUILD)
        got = open(tmp, errors="replace").read().splitlines() if rc == 0 and os.path.exists(tmp) else None
        try:
            os.remove(tmp)
        except OSError:
            pass
        return got, o

    def go(lo, hi, corpus):
        if len(found) >= 2 or time.time() - t_start > 240:
            return
        got, o = run_window(lo, hi, corpus)
        if got is not None:
            lines.extend(got)
            return
        if corpus:
            lines.append(f"#crash {sub} corpus\tst=crash\tFAIL c02-crash the real code killed the process in a corpus case: {crash_reason(o)}\tcrash")
            found.append("corpus")
            return
        if hi - lo <= 1:
            lines.append(f"#crash {sub} seed={seed} n={n} case={lo}\tst=crash\tFAIL c02-crash the real code killed the process "
                         f"(harness {sub} -seed {seed} -n {n} -lo {lo} -hi {hi}): {crash_reason(o)}\tcrash")
            found.append(lo)
            return
        mid = (lo + hi) // 2
        go(lo, mid, False)
        go(mid, hi, False)

    # generated case indices can exceed n for grouped generators; cover a generous range in windows
    step = max(16, n // 16)
    go(0, 0, True)          # corpus only
    lo = 0
    while lo < n + step:
        go(lo, lo + step, False)
        lo += step
    with open(outpath, "w") as f:
        f.write("\n".join(lines) + "\n")
    return first_out


def read_cases(path):
    cases = []
    with open(path, errors="replace") as f:
        for line in f:
            parts = line.rstrip("\n").split("\t")
            if len(parts) < 4:
                parts += [""] * (4 - len(parts))
            cases.append(parts[:4])
    return cases


def run_driver(sub, scenarios):
    exe = os.path.join(LEAN, ".lake", "build", "bin", "iocdriver")
    inp = "\n".join(scenarios) + "\n"
    p = subprocess.run([exe, sub], input=inp, stdout=subprocess.PIPE, stderr=subprocess.PIPE, text=True, timeout=3600)
    if p.returncode != 0:
        raise Broken(f"model driver {sub} failed: {p.stderr[-2000:]}")
    out = p.stdout.split("\n")
    if out and out[-1] == "":
        out.pop()
    if len(out) != len(scenarios):
        raise Broken(f"model driver {sub}: {len(out)} lines for {len(scenarios)} scenarios")
    return out


class SubResult:
    def __init__(self):
        self.evaluations = 0
        self.mismatches = []      # (scn, impl, model)
        self.oracle_fails = []    # (scn, impl, signature, detail)
        self.tags = collections.Counter()
        self.distinct_nontrivial = set()
        self.samples = []


def correspond(binary, sub, seed, n, tier, workdir, replay=None, extra=None, driver_sub=None, signatures=None, project=None):
    """signatures: optional list of oracle-signature prefixes that belong to the property being checked;
    failures of other oracles of a shared sub-harness are left to the checks of their own properties."""
    os.makedirs(workdir, exist_ok=True)
    cases_path = os.path.join(workdir, f"{sub}-{seed}.tsv")
    run_harness(binary, sub, seed, n, tier, cases_path, replay=replay, extra=extra)
    cases = read_cases(cases_path)
    res = SubResult()
    res.evaluations = len(cases)
    model_idx = [i for i, c in enumerate(cases) if c[0] and not c[0].startswith("#")]
    model_out = run_driver(driver_sub or sub, [cases[i][0] for i in model_idx]) if model_idx else []
    model = dict(zip(model_idx, model_out))
    for i, (scn, obs, oracle, tags) in enumerate(cases):
        tl = [t for t in tags.split(",") if t]
        for t in tl:
            res.tags[t] += 1
        if "trivial" not in tl:
            res.distinct_nontrivial.add(hashlib.md5(scn.encode()).digest() if not scn.startswith("#") else hashlib.md5((scn + obs).encode()).digest())
        if i in model and model[i] != obs:
            # a shared sub-harness observes more than one property: compare the part this property speaks about
            if project is None or project(model[i]) != project(obs):
                res.mismatches.append((scn, obs, model[i]))
        if oracle != "ok":
            for one in oracle.split(" ;; "):
                parts = one.split(" ", 2)
                if not parts or parts[0] != "FAIL":
                    continue
                sig = parts[1] if len(parts) > 1 else "unknown"
                if signatures is not None and not any(sig.startswith(pref) for pref in signatures):
                    continue
                res.oracle_fails.append((scn, obs, sig, parts[2] if len(parts) > 2 else ""))
        if len(res.samples) < 4 and "trivial" not in tl and i % max(1, len(cases) // 4) == 0:
            res.samples.append({"scenario": scn[:600], "implementation": obs[:600], "model": model.get(i, "(not modelled)")[:600], "oracle": oracle[:200]})
    try:
        os.remove(cases_path)
    except OSError:
        pass
    return res


def shrink_case(binary, sub, scn, sig, workdir):
    """delta-debug a failing scenario (sub-harnesses that implement -shrink; others just replay it)"""
    if sub not in ("graph",):
        return None
    try:
        os.makedirs(workdir, exist_ok=True)
        rp = os.path.join(workdir, "shrink-in.txt")
        out = os.path.join(workdir, "shrink-out.tsv")
        open(rp, "w").write(scn + "\n")
        rc, o = sh([binary, sub, "-replay", rp, "-shrink", sig, "-out", out], env=GOENV, timeout=600, cwd=BUILD)
        if rc != 0:
            return None
        cases = read_cases(out)
        if cases and sig in cases[0][2]:
            return cases[0][0], cases[0][1]
    except Exception:
        return None
    return None


# ---------------------------------------------------------------- known findings

def load_known():
    path = os.path.join(VERIF, "known_findings.json")
    if not os.path.exists(path):
        return []
    return json.load(open(path)).get("findings", [])


# ---------------------------------------------------------------- evidence

def write_evidence(pid, data):
    os.makedirs(os.path.join(VERIF, "evidence"), exist_ok=True)
    path = os.path.join(VERIF, "evidence", f"{pid}.json")
    with open(path, "w") as f:
        json.dump(data, f, indent=1, sort_keys=True)
    return path


def write_replay(pid, seed, body):
    os.makedirs(os.path.join(VERIF, "replays"), exist_ok=True)
    path = os.path.join(VERIF, "replays", f"{pid}-{seed}.txt")
    with open(path, "w") as f:
        f.write(body)
    return path
