from common import COMMON_TB

PROP = dict(
        module="IocProofs.C20",
        race=True,
        level_text="Proved in Lean, for every component count, failing subset and schedule of the fork/join system computed from the "
                   "regenerated skeletons: never two scanners inside the access to the shared error slice, main reads it only after "
                   "every worker finished (C20_scan_drf), Close's goroutines touch no shared variable (C20_close_drf); and for every number "
                   "of threads, call queues and primitive-level schedules: the single-primitive methods of sync2.Map/ConcurrentSets and "
                   "the repaired LoadOrStoreFn are linearizable, with at most one loaded=false winner per key (C20_*_linearizable, "
                   "C20_loadOrStoreFn_one_winner); Range is regular (C20_range_regular) but not atomic (C20_range_not_atomic = KF-C20-1). "
                   "Counterexample theorems show the race without the mutex and the two winners of Load+Store.",
        level_note="Partial by nature: the model is sequentially consistent and assumes sync.Map/Mutex/WaitGroup primitives atomic; the Go "
                   "memory model, sync.Map internals and what scanners/closers touch internally are covered only by the race-detector runs "
                   "(real starts with simultaneously failing scanners, real shutdowns) and by linearizability checks of recorded histories.",
        subs=[dict(sub="conc", n_quick=400, n_thorough=34000)],
        thorough_seeds=3,
        rule="per run of n: 15% of n (quick; 3% thorough) real starts/shutdowns in a race-detector child process - scan: 2-40 components, "
             "k = 0-5 scanners failing at a barrier; every 5th: close with 0-16 closers, random error subset; 4 (thorough 24) FIRST starts `fstart <n> <kinds> <seed>`, "
             "each in its own fresh race-detector child process: one dependency + n (8-48, sometimes 2-7) components carrying wire / "
             "value / prop / logger tags in 1-4 shapes, so that many components share a tag text which the parallel scan meets "
             "for the first time in that process; n/20 (max 40) forced "
             "schedules (LoadOrStoreFn with both callers past the Load; Range with deletes after a visits); n recorded histories: object "
             "sync2.Map (50%), ConcurrentSets, GenericConcurrentSets; 2-4 goroutines x 1-3 calls (max 8) over 2-3 keys, random "
             "Gosched inside calls; histories are compared lin/nonlin between the harness checker and the model's checker; "
             "distinct = distinct scenario lines",
        trusted_base=COMMON_TB + ["the reading of Facts.scanSkel/closeSkel/sync2Methods/concurrentSetMethods into guards and primitive "
                                  "sequences (Ioc.Conc.scanShape, closeShape, factProgs) and the go/ast skeleton extractor",
                                  "the Go race detector (go build -race) as the observer of unsynchronised accesses in the real runs",
                                  "sync.Map, sync.Mutex, sync.WaitGroup primitives assumed atomic and correct"],
        assumptions=["sequentially consistent interleavings; data race = two conflicting accesses in progress at once (the standard "
                     "equivalence with happens-before races is assumed, not proved)",
                     "user scanners and closers are themselves race-free; the property is about the container's own accesses",
                     "Range's callback runs to the end (no early stop) in the model",
                     "KF-C20-1: Range is not atomic (known finding, documented sync.Map behaviour)"],
    )
