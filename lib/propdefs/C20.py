from common import COMMON_TB

PROP = dict(
        module="IocProofs.C20",
        race=True,
        level_text="Proved in Lean, for every component count, failing subset and schedule of the fork/join system computed from the "
                   "regenerated skeletons: never two scanners inside the access to the shared error slice, main reads it only after "
                   "every worker finished (C20_scan_drf), Close's goroutines touch no shared variable (C20_close_drf); and for every number "
                   "of threads, call queues and primitive-level schedules: the single-primitive methods of sync2.Map/ConcurrentSets and "
                   "the repaired LoadOrStoreFn are linearizable, with at most one loaded=false winner per key (C20_*_linearizable, "
                   "C20_loadOrStoreFn_one_winner); Range is regular (C20_range_regular) but not atomic (C20_range_not_atomic = KF-C20-1). "
                   "Counterexample theorems show the race without the mutex and the two winners of Load+Store. Length() of the sets is "
                   "specified as the number of keys present (C20_length_counts_present); Put/Remove calls in which no key is both put and "
                   "removed leave the same set in every order (C20_setlen_final, C20_setlen_order_irrelevant), and a quiescent Length that is "
                   "one too small after two overlapping Removes of one key has no sequential explanation (C20_length_drift_not_linearizable). "
                   "Fifth round: when Close has returned the error report of every failing closer is complete, for every n, subset and schedule "
                   "(C20_close_reports_before_return; with Done not deferred to the end of the goroutine it is not: "
                   "C20_close_report_after_return_counterexample); DefinitionRegistry.GetMetaOrRegister is one LoadOrStoreFn of the registry's map, "
                   "so for every number of callers of one name and every schedule each caller holds the definition the registry keeps "
                   "(C20_getMetaOrRegister_one_definition), whereas lookup-build-Store hands out two (C20_getMetaOrRegister_check_then_act_counterexample). "
                   "Sixth round: Close's goroutines report failing closers through one shared logger object; the built-in logger builds each line in "
                   "locals of the call, so C20_close_drf covers the report step; with ONE location in that logger written by every reporting "
                   "goroutine outside a lock, two closers failing together are inside their accesses at the same time on some schedule, for every "
                   "n >= 2 (C20_close_shared_scratch_race_counterexample). "
                   "Seventh round: syslog.Pref is ONE LoadOrStoreFn of the process-wide prefix cache and writes nothing but its own locals "
                   "(C20_pref_skeleton, on the regenerated skeleton of syslog.Pref), so for every number of callers of one prefix, whatever root "
                   "logger each of them read, and every schedule, all callers are handed the ONE logger the cache keeps (C20_pref_one_logger); a "
                   "logger that is cached is handed to every later caller whatever root has been installed since (C20_pref_cached_logger_kept: "
                   "the cache outlives the App - what the code does, not something C20 demands); refreshing the shared entry in place in two "
                   "unlocked writes hands two callers of one phase two different loggers (C20_pref_refresh_in_place_counterexample). "
                   "C20_range_regular is evaluated on the real map by the oracle range-phantom-pair.",
        level_note="Partial by nature: the model is sequentially consistent and assumes sync.Map/Mutex/WaitGroup primitives atomic; the Go "
                   "memory model, sync.Map internals and what scanners/closers touch internally are covered only by the race-detector runs "
                   "(real starts with simultaneously failing scanners, real shutdowns) and by linearizability checks of recorded histories.",
        subs=[dict(sub="conc", n_quick=400, n_thorough=34000)],
        thorough_seeds=3,
        rule="per run of n: 15% of n (quick; 3% thorough) real starts/shutdowns in a race-detector child process - scan: 2-40 components, "
             "k = 0-5 scanners failing at a barrier; every 5th: close with 0-16 closers, random error subset; 4 (thorough 24) FIRST starts `fstart <n> <kinds> <seed>`, "
             "each in its own fresh race-detector child process: one dependency + n (8-48, sometimes 2-7) components carrying wire / "
             "value / prop / logger tags in 1-4 shapes, so that many components share a tag text which the parallel scan meets "
             "for the first time in that process; n/20 (max 40) forced "
             "schedules (LoadOrStoreFn with both callers past the Load; Range with deletes after a visits); 6 (thorough n/400, max 40) `setlen` cases: up to 600 (1500) fresh "
             "ConcurrentSets / GenericConcurrentSets {1..nk}, 2-12 goroutines released from a spinning barrier that all Remove ONE present key (1/3 "
             "of the cases with further Put / Remove calls on other keys; no key both put and removed), then Length(), len(ToArray()) and "
             "Exists are read at quiescence and must be what a sequential execution leaves (set-length-drift, set-final-state); "
             "n recorded histories: object "
             "sync2.Map (50%), ConcurrentSets, GenericConcurrentSets; 2-4 goroutines x 1-3 calls (max 8) over 2-3 keys, random "
             "Gosched inside calls; set histories use Put / Exists / Remove / Length (N) and end with one quiescent Length; a Length that "
             "overlaps a Put/Remove is a Range underneath and is classified like Range (range-not-atomic), a quiescent one never is; histories are compared lin/nonlin between the harness checker and the model's checker; "
             "distinct = distinct scenario lines; "
             "fifth round (drawn after everything else): 8 (thorough 40) `closel <n> <errmask> <rounds> <seed>` in ONE fresh race-detector child process "
             "whose first action installs a user logger through syslog.SetLogger / app.SetLogger (100 us per record, counts completed error records): 1-16 closers, "
             "all failing (half of the cases), one failing, or a random subset, 3 (6) fresh Apps each; the record count is read immediately after App.Close "
             "returned and, only if it is below the number of failing closers, again for 300 ms (oracle close-report-after-return: no record arrives "
             "after the return); 4 (16) `gmor <g> <trials>`: 2-24 goroutines released from a spinning barrier call GetMetaOrRegister(one name, own "
             "component) on up to 300 (1500) fresh support.DefaultDefinitionRegistry() (oracle getmeta-two-winners: one definition handed out, listed once, "
             "the one GetMetaByName returns); 4 (16) `gscan <n> <starts> <seed>` in a race-detector child process: 3 (8) real starts of 8-48 (sometimes 2-7) "
             "components with a user DefinitionRegistryPostProcessor that load-or-stores ONE shared extra definition for each of them, the calls lined "
             "up at a barrier (oracle scan-two-definitions); "
             "sixth round (drawn after everything else): 4 (thorough 16) `closeb <n> <errmask> <rounds> <seed>` in ONE fresh race-detector child process: "
             "the library's BUILT-IN logger (nothing installed through SetLogger) at the error level, its output redirected to a scratch file (os.Stderr "
             "swapped while syslog.Level(LvError) builds the logger, before the first App of the process logs); 8-24 closers, all of them (2/3 of the cases) "
             "or about three quarters failing, the failing ones waiting for each other inside Close() and returning their errors - each with its own "
             "~200-byte message - at the same moment; first a shutdown with ONE failing closer (reference: how often its message appears), then 4 (12) fresh "
             "Apps; observed: a race report mentioning go-kid/ioc (`race`), the closers' counters, and the captured output - oracle close-log-garbled: "
             "every failing closer's message stands there whole, as often as that of a closer failing alone (when the missing ones arrive within 300 ms "
             "after the return: close-report-after-return); "
             "seventh round (drawn after everything else): 6 (thorough 30) `plog <apps> <n> <nc> <first> <flags> <seed>` in ONE fresh race-detector child "
             "process: a HISTORY of 2-5 (thorough sometimes 6-12) Apps started and closed one after the other, App i with its own recording logger through "
             "app.SetLogger, 8-40 (sometimes 1-7) plain components, 0-12 closers and a user DefinitionRegistryPostProcessor; from App <first> (1 in two "
             "thirds of the cases) on the scanner writes one line per scanned component (flags bit 0) and every closer one line inside Close() (bit 1; "
             "flags 3 / 1 / 2 = 50 / 25 / 25 %) through ONE prefix syslog.Pref(p) that is new to the process, the calls of a phase lined up at a "
             "barrier - so the first use of the prefix after the root logger was replaced comes from all goroutines of the parallel scan (or, "
             "flags 2, of the parallel Close) at once; observed per App and phase: which recording loggers received the lines (compared with the "
             "model: the logger of the App that first used the prefix - the cache outlives the App), the logger objects handed out and the arrival of "
             "every line - oracles pref-two-loggers (all callers of one phase are handed one logger), pref-line-lost (every line arrives exactly "
             "once), race; 3 (thorough 12) `rdel <g> <rounds>`: a real sync2.Map[string,*entry] with two permanent entries, one goroutine storing "
             "and deleting a third key 1500 (20000) times, 2-8 goroutines enumerating with Range all the while - oracles range-phantom-pair (every "
             "pair Range reports was stored under that key: value non-nil and stored there), range-key-twice, range-key-missing (a key present all "
             "the time is reported exactly once); range-phantom-pair is also evaluated on the forced `range` schedules (every value stored is 1) "
             "and on the Range results of the recorded histories (a value neither initial nor stored by a call of the history), where it takes "
             "precedence over the known finding range-not-atomic",
        trusted_base=COMMON_TB + ["the reading of Facts.scanSkel/closeSkel/sync2Methods/concurrentSetMethods into guards and primitive "
                                  "sequences (Ioc.Conc.scanShape, closeShape, factProgs) and the go/ast skeleton extractor",
                                  "the Go race detector (go build -race) as the observer of unsynchronised accesses in the real runs",
                                  "the go/ast reading of syslog.Pref into Facts.syslogPrefSkel (harness/cmd/facts/conc_facts.go: calls on prefCache, "
                                  "assignments to anything but locals of the function)",
                                  "sync.Map, sync.Mutex, sync.WaitGroup primitives assumed atomic and correct"],
        assumptions=["sequentially consistent interleavings; data race = two conflicting accesses in progress at once (the standard "
                     "equivalence with happens-before races is assumed, not proved)",
                     "user scanners and closers are themselves race-free; the property is about the container's own accesses",
                     "Range's callback runs to the end (no early stop) in the model",
                     "KF-C20-1: Range is not atomic (known finding, documented sync.Map behaviour)",
                     "Length()/ToArray() of the sets are modelled by their sequential specification only (they are one sync.Map.Range "
                     "underneath; no regenerated fact covers them)"],
    )
