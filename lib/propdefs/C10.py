from common import COMMON_TB, GRAPH_TB, g_wiring, g_lifecycle, g_runners

PROP = dict(
    module="IocProofs.C10",
    signatures=['c10-'],
    subs=[dict(sub="gperm", n_quick=250, n_thorough=6000, project=g_wiring, driver="graph"), dict(sub="naming", n_quick=3000, n_thorough=100000)],
    thorough_seeds=2,
    level_text="Order independence of a single point is a theorem about Ioc.Match under every permutation of the population (equal for non-tied points, inside the tied set otherwise); at run level it is a theorem for starts without substitution, and a counterexample theorem pins the known order dependence with initialisation-time substitutes on cycles. Every generated scenario is started under several imposed registration/enumeration orders and with Go's own map order, the runs are compared with the model and with each other.",
    level_note="Modelled, not verified: reflect, sync.Map order (imposed), sort.Slice, third-party callbacks as flags/functions. The graph sub-harness is shared with other properties: only this property's oracles and its projection of the observation are compared here.",
    rule='each base scenario under 4 imposed orders + 2 natural-order starts (thorough: 10 + 4); non-trivial = more than one component; distinct = distinct (scenario, order) lines',
    trusted_base=GRAPH_TB,
    assumptions=['the goroutine schedules of the scanning phase are sampled by the natural-order starts; that scanning is schedule independent is C20_scan_own_data', 'a scenario with a genuinely tied point is only checked for staying inside the tie set'],
)
