from common import COMMON_TB

PROP = dict(
        module="IocProofs.C04",
        level_text="The cache protocol is proved for ALL histories a factory can issue: Lean theorems by mutual structural recursion over "
                   "operation trees (lookups with/without early references, doGetComponent with arbitrary nested bodies, succeeding or failing "
                   "creations and early-reference factories), every name, every nesting depth, about a model of "
                   "singleton_component_registry.go that mirrors each Go method: invariant, one early reference per creation (factory "
                   "produces at most one object), final publication, stability in every later history, clean failure (nothing visible until a "
                   "new creation starts). The model is tied to the code on every run by (a) thousands of random operation trees executed on the "
                   "real registry and compared call by call, (b) registry histories recorded from the real factory (public API, failing Init, "
                   "retries) replayed in the model, (c) the regenerated call skeleton of the registry methods as a proof obligation.",
        level_note="Single-threaded protocol only (races are C20). The early-reference factory and the creation body are inputs (their "
                   "results are supplied per call); what the real factory makes of them is the container model's business (C01-C03, C09).",
        signatures=['early-', 'factory-', 'in-creation-flag', 'published-changed', 'recreated', 'stale-after-failure', 'registry-panic', 'c04-', 'c02-crash', 'c02-hang'],
        subs=[dict(sub="registry", n_quick=4000, n_thorough=300000),
              # the graph harness with its re-entrant callbacks: a second creation of a name must never start inside the first
              # (oracle c04-nested-creation, from the tracer around the real registry); only that oracle is C04's, and the
              # comparison with the machine model is left to C01-C03 (projection to nothing)
              dict(sub="graph", n_quick=1200, n_thorough=20000, project=lambda obs: None)],
        thorough_seeds=1,
        rule="exhaustive small scope first: EVERY forest of <= 3 (quick) / <= 4 (thorough) operations over 2 names (lookup x allowEarly x "
             "early factory fails/succeeds; doGetComponent x early x fails/succeeds x every body), each followed by probes of both names "
             "(11 664 / 380 304 histories); then random operation trees: depth <= 6, 4-40 operations (+ forced lookups/re-attempts after every failing creation, + final probes of all "
             "4 names in half of the cases), 4 names with 40% bias to names currently in creation (circular references), creation bodies fail "
             "with probability 0.2, early-reference factories fail with probability 0.15, lookups allow early references with probability "
             "2/3, returned objects reuse earlier labels with probability 1/4; plus n/20 histories on the real factory (single / chain / "
             "cycle / diamond-with-cycle graphs of lazy components, 1-2 components failing their first 1-2 Init calls, 3-6 "
             "GetComponentByName calls) and as many again in which a creation fails because an Init asked the factory (re-entrant "
             "GetComponentByName) for a name WITHOUT definition - directly, below 1-3 enclosing creations (wire points, cycles, chains of "
             "lookups between otherwise unrelated components), or through a required wire point naming a missing component; the error is "
             "handed on raw / wrapped with %w / re-created without cause chain / swallowed, the cause disappears after 1-2 attempts or "
             "never; afterwards the failed names are retried, the unknown name itself is looked up, and the cache levels are probed at "
             "rest through the tracer (GetSingleton(n,false/true)); a case is non-trivial when at least one creation body ran; distinct = distinct scenario lines",
        trusted_base=COMMON_TB + ["the tracer around the real registry used for the factory histories (harness, sub_registry.go): it "
                                  "records calls and results and forwards them unchanged",
                                  "factory.NewWithRegistries (add-only verif hook in /repo) passes the wrapped registry to the default factory"],
        assumptions=["the registry is driven the way factory.go drives it: GetSingletonOrCreateByFactory only after GetSingleton(n,true) "
                     "returned nil, AddSingletonFactory first thing inside the creation iff the name is in creation, no direct "
                     "AddSingleton/RemoveSingleton calls (the tracer flags any other use by the real factory as a mismatch)",
                     "one goroutine (concurrent use of the registry is the subject of C20)",
                     "'the early-reference factory runs at most once' is claimed for successful runs: a failing run stores nothing and the "
                     "factory may be asked again; after a successful run it is never run again in that creation (proved and checked)"],
    )
