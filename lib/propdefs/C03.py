from common import COMMON_TB, GRAPH_TB, g_wiring, g_lifecycle, g_runners

PROP = dict(
    module="IocProofs.C03",
    signatures=['c03-', 'c01-unknown-object'],
    subs=[dict(sub="graph", n_quick=1500, n_thorough=40000, project=g_wiring)],
    thorough_seeds=2,
    level_text='For arbitrary early-reference and after-initialisation substitutes the machine invariant gives: at every reachable state each stored object is the published or the single early version of its component, and after a successful start it is the published one; a publication that would leave a finished holder with another version fails. Substitution subsets x timings x cycle rotations are generated and compared with the real container using a wrapping SmartInstantiationAware post-processor.',
    level_note="Modelled, not verified: reflect, sync.Map order (imposed), sort.Slice, third-party callbacks as flags/functions. The graph sub-harness is shared with other properties: only this property's oracles and its projection of the observation are compared here.",
    rule="C01's generator; a third of the scenarios substitute 1-2 components (early only / after only / both same / both different / early then raw)",
    trusted_base=GRAPH_TB,
    assumptions=["substitutes are fresh instances of the same Go type made by the harness's post-processor", 'user code fetching early references itself is outside the model'],
)
