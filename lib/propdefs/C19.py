from common import COMMON_TB

PROP = dict(
        module="IocProofs.C19",
        level_text="Totality (no panic, every slice in range) is proved for EVERY byte string and faithfulness for every well-formed "
                   "structured tag, as Lean theorems about a model of strings2.Index/Split, TagArg.Parse/Set/Has and the tag scanner's Required default that mirrors the Go "
                   "loops (a scanner, whatever its Required field, leaves required-ness as the tag text states it: C19_scan_only_explicit_false; the parser never stores an "
                   "empty item list, so the args[0] of Property.Unmarshall is in range for every tag text, and the first item of timeLayout reaches time.Parse as written: "
                   "C19_parsed_items_nonempty, C19_unmarshall_total, C19_layout_as_written, C19_layout_roundtrip); the model is tied to the real NewProperty and the real scanner by a differential run on tens of thousands of generated tags per run.",
        level_note="Modelled, not verified: strings.Index/Count/ToUpper, Go slicing, reflect.StructTag.Lookup; time.Parse for layouts over the chunks 2006 01 02 15 04 05 "
                   "(other layouts: oracle only) and mapstructure's choice of the key by TagName.",
        subs=[dict(sub="tag", n_quick=60000, n_thorough=1500000)],
        thorough_seeds=3,
        rule="tag strings: 36% generated from the grammar (value x 0-5 arguments x bracketed groups), 36% arbitrary bytes "
             "(len 0-64, biased to , = brackets space quotes), 18% through the prop shorthand (each also pushed through the real "
             "value scanner and two user-defined scanners), 9% through a user-defined tag scanner (Required field unset / true / "
             "false x tag lookup / ExtractHandler; half of these tags built around the forms of required-ness: none, bare, =true, "
             "=false, next to other arguments); every tenth case is followed by a HISTORY (scenario H, fifth round): property A is created "
             "from a (salted, so run-unique) tag text, its arguments are edited by 1-3 calls of Args().Set / Args().Add / SetArg / AddArg "
             "(60% on required/Required, else qualifier, an argument of the tag, a random or empty name), then property B is created from the "
             "SAME text (70%), the same arguments behind another value (15%) or another text (15%); 10% arbitrary bytes; through NewProperty (35%), "
             "as two fields of one component scanned once by a user-defined scanner (30%, B read after the edit), through two scans in two "
             "registries (30%), or through two real applications in the process with a user post-processor doing the edits (5%, wire point "
             "nobody can fill: start outcome observed); oracle tag-history: B equals what the same route gave before the edits and what the "
             "harness' own reader (tagReadOwn) reads off the text; tag-history-start: the second application starts iff the text says "
             "required=false; after the main stream (seventh round) n/12 LOOKUPS (scenario F: structured tags, tags whose arguments are written without a value or "
             "with repeated blanks - empty items -, the forms of required-ness, arbitrary bytes; Args().Find / Has for every stored name in both first-letter cases and for "
             "mapper / timeLayout / required / Qualifier; oracle tag-find: Find yields exactly the items the text has, empty ones included) and n/20 BINDINGS (scenario B: "
             "a field tagged prefix:\"<text>\" scanned by the real prefix scanner, then Property.Unmarshall; half around timeLayout on a time.Time field - layouts over the "
             "chunks 2006 01 02 15 04 05 with separators, plain / wrapped in [] () {} with blanks and commas inside / bracket at the head or tail / two groups / nested / an "
             "unbracketed blank (two items) / layouts with names (oracle only); the argument bare, `name=`, absent, written twice; the text formatted with the layout, a sixth "
             "damaged -, half around mapper on a struct whose yaml / json / toml / mapstructure tags give different keys; an eighth end to end through app.Run with a raw YAML "
             "document, prefix and value route; oracles tag-bind-panic (a legal tag never makes a consumer panic), tag-timelayout / tag-mapper (a one-item argument reaches "
             "time.Parse / mapstructure as written: the binding equals what the consumer gives for the item itself)); a case is non-trivial when it "
             "contains an argument, a bracket, or a separator; distinct = distinct scenario lines",
        trusted_base=COMMON_TB + ["strings.Index/Count/ToUpper and Go slice semantics as modelled in Ioc.Tag (validated by the correspondence)",
                                  "reflect.StructTag.Lookup for the prop shorthand path and the scanner paths",
                                  "time.Parse (Go 1.23) restricted to literal bytes and the chunks 2006 01 02 15 04 05, and mapstructure v1.5.0's TagName handling, as modelled in "
                                  "Ioc.Tag (validated by the correspondence); the consumer oracles use time.Parse and mapstructure themselves as the reference"],
        assumptions=["faithfulness (round-trip) is claimed for bracket-balanced, well-formed tags only, as the property's quantifier says; totality for all byte strings",
                     "separators are the single bytes ',', '=', ' ' (constants of arg.go)",
                     "an argument with several items (timeLayout=2006-01-02 15:04: the blank separates two items) is left to the model, which has the library's args[0]; the "
                     "consumer oracles claim one-item arguments only"],
    )
