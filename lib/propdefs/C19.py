from common import COMMON_TB

PROP = dict(
        module="IocProofs.C19",
        level_text="Totality (no panic, every slice in range) is proved for EVERY byte string and faithfulness for every well-formed "
                   "structured tag, as Lean theorems about a model of strings2.Index/Split, TagArg.Parse/Set/Has and the tag scanner's Required default that mirrors the Go "
                   "loops (a scanner, whatever its Required field, leaves required-ness as the tag text states it: C19_scan_only_explicit_false); the model is tied to the real NewProperty and the real scanner by a differential run on tens of thousands of generated tags per run.",
        level_note="Modelled, not verified: strings.Index/Count/ToUpper, Go slicing, reflect.StructTag.Lookup.",
        subs=[dict(sub="tag", n_quick=60000, n_thorough=1500000)],
        thorough_seeds=3,
        rule="tag strings: 36% generated from the grammar (value x 0-5 arguments x bracketed groups), 36% arbitrary bytes "
             "(len 0-64, biased to , = brackets space quotes), 18% through the prop shorthand (each also pushed through the real "
             "value scanner and two user-defined scanners), 9% through a user-defined tag scanner (Required field unset / true / "
             "false x tag lookup / ExtractHandler; half of these tags built around the forms of required-ness: none, bare, =true, "
             "=false, next to other arguments); every tenth case is followed by a HISTORY (scenario H, fifth round): property A is created "
             "from a (salted, so run-unique) tag text, its arguments are edited by 1-3 calls of Args().Set / Args().Add / SetArg / AddArg "
             "(60% on required/Required, else qualifier, an argument of the tag, a random or empty name), then property B is created from the "
             "SAME text (70%), the same arguments behind another value (15%) or another text (15%); 10% arbitrary bytes; through NewProperty (35%), "
             "as two fields of one component scanned once by a user-defined scanner (30%, B read after the edit), through two scans in two "
             "registries (30%), or through two real applications in the process with a user post-processor doing the edits (5%, wire point "
             "nobody can fill: start outcome observed); oracle tag-history: B equals what the same route gave before the edits and what the "
             "harness' own reader (tagReadOwn) reads off the text; tag-history-start: the second application starts iff the text says "
             "required=false; a case is non-trivial when it "
             "contains an argument, a bracket, or a separator; distinct = distinct scenario lines",
        trusted_base=COMMON_TB + ["strings.Index/Count/ToUpper and Go slice semantics as modelled in Ioc.Tag (validated by the correspondence)",
                                  "reflect.StructTag.Lookup for the prop shorthand path and the scanner paths"],
        assumptions=["faithfulness (round-trip) is claimed for bracket-balanced, well-formed tags only, as the property's quantifier says; totality for all byte strings",
                     "separators are the single bytes ',', '=', ' ' (constants of arg.go)"],
    )
