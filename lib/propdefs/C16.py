from common import COMMON_TB

PROP = dict(
        module="IocProofs.C16",
        level_text="Proved in Lean for EVERY tag text and EVERY configuration: the scanner finds the leftmost `${…}` and strings.Replace rewrites that very "
                   "occurrence; the loop of ReplaceAllContent as written, with the bound read from the source (Facts.replaceBound), ends in a value or an error "
                   "after at most bound+1 rounds (and exhausts every fuel on `a: \"${a}\"` when the bound is absent); a value contains no placeholder; with "
                   "brace-free replacements no bound is needed; for every structured tag (literals, placeholders nested in keys and defaults to any depth, "
                   "repetition) with brace-free replacements the result is the inner-first substitution, where present = formatted value and absent (nil, null, "
                   "empty map, empty list) = the default. The model (scanner, viper lookup, presence test, default normalisation, loop) is tied to the real "
                   "configQuoteAwarePostProcessors by a differential run on ~20 000 (quick) generated tag x configuration cases per run, plus independent oracles "
                   "(watchdog, no placeholder left, the harness's own substitution - also through configured values that carry placeholders themselves: repeated "
                   "indirect keys and diamonds must resolve, only a key met again on its own chain is circular -, end to end through Run). "
                   "Configure.Set is modelled as viper's override layer over the merged documents (Ioc.Placeholder.Layers: Set lower-cases the path and the keys of a map "
                   "value and stores it in nested maps; a lookup searches that layer first, maps only, then - unless a set scalar shadows the path - the documents; AllSettings "
                   "key by key): with nothing set it IS the model of the other theorems (C16_no_set); after Set the path that was set, every path below it that the value "
                   "covers and every ancestor answer with what was set, in any letter case and also when the key was absent before (C16_set_get, C16_set_seen_below, "
                   "C16_set_seen_through_ancestor, C16_set_present); a tag resolved AGAIN is resolved under the configuration as it is then (C16_resolve_again_current) - "
                   "tied by histories resolve / Set / resolve on the real binder. The tag TEXT: NewProperty cuts the arguments off at the first top-level comma (Ioc.Tag.parse?), so a value part "
                   "whose commas all lie inside its (nested) blocks reaches the processor whole (C16_arguments_cut_outside, C16_text_total) - tied by tag texts with arguments through the real NewProperty. "
                   "AS WRITTEN: the text a tag resolves to holds no placeholder, so the tag written with that text leaves the placeholder stage with the same TagVal under every configuration, "
                   "also from the tag text with the same arguments behind (C16_as_written, C16_as_written_text); that the LATER stages treat both alike is judged on real Apps: a field tagged T "
                   "and a field tagged with the text T becomes when every placeholder is replaced by hand are started under the same configuration and must end the same way (oracle placeholder-as-written). "
                   "SOURCES MERGED AFTER THE START (ninth round): the library's default configure is a loader list and the viper binder itself (C16_code_configure_Default); SetConfig is viper's mergeMaps "
                   "into what the binder holds, AddLoaders + Initialize loads every loader again (Ioc.Placeholder.Conf / mergeKvs): a second resolution after any sequence of SetConfig / AddLoaders + "
                   "Initialize / Set is a first resolution under the layers those steps leave (C16_sources_resolve_again_current); after a document that says `key: v` is merged, the lookup of the key and "
                   "the placeholder answer v - unless the binder holds a map at that path or a Set stands in front (C16_merged_value_seen, C16_added_source_seen, C16_merged_value_replaces) - tied by "
                   "histories resolve / merge / resolve on configure.Default(), on running Apps and in LazyInit components fetched after the merge.",
        level_note="Modelled, not verified: Go regexp (leftmost-first) for the fixed pattern, strings.Replace/SplitN, viper.Get/AllSettings path lookup, "
                   "strconv2.ParseAny/FormatAny on the default text, json.Marshal and %v of configured values. Defaults that are slice/map literals or numbers "
                   "with more than 15 significant digits are left unmodelled (explicit outcome; such cases are run and judged by the oracles only, and counted).",
        subs=[dict(sub="placeholder", n_quick=6000, n_thorough=250000)],
        thorough_seeds=1,
        rule="(tenth round) W cases whose value part is ONE placeholder `${K}` (K without comma, quote or blank) are also started with the shorthand `prop:\"K<args>\"`: it must end like `value:\"${K}<args>\"` (oracle placeholder-prop-shorthand; corpus keys that begin with a nested placeholder); n tags, each run under 3 configurations (designed for the tag / mutated: keys removed, values turned into empty map, empty list, null / a third one: "
             "values containing placeholders - chains, self and mutual reference, growth - or empty or unrelated). Tags: 75% from the grammar (literals over "
             "letters digits space $ : , ' \" . - _ #, 0-4 placeholders, nesting depth 0-3 in keys and defaults, present / absent / upper-case / list-index / "
             "dotted keys, defaults plain, quoted, bool-like, number-like, bracketed, empty), 25% malformed (unbalanced braces, `${` without `}`). A tenth also "
             "runs end to end through app.Run. After the main stream n/6 groups of INDIRECT placeholders: a configuration designed in levels (leaf scalars, some absent; "
             "middle keys whose value is a text with placeholders for leaf keys; top keys over middle keys; keys at top level or inside a nested map) and a tag that "
             "reaches one placeholder-bearing value at least twice - by repetition, through two different keys (a diamond), inside a default, inside another "
             "placeholder's key, inside one value, one level deeper - with/without defaults and upper-case keys, each under the designed and a mutated "
             "configuration; the substitution oracle follows such values (signature placeholder-indirect; a key met again on its own chain is circular "
             "and left to the watchdog oracle). After these n/12 HISTORIES (scenario `H`): 1-3 tags are resolved by the real processor on fresh properties, "
             "paths of the configuration are changed with Configure.Set (the path a tag looked up, in any letter case; an ancestor replaced by a map that holds the rest of "
             "the path; a path below it; a key that was absent; the path turned into a map / list / empty map; the same path set twice), and the SAME tags are resolved "
             "again on fresh properties by a fresh processor - half of them over the designed level configurations (a leaf changes, the tag reaches it through values that "
             "carry placeholders), half over random trees and grammar tags; a tenth also end to end through two Apps sharing the Configure (app.SetConfigure). The second "
             "resolution must be what the harness's own substitution gives under ITS account of the current configuration (document + the values handed to Set composed "
             "in order; it answers only for a path no Set is near, or one that a Set at or above it gave a value; signatures placeholder-set-stale / placeholder-set-current). "
             "After these (seventh round) n/12 groups of tag TEXTS (scenario `T`): the property is created by the real NewProperty from the whole text of a value tag - value part and "
             "0-2 arguments (required forms, validate=…, qualifier=[a, b], x=(p, q) r, mapper=yaml) - whose placeholders nest so that an inner closer is followed by a comma of the outer "
             "block: a placeholder in the key with a comma in the default (`${motd.${lang}:Welcome, stranger}`, dotted and flat, two levels deep), placeholders and a comma in a default, "
             "placeholders as arguments of an expression (`#{max(${low:1},${quota.${tier}:100})}`, nested calls), a call in the default, two blocks in one tag; each under the designed and a "
             "mutated configuration, a quarter of those with inert arguments also end to end. Oracles: the value part of a bracket-balanced text is the text before its first top-level "
             "comma by the harness's own reader - a processor handed anything else has not replaced the tag's placeholders (placeholder-tagtext) -, then the substitution oracle on that value part. "
             "After these (eighth round) n/12 groups AS WRITTEN (scenario `W <kind> …`): configured values that ARE expressions `#{…}` (arithmetic, string concatenation, comparison / and / or / not / in, "
             "lists and ranges, ternaries, max / min / len / upper / lower / trim; operands literal or placeholders for further keys, with and without defaults) reach a tag only through a replacement "
             "(`${cache.ttl}` with `cache.ttl: \"#{60*60}\"`), through a chain of values, through a key selected by a placeholder (`${cache.${which}}`), between literals, twice in one tag, next to or inside an "
             "expression that IS written in the tag (`#{${a}+${b:2}}`, an operand whose value is an expression again), plain values and defaults for comparison, a wrapper inside another placeholder's default "
             "(arriving or written); the field is string / int / bool / []int / float64 / []string (mostly the kind the expression gives), 0-2 arguments behind (required forms, validate=…); each under the designed and a "
             "mutated configuration. The real processor's result is compared with the model and the substitution as for `T`; then TWO real Apps are started, one whose field is tagged with the text T, one whose field "
             "is tagged with T' = the harness's own substitution of T's value part + the same arguments: same bound value or both a start error (placeholder-as-written; whatever the value path normalises - KF-C17-* - "
             "happens in both runs). The oracle abstains where T' does not exist or is not defined by the library's placeholder grammar: the replacement brings a top-level comma / unbalanced bracket into the value part "
             "(no written tag has that value part), or an expression wrapper lands INSIDE another placeholder's key or default (`${zz:${e}}` with e: \"#{1+2}\": the scanner's placeholders have brace-free contents, the "
             "enclosing text is no placeholder any more and stays - see the assumptions). "
             "After these (ninth round) n/12 histories of SOURCES (scenario `R <route> …`) on the library's DEFAULT configure (configure.Default(), what app.NewApp() holds; base document as "
             "SetLoaders(RawLoader) + Initialize): 1-4 tags are resolved by the real processor on fresh properties, then 1-3 steps through the public API of Configure - SetConfig(document), "
             "AddLoaders(RawLoader(document)) + Initialize() (every loader again), Set(path, value) - then the SAME tags are resolved again. Documents say something at, above, below and beside the keys the tags "
             "look up (another scalar, a value that carries a placeholder, a map / list / null where the scalar was, a scalar where the section was, the same value again, unrelated keys); half over the designed "
             "level configurations (a leaf changes, the tag reaches it through values that carry placeholders), a quarter over random trees and grammar tags, a quarter (route z) over the harness's fixed component "
             "shapes: an App from app.NewApp() starts with an eager and a LazyInit component whose string fields carry the tags (`${region:none}`, `${greeting}` with greeting: \"hello from ${region}\", several "
             "placeholders in one tag, `${svc.${which}}`, …), the steps are applied to the RUNNING App, the lazy component is fetched with GetComponentByName afterwards; a sixth of the others (route a) also on "
             "two Apps: the second shares the first one's Configure (the last AddLoaders step is then an option of the later start). The second resolution - direct, of the later App, of the lazy component - must be "
             "what the harness's own substitution gives under ITS account of the configured values: for a key, the documents that say something at its path in the order they were merged, the last one's value; "
             "it answers only where every such document holds a scalar or list exactly there, the order of first merging and the order of actual merging agree, and no Set is near the path unless no later source "
             "touches it (signatures placeholder-merge-stale - the second result is what the FIRST resolution gave - / placeholder-merge-current). "
             "A case is non-trivial when the tag contains a placeholder; distinct = distinct scenario lines",
        trusted_base=COMMON_TB + ["Go regexp, strings.Replace/SplitN, viper v1.19 Get/AllSettings, strconv2 v0.0.2 ParseAny/FormatAny, encoding/json and fmt %v as modelled in "
                                  "Ioc.Placeholder (validated by the correspondence)",
                                  "the facts translator's reading of maxReplaceRounds (Facts.replaceBound)"],
        assumptions=["configuration keys are lower-case ASCII without dots (nesting is by nested maps), values are strings, ints, short decimals, bools, null, lists, maps",
                     "strings inside JSON-rendered lists/maps are printable ASCII (escaping of \" \\ < > & is modelled, control characters and invalid UTF-8 are not)",
                     "number-like defaults are modelled exactly up to 15 significant digits (every such decimal is the shortest round-trip text of its float64); beyond that, "
                     "and for slice/map-literal defaults, the model abstains and only the oracles judge",
                     "the substitution theorem (C16_structured) is claimed for brace-free literals and replacements, as the property's quantifier says; termination and "
                     "no-placeholder-left for all byte strings and all configurations",
                     "histories: Set is never handed nil (AllSettings - `${}` - rebuilds its answer inside the maps of viper's override layer in Go's map order; with a stored nil the "
                     "answer depends on that order), map values handed to Set have no two keys that differ only in letter case; what a lookup answers BESIDE a path that was set "
                     "(`db.port` through `${db}` after Set(\"db.host\")) follows viper's layering - the model has it, the oracle claims nothing there",
                     "sources merged after the start: documents have lower-case keys; where a document holds a map or null at a path and another one a scalar there (viper keeps a map against a scalar), "
                     "where Initialize brings an older document's value back over a later SetConfig, and where a Set and a later source speak about the same path, the model follows viper and the oracle claims nothing",
                     "as written: replacement texts with braces are followed only as whole expression wrappers `#{…}` (brace-free text and placeholders inside) standing OUTSIDE every other placeholder's key and default. "
                     "OBSERVED on the unchanged library and NOT judged: a wrapper inside another placeholder's default or key - `value:\"${zz:${e}}\"` with e: \"#{1+2}\", or written `value:\"${zz:#{1+2}}\"` - hides the enclosing "
                     "placeholder from the scanner `${[^{}]*}`; it is never replaced, the expression inside it is evaluated and a string field receives the text `${zz:3}` (an int field fails), while `value:\"#{1+2}\"` gives 3; "
                     "`value:\"${k:#{4}}\"` with k CONFIGURED gives `${k:4}`, not k's value",
                     "known findings KF-C16-1 (default = lone quote character) and KF-C16-2 (negative list index in a key) are Go panics of dependencies; the model pins "
                     "them as `panic` outcomes (C16_*_counterexample)"],
    )
